(* C20 — property theorems.  ONLY statements, each closed by `exact <lemma>` and followed by Print Assumptions.
   Model: C20_Model.v (the glue of dune/python/common/{fvector,densevector,vector}.hh and
   python/dune/common/__init__.py over a heap of cells), Spec: C20_Spec.v.
   Quantification: EVERY vector size n, EVERY source (any length), EVERY integer index, EVERY slice, EVERY
   state reachable or not that is well formed (c20_wf: objects address distinct cells inside the heap), EVERY
   op script, EVERY sequence of writes.  c20_cfg_fixed is the code with fixes/C20-1 and C20-2 applied,
   c20_cfg_current the code as it stands; theorems quantified over cfg hold for both. *)
From Coq Require Import List ZArith QArith Bool.
From DuneV Require Import Params_gen C20_Model C20_Spec C20_Proofs C20_Proofs_Export.
Import ListNotations.

(* ---- construction: "holds exactly the given numbers (the first n of them, zero-filled when fewer are given)" *)
Theorem C20_construct : forall n x, c20_construct n x = c20_spec_construct n x.
Proof. exact P_construct. Qed.
Print Assumptions C20_construct.

Theorem C20_construct_entries : forall n x,
  length (c20_construct n x) = n /\
  forall i, (i < n)%nat -> nth i (c20_construct n x) 0%Q = if (i <? length x)%nat then nth i x 0%Q else 0%Q.
Proof. exact P_construct_entries. Qed.
Print Assumptions C20_construct_entries.

Example C20_construct_nonvacuous :
  c20_construct 3 [1#1; 2#1]%Q = [1#1; 2#1; 0]%Q /\ c20_construct 2 [1#1; 2#1; 3#1]%Q = [1#1; 2#1]%Q.
Proof. vm_compute; split; reflexivity. Qed.

(* ---- indices: __getitem__ on vectors and views, and the repaired __setitem__, denote position i (0 <= i < n) or
        n+i (-n <= i < 0) and raise IndexError for every other integer *)
Theorem C20_index : forall k n i,
  c20_getitem_index k n i = c20_index_res n i /\
  c20_setitem_index c20_cfg_fixed k n i = c20_index_res n i /\
  c20_setitem_index c20_cfg_current C20_Arr n i = c20_index_res n i /\
  (0 <= i -> c20_setitem_index c20_cfg_current C20_Vec n i = c20_index_res n i)%Z.
Proof. exact P_index. Qed.
Print Assumptions C20_index.

Theorem C20_index_defined : forall n i,
  (c20_spec_index n i <> None <-> - Z.of_nat n <= i < Z.of_nat n)%Z /\
  (0 <= i < Z.of_nat n -> c20_spec_index n i = Some (Z.to_nat i))%Z /\
  (- Z.of_nat n <= i < 0 -> c20_spec_index n i = Some (Z.to_nat (Z.of_nat n + i)))%Z.
Proof. exact P_spec_index_defined. Qed.
Print Assumptions C20_index_defined.

Theorem C20_index_in_range : forall n i j, c20_spec_index n i = Some j -> (j < n)%nat.
Proof. exact P_spec_index_range. Qed.
Print Assumptions C20_index_in_range.

(* the full statement for __setitem__ is FALSE of the code as it stands (finding F-C20-1):
   every negative index is a TypeError, e.g. n = 3, i = -1 *)
Theorem C20_setitem_negative_refuted : exists n i j,
  c20_spec_index n i = Some j /\ c20_setitem_index c20_cfg_current C20_Vec n i <> c20_index_res n i.
Proof. exact P_setitem_refuted. Qed.
Print Assumptions C20_setitem_negative_refuted.

Theorem C20_setitem_negative_current : forall n i, (i < 0)%Z ->
  c20_setitem_index c20_cfg_current C20_Vec n i = C20_Exc C20_TypeError.
Proof. exact P_setitem_negative_current. Qed.
Print Assumptions C20_setitem_negative_current.

(* one __getitem__ / __setitem__ call on any well-formed state *)
Theorem C20_getitem : forall cfg st r o i, nth_error (c20_regs st) r = Some o ->
  c20_step cfg st (C20_Get r i) =
    (st, match c20_spec_index (c20_size o) i with
         | Some j => C20_ObsScalar (nth j (c20_vals st o) 0%Q)
         | None => C20_ObsExc C20_IndexError
         end).
Proof. exact P_get_step. Qed.
Print Assumptions C20_getitem.

Theorem C20_setitem : forall st r o i x, c20_wf st -> nth_error (c20_regs st) r = Some o ->
  match c20_spec_index (c20_size o) i with
  | Some j =>
      snd (c20_step c20_cfg_fixed st (C20_Set r i x)) = C20_ObsNone /\
      c20_regs (fst (c20_step c20_cfg_fixed st (C20_Set r i x))) = c20_regs st /\
      length (c20_H (fst (c20_step c20_cfg_fixed st (C20_Set r i x)))) = length (c20_H st) /\
      forall a, c20_read (c20_H (fst (c20_step c20_cfg_fixed st (C20_Set r i x)))) a =
                if Nat.eqb a (nth j (c20_cells o) 0%nat) then x else c20_read (c20_H st) a
  | None => c20_step c20_cfg_fixed st (C20_Set r i x) = (st, C20_ObsExc C20_IndexError)
  end.
Proof. exact P_set_step. Qed.
Print Assumptions C20_setitem.

Example C20_index_nonvacuous :
  c20_spec_index 3 (-1) = Some 2%nat /\ c20_spec_index 3 (-3) = Some 0%nat /\ c20_spec_index 3 (-4) = None /\
  c20_spec_index 3 3 = None /\ c20_spec_index 3 2 = Some 2%nat.
Proof. vm_compute; repeat split; reflexivity. Qed.

(* ---- slices through the buffer view: every slice addresses distinct positions inside the object *)
Theorem C20_slice_in_range : forall n a b c idx,
  c20_slice_indices n a b c = C20_Ok idx -> NoDup idx /\ Forall (fun j => (j < n)%nat) idx.
Proof. exact P_slice_range. Qed.
Print Assumptions C20_slice_in_range.

Theorem C20_slice_simple : forall n a b, (a <= b <= n)%nat ->
  c20_slice_indices n (Some (Z.of_nat a)) (Some (Z.of_nat b)) None = C20_Ok (seq a (b - a)).
Proof. exact P_slice_simple. Qed.
Print Assumptions C20_slice_simple.

Example C20_slice_nonvacuous :
  c20_slice_indices 5 None None (Some (-1)%Z) = C20_Ok [4;3;2;1;0]%nat /\
  c20_slice_indices 5 (Some (-4)%Z) (Some 10%Z) (Some 2%Z) = C20_Ok [1;3]%nat /\
  c20_slice_indices 5 (Some 1%Z) (Some 4%Z) None = C20_Ok [1;2;3]%nat /\
  c20_slice_indices 5 None None (Some 0%Z) = C20_Exc C20_ValueError.
Proof. vm_compute; repeat split; reflexivity. Qed.

(* ---- memory: for EVERY op script, at every point, every object addresses distinct cells inside the heap *)
Theorem C20_memory_safe : forall cfg ops, c20_wf (fst (c20_run cfg c20_init ops)).
Proof. intros cfg ops. exact (P_run_wf cfg ops c20_init P_init_wf). Qed.
Print Assumptions C20_memory_safe.

Theorem C20_step_wf : forall cfg st op, c20_wf st -> c20_wf (fst (c20_step_reg cfg st op)).
Proof. exact P_step_reg_wf. Qed.
Print Assumptions C20_step_wf.

(* ---- aliasing: a write through one object, seen through any other object, cell by cell *)
Theorem C20_alias_write_seen : forall H o p j k x, c20_obj_ok H o -> (j < c20_size o)%nat -> (k < c20_size p)%nat ->
  nth k (c20_read_all (c20_write H (nth j (c20_cells o) 0%nat) x) (c20_cells p)) 0%Q =
  if Nat.eqb (nth k (c20_cells p) 0%nat) (nth j (c20_cells o) 0%nat) then x else nth k (c20_read_all H (c20_cells p)) 0%Q.
Proof. exact P_write_seen. Qed.
Print Assumptions C20_alias_write_seen.

(* np.array(v, copy=False) and v show the same entries after EVERY sequence of writes through any objects *)
Theorem C20_alias_view : forall cfg st r o ws, nth_error (c20_regs st) r = Some o -> c20_k o = C20_Vec ->
  let st1 := fst (c20_step_reg cfg st (C20_View r)) in
  let st2 := c20_writes cfg st1 ws in
  exists v, nth_error (c20_regs st2) (length (c20_regs st)) = Some v /\ nth_error (c20_regs st2) r = Some o /\
            c20_k v = C20_Arr /\ c20_cells v = c20_cells o /\ c20_vals st2 v = c20_vals st2 o.
Proof. exact P_view_shares. Qed.
Print Assumptions C20_alias_view.

(* copies are independent, for EVERY sequence of writes on either side *)
Theorem C20_alias_copy : forall cfg st r o, c20_wf st -> nth_error (c20_regs st) r = Some o ->
  let st1 := fst (c20_step_reg cfg st (C20_CopyCtor r)) in
  let c := length (c20_regs st) in
  exists oc, nth_error (c20_regs st1) c = Some oc /\ c20_k oc = c20_k o /\ c20_vals st1 oc = c20_vals st o /\
    (forall ws, (forall w, In w ws -> (fst (fst w) < c)%nat) -> c20_vals (c20_writes cfg st1 ws) oc = c20_vals st o) /\
    (forall ws p, (forall w, In w ws -> fst (fst w) = c) -> In p (c20_regs st) ->
                  c20_vals (c20_writes cfg st1 ws) p = c20_vals st p).
Proof. exact P_copy_independent. Qed.
Print Assumptions C20_alias_copy.

Theorem C20_alias_frame : forall cfg ws st p,
  (forall w o, In w ws -> nth_error (c20_regs st) (fst (fst w)) = Some o -> c20_disjoint p o) ->
  c20_vals (c20_writes cfg st ws) p = c20_vals st p.
Proof. exact P_writes_frame. Qed.
Print Assumptions C20_alias_frame.

Example C20_alias_nonvacuous :
  let ops := [C20_New 3 [1#1; 2#1; 3#1]%Q; C20_View 0; C20_CopyCtor 0; C20_Set 1 (-1) (9#1)%Q; C20_Set 2 0 (7#1)%Q] in
  c20_dump (fst (c20_run c20_cfg_fixed c20_init ops)) =
    [(C20_Vec, [1#1; 2#1; 9#1]%Q); (C20_Arr, [1#1; 2#1; 9#1]%Q); (C20_Vec, [7#1; 2#1; 3#1]%Q)].
Proof. vm_compute; reflexivity. Qed.

(* ---- operations: every bound operation is the C++ operation on the entry lists (the operand converted to the
        vector's type = first n entries, zero filled); copy-returning ones allocate, in-place ones overwrite *)
Theorem C20_ops_copying : forall cfg st r s o p,
  nth_error (c20_regs st) r = Some o -> c20_k o = C20_Vec -> nth_error (c20_regs st) s = Some p ->
  c20_step cfg st (C20_Add r s) = c20_push_new st C20_Vec (c20_vadd (c20_vals st o) (c20_spec_construct (c20_size o) (c20_vals st p))) /\
  c20_step cfg st (C20_Sub r s) = c20_push_new st C20_Vec (c20_vsub (c20_vals st o) (c20_spec_construct (c20_size o) (c20_vals st p))) /\
  (forall l, c20_step cfg st (C20_AddL r l) = c20_push_new st C20_Vec (c20_vadd (c20_vals st o) (c20_spec_construct (c20_size o) l))) /\
  (forall l, c20_step cfg st (C20_RAddL r l) = c20_push_new st C20_Vec (c20_vadd (c20_spec_construct (c20_size o) l) (c20_vals st o))) /\
  (forall l, c20_step cfg st (C20_SubL r l) = c20_push_new st C20_Vec (c20_vsub (c20_vals st o) (c20_spec_construct (c20_size o) l))) /\
  (forall l, c20_step cfg st (C20_RSubL r l) = c20_push_new st C20_Vec (c20_vsub (c20_spec_construct (c20_size o) l) (c20_vals st o))) /\
  (forall q, c20_step cfg st (C20_MulS r q) = c20_push_new st C20_Vec (c20_vscale q (c20_vals st o))) /\
  (forall q, c20_step cfg st (C20_RMulS r q) = c20_push_new st C20_Vec (c20_vscale q (c20_vals st o))) /\
  (forall q, c20_qeqb q 0 = false -> c20_step cfg st (C20_DivS r q) = c20_push_new st C20_Vec (c20_vdiv q (c20_vals st o))) /\
  c20_step cfg st (C20_Neg r) = c20_push_new st C20_Vec (c20_vneg (c20_vals st o)) /\
  c20_step cfg st (C20_Pos r) = (st, C20_ObsAlias r).
Proof. exact P_ops_copying. Qed.
Print Assumptions C20_ops_copying.

Theorem C20_ops_inplace : forall cfg st r s o p,
  nth_error (c20_regs st) r = Some o -> c20_k o = C20_Vec -> nth_error (c20_regs st) s = Some p ->
  c20_step cfg st (C20_IAdd r s) = c20_inplace st o (c20_vadd (c20_vals st o) (c20_spec_construct (c20_size o) (c20_vals st p))) /\
  c20_step cfg st (C20_ISub r s) = c20_inplace st o (c20_vsub (c20_vals st o) (c20_spec_construct (c20_size o) (c20_vals st p))) /\
  c20_step cfg st (C20_Assign r s) = c20_inplace st o (c20_spec_construct (c20_size o) (c20_vals st p)) /\
  (forall l, c20_step cfg st (C20_IAddL r l) = c20_inplace st o (c20_vadd (c20_vals st o) (c20_spec_construct (c20_size o) l))) /\
  (forall q, c20_step cfg st (C20_IMulS r q) = c20_inplace st o (c20_vscale q (c20_vals st o))) /\
  (forall q, c20_qeqb q 0 = false -> c20_step cfg st (C20_IDivS r q) = c20_inplace st o (c20_vdiv q (c20_vals st o))) /\
  (forall q, c20_step cfg st (C20_IAddS r q) = c20_inplace st o (c20_vadds q (c20_vals st o))) /\
  (forall q, c20_step cfg st (C20_ISubS r q) = c20_inplace st o (c20_vsubs q (c20_vals st o))).
Proof. exact P_ops_inplace. Qed.
Print Assumptions C20_ops_inplace.

Theorem C20_ops_scalar : forall cfg st r s o p,
  nth_error (c20_regs st) r = Some o -> c20_k o = C20_Vec -> nth_error (c20_regs st) s = Some p ->
  c20_step cfg st (C20_Dot r s) = (st, C20_ObsScalar (c20_dot (c20_vals st o) (c20_spec_construct (c20_size o) (c20_vals st p)))) /\
  c20_step cfg st (C20_Eq r s) = (st, C20_ObsBool (c20_veq (c20_vals st o) (c20_spec_construct (c20_size o) (c20_vals st p)))) /\
  c20_step cfg st (C20_Ne r s) = (st, C20_ObsBool (negb (c20_veq (c20_vals st o) (c20_spec_construct (c20_size o) (c20_vals st p))))) /\
  (forall l, c20_step cfg st (C20_DotL r l) = (st, C20_ObsScalar (c20_dot (c20_vals st o) (c20_spec_construct (c20_size o) l)))) /\
  (forall l, c20_step cfg st (C20_EqL r l) = (st, C20_ObsBool (c20_veq (c20_vals st o) (c20_spec_construct (c20_size o) l)))) /\
  c20_step cfg st (C20_Norm1 r) = (st, C20_ObsScalar (c20_one_norm (c20_vals st o))) /\
  c20_step cfg st (C20_Norm22 r) = (st, C20_ObsScalar (c20_two_norm2 (c20_vals st o))) /\
  c20_step cfg st (C20_NormInf r) = (st, C20_ObsScalar (c20_inf_norm (c20_vals st o))) /\
  c20_step cfg st (C20_Len r) = (st, C20_ObsInt (Z.of_nat (length (c20_vals st o)))) /\
  c20_step cfg st (C20_Iter r) = (st, C20_ObsList (c20_vals st o)) /\
  c20_step cfg st (C20_Str r) = (st, C20_ObsStr (c20_str (c20_vals st o))) /\
  c20_step cfg st (C20_Repr r) = (st, C20_ObsStr (c20_repr (c20_vals st o))).
Proof. exact P_ops_scalar. Qed.
Print Assumptions C20_ops_scalar.

(* a fresh result holds exactly the computed entries, leaves every older object unchanged and shares no cell with it *)
Theorem C20_ops_result_fresh : forall st k vals, c20_wf st ->
  let st' := fst (c20_push_new st k vals) in
  let onew := {| c20_k := k; c20_cells := seq (length (c20_H st)) (length vals) |} in
  c20_regs st' = c20_regs st ++ [onew] /\ c20_vals st' onew = vals /\
  forall p, In p (c20_regs st) -> c20_vals st' p = c20_vals st p /\ c20_disjoint p onew /\ c20_disjoint onew p.
Proof. exact c20_push_new_effect. Qed.
Print Assumptions C20_ops_result_fresh.

(* an in-place result: the target and every object with the same cells show the new entries (also when the operand
   aliased the target: the entries are computed before the write), disjoint objects are unchanged *)
Theorem C20_ops_inplace_effect : forall st o vals, c20_obj_ok (c20_H st) o -> length vals = c20_size o ->
  let st' := fst (c20_inplace st o vals) in
  c20_regs st' = c20_regs st /\ c20_vals st' o = vals /\
  (forall p, c20_cells p = c20_cells o -> c20_vals st' p = vals) /\
  (forall p, c20_disjoint p o -> c20_vals st' p = c20_vals st p).
Proof. exact P_inplace_effect. Qed.
Print Assumptions C20_ops_inplace_effect.

Example C20_ops_nonvacuous :
  let ops := [C20_New 3 [1#1; 2#1; 3#1]%Q; C20_Slice 0 None None (Some (-1)%Z); C20_IAdd 0 1; C20_AddL 0 [1#1]%Q; C20_MulI 0 2] in
  c20_dump (fst (c20_run c20_cfg_fixed c20_init ops)) =
    [(C20_Vec, [4#1; 4#1; 4#1]%Q); (C20_Arr, [4#1; 4#1; 4#1]%Q); (C20_Vec, [5#1; 4#1; 4#1]%Q); (C20_Vec, [8#1; 8#1; 8#1]%Q)].
Proof. vm_compute; reflexivity. Qed.

From Coq Require Import String. Local Open Scope list_scope.
(* ---- str/repr: std::to_string(double) = "%f": the printed six decimals are the entry rounded to nearest, ties to even *)
Theorem C20_str_rounding : forall q,
  let n := (Z.abs (Qnum q) * 1000000)%Z in
  let d := Zpos (Qden q) in
  let r := c20_round6 q in
  (2 * Z.abs (n - r * d) <= d)%Z /\ (0 <= r)%Z /\ ((2 * Z.abs (n - r * d) = d)%Z -> Z.even r = true).
Proof. exact P_round6. Qed.
Print Assumptions C20_str_rounding.

Example C20_str_nonvacuous :
  c20_str [1#2; -3#1; 1#128; 5#128]%Q = "(0.500000, -3.000000, 0.007812, 0.039062)"%string /\
  c20_repr [7#1]%Q = "Dune::FieldVector<1>(7.000000)"%string.
Proof. vm_compute; split; reflexivity. Qed.

(* ---- NumPyVector (numpyvector.hh): a C++ dense vector wrapped around a NumPy array without copying.
   With the stride honoured (c31dbb5; holds for every cfg with cfg_npv_stride = true), for EVERY strided array object
   (any stride, positive or negative) in any heap: entry i of the vector is entry i of the array; reading, writing and
   in-place arithmetic through the C++ object ARE the Python-side read, write and update of the same cells, so writes on
   either side are visible on the other (with C20_alias_write_seen / C20_ops_inplace_effect). *)
Theorem C20_numpy_view : forall cfg st r o, cfg_npv_stride cfg = true ->
  nth_error (c20_regs st) r = Some o -> c20_k o = C20_Arr -> c20_obj_ok (c20_H st) o -> c20_strided (c20_cells o) ->
  c20_step cfg st (C20_NLen r) = c20_step cfg st (C20_Len r) /\
  (forall i, (i < c20_size o)%nat -> c20_step cfg st (C20_NGet r i) = c20_step cfg st (C20_Get r (Z.of_nat i))) /\
  (forall i x, (i < c20_size o)%nat -> c20_step cfg st (C20_NSet r i x) = c20_step cfg st (C20_Set r (Z.of_nat i) x)) /\
  (forall i, (i < c20_size o)%nat -> c20_step cfg st (C20_NGet r i) = (st, C20_ObsScalar (nth i (c20_vals st o) 0%Q))) /\
  (forall q, c20_step cfg st (C20_NIMulS r q) = c20_inplace st o (c20_vscale q (c20_vals st o))) /\
  (forall q, c20_step cfg st (C20_NIAddS r q) = c20_inplace st o (c20_vadds q (c20_vals st o))) /\
  (forall q, c20_step cfg st (C20_NISubS r q) = c20_inplace st o (c20_vsubs q (c20_vals st o))) /\
  (forall q, c20_qeqb q 0 = false -> c20_step cfg st (C20_NIDivS r q) = c20_inplace st o (c20_vdiv q (c20_vals st o))) /\
  c20_step cfg st (C20_NNorm1 r) = (st, C20_ObsScalar (c20_one_norm (c20_vals st o))) /\
  c20_step cfg st (C20_NNorm22 r) = (st, C20_ObsScalar (c20_two_norm2 (c20_vals st o))) /\
  c20_step cfg st (C20_NNormInf r) = (st, C20_ObsScalar (c20_inf_norm (c20_vals st o))).
Proof. exact P_numpy_view. Qed.
Print Assumptions C20_numpy_view.

(* the hypothesis c20_strided is met by every arithmetic progression and by every slice of contiguous storage *)
Theorem C20_numpy_strided_arith : forall (p s : Z) (n : nat), (forall k : nat, (k < n)%nat -> (0 <= p + Z.of_nat k * s)%Z) ->
  c20_strided (map (fun k => Z.to_nat (p + Z.of_nat k * s)) (seq 0 n)).
Proof. exact P_strided_arith. Qed.
Print Assumptions C20_numpy_strided_arith.

Theorem C20_numpy_slice_strided : forall base n a b c idx, c20_slice_indices n a b c = C20_Ok idx ->
  c20_strided (map (fun j => nth j (seq base n) 0%nat) idx).
Proof. exact P_slice_strided. Qed.
Print Assumptions C20_numpy_slice_strided.

(* the code before c31dbb5 ignored the stride: refuted (finding F-C20-3, x = arange(6), x[::2], entry 1) *)
Theorem C20_numpy_view_refuted : exists st r o i,
  nth_error (c20_regs st) r = Some o /\ c20_k o = C20_Arr /\ c20_wf st /\ (i < c20_size o)%nat /\
  c20_step c20_cfg_current st (C20_NGet r i) <> c20_step c20_cfg_current st (C20_Get r (Z.of_nat i)).
Proof. exact P_numpy_view_refuted. Qed.
Print Assumptions C20_numpy_view_refuted.

Example C20_numpy_view_nonvacuous :
  let ops := [C20_NewArr [0; 1#1; 2#1; 3#1; 4#1; 5#1]%Q; C20_Slice 0 None None (Some (-2)%Z); C20_NGet 1 1; C20_NSet 1 2 (9#1)%Q; C20_NIMulS 1 (2#1)%Q] in
  snd (c20_run c20_cfg_fixed c20_init ops) =
    [C20_ObsObj C20_Arr [0; 1#1; 2#1; 3#1; 4#1; 5#1]%Q; C20_ObsObj C20_Arr [5#1; 3#1; 1#1]%Q; C20_ObsScalar (3#1)%Q; C20_ObsNone; C20_ObsNone] /\
  c20_dump (fst (c20_run c20_cfg_fixed c20_init ops)) =
    [(C20_Arr, [0; 18#1; 2#1; 6#1; 4#1; 10#1]%Q); (C20_Arr, [10#1; 6#1; 18#1]%Q)].
Proof. vm_compute; split; reflexivity. Qed.

(* ---- TupleVector: "tuple-vector wrappers preserve the element types and values they were built from" *)
Theorem C20_tuple : forall x : list c20_tval,
  c20_tv_construct x = Some x /\
  (forall i, (0 <= i < Z.of_nat (List.length x))%Z -> c20_tv_getitem x i = C20_Ok (nth (Z.to_nat i) x (C20_TInt 0))) /\
  (forall i, (Z.of_nat (List.length x) <= i)%Z -> c20_tv_getitem x i = C20_Exc C20_IndexError) /\
  (forall i v, (0 <= i < Z.of_nat (List.length x))%Z -> c20_tv_type v = c20_tv_type (nth (Z.to_nat i) x (C20_TInt 0)) ->
     exists x', c20_tv_setitem x i v = C20_Ok x' /\ List.length x' = List.length x /\ map c20_tv_type x' = map c20_tv_type x /\
       (forall k, (k < List.length x)%nat -> nth k x' (C20_TInt 0) = if Nat.eqb k (Z.to_nat i) then v else nth k x (C20_TInt 0)) /\
       c20_tv_copy x = x).
Proof. exact P_tuple. Qed.
Print Assumptions C20_tuple.

Example C20_tuple_nonvacuous :
  let x := [C20_TFloat (17#1); C20_TVec [2#1; 2#1]%Q; C20_TInt 5] in
  c20_tv_construct x = Some x /\ c20_tv_getitem x 1 = C20_Ok (C20_TVec [2#1; 2#1]%Q) /\
  c20_tv_getitem x 3 = C20_Exc C20_IndexError /\ c20_tv_getitem x (-1) = C20_Exc C20_TypeError /\
  c20_tv_setitem x 2 (C20_TFloat (1#2)) = C20_Exc C20_RuntimeError.
Proof. vm_compute; repeat split; reflexivity. Qed.

(* ---- API-coverage round: slice assignment through the buffer view, copy(args), float(), list variants, rejected buffers *)
Theorem C20_setslice : forall cfg st r o a b c idx vals,
  nth_error (c20_regs st) r = Some o -> c20_slice_indices (c20_size o) a b c = C20_Ok idx ->
  let view := {| c20_k := C20_Arr; c20_cells := map (fun j => nth j (c20_cells o) 0%nat) idx |} in
  (List.length vals = List.length idx -> List.length vals <> 1%nat -> c20_step cfg st (C20_SetSlice r a b c vals) = c20_inplace st view vals) /\
  (forall x, c20_step cfg st (C20_SetSlice r a b c [x]) = c20_inplace st view (repeat x (List.length idx))) /\
  (List.length vals <> List.length idx -> List.length vals <> 1%nat -> c20_step cfg st (C20_SetSlice r a b c vals) = (st, C20_ObsExc C20_ValueError)).
Proof. exact P_setslice. Qed.
Print Assumptions C20_setslice.

(* the view written by a slice assignment is a well-formed object, so C20_ops_inplace_effect applies to it:
   its cells show the values, objects disjoint from it are unchanged *)
Theorem C20_setslice_view_ok : forall st o a b c idx, c20_obj_ok (c20_H st) o ->
  c20_slice_indices (c20_size o) a b c = C20_Ok idx ->
  c20_obj_ok (c20_H st) {| c20_k := C20_Arr; c20_cells := map (fun j => nth j (c20_cells o) 0%nat) idx |}.
Proof. exact P_setslice_view_ok. Qed.
Print Assumptions C20_setslice_view_ok.

Theorem C20_api_misc : forall cfg st r o, nth_error (c20_regs st) r = Some o -> c20_k o = C20_Vec ->
  (forall vals, c20_step cfg st (C20_CopyArgs r vals) = c20_push_new st C20_Vec (c20_spec_construct (c20_size o) vals)) /\
  (c20_size o = 1%nat -> c20_step cfg st (C20_Float r) = (st, C20_ObsScalar (nth 0 (c20_vals st o) 0%Q))) /\
  (forall l, c20_step cfg st (C20_NeL r l) = (st, C20_ObsBool (negb (c20_veq (c20_vals st o) (c20_spec_construct (c20_size o) l))))) /\
  (forall l, c20_step cfg st (C20_ISubL r l) = c20_inplace st o (c20_vsub (c20_vals st o) (c20_spec_construct (c20_size o) l))) /\
  (forall l, c20_step cfg st (C20_AssignL r l) = c20_inplace st o (c20_spec_construct (c20_size o) l)) /\
  (forall fok nd, fok = false \/ nd <> 1%nat -> c20_step cfg st (C20_NewBadBuffer fok nd) = (st, C20_ObsExc C20_ValueError)).
Proof. exact P_api_misc. Qed.
Print Assumptions C20_api_misc.

Example C20_setslice_nonvacuous :
  let ops := [C20_New 5 [1#1; 2#1; 3#1; 4#1; 5#1]%Q; C20_View 0; C20_SetSlice 0 None None (Some (-2)%Z) [7#1; 8#1; 9#1]%Q;
              C20_SetSlice 1 (Some 1%Z) (Some 4%Z) (Some 2%Z) [0]%Q; C20_SetSlice 0 None (Some 2%Z) None [1#1; 2#1; 3#1]%Q] in
  c20_dump (fst (c20_run c20_cfg_fixed c20_init ops)) = [(C20_Vec, [9#1; 0; 8#1; 0; 7#1]%Q); (C20_Arr, [9#1; 0; 8#1; 0; 7#1]%Q)] /\
  nth 4 (snd (c20_run c20_cfg_fixed c20_init ops)) C20_ObsNone = C20_ObsExc C20_ValueError.
Proof. vm_compute; split; reflexivity. Qed.

(* ================================================================== proof-deepening round ========================== *)
(* ---- "from a ... buffer or NumPy array": the buffer constructor, modelled with its stride loop (self[i] = ptr[i*stride]).
   For EVERY strided buffer inside the heap, any stride (also negative), any n and length: first n logical entries, zero
   filled; any other element format or dimension is rejected with ValueError. *)
Theorem C20_construct_buffer : forall n H cells, c20_strided cells -> Forall (fun a => (a < List.length H)%nat) cells ->
  c20_construct_buffer n H true 1 (c20_buffer_info cells) = C20_Ok (c20_spec_construct n (c20_read_all H cells)) /\
  (forall nd bi, nd <> 1%nat -> c20_construct_buffer n H true nd bi = C20_Exc C20_ValueError) /\
  (forall nd bi, c20_construct_buffer n H false nd bi = C20_Exc C20_ValueError).
Proof. exact P_construct_buffer. Qed.
Print Assumptions C20_construct_buffer.

(* ---- the hypotheses "inside the heap" and "strided" are invariants of every run: they hold for every object of every state
   any op script can reach (slices of slices, views, copies, results) *)
Theorem C20_reachable_objects : forall cfg ops r o, let st := fst (c20_run cfg c20_init ops) in
  nth_error (c20_regs st) r = Some o -> c20_obj_ok (c20_H st) o /\ c20_strided (c20_cells o).
Proof. exact P_reach_obj. Qed.
Print Assumptions C20_reachable_objects.

Theorem C20_slice_strided : forall cells a b c idx, c20_strided cells ->
  c20_slice_indices (List.length cells) a b c = C20_Ok idx -> c20_strided (map (fun j => nth j cells 0%nat) idx).
Proof. exact P_slice_strided_gen. Qed.
Print Assumptions C20_slice_strided.

(* hence, with no hypothesis on the state: FieldVector_n( R[r] ) for any register of any reachable state *)
Theorem C20_construct_buffer_reachable : forall cfg ops n r o, let st := fst (c20_run cfg c20_init ops) in
  nth_error (c20_regs st) r = Some o ->
  c20_step cfg st (C20_NewFromBuf n r) = c20_push_new st C20_Vec (c20_spec_construct n (c20_vals st o)).
Proof. exact P_construct_buffer_run. Qed.
Print Assumptions C20_construct_buffer_reachable.

(* and C20_numpy_view without its two hypotheses, for every array of every reachable state *)
Theorem C20_numpy_view_reachable : forall cfg ops r o, cfg_npv_stride cfg = true ->
  let st := fst (c20_run cfg c20_init ops) in
  nth_error (c20_regs st) r = Some o -> c20_k o = C20_Arr ->
  (forall i, (i < c20_size o)%nat -> c20_step cfg st (C20_NGet r i) = c20_step cfg st (C20_Get r (Z.of_nat i))) /\
  (forall i x, (i < c20_size o)%nat -> c20_step cfg st (C20_NSet r i x) = c20_step cfg st (C20_Set r (Z.of_nat i) x)) /\
  (forall q, c20_step cfg st (C20_NIMulS r q) = c20_inplace st o (c20_vscale q (c20_vals st o))).
Proof.
  intros cfg ops r o Hc st E Hk. destruct (P_reach_obj cfg ops r o E) as [Hok Hs].
  destruct (P_numpy_view cfg st r o Hc E Hk Hok Hs) as [_ [H1 [H2 [_ [H3 _]]]]]. auto.
Qed.
Print Assumptions C20_numpy_view_reachable.

Example C20_construct_buffer_nonvacuous :
  let ops := [C20_New 5 [1#1; 2#1; 3#1; 4#1; 5#1]%Q; C20_Slice 0 None None (Some (-2)%Z); C20_NewFromBuf 2 1; C20_NewFromBuf 4 1; C20_NewBadBuffer false 1; C20_NewBadBuffer true 2] in
  c20_dump (fst (c20_run c20_cfg_fixed c20_init ops)) =
    [(C20_Vec, [1#1; 2#1; 3#1; 4#1; 5#1]%Q); (C20_Arr, [5#1; 3#1; 1#1]%Q); (C20_Vec, [5#1; 3#1]%Q); (C20_Vec, [5#1; 3#1; 1#1; 0]%Q)] /\
  skipn 4 (snd (c20_run c20_cfg_fixed c20_init ops)) = [C20_ObsExc C20_ValueError; C20_ObsExc C20_ValueError].
Proof. vm_compute; split; reflexivity. Qed.

(* ---- iteration: list(v) uses the sequence protocol (__getitem__(0), (1), ... until IndexError): it stops exactly at n and
   yields the entries in order, for every n, for vectors and views *)
Theorem C20_iteration : forall k H cells, c20_iter_loop (S (List.length cells)) k H cells 0 = Some (c20_read_all H cells).
Proof. exact P_iter. Qed.
Print Assumptions C20_iteration.

(* ---- in-place vs out-of-place: an operation that is not in-place never changes the entries of ANY existing object ... *)
Theorem C20_out_of_place_frame : forall cfg st op p, c20_wf st -> c20_mutating op = false -> In p (c20_regs st) ->
  c20_vals (fst (c20_step_reg cfg st op)) p = c20_vals st p.
Proof. exact P_pure_frame. Qed.
Print Assumptions C20_out_of_place_frame.

(* ... and an in-place operation (indexed / slice assignment, += -= *= /= assign, writes through a NumPyVector) changes
   no register and no cell outside its target object *)
Theorem C20_in_place_frame : forall cfg st op r o, c20_inv st -> cfg_npv_stride cfg = true ->
  c20_target op = Some r -> nth_error (c20_regs st) r = Some o ->
  let st' := fst (c20_step_reg cfg st op) in
  c20_regs st' = c20_regs st /\ List.length (c20_H st') = List.length (c20_H st) /\
  forall a, ~ In a (c20_cells o) -> c20_read (c20_H st') a = c20_read (c20_H st) a.
Proof. exact P_mutating_frame. Qed.
Print Assumptions C20_in_place_frame.

Theorem C20_inv_run : forall cfg ops, c20_inv (fst (c20_run cfg c20_init ops)).
Proof. intros cfg ops. exact (P_run_inv cfg ops c20_init P_init_inv). Qed.
Print Assumptions C20_inv_run.

Example C20_frame_nonvacuous :
  c20_mutating (C20_Add 0 1) = false /\ c20_mutating (C20_IAdd 0 1) = true /\ c20_target (C20_SetSlice 2 None None None []) = Some 2%nat /\
  c20_target (C20_Neg 0) = None.
Proof. vm_compute; repeat split; reflexivity. Qed.

(* ---- "arithmetic with ... scalars": the one-entry and the int/float special cases of the overload sets *)
Theorem C20_ops_scalar_cases : forall cfg st r o, nth_error (c20_regs st) r = Some o -> c20_k o = C20_Vec ->
  (c20_size o = 1%nat -> forall k q,
     c20_step cfg st (C20_AddI r k) = c20_push_new st C20_Vec (c20_vadds (inject_Z k) (c20_vals st o)) /\
     c20_step cfg st (C20_SubI r k) = c20_push_new st C20_Vec (c20_vsubs (inject_Z k) (c20_vals st o)) /\
     c20_step cfg st (C20_RAddI r k) = c20_push_new st C20_Vec (map (fun x => c20_qadd (inject_Z k) x) (c20_vals st o)) /\
     c20_step cfg st (C20_RSubI r k) = c20_push_new st C20_Vec (map (fun x => c20_qsub (inject_Z k) x) (c20_vals st o)) /\
     c20_step cfg st (C20_AddF r q) = c20_push_new st C20_Vec (c20_vadds q (c20_vals st o)) /\
     c20_step cfg st (C20_SubF r q) = c20_push_new st C20_Vec (c20_vsubs q (c20_vals st o)) /\
     c20_step cfg st (C20_RAddF r q) = c20_push_new st C20_Vec (map (fun x => c20_qadd q x) (c20_vals st o)) /\
     c20_step cfg st (C20_RSubF r q) = c20_push_new st C20_Vec (map (fun x => c20_qsub q x) (c20_vals st o)) /\
     c20_step cfg st (C20_MulI r k) = (st, C20_ObsScalar (c20_dot (c20_vals st o) [inject_Z k])) /\
     c20_step cfg st (C20_RMulI r k) = (st, C20_ObsScalar (c20_dot (c20_vals st o) [inject_Z k]))) /\
  (c20_size o <> 1%nat -> forall k q,
     c20_step cfg st (C20_AddI r 0) = (st, C20_ObsAlias r) /\ c20_step cfg st (C20_SubI r 0) = (st, C20_ObsAlias r) /\
     c20_step cfg st (C20_RAddI r 0) = (st, C20_ObsAlias r) /\
     c20_step cfg st (C20_RSubI r 0) = c20_push_new st C20_Vec (c20_vneg (c20_vals st o)) /\
     (k <> 0%Z -> c20_step cfg st (C20_AddI r k) = (st, C20_ObsExc C20_ValueError) /\ c20_step cfg st (C20_SubI r k) = (st, C20_ObsExc C20_ValueError) /\
                  c20_step cfg st (C20_RAddI r k) = (st, C20_ObsExc C20_ValueError) /\ c20_step cfg st (C20_RSubI r k) = (st, C20_ObsExc C20_ValueError)) /\
     c20_step cfg st (C20_AddF r q) = (st, C20_ObsExc C20_TypeError) /\ c20_step cfg st (C20_RSubF r q) = (st, C20_ObsExc C20_TypeError) /\
     c20_step cfg st (C20_MulI r k) = c20_push_new st C20_Vec (c20_vscale (inject_Z k) (c20_vals st o)) /\
     c20_step cfg st (C20_RMulI r k) = c20_push_new st C20_Vec (c20_vscale (inject_Z k) (c20_vals st o))).
Proof. exact P_scalar_cases. Qed.
Print Assumptions C20_ops_scalar_cases.

(* ---- copying: v.copy() is type(v)(v) (fix 5aaab64); refuted for the code before it *)
Theorem C20_copy_method : forall cfg st r, cfg_copy_self cfg = true ->
  c20_step cfg st (C20_CopyMeth r) = c20_step cfg st (C20_CopyCtor r).
Proof. exact P_copy_method. Qed.
Print Assumptions C20_copy_method.

Theorem C20_copy_method_refuted : exists st r,
  c20_wf st /\ c20_step c20_cfg_current st (C20_CopyMeth r) <> c20_step c20_cfg_current st (C20_CopyCtor r).
Proof. exact P_copy_method_refuted. Qed.
Print Assumptions C20_copy_method_refuted.

(* ---- slicing with negative steps: v[::-1] is the reversal for every n; every slice object addresses cells of its parent
   (so writes are visible both ways by C20_alias_write_seen) and shows the parent's entries at the slice positions *)
Theorem C20_slice_reverse : forall n, c20_slice_indices n None None (Some (-1)%Z) = C20_Ok (rev (seq 0 n)).
Proof. exact P_slice_reverse. Qed.
Print Assumptions C20_slice_reverse.

Theorem C20_slice_general_form : forall n a b c idx, c20_slice_indices n a b c = C20_Ok idx ->
  exists (A st : Z) (len : nat), idx = map (fun k : nat => Z.to_nat (A + Z.of_nat k * st)) (seq 0 len) /\
    forall k : nat, (k < len)%nat -> (0 <= A + Z.of_nat k * st < Z.of_nat n)%Z.
Proof. exact c20_slice_form. Qed.
Print Assumptions C20_slice_general_form.

Theorem C20_alias_slice : forall cfg st r o a b c idx, nth_error (c20_regs st) r = Some o ->
  c20_slice_indices (c20_size o) a b c = C20_Ok idx ->
  let v := {| c20_k := C20_Arr; c20_cells := map (fun j => nth j (c20_cells o) 0%nat) idx |} in
  c20_step cfg st (C20_Slice r a b c) =
    ({| c20_H := c20_H st; c20_regs := c20_regs st ++ [v] |}, C20_ObsObj C20_Arr (map (fun j => nth j (c20_vals st o) 0%Q) idx)) /\
  c20_view_of v o.
Proof. exact P_slice_shares. Qed.
Print Assumptions C20_alias_slice.

(* ---- TupleVector: rejections (negative index, index >= n, value of another type) and assignment *)
Theorem C20_tuple_reject : forall (x : list c20_tval),
  (forall i, (i < 0)%Z -> c20_tv_getitem x i = C20_Exc C20_TypeError /\ forall v, c20_tv_setitem x i v = C20_Exc C20_TypeError) /\
  (forall i v, (Z.of_nat (List.length x) <= i)%Z -> c20_tv_setitem x i v = C20_Exc C20_IndexError) /\
  (forall i v, (0 <= i < Z.of_nat (List.length x))%Z -> c20_tv_cast (c20_tv_type (nth (Z.to_nat i) x (C20_TInt 0))) v = None ->
     c20_tv_setitem x i v = C20_Exc C20_RuntimeError) /\
  (forall y, c20_tv_assign x y = y) /\
  (forall i z, c20_tv_cast C20_TyDouble (C20_TInt z) = Some (C20_TFloat (inject_Z z)) /\ c20_tv_cast C20_TyInt (C20_TFloat i) = None).
Proof. exact P_tuple_reject. Qed.
Print Assumptions C20_tuple_reject.

(* ---- the literals the model uses are the ones in the binding sources (coq/Params_gen.v is regenerated from the checked
   tree on every run: an edit of an exception class / the dimension test / the neutral int / the sign factor breaks this) *)
Theorem C20_source_literals : c20_exc_of_code c20_param_getitem_exc = C20_IndexError /\ c20_exc_of_code c20_param_setitem_exc = C20_IndexError /\
  c20_exc_of_code c20_param_buffer_format_exc = C20_ValueError /\ c20_exc_of_code c20_param_buffer_ndim_exc = C20_ValueError /\
  c20_param_buffer_ndim = 1%nat /\ c20_exc_of_code c20_param_scalar_exc = C20_ValueError /\ c20_param_scalar_neutral = 0%Z /\
  c20_param_neg_factor = (-1)%Z.
Proof. exact P_params. Qed.
Print Assumptions C20_source_literals.

(* ---- DynamicVector (no buffer): the index wrapper of python/dune/common/__init__.py (709c18d) + the C++ bounds check denote
   the Python position for every integer and size; without the wrapper (the code before 709c18d) refuted *)
Theorem C20_dynamic_index : forall n i, c20_dyn_index n i = c20_index_res n i.
Proof. exact P_dyn_index. Qed.
Print Assumptions C20_dynamic_index.

Theorem C20_dynamic_index_refuted : exists n i j, c20_spec_index n i = Some j /\ c20_cpp_index n i <> c20_index_res n i.
Proof. exact P_dyn_index_refuted. Qed.
Print Assumptions C20_dynamic_index_refuted.

(* ---- comparison: == decides entry-wise equality of the (converted) operands, != is its negation (C20_ops_scalar) *)
Theorem C20_compare : forall a b, List.length a = List.length b -> (c20_veq a b = true <-> Forall2 Qeq a b).
Proof. exact P_compare. Qed.
Print Assumptions C20_compare.

(* ---- arithmetic: the entry operations are exact rational arithmetic and the vector operators act entry by entry *)
Theorem C20_arith_exact : forall a b : Q, (c20_qadd a b == a + b /\ c20_qsub a b == a - b /\ c20_qmul a b == a * b /\ c20_qdiv a b == a / b /\
  c20_qabs a == Qabs.Qabs a)%Q.
Proof. exact P_arith_exact. Qed.
Print Assumptions C20_arith_exact.

Theorem C20_ops_entrywise : forall a b i, (i < List.length a)%nat -> (i < List.length b)%nat ->
  nth i (c20_vadd a b) 0%Q = c20_qadd (nth i a 0%Q) (nth i b 0%Q) /\
  nth i (c20_vsub a b) 0%Q = c20_qsub (nth i a 0%Q) (nth i b 0%Q) /\
  List.length (c20_vadd a b) = Nat.min (List.length a) (List.length b) /\
  (forall q, nth i (c20_vscale q a) 0%Q = c20_qmul (nth i a 0%Q) q /\ List.length (c20_vscale q a) = List.length a).
Proof. exact P_entrywise. Qed.
Print Assumptions C20_ops_entrywise.

(* ---- norms: two_norm2 is the scalar product with itself; infinity_norm bounds every entry *)
Theorem C20_two_norm2_is_dot : forall a, c20_two_norm2 a = c20_dot a a.
Proof. exact P_two_norm2_dot. Qed.
Print Assumptions C20_two_norm2_is_dot.

Theorem C20_infinity_norm_bound : forall (a : list Q) x, In x a -> (Qabs.Qabs x <= c20_inf_norm a)%Q.
Proof. exact P_inf_norm_bound. Qed.
Print Assumptions C20_infinity_norm_bound.

Example C20_dynamic_nonvacuous :
  c20_dyn_index 3 (-1) = C20_Ok 2%nat /\ c20_dyn_index 3 (-4) = C20_Exc C20_IndexError /\ c20_dyn_index 3 3 = C20_Exc C20_IndexError /\
  c20_veq [1#2; 2#1]%Q [2#4; 2#1]%Q = true /\ c20_inf_norm [3#1; -4#1; 0]%Q = (4#1)%Q.
Proof. vm_compute; repeat split; reflexivity. Qed.

(* ================================================================== cross-cutting coverage audit ========================= *)
(* ---- roles: a NumPy view of a vector as RECEIVER of in-place arithmetic and as left operand; slice assignment whose value is
   another object (possibly overlapping the target); dropping the owner's reference changes nothing *)
Theorem C20_view_as_receiver : forall cfg st r s o p, nth_error (c20_regs st) r = Some o -> c20_k o = C20_Arr -> nth_error (c20_regs st) s = Some p ->
  (forall y, c20_np_operand (c20_size o) (c20_vals st p) = C20_Ok y ->
     c20_step cfg st (C20_ArrIAdd r s) = c20_inplace st o (c20_vadd (c20_vals st o) y) /\
     c20_step cfg st (C20_ArrISub r s) = c20_inplace st o (c20_vsub (c20_vals st o) y) /\
     c20_step cfg st (C20_ArrAdd r s) = c20_push_new st C20_Arr (c20_vadd (c20_vals st o) y)) /\
  (forall e, c20_np_operand (c20_size o) (c20_vals st p) = C20_Exc e ->
     c20_step cfg st (C20_ArrIAdd r s) = (st, C20_ObsExc e) /\
     (c20_size o <> 1%nat -> c20_step cfg st (C20_ArrAdd r s) = (st, C20_ObsExc e)) /\
     (c20_size o = 1%nat -> c20_step cfg st (C20_ArrAdd r s) =
        c20_push_new st C20_Arr (c20_vadd (repeat (nth 0 (c20_vals st o) 0%Q) (c20_size p)) (c20_vals st p)))) /\
  (forall q, c20_step cfg st (C20_ArrIMulS r q) = c20_inplace st o (c20_vscale q (c20_vals st o)) /\
             c20_step cfg st (C20_ArrIAddS r q) = c20_inplace st o (c20_vadds q (c20_vals st o))) /\
  (forall a b c, c20_step cfg st (C20_SetSliceFrom r a b c s) = c20_step cfg st (C20_SetSlice r a b c (c20_vals st p))) /\
  c20_step cfg st (C20_Drop r) = (st, C20_ObsNone).
Proof. exact P_arr_ops. Qed.
Print Assumptions C20_view_as_receiver.

Theorem C20_numpy_broadcast : forall n vals,
  (List.length vals = n -> c20_np_operand n vals = C20_Ok vals) /\
  (List.length vals = 1%nat -> n <> 1%nat -> c20_np_operand n vals = C20_Ok (repeat (nth 0 vals 0%Q) n)) /\
  (List.length vals <> n -> List.length vals <> 1%nat -> c20_np_operand n vals = C20_Exc C20_ValueError) /\
  (forall y, c20_np_operand n vals = C20_Ok y -> List.length y = n).
Proof. exact P_np_operand. Qed.
Print Assumptions C20_numpy_broadcast.

(* ---- aliasing: the operand IS the receiver (entries are read before the result is written) *)
Theorem C20_self_alias : forall cfg st r o, nth_error (c20_regs st) r = Some o -> c20_k o = C20_Vec ->
  c20_step cfg st (C20_IAdd r r) = c20_inplace st o (c20_vadd (c20_vals st o) (c20_vals st o)) /\
  c20_step cfg st (C20_ISub r r) = c20_inplace st o (c20_vsub (c20_vals st o) (c20_vals st o)) /\
  c20_step cfg st (C20_Assign r r) = c20_inplace st o (c20_vals st o) /\
  c20_step cfg st (C20_Dot r r) = (st, C20_ObsScalar (c20_two_norm2 (c20_vals st o))) /\
  c20_step cfg st (C20_Eq r r) = (st, C20_ObsBool (c20_veq (c20_vals st o) (c20_vals st o))).
Proof. exact P_self_alias. Qed.
Print Assumptions C20_self_alias.

Example C20_audit_nonvacuous :
  let ops := [C20_New 4 [1#1; 2#1; 3#1; 4#1]%Q; C20_Slice 0 (Some 1%Z) (Some 4%Z) None; C20_SetSliceFrom 0 None (Some 3%Z) None 1; C20_View 0;
              C20_Slice 0 None None (Some (-1)%Z); C20_ArrIAdd 2 3; C20_IAdd 0 0; C20_Drop 0; C20_ArrAdd 2 1; C20_ArrIMulS 1 (1#2)%Q] in
  c20_dump (fst (c20_run c20_cfg_fixed c20_init ops)) =
    [(C20_Vec, [12#1; 7#1; 7#1; 6#1]%Q); (C20_Arr, [7#1; 7#1; 6#1]%Q); (C20_Arr, [12#1; 7#1; 7#1; 6#1]%Q); (C20_Arr, [6#1; 7#1; 7#1; 12#1]%Q)] /\
  nth 8 (snd (c20_run c20_cfg_fixed c20_init ops)) C20_ObsNone = C20_ObsExc C20_ValueError.
Proof. vm_compute; split; reflexivity. Qed.

(* ==== seeding round 6: kind / flags of the exporting buffer (read-only, dimension, format) for every entry point that takes a
        buffer: NumPyVector( pybind11::buffer ) and the FieldVector constructor / operand conversion from a buffer.
        "Memory is shared exactly where the buffer protocol promises it": a read-only export promises no writable memory. *)

(* the constructor of NumPyVector decides, for EVERY exporter: not one-dimensional -> InvalidStateException (RuntimeError);
   read-only -> the exporter's refusal of the writable request (ValueError from NumPy); otherwise accepted *)
Theorem C20_npv_gate_table : forall ex,
  c20_npv_gate ex =
    if negb (Nat.eqb (c20_ex_ndim ex) 1) then C20_Exc C20_RuntimeError
    else if c20_ex_readonly ex then C20_Exc C20_ValueError else C20_Ok tt.
Proof. exact P_npv_gate. Qed.
Print Assumptions C20_npv_gate_table.

(* EVERY access (read or write, any register, any state, both configurations) through a NumPyVector around a read-only export
   is refused and leaves heap and registers exactly as they were *)
Theorem C20_readonly_export_refused : forall cfg st ex r a, c20_ex_readonly ex = true ->
  fst (c20_xstep cfg st (C20_NOnExport ex r a)) = st /\
  (c20_ex_ndim ex = 1%nat -> c20_xstep cfg st (C20_NOnExport ex r a) = (st, C20_ObsExc C20_ValueError)) /\
  (c20_ex_ndim ex <> 1%nat -> c20_xstep cfg st (C20_NOnExport ex r a) = (st, C20_ObsExc C20_RuntimeError)).
Proof. exact P_readonly_refused. Qed.
Print Assumptions C20_readonly_export_refused.

(* a writable one-dimensional export is accepted: the access is the `npv` op on the register's cells, i.e. (C20_numpy_view) on
   the very cells NumPy indexing addresses: writes are visible on the other side *)
Theorem C20_writable_export_shared : forall cfg st ex r a, c20_ex_readonly ex = false -> c20_ex_ndim ex = 1%nat ->
  c20_xstep cfg st (C20_NOnExport ex r a) = c20_step_reg cfg st (c20_nacc_op r a).
Proof. exact P_writable_shared. Qed.
Print Assumptions C20_writable_export_shared.

Theorem C20_export_not_1d : forall cfg st ex r a, c20_ex_ndim ex <> 1%nat ->
  c20_xstep cfg st (C20_NOnExport ex r a) = (st, C20_ObsExc C20_RuntimeError).
Proof. exact P_export_ndim. Qed.
Print Assumptions C20_export_not_1d.

(* FieldVector_n( exporter ) copies: the read-only flag is irrelevant, a double / one-dimensional exporter gives exactly the
   vector of the ordinary buffer constructor (C20_construct_buffer: first n, zero filled), any other format / dimension is
   refused with ValueError and the state untouched *)
Theorem C20_construct_from_export : forall cfg st ex n r,
  c20_xstep cfg st (C20_NewFromExport ex n r) =
    c20_xstep cfg st (C20_NewFromExport {| c20_ex_readonly := false; c20_ex_format_ok := c20_ex_format_ok ex; c20_ex_ndim := c20_ex_ndim ex |} n r) /\
  (c20_ex_format_ok ex = true -> c20_ex_ndim ex = 1%nat ->
     c20_xstep cfg st (C20_NewFromExport ex n r) = c20_step_reg cfg st (C20_NewFromBuf n r)) /\
  (c20_ex_format_ok ex = false \/ c20_ex_ndim ex <> 1%nat ->
     nth_error (c20_regs st) r <> None -> c20_xstep cfg st (C20_NewFromExport ex n r) = (st, C20_ObsExc C20_ValueError)).
Proof. exact P_new_from_export. Qed.
Print Assumptions C20_construct_from_export.

(* ALL histories: well-formedness is an invariant of every extended script; scripts without exporter ops are the ordinary ones *)
Theorem C20_xrun_wf : forall cfg xs st, c20_wf st -> c20_wf (fst (c20_xrun cfg st xs)).
Proof. exact P_xrun_wf. Qed.
Print Assumptions C20_xrun_wf.

Theorem C20_xrun_plain : forall cfg ops st, c20_xrun cfg st (map C20_X ops) = c20_run cfg st ops.
Proof. exact P_xrun_plain. Qed.
Print Assumptions C20_xrun_plain.

(* ALL histories: erasing every access through a read-only export from ANY script changes nothing in its final state -- no
   entry of any object is ever changed through a read-only export -- and each such access is observed as an exception *)
Theorem C20_readonly_export_frame : forall cfg xs st,
  fst (c20_xrun cfg st xs) = fst (c20_xrun cfg st (filter (fun x => negb (c20_xreadonly x)) xs)).
Proof. exact P_xrun_readonly_erase. Qed.
Print Assumptions C20_readonly_export_frame.

Theorem C20_readonly_export_observed : forall cfg xs st,
  Forall (fun p => c20_xreadonly (fst p) = true -> exists e, snd p = C20_ObsExc e) (combine xs (snd (c20_xrun cfg st xs))).
Proof. exact P_xrun_readonly_obs. Qed.
Print Assumptions C20_readonly_export_observed.

(* non-vacuity: a strided view a[::2] of a six-entry array; the write through a read-only export of it is refused and changes
   nothing, the same write through a writable export lands in a[0]; a FieldVector_2 built from a read-only export of the view
   holds its first two entries; a float32 / two-dimensional exporter is refused *)
Example C20_export_nonvacuous :
  let ro := {| c20_ex_readonly := true; c20_ex_format_ok := true; c20_ex_ndim := 1 |} in
  let rw := {| c20_ex_readonly := false; c20_ex_format_ok := true; c20_ex_ndim := 1 |} in
  let xs := [C20_X (C20_NewArr [1#1; 2#1; 3#1; 4#1; 5#1; 6#1]%Q); C20_X (C20_Slice 0 None None (Some 2%Z));
             C20_NOnExport ro 1 (C20_ASet 0 (50#1)%Q); C20_NOnExport ro 1 (C20_AIMulS (2#1)%Q); C20_NOnExport ro 1 (C20_AGet 1);
             C20_NOnExport rw 1 (C20_ASet 0 (50#1)%Q); C20_NOnExport rw 1 (C20_AGet 1); C20_NewFromExport ro 2 1;
             C20_NewFromExport {| c20_ex_readonly := true; c20_ex_format_ok := false; c20_ex_ndim := 1 |} 2 1;
             C20_NOnExport {| c20_ex_readonly := true; c20_ex_format_ok := true; c20_ex_ndim := 2 |} 1 C20_ALen] in
  snd (c20_xrun c20_cfg_fixed c20_init xs) =
    [C20_ObsObj C20_Arr [1#1; 2#1; 3#1; 4#1; 5#1; 6#1]%Q; C20_ObsObj C20_Arr [1#1; 3#1; 5#1]%Q;
     C20_ObsExc C20_ValueError; C20_ObsExc C20_ValueError; C20_ObsExc C20_ValueError;
     C20_ObsNone; C20_ObsScalar (3#1)%Q; C20_ObsObj C20_Vec [50#1; 3#1]%Q; C20_ObsExc C20_ValueError; C20_ObsExc C20_RuntimeError] /\
  c20_dump (fst (c20_xrun c20_cfg_fixed c20_init xs)) =
    [(C20_Arr, [50#1; 2#1; 3#1; 4#1; 5#1; 6#1]%Q); (C20_Arr, [50#1; 3#1; 5#1]%Q); (C20_Vec, [50#1; 3#1]%Q)].
Proof. vm_compute; split; reflexivity. Qed.
