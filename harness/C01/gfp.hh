// harness/C01/gfp.hh — a prime-field number class GF(P) used to instantiate the Dune dense
// matrix/vector templates over an exact field (C01 correspondence check).  Part of the trusted base.
#ifndef VERIF_C01_GFP_HH
#define VERIF_C01_GFP_HH
#include <iosfwd>
#include <type_traits>
#include <dune/common/typetraits.hh>
#include <dune/common/ftraits.hh>

template<int P>
struct GFp
{
  int v;   // representative in 0..P-1
  static int norm(long long x) { x %= P; if (x < 0) x += P; return int(x); }
  constexpr GFp() : v(0) {}
  GFp(int x) : v(norm(x)) {}
  GFp(long long x) : v(norm(x)) {}
  GFp(double x) : v(norm((long long)x)) {}      // `ret[i] = 0.0` style initialisations
  GFp& operator+=(const GFp& o) { v = norm((long long)v + o.v); return *this; }
  GFp& operator-=(const GFp& o) { v = norm((long long)v - o.v); return *this; }
  GFp& operator*=(const GFp& o) { v = norm((long long)v * o.v); return *this; }
  GFp inverse() const { long long r = 1, b = v; int e = P - 2; while (e) { if (e & 1) r = r * b % P; b = b * b % P; e >>= 1; } return GFp((int)r); }
  GFp& operator/=(const GFp& o) { return (*this) *= o.inverse(); }
  friend GFp operator+(GFp a, const GFp& b) { return a += b; }
  friend GFp operator-(GFp a, const GFp& b) { return a -= b; }
  friend GFp operator*(GFp a, const GFp& b) { return a *= b; }
  friend GFp operator/(GFp a, const GFp& b) { return a /= b; }
  GFp operator-() const { return GFp(-v); }
  friend bool operator==(const GFp& a, const GFp& b) { return a.v == b.v; }
  friend bool operator!=(const GFp& a, const GFp& b) { return a.v != b.v; }
  friend bool operator<(const GFp& a, const GFp& b) { return a.v < b.v; }
  friend GFp abs(const GFp& a) { return a; }
  template<class S> friend S& operator<<(S& s, const GFp& a) { s << a.v; return s; }
};

namespace Dune {
  template<int P> struct IsNumber<GFp<P>> : public std::true_type {};
  template<int P> struct FieldTraits<GFp<P>> { typedef GFp<P> field_type; typedef GFp<P> real_type; };
}
#endif
