// harness/C01/impl.hh — impl driver of the C01 correspondence check.
// Included by a generated translation unit that defines
//   C01_FIELD   0 = int, 1 = double (holding integers), 2 = std::complex<double> (Gaussian integers), p >= 3: GF(p)
//   C01_ROWS    the static row count R handled by this translation unit (1..C01_MAXN)
// Reads the case file argv[1] (lines `F op rep rep2 r c p tok...`, see checks/C01.py) and prints ONE flushed line
// per case:  R=<result> A=<first operand after the call> B=<second operand after the call>
// Only public members of the Dune classes are used; everything is compiled against the current tree.
#include <config.h>
#include <complex>
#include <vector>
#include <string>
#include <sstream>
#include <fstream>
#include <iostream>
#include <cmath>
#include <functional>
#include <type_traits>
#include <stdexcept>
#include <unistd.h>
#include <sys/wait.h>
#include <dune/common/fvector.hh>
#include <dune/common/fmatrix.hh>
#include <dune/common/dynvector.hh>
#include <dune/common/dynmatrix.hh>
#include <dune/common/diagonalmatrix.hh>
#include <dune/common/scalarvectorview.hh>
#include <dune/common/scalarmatrixview.hh>
#include <dune/common/transpose.hh>
#include <dune/common/exceptions.hh>
#include "gfp.hh"

#ifndef C01_MAXN
#define C01_MAXN 4
#endif

#if C01_FIELD == 0
using K = int;
static const char* FNAME = "Z";
#elif C01_FIELD == 1
using K = double;
static const char* FNAME = "D";
#elif C01_FIELD == 2
using K = std::complex<double>;
static const char* FNAME = "C";
#elif C01_FIELD == 3
using K = long;                      // thorough tier: a 64-bit integer field type
static const char* FNAME = "L";
#elif C01_FIELD == 4
using K = float;                     // thorough tier: single precision holding small integers (exact below 2^24)
static const char* FNAME = "S";
#else
using K = GFp<C01_FIELD>;
static const std::string FNAME_S = "F" + std::to_string(C01_FIELD);
static const char* FNAME = FNAME_S.c_str();
#endif
constexpr int R = C01_ROWS;

// ---------------------------------------------------------------- numbers <-> text
static std::string showReal(double v)
{
  if (v == std::floor(v) && std::fabs(v) < 9e15) return std::to_string((long long)v);
  char buf[64]; snprintf(buf, sizeof buf, "NONINT(%a)", v); return buf;
}
static std::string showK(int v) { return std::to_string(v); }
static std::string showK(double v) { return showReal(v); }
static std::string showK(long v) { return std::to_string(v); }
static std::string showK(float v) { return showReal((double)v); }
static std::string showK(const std::complex<double>& v) { return showReal(v.real()) + ":" + showReal(v.imag()); }
template<int P> static std::string showK(const GFp<P>& v) { return std::to_string(v.v); }

static void parseK(const std::string& s, int& k) { k = std::stoi(s); }
static void parseK(const std::string& s, double& k) { k = (double)std::stoll(s); }
static void parseK(const std::string& s, long& k) { k = std::stol(s); }
static void parseK(const std::string& s, float& k) { k = (float)std::stoll(s); }
static void parseK(const std::string& s, std::complex<double>& k)
{
  auto p = s.find(':');
  if (p == std::string::npos) k = std::complex<double>((double)std::stoll(s), 0.0);
  else k = std::complex<double>((double)std::stoll(s.substr(0, p)), (double)std::stoll(s.substr(p + 1)));
}
template<int P> static void parseK(const std::string& s, GFp<P>& k) { k = GFp<P>((long long)std::stoll(s)); }

struct Cur
{
  const std::vector<std::string>& t; std::size_t i;
  K next() { K k; parseK(t.at(i++), k); return k; }
};

template<int N> using Int = std::integral_constant<int, N>;
template<class F> static void withDim(int n, F&& f)
{
  switch (n) {
  case 1: f(Int<1>{}); break;
  case 2: f(Int<2>{}); break;
  case 3: f(Int<3>{}); break;
  case 4: f(Int<4>{}); break;
#if C01_MAXN >= 5
  case 5: f(Int<5>{}); break;
#endif
  default: throw std::runtime_error("static dimension out of range");
  }
}

using namespace Dune;
template<int n> using FV = FieldVector<K, n>;
using DV = DynamicVector<K>;
template<int r, int c> using FM = FieldMatrix<K, r, c>;
using DM = DynamicMatrix<K>;
template<int n> using DG = DiagonalMatrix<K, n>;

// ---------------------------------------------------------------- load / show
template<class V> static void loadV(V& v, int n, Cur& cu) { for (int i = 0; i < n; ++i) v[i] = cu.next(); }
template<class M> static void loadM(M& m, int r, int c, Cur& cu) { for (int i = 0; i < r; ++i) for (int j = 0; j < c; ++j) m[i][j] = cu.next(); }
template<int n> static void loadD(DG<n>& d, Cur& cu) { for (int i = 0; i < n; ++i) d.diagonal(i) = cu.next(); }

static std::string show(const K& k) { return showK(k); }
template<class V> static std::string show(const DenseVector<V>& v)
{
  std::string s; for (std::size_t i = 0; i < v.size(); ++i) { if (i) s += ","; s += showK(v[i]); } return s;
}
template<class M> static std::string show(const DenseMatrix<M>& m)
{
  std::string s;
  for (std::size_t i = 0; i < m.N(); ++i) { if (i) s += ";"; for (std::size_t j = 0; j < m.M(); ++j) { if (j) s += ","; s += showK(m[i][j]); } }
  return s;
}
template<int n> static std::string show(const DiagonalMatrix<K, n>& d)
{
  std::string s; for (int i = 0; i < n; ++i) { if (i) s += ","; s += showK(d.diagonal(i)); } return s;
}
static std::string b01(bool b) { return b ? "1" : "0"; }
static std::string obs(const std::string& r, const std::string& a, const std::string& b) { return "R=" + r + " A=" + a + " B=" + b; }

struct Case { std::string op, rep, rep2; int r, c, p; };

static bool nkind(const std::string& o) { return o == "mv" || o == "umv" || o == "mmv" || o == "usmv"; }

// ---------------------------------------------------------------- matrix-vector kernels
template<class M, class X, class Y> static void callN(const std::string& op, const M& A, const K& alpha, const X& x, Y& y)
{
  if (op == "mv") A.mv(x, y); else if (op == "umv") A.umv(x, y); else if (op == "mmv") A.mmv(x, y);
  else if (op == "usmv") A.usmv(alpha, x, y); else throw std::runtime_error("kernel");
}
template<class M, class X, class Y> static void callT(const std::string& op, const M& A, const K& alpha, const X& x, Y& y)
{
  if (op == "mtv") A.mtv(x, y); else if (op == "umtv") A.umtv(x, y); else if (op == "umhv") A.umhv(x, y);
  else if (op == "mmtv") A.mmtv(x, y); else if (op == "mmhv") A.mmhv(x, y);
  else if (op == "usmtv") A.usmtv(alpha, x, y); else if (op == "usmhv") A.usmhv(alpha, x, y); else throw std::runtime_error("kernel");
}
// A: r x c matrix object of any representation, already loaded; vectors static (FV) or dynamic (DV)
template<int r, int c, class M> static std::string kernelOn(const Case& cs, const M& A, const K& alpha, Cur& cu)
{
  if (cs.rep2 == "FD" || cs.rep2 == "DF") {      // x and y of different vector classes
    const bool n = nkind(cs.op); const int xs = n ? c : r, ys = n ? r : c;
    if (cs.rep2 == "FD") {
      DV y(ys);
      if (n) { FV<c> x; loadV(x, xs, cu); loadV(y, ys, cu); callN(cs.op, A, alpha, x, y); return obs(show(y), show(A), show(x)); }
      FV<r> x; loadV(x, xs, cu); loadV(y, ys, cu); callT(cs.op, A, alpha, x, y); return obs(show(y), show(A), show(x));
    }
    DV x(xs); loadV(x, xs, cu);
    if (n) { FV<r> y; loadV(y, ys, cu); callN(cs.op, A, alpha, x, y); return obs(show(y), show(A), show(x)); }
    FV<c> y; loadV(y, ys, cu); callT(cs.op, A, alpha, x, y); return obs(show(y), show(A), show(x));
  }
  if (nkind(cs.op)) {
    if (cs.rep2 == "DV") { DV x(c), y(r); loadV(x, c, cu); loadV(y, r, cu); callN(cs.op, A, alpha, x, y); return obs(show(y), show(A), show(x)); }
    FV<c> x; FV<r> y; loadV(x, c, cu); loadV(y, r, cu); callN(cs.op, A, alpha, x, y); return obs(show(y), show(A), show(x));
  } else {
    if (cs.rep2 == "DV") { DV x(r), y(c); loadV(x, r, cu); loadV(y, c, cu); callT(cs.op, A, alpha, x, y); return obs(show(y), show(A), show(x)); }
    FV<r> x; FV<c> y; loadV(x, r, cu); loadV(y, c, cu); callT(cs.op, A, alpha, x, y); return obs(show(y), show(A), show(x));
  }
}
// transposedView(W), W r x c: only mv (x: r, y: c) and mtv (x: c, y: r)
template<int r, int c, class W> static std::string wrapperOn(const Case& cs, const W& Wm, Cur& cu)
{
  auto T = transposedView(Wm);
  if (cs.op == "mv") {
    if (cs.rep2 == "DV") { DV x(r), y(c); loadV(x, r, cu); loadV(y, c, cu); T.mv(x, y); return obs(show(y), show(Wm), show(x)); }
    FV<r> x; FV<c> y; loadV(x, r, cu); loadV(y, c, cu); T.mv(x, y); return obs(show(y), show(Wm), show(x));
  } else if (cs.op == "mtv") {
    if (cs.rep2 == "DV") { DV x(c), y(r); loadV(x, c, cu); loadV(y, r, cu); T.mtv(x, y); return obs(show(y), show(Wm), show(x)); }
    FV<c> x; FV<r> y; loadV(x, c, cu); loadV(y, r, cu); T.mtv(x, y); return obs(show(y), show(Wm), show(x));
  }
  throw std::runtime_error("wrapper kernel");
}

static std::string runKernel(const Case& cs, Cur& cu)
{
  std::string out;
  K alpha = cu.next();
  if (cs.rep == "DM" || cs.rep == "TD") {
    DM A(cs.r, cs.c); loadM(A, cs.r, cs.c, cu);
    // dynamic matrix with dynamic vectors (any size) or, for static sizes, field vectors
    if (cs.rep == "TD") {
      auto T = transposedView(A);
      if (cs.op == "mv") { DV x(cs.r), y(cs.c); loadV(x, cs.r, cu); loadV(y, cs.c, cu); T.mv(x, y); return obs(show(y), show(A), show(x)); }
      DV x(cs.c), y(cs.r); loadV(x, cs.c, cu); loadV(y, cs.r, cu); T.mtv(x, y); return obs(show(y), show(A), show(x));
    }
    if (cs.rep2 == "FV") {
      if (cs.r != R) throw std::runtime_error("wrong TU");
      withDim(cs.c, [&](auto C) { constexpr int c = decltype(C)::value; out = kernelOn<R, c>(cs, A, alpha, cu); });
      return out;
    }
    if (nkind(cs.op)) { DV x(cs.c), y(cs.r); loadV(x, cs.c, cu); loadV(y, cs.r, cu); callN(cs.op, A, alpha, x, y); return obs(show(y), show(A), show(x)); }
    DV x(cs.r), y(cs.c); loadV(x, cs.r, cu); loadV(y, cs.c, cu); callT(cs.op, A, alpha, x, y); return obs(show(y), show(A), show(x));
  }
  if (cs.r != R) throw std::runtime_error("wrong TU");
  if (cs.rep == "FM" || cs.rep == "TF") {
    withDim(cs.c, [&](auto C) {
      constexpr int c = decltype(C)::value;
      FM<R, c> A; loadM(A, R, c, cu);
      if (cs.rep == "TF") out = wrapperOn<R, c>(cs, A, cu);
      else if (cs.rep2 == "SC") {
        if constexpr (R == 1 && c == 1) {       // scalars as vectors (Impl::asVector inside the kernels)
          K x = cu.next(), y = cu.next();
          if (nkind(cs.op)) callN(cs.op, A, alpha, x, y); else callT(cs.op, A, alpha, x, y);
          out = obs(show(y), show(A), show(x));
        } else throw std::runtime_error("SC needs 1x1");
      }
      else out = kernelOn<R, c>(cs, A, alpha, cu);
    });
    return out;
  }
  if (cs.rep == "DG" || cs.rep == "TG") {
    DG<R> A; loadD(A, cu);
    if (cs.rep == "TG") return wrapperOn<R, R>(cs, A, cu);
    return kernelOn<R, R>(cs, A, alpha, cu);
  }
  if (cs.rep == "SV") {
    if constexpr (R == 1) {
      K s = cu.next();
      auto A = Impl::asMatrix(s);        // ScalarMatrixView<K>
      if (cs.rep2 == "SC") {
        K x = cu.next(), y = cu.next();
        if (nkind(cs.op)) callN(cs.op, A, alpha, x, y); else callT(cs.op, A, alpha, x, y);
        return obs(show(y), show(s), show(x));
      }
      FV<1> x, y; loadV(x, 1, cu); loadV(y, 1, cu);
      if (nkind(cs.op)) callN(cs.op, A, alpha, x, y); else callT(cs.op, A, alpha, x, y);
      return obs(show(y), show(s), show(x));
    }
  }
  throw std::runtime_error("kernel representation");
}

// ---------------------------------------------------------------- vectors
template<class X, class Y> static std::string vecOps(const Case& cs, const K& s, X& x, Y& y)
{
  const std::string& op = cs.op;
  if (op == "vadd") { x += y; return obs(show(x), show(x), show(y)); }
  if (op == "vsub") { x -= y; return obs(show(x), show(x), show(y)); }
  if (op == "vadds") { x += s; return obs(show(x), show(x), show(y)); }
  if (op == "vsubs") { x -= s; return obs(show(x), show(x), show(y)); }
  if (op == "vscale") { x *= s; return obs(show(x), show(x), show(y)); }
  if (op == "vdiv") { x /= s; return obs(show(x), show(x), show(y)); }
  if (op == "vaxpy") { x.axpy(s, y); return obs(show(x), show(x), show(y)); }
  if (op == "veq") { bool e = (x == y); bool ne = (x != y); return obs(e == !ne ? b01(e) : std::string("INCONSISTENT"), show(x), show(y)); }
  if (op == "vdotT") { K d = x * y; return obs(show(d), show(x), show(y)); }
  if (op == "vdot") { K d = x.dot(y); return obs(show(d), show(x), show(y)); }
  throw std::runtime_error("vector op");
}
template<class X, class Y> static std::string vecOpsOwning(const Case& cs, const K& s, X& x, Y& y)
{
  const std::string& op = cs.op;
  if (op == "vplus") { auto z = x + y; return obs(show(z), show(x), show(y)); }
  if (op == "vminus") { auto z = x - y; return obs(show(z), show(x), show(y)); }
  if (op == "vneg") { auto z = -x; return obs(show(z), show(x), show(y)); }
  return vecOps(cs, s, x, y);
}
template<class X, class Y> static std::string vecOpsField(const Case& cs, const K& s, X& x, Y& y)
{
  const std::string& op = cs.op;
  if (op == "fvmuls") { auto z = x * s; return obs(show(z), show(x), show(y)); }
  if (op == "fvsmul") { auto z = s * x; return obs(show(z), show(x), show(y)); }
  if (op == "fvdivs") { auto z = x / s; return obs(show(z), show(x), show(y)); }
  return vecOpsOwning(cs, s, x, y);
}
static std::string runVector(const Case& cs, Cur& cu)
{
  K s = cu.next();
  int n = cs.r;
  if (cs.rep == "DV") {
    DV x(n); loadV(x, n, cu);
    if (cs.rep2 == "FV") { if (n != R) throw std::runtime_error("wrong TU"); FV<R> y; loadV(y, n, cu); return vecOpsOwning(cs, s, x, y); }
    DV y(n); loadV(y, n, cu); return vecOpsOwning(cs, s, x, y);
  }
  if (n != R) throw std::runtime_error("wrong TU");
  if (cs.rep == "FV") {
    FV<R> x; loadV(x, n, cu);
    if (cs.rep2 == "DV") { DV y(n); loadV(y, n, cu); return vecOpsField(cs, s, x, y); }
    FV<R> y; loadV(y, n, cu); return vecOpsField(cs, s, x, y);
  }
  if (cs.rep == "SW") {
    if constexpr (R == 1) {
      K xs = cu.next(); FV<1> y; loadV(y, 1, cu);
      auto x = Impl::asVector(xs);           // ScalarVectorView<K>
      if (cs.op == "vplus") { auto z = x + y; return obs(show(z), show(xs), show(y)); }
      if (cs.op == "vminus") { auto z = x - y; return obs(show(z), show(xs), show(y)); }
      std::string o = vecOps(cs, s, x, y);
      return o;
    }
  }
  throw std::runtime_error("vector representation");
}

// ---------------------------------------------------------------- matrices: vector space part, transposition, conversion
template<class MA, class MB> static std::string matInplace(const Case& cs, const K& s, MA& A, MB& B)
{
  const std::string& op = cs.op;
  if (op == "madd") { A += B; return obs(show(A), show(A), show(B)); }
  if (op == "msub") { A -= B; return obs(show(A), show(A), show(B)); }
  if (op == "mscale") { A *= s; return obs(show(A), show(A), show(B)); }
  if (op == "mdiv") { A /= s; return obs(show(A), show(A), show(B)); }
  if (op == "maxpy") { A.axpy(s, B); return obs(show(A), show(A), show(B)); }
  if (op == "meq") { bool e = (A == B); bool ne = (A != B); return obs(e == !ne ? b01(e) : std::string("INCONSISTENT"), show(A), show(B)); }
  throw std::runtime_error("matrix op");
}
template<class MA, class MB> static std::string matOwning(const Case& cs, const K& s, MA& A, MB& B)
{
  if (cs.op == "mneg") { auto Z = -A; return obs(show(Z), show(A), show(B)); }
  if (cs.op == "transposed") { auto Z = A.transposed(); auto Z2 = transpose(A); return obs(show(Z) == show(Z2) ? show(Z) : std::string("INCONSISTENT"), show(A), show(B)); }
  return matInplace(cs, s, A, B);
}
template<int r, int c> static std::string matField(const Case& cs, const K& s, FM<r, c>& A, FM<r, c>& B)
{
  const std::string& op = cs.op;
  if (op == "fmplus") { auto Z = A + B; return obs(show(Z), show(A), show(B)); }
  if (op == "fmminus") { auto Z = A - B; return obs(show(Z), show(A), show(B)); }
  if (op == "fmmuls") { auto Z = A * s; return obs(show(Z), show(A), show(B)); }
  if (op == "fmsmul") { auto Z = s * A; return obs(show(Z), show(A), show(B)); }
  if (op == "fmdivs") { auto Z = A / s; return obs(show(Z), show(A), show(B)); }
  return matOwning(cs, s, A, B);
}
static std::string runMatrix(const Case& cs, Cur& cu)
{
  K s = cu.next();
  const std::string& op = cs.op;
  std::string out;
  if (op == "assign") {
    // destination rep <- source rep2 (DenseMatrixAssigner)
    if (cs.rep2 == "DM") {
      DM S(cs.r, cs.c); loadM(S, cs.r, cs.c, cu);
      if (cs.rep == "DM") { DM D; D = S; DM D2(S); return obs(show(D) == show(D2) ? show(D) : std::string("INCONSISTENT"), show(S), show(S)); }
      if (cs.r != R) throw std::runtime_error("wrong TU");
      withDim(cs.c, [&](auto C) { constexpr int c = decltype(C)::value; FM<R, c> D; D = S; FM<R, c> D2(S); out = obs(show(D) == show(D2) ? show(D) : std::string("INCONSISTENT"), show(S), show(S)); });
      return out;
    }
    if (cs.r != R) throw std::runtime_error("wrong TU");
    if (cs.rep2 == "DG") {
      DG<R> S; loadD(S, cu);
      if (cs.rep == "DM") { DM D; D = S; DM D2(S); return obs(show(D) == show(D2) ? show(D) : std::string("INCONSISTENT"), show(S), show(S)); }
      FM<R, R> D; D = S; FM<R, R> D2(S); return obs(show(D) == show(D2) ? show(D) : std::string("INCONSISTENT"), show(S), show(S));
    }
    withDim(cs.c, [&](auto C) {
      constexpr int c = decltype(C)::value;
      FM<R, c> S; loadM(S, R, c, cu);
      if (cs.rep == "DM") { DM D; D = S; DM D2(S); out = obs(show(D) == show(D2) ? show(D) : std::string("INCONSISTENT"), show(S), show(S)); }
      else { FM<R, c> D; D = S; out = obs(show(D), show(S), show(S)); }
    });
    return out;
  }
  if (op == "asdense") {
    if (cs.rep == "TD") { DM W(cs.r, cs.c); loadM(W, cs.r, cs.c, cu); auto Z = transposedView(W).asDense(); return obs(show(Z), show(W), show(W)); }
    if (cs.r != R) throw std::runtime_error("wrong TU");
    if (cs.rep == "TG") { DG<R> W; loadD(W, cu); auto Z = transposedView(W).asDense(); return obs(show(Z), show(W), show(W)); }
    withDim(cs.c, [&](auto C) { constexpr int c = decltype(C)::value; FM<R, c> W; loadM(W, R, c, cu); auto Z = transposedView(W).asDense(); out = obs(show(Z), show(W), show(W)); });
    return out;
  }
  if (cs.rep == "DG") {
    if (cs.r != R) throw std::runtime_error("wrong TU");
    DG<R> A, B; loadD(A, cu); loadD(B, cu);
    if (op == "dgadd") { A += B; return obs(show(A), show(A), show(B)); }
    if (op == "dgsub") { A -= B; return obs(show(A), show(A), show(B)); }
    if (op == "dgscale") { A *= s; return obs(show(A), show(A), show(B)); }
    if (op == "dgdiv") { A /= s; return obs(show(A), show(A), show(B)); }
    if (op == "dgeq") { bool e = (A == B); bool ne = (A != B); return obs(e == !ne ? b01(e) : std::string("INCONSISTENT"), show(A), show(B)); }
    if (op == "transposed") { auto Z = A.transposed(); auto Z2 = transpose(A); return obs(show(Z) == show(Z2) ? show(Z) : std::string("INCONSISTENT"), show(A), show(B)); }
    throw std::runtime_error("diagonal op");
  }
  if (cs.rep == "DM") {
    DM A(cs.r, cs.c); loadM(A, cs.r, cs.c, cu);
    if (cs.rep2 == "FM") {
      if (cs.r != R) throw std::runtime_error("wrong TU");
      withDim(cs.c, [&](auto C) { constexpr int c = decltype(C)::value; FM<R, c> B; loadM(B, R, c, cu); out = matOwning(cs, s, A, B); });
      return out;
    }
    DM B(cs.r, cs.c); loadM(B, cs.r, cs.c, cu); return matOwning(cs, s, A, B);
  }
  if (cs.r != R) throw std::runtime_error("wrong TU");
  if (cs.rep == "FM") {
    withDim(cs.c, [&](auto C) {
      constexpr int c = decltype(C)::value;
      FM<R, c> A; loadM(A, R, c, cu);
      if (cs.rep2 == "DM") {
        // FieldMatrix<K,1,1>::operator+=(const K&) hides DenseMatrix::operator+=(DenseMatrix<Other>): 1x1 += DynamicMatrix does not compile
        if constexpr (R == 1 && c == 1) throw std::runtime_error("FieldMatrix<K,1,1> op DynamicMatrix not instantiated");
        else { DM B(R, c); loadM(B, R, c, cu); out = matOwning(cs, s, A, B); }
      }
      else { FM<R, c> B; loadM(B, R, c, cu); out = matField<R, c>(cs, s, A, B); }
    });
    return out;
  }
  if (cs.rep == "SV") {
    if constexpr (R == 1) {
      K a = cu.next(); FM<1, 1> B; loadM(B, 1, 1, cu);
      auto A = Impl::asMatrix(a);
      std::string o = matInplace(cs, s, A, B);
      return o;
    }
  }
  throw std::runtime_error("matrix representation");
}

// ---------------------------------------------------------------- products
static std::string runProduct(const Case& cs, Cur& cu)
{
  const std::string& op = cs.op;
  std::string out;
  const bool dynA = (cs.rep == "DM");
  if (op == "mul") {
    if (cs.rep == "DG" && cs.rep2 == "DG") {
      if (cs.r != R) throw std::runtime_error("wrong TU");
      DG<R> A, B; loadD(A, cu); loadD(B, cu); auto Z = A * B; return obs(show(Z), show(A), show(B));
    }
    if (cs.rep == "DG") {       // Diagonal(R) * FieldMatrix(R x p)
      if (cs.r != R) throw std::runtime_error("wrong TU");
      DG<R> A; loadD(A, cu);
      withDim(cs.p, [&](auto P) { constexpr int p = decltype(P)::value; FM<R, p> B; loadM(B, R, p, cu); auto Z = A * B; out = obs(show(Z), show(A), show(B)); });
      return out;
    }
    if (dynA) {                 // DynamicMatrix (r x c) * transposedView(W), W p x c
      DM A(cs.r, cs.c); loadM(A, cs.r, cs.c, cu);
      if (cs.rep2 == "TD") { DM W(cs.p, cs.c); loadM(W, cs.p, cs.c, cu); auto Z = A * transposedView(W); return obs(show(Z), show(A), show(W)); }
      if (cs.p != R) throw std::runtime_error("wrong TU");     // static wrapped matrix: its row count is this TU's R
      if (cs.rep2 == "TG") { DG<R> W; loadD(W, cu); auto Z = A * transposedView(W); return obs(show(Z), show(A), show(W)); }
      if (cs.rep2 == "TF") {
        withDim(cs.c, [&](auto C) { constexpr int c = decltype(C)::value; FM<R, c> W; loadM(W, R, c, cu); auto Z = A * transposedView(W); out = obs(show(Z), show(A), show(W)); });
        return out;
      }
      throw std::runtime_error("product representation");
    }
    if (cs.r != R) throw std::runtime_error("wrong TU");
    withDim(cs.c, [&](auto C) {
      constexpr int c = decltype(C)::value;
      FM<R, c> A; loadM(A, R, c, cu);
      if (cs.rep2 == "DG") { DG<c> B; loadD(B, cu); auto Z = A * B; out = obs(show(Z), show(A), show(B)); return; }
      if (cs.rep2 == "TG") { DG<c> W; loadD(W, cu); auto Z = A * transposedView(W); out = obs(show(Z), show(A), show(W)); return; }
      if (cs.rep2 == "TD") { DM W(cs.p, c); loadM(W, cs.p, c, cu); auto Z = A * transposedView(W); out = obs(show(Z), show(A), show(W)); return; }
      withDim(cs.p, [&](auto P) {
        constexpr int p = decltype(P)::value;
        if (cs.rep2 == "TF") { FM<p, c> W; loadM(W, p, c, cu); auto Z = A * transposedView(W); out = obs(show(Z), show(A), show(W)); }
        else { FM<c, p> B; loadM(B, c, p, cu); auto Z = A * B; out = obs(show(Z), show(A), show(B)); }
      });
    });
    return out;
  }
  if (op == "leftmultiply" || op == "rightmultiply") {
    const bool left = (op == "leftmultiply");
    if (dynA) {
      DM A(cs.r, cs.c); loadM(A, cs.r, cs.c, cu);
      int m = left ? cs.r : cs.c;
      if (cs.rep2 == "FM") {
        if (m != R) throw std::runtime_error("wrong TU");
        FM<R, R> M; loadM(M, R, R, cu);
        if (left) A.leftmultiply(M); else A.rightmultiply(M);
        return obs(show(A), show(A), show(M));
      }
      DM M(m, m); loadM(M, m, m, cu);
      if (left) A.leftmultiply(M); else A.rightmultiply(M);
      return obs(show(A), show(A), show(M));
    }
    if (cs.r != R) throw std::runtime_error("wrong TU");
    withDim(cs.c, [&](auto C) {
      constexpr int c = decltype(C)::value;
      constexpr int m = 0;
      FM<R, c> A; loadM(A, R, c, cu);
      if (left) {
        if (cs.rep2 == "DM") { DM M(R, R); loadM(M, R, R, cu); A.leftmultiply(M); out = obs(show(A), show(A), show(M)); }
        else { FM<R, R> M; loadM(M, R, R, cu); A.leftmultiply(M); out = obs(show(A), show(A), show(M)); }
      } else {
        if (cs.rep2 == "DM") { DM M(c, c); loadM(M, c, c, cu); A.rightmultiply(M); out = obs(show(A), show(A), show(M)); }
        else { FM<c, c> M; loadM(M, c, c, cu); A.rightmultiply(M); out = obs(show(A), show(A), show(M)); }
      }
    });
    return out;
  }
  if (op == "leftmultiplyany" || op == "rightmultiplyany") {
    if (cs.r != R) throw std::runtime_error("wrong TU");
    withDim(cs.c, [&](auto C) {
      constexpr int c = decltype(C)::value;
      FM<R, c> A; loadM(A, R, c, cu);
      withDim(cs.p, [&](auto P) {
        constexpr int p = decltype(P)::value;
        if (op == "leftmultiplyany") { FM<p, R> M; loadM(M, p, R, cu); auto Z = A.leftmultiplyany(M); out = obs(show(Z), show(A), show(M)); }
        else { FM<c, p> M; loadM(M, c, p, cu); auto Z = A.rightmultiplyany(M); out = obs(show(Z), show(A), show(M)); }
      });
    });
    return out;
  }
  throw std::runtime_error("product op");
}

#include "impl_extra.hh"

static bool isKernel(const std::string& o)
{
  return o == "mv" || o == "mtv" || o == "umv" || o == "umtv" || o == "umhv" || o == "mmv" || o == "mmtv" || o == "mmhv" || o == "usmv" || o == "usmtv" || o == "usmhv";
}
static bool isVector(const std::string& o) { return o[0] == 'v' || o.rfind("fv", 0) == 0; }
static bool isProduct(const std::string& o) { return o == "mul" || o == "leftmultiply" || o == "rightmultiply" || o == "leftmultiplyany" || o == "rightmultiplyany"; }

int main(int argc, char** argv)
{
  if (argc < 2) { std::cerr << "usage: impl cases" << std::endl; return 2; }
  std::ifstream in(argv[1]);
  std::string line;
  while (std::getline(in, line)) {
    std::istringstream is(line);
    std::vector<std::string> t; std::string w;
    while (is >> w) t.push_back(w);
    std::string o;
    // unary minus on the dynamic representations may write out of bounds (finding C01-1): run it in a child
    // process so that a crash is an observation of this one case and the run continues
    if (t.size() >= 7 && (t[1] == "vneg" || t[1] == "mneg") && (t[2] == "DV" || t[2] == "DM")) {
      std::cout.flush();
      pid_t pid = fork();
      if (pid == 0) {
        std::string oc;
        try {
          Case cs{t[1], t[2], t[3], std::stoi(t[4]), std::stoi(t[5]), std::stoi(t[6])};
          Cur cu{t, 7};
          oc = (t[1] == "vneg") ? runVector(cs, cu) : runMatrix(cs, cu);
        } catch (const std::exception& e) { oc = std::string("EXC ") + e.what(); }
        std::cout << oc << std::endl;
        _exit(0);
      }
      int st = 0; waitpid(pid, &st, 0);
      if (!(WIFEXITED(st) && WEXITSTATUS(st) == 0))
        std::cout << "CRASH(" << (WIFSIGNALED(st) ? "signal " + std::to_string(WTERMSIG(st)) : "exit " + std::to_string(WEXITSTATUS(st))) << ") in child process" << std::endl;
      continue;
    }
    try {
      if (t.size() < 7) throw std::runtime_error("bad case");
      if (t[0] != FNAME) throw std::runtime_error("wrong field for this TU");
      Case cs{t[1], t[2], t[3], std::stoi(t[4]), std::stoi(t[5]), std::stoi(t[6])};
      Cur cu{t, 7};
      if (cs.op[0] == 'x') o = runExtra(cs, cu);
      else if (isKernel(cs.op)) o = runKernel(cs, cu);
      else if (isVector(cs.op)) o = runVector(cs, cu);
      else if (isProduct(cs.op)) o = runProduct(cs, cu);
      else o = runMatrix(cs, cu);
    } catch (const Dune::Exception& e) { o = std::string("EXC Dune::Exception ") + e.what(); for (auto& ch : o) if (ch == '\n') ch = ' '; }
    catch (const std::exception& e) { o = std::string("EXC ") + e.what(); }
    std::cout << o << std::endl;
  }
  return 0;
}
