// harness/C01/impl_extra.hh — second part of the C01 impl driver (included by impl.hh): the public members, overloads,
// constructors, conversions and free functions of the anchored headers that the kernel/vector/matrix/product streams
// of impl.hh do not reach (API-coverage audit, mutants/C01/API_COVERAGE.md).  Ops are prefixed with 'x'.
// Same observation format: R=<..> A=<..> B=<..>

// ---------------------------------------------------------------- a second ("source") field for cross-field operations
#if C01_FIELD == 1
#define C01_HAS_SRC 1
using S = int;                       // int -> double
static S toS(const K& v) { return (S)v; }
#elif C01_FIELD == 2
#define C01_HAS_SRC 1
using S = double;                    // double -> complex<double>
static S toS(const K& v) { return v.real(); }
#else
#define C01_HAS_SRC 0
#endif

static std::string sj(const std::vector<std::string>& v)
{
  std::string s; for (std::size_t i = 0; i < v.size(); ++i) { if (i) s += ","; s += v[i]; } return s.empty() ? std::string("-") : s;
}
template<class T> static std::string showAny(const T& v) { return show(v); }
#if C01_HAS_SRC
static std::string showS(S v) { return showK(K(v)); }
#endif
static std::string same(const std::vector<std::string>& v)
{
  for (auto& s : v) if (s != v[0]) return "INCONSISTENT(" + sj(v) + ")";
  return v[0];
}
// exact print of a real-valued norm
template<class T> static std::string showNorm(const T& v) { return showReal((double)v); }
template<int P> static std::string showNorm(const GFp<P>& v) { return std::to_string(v.v); }

// ---------------------------------------------------------------- xfill: assignment / construction from a scalar
static std::string xfill(const Case& cs, Cur& cu)
{
  K k = cu.next();
  std::string out;
  if (cs.rep == "DV") { DV x(cs.r); loadV(x, cs.r, cu); x = k; DV y(cs.r, k); return obs(show(x), show(y), show(k)); }
  if (cs.rep == "DM") {
    DM A(cs.r, cs.c); loadM(A, cs.r, cs.c, cu); A = k; DM B(cs.r, cs.c, k);
    DM C2(2, 1); C2.resize(cs.r, cs.c, k);                        // resize loses the old entries and fills with k
    return obs(show(A), same({show(B), show(C2)}), show(k));
  }
  if (cs.r != R) throw std::runtime_error("wrong TU");
  if (cs.rep == "FV") { FV<R> x; loadV(x, R, cu); x = k; FV<R> y(k); return obs(show(x), show(y), show(k)); }
  if (cs.rep == "DG") { DG<R> D; loadD(D, cu); D = k; DG<R> E(k); return obs(show(D), show(E), show(k)); }
  if (cs.rep == "FM") {
    withDim(cs.c, [&](auto C) { constexpr int c = decltype(C)::value; FM<R, c> A; loadM(A, R, c, cu); A = k; FM<R, c> B(k); out = obs(show(A), show(B), show(k)); });
    return out;
  }
  if constexpr (R == 1) {
    if (cs.rep == "SW") { K s = cu.next(); auto v = Impl::asVector(s); v = k; K s2 = cu.next(); Impl::ScalarVectorView<K> w(&s2); w = v; K s3 = K(0); const K cs3 = s2; Impl::ScalarVectorView<K> w3(&s3); w3 = Impl::asVector(cs3); return obs(show(s), same({show(s2), show(s3)}), show(k)); }
    if (cs.rep == "SV") { K s = cu.next(); auto m = Impl::asMatrix(s); m = k; K s2 = cu.next(); Impl::ScalarMatrixView<K> w(&s2); w = m; K s3 = K(0); const K cs3 = s2; Impl::ScalarMatrixView<K> w3(&s3); w3 = Impl::asMatrix(cs3); return obs(show(s), same({show(s2), show(s3)}), show(k)); }
  }
  throw std::runtime_error("xfill representation");
}

// ---------------------------------------------------------------- xcopy: copy / move / converting construction and assignment of vectors
template<class D, class Sx> static std::string copyInto(const Sx& x)
{
  std::vector<std::string> r;
  { D a(x); r.push_back(show(a)); }                                   // converting / copy constructor
  { D a(x); D b(a); r.push_back(show(b)); }                           // copy constructor
  { D a(x); D b(std::move(a)); r.push_back(show(b)); }                // move constructor
  { D a(x); D b(x); for (std::size_t i = 0; i < b.size(); ++i) b[i] = K(0); b = a; r.push_back(show(b)); }      // copy assignment
  { D a(x); D b(x); for (std::size_t i = 0; i < b.size(); ++i) b[i] = K(0); b = std::move(a); r.push_back(show(b)); }  // move assignment
  { D b(x); for (std::size_t i = 0; i < b.size(); ++i) b[i] = K(0); b = x; r.push_back(show(b)); }              // assignment from the other representation
  { D a(x); D& ar = a; a = ar; r.push_back(show(a)); }                                                          // self-assignment
  // (self-MOVE-assignment is not exercised: the standard library leaves a self-moved std::vector valid but unspecified)
  { D a(x); D b(x); for (std::size_t i = 0; i < b.size(); ++i) b[i] = K(0); std::string z = show(b); using std::swap; swap(a, b);
    r.push_back(show(b)); if (show(a) != z) r.push_back("swap lost the other operand"); swap(a, b); r.push_back(show(a)); }   // swap
  return same(r);
}
static std::string xcopy(const Case& cs, Cur& cu)
{
  cu.next();
  int n = cs.r;
  if (cs.rep == "DV" && cs.rep2 == "DV") { DV x(n); loadV(x, n, cu); return obs(copyInto<DV>(x), show(x), "-"); }
  if (n != R) throw std::runtime_error("wrong TU");
  if (cs.rep == "DV") { FV<R> x; loadV(x, n, cu); return obs(copyInto<DV>(x), show(x), "-"); }
  if (cs.rep2 == "DV") { DV x(n); loadV(x, n, cu); return obs(copyInto<FV<R>>(x), show(x), "-"); }
  FV<R> x; loadV(x, n, cu);
  // FieldVector additionally: initializer list
  std::string il;
  if constexpr (R == 1) { FV<1> z{x[0]}; il = show(z); }
  else if constexpr (R == 2) { FV<2> z{x[0], x[1]}; il = show(z); }
  else if constexpr (R == 3) { FV<3> z{x[0], x[1], x[2]}; il = show(z); }
  else { FV<R> z(x); il = show(z); }
  DV dl{x[0]};                                                        // DynamicVector initializer list (one element)
  return obs(same({copyInto<FV<R>>(x), il}), show(x), show(dl));
}

// ---------------------------------------------------------------- xmcopy: copy / move / initializer-list construction of matrices
template<class D, class Sx> static std::string mcopyInto(const Sx& A)
{
  std::vector<std::string> r;
  { D a(A); r.push_back(show(a)); }
  { D a(A); D b(a); r.push_back(show(b)); }
  { D a(A); D b(std::move(a)); r.push_back(show(b)); }
  { D a(A); D b(A); b *= K(0); b = a; r.push_back(show(b)); }
  { D a(A); D b(A); b *= K(0); b = std::move(a); r.push_back(show(b)); }
  { D a(A); D& ar = a; a = ar; r.push_back(show(a)); }                                                          // self-assignment
  { D a(A); D b(A); b *= K(0); std::string z = show(b); using std::swap; swap(a, b);
    r.push_back(show(b)); if (show(a) != z) r.push_back("swap lost the other operand"); swap(a, b); r.push_back(show(a)); }   // swap
  return same(r);
}
template<int n> static std::string xmcopyDiag(Cur& cu)
{
  DG<n> D; loadD(D, cu);
  if constexpr (n == 1) { DG<1> z(D.diagonal(0)); DG<1> cp(D); DG<1> as; as = D; return obs(same({show(z), show(cp), show(as)}), show(D), "1"); }
  else {
    DG<n> fromVec(D.diagonal());                                      // from the diagonal vector
    std::string il;
    if constexpr (n == 2) { DG<2> z{D.diagonal(0), D.diagonal(1)}; il = show(z); }
    else if constexpr (n == 3) { DG<3> z{D.diagonal(0), D.diagonal(1), D.diagonal(2)}; il = show(z); }
    else { DG<n> z(D); il = show(z); }
    DG<n> cp(D); DG<n> as; as = D;
    return obs(same({show(fromVec), il, show(cp), show(as)}), show(D), b01(D.identical(D) && !D.identical(cp)));
  }
}
static std::string xmcopy(const Case& cs, Cur& cu)
{
  cu.next();
  std::string out;
  if (cs.rep == "DM") {
    DM A(cs.r, cs.c); loadM(A, cs.r, cs.c, cu);
    DM L{A[0]};                                                       // initializer list of rows (first row)
    return obs(mcopyInto<DM>(A), show(A), show(L));
  }
  if (cs.r != R) throw std::runtime_error("wrong TU");
  if (cs.rep == "DG") return xmcopyDiag<R>(cu);
  withDim(cs.c, [&](auto C) {
    constexpr int c = decltype(C)::value;
    FM<R, c> A; loadM(A, R, c, cu);
    std::string il;
    if constexpr (R == 1) { FM<1, c> z{A[0]}; il = show(z); }
    else if constexpr (R == 2) { FM<2, c> z{A[0], A[1]}; il = show(z); }
    else if constexpr (R == 3) { FM<3, c> z{A[0], A[1], A[2]}; il = show(z); }
    else { FM<R, c> z{A[0], A[1], A[2], A[3]}; il = show(z); }
    out = obs(same({mcopyInto<FM<R, c>>(A), il}), show(A), "-");
  });
  return out;
}

// ---------------------------------------------------------------- xfield / xmix: conversions and arithmetic between field types
#if C01_HAS_SRC
template<int n> using FVS = FieldVector<S, n>;
template<int r, int c> using FMS = FieldMatrix<S, r, c>;
template<class V> static void loadVS(V& v, int n, Cur& cu) { for (int i = 0; i < n; ++i) v[i] = toS(cu.next()); }
template<class M> static void loadMS(M& m, int r, int c, Cur& cu) { for (int i = 0; i < r; ++i) for (int j = 0; j < c; ++j) m[i][j] = toS(cu.next()); }
template<class V> static std::string showVS(const V& v) { std::string s; for (std::size_t i = 0; i < v.size(); ++i) { if (i) s += ","; s += showS(v[i]); } return s; }
template<class M> static std::string showMS(const M& m)
{
  std::string s;
  for (std::size_t i = 0; i < m.N(); ++i) { if (i) s += ";"; for (std::size_t j = 0; j < m.M(); ++j) { if (j) s += ","; s += showS(m[i][j]); } }
  return s;
}
static std::string xfield(const Case& cs, Cur& cu)
{
  K k = cu.next();
  std::string out;
  if (cs.rep == "DV") {
    DynamicVector<S> x(cs.r); loadVS(x, cs.r, cu);
    DV a(x); DV b(cs.r); b = x;                                        // DynamicVector(const DynamicVector<T>&), DenseVector::operator=(DenseVector<W>)
    return obs(same({show(a), show(b)}), showVS(x), "-");
  }
  if (cs.rep == "DM") {
    DynamicMatrix<S> A(cs.r, cs.c); loadMS(A, cs.r, cs.c, cu);
    DM a(A); DM b; b = A;
    return obs(same({show(a), show(b)}), showMS(A), "-");
  }
  if (cs.r != R) throw std::runtime_error("wrong TU");
  if (cs.rep == "FV") {
    FVS<R> x; loadVS(x, R, cu);
    FV<R> a(x); FV<R> b; b = x;                                        // explicit converting ctor, converting assignment
    DynamicVector<S> xd(x); FV<R> c2(xd); FV<R> d; d = xd;             // from a dense vector of the other field
    return obs(same({show(a), show(b), show(c2), show(d)}), showVS(x), "-");
  }
  if (cs.rep == "FM") {
    withDim(cs.c, [&](auto C) {
      constexpr int c = decltype(C)::value;
      FMS<R, c> A; loadMS(A, R, c, cu);
      FM<R, c> a; a = A;                                               // operator=(const FieldMatrix<T,ROWS,COLS>&)
      FM<R, c> b(A);                                                   // FieldMatrix(T const& rhs)
      DynamicMatrix<S> Ad(A); FM<R, c> d; d = Ad; DM e; e = A;         // through DenseMatrixAssigner, both directions
      out = obs(same({show(a), show(b), show(d), show(e)}), showMS(A), "-");
    });
    return out;
  }
  throw std::runtime_error("xfield representation");
}
template<int n, class X, class Y> static std::string mixScale(const X& x, const Y& y, const K& k)
{
  if constexpr (n == 1 && C01_FIELD == 2) throw std::runtime_error("FieldVector<double,1> * complex is not instantiated (no such overload)");
  else { auto z1 = x * k; auto z2 = k * x;
    if constexpr (n > 1) static_assert(std::is_same_v<decltype(z1), FV<n>> && std::is_same_v<decltype(z2), FV<n>>, "promoted type of vector * scalar");
    FV<n> w1(z1), w2(z2); return obs(same({show(w1), show(w2)}), showVS(x), show(y)); }
}
// arithmetic mixing the two field types (PromotionTraits): first operand over S, second over K
static std::string xmix(const Case& cs, Cur& cu)
{
  K k = cu.next();
  const std::string& op = cs.op;
  std::string out;
  if (cs.r != R) throw std::runtime_error("wrong TU");
  if (op == "xmixdot" || op == "xmixdotT" || op == "xmixscale" || op == "xmixaxpy" || op == "xmixvadd") {
    FVS<R> x; loadVS(x, R, cu); FV<R> y; loadV(y, R, cu);
    // PromotionTraits: the result type of a mixed operation is the promoted type (here always K)
    static_assert(std::is_same_v<decltype(x * y), K> && std::is_same_v<decltype(y * x), K> && std::is_same_v<decltype(x.dot(y)), K>, "promoted type of vector products");
    static_assert(std::is_same_v<typename PromotionTraits<S, K>::PromotedType, K> && std::is_same_v<typename PromotionTraits<K, S>::PromotedType, K>, "PromotionTraits");
    if (op == "xmixdotT") { K d1 = x * y; K d2 = y * x; return obs(same({show(d1), show(d2)}), showVS(x), show(y)); }
    if (op == "xmixdot") { K d1 = x.dot(y); K d2 = Dune::dot(x, y); return obs(same({show(d1), show(d2)}), showVS(x), show(y)); }
    if (op == "xmixscale") return mixScale<R>(x, y, k);
    if (op == "xmixvadd") { y += x; FV<R> z(y); z -= x; z += x; return obs(same({show(y), show(z)}), showVS(x), show(y)); }
    if (op == "xmixaxpy") { y.axpy(k, x); return obs(show(y), showVS(x), show(y)); }
  }
  if (op == "xmixdg") { DiagonalMatrix<S, R> A; for (int i = 0; i < R; ++i) A.diagonal(i) = toS(cu.next()); DG<R> B; loadD(B, cu); auto Z = A * B; DG<R> Zk; for (int i = 0; i < R; ++i) Zk.diagonal(i) = Z.diagonal(i); return obs(show(Zk), "-", show(B)); }
  withDim(cs.c, [&](auto C) {
    constexpr int c = decltype(C)::value;
    FMS<R, c> A; loadMS(A, R, c, cu);
    static_assert(std::is_same_v<decltype(A + FM<R, c>()), FM<R, c>> && std::is_same_v<decltype(FM<R, c>() - A), FM<R, c>> &&
                  std::is_same_v<decltype(A * K()), FM<R, c>> && std::is_same_v<decltype(K() * A), FM<R, c>>, "promoted type of matrix operators");
    if (op == "xmixadd") { FM<R, c> B; loadM(B, R, c, cu); auto Z = A + B; auto Z2 = B + A; FM<R, c> z(Z), z2(Z2); out = obs(same({show(z), show(z2)}), showMS(A), show(B)); return; }
    if (op == "xmixsub") { FM<R, c> B; loadM(B, R, c, cu); auto Z = A - B; FM<R, c> z(Z); out = obs(show(z), showMS(A), show(B)); return; }
    if (op == "xmixmscale") { auto Z = A * k; auto Z2 = k * A; FM<R, c> z(Z), z2(Z2); out = obs(same({show(z), show(z2)}), showMS(A), "-"); return; }
    if (op == "xmixumv") { FVS<c> x; loadVS(x, c, cu); FV<R> y; loadV(y, R, cu); A.umv(x, y); out = obs(show(y), showMS(A), showVS(x)); return; }
    withDim(cs.p, [&](auto P) {
      constexpr int p = decltype(P)::value;
      static_assert(std::is_same_v<decltype(A * FM<c, p>()), FM<R, p>>, "promoted type of matrix * matrix");
      if (op == "xmixmul") { FM<c, p> B; loadM(B, c, p, cu); auto Z = A * B; FM<R, p> z(Z); out = obs(show(z), showMS(A), show(B)); }
      else throw std::runtime_error("xmix op");
    });
  });
  return out;
}
#endif

// ---------------------------------------------------------------- xfm11*: scalar overloads of FieldMatrix<K,1,1>; xfv1*: FieldVector<K,1>
static std::string xone(const Case& cs, Cur& cu)
{
  if constexpr (R == 1) {
    const std::string& op = cs.op;
    K k = cu.next(); K a0 = cu.next(); K b0 = cu.next();
    if (op.rfind("xfm11", 0) == 0) {
      FM<1, 1> A; A[0][0] = a0; FM<1, 1> B; B[0][0] = b0;
      if (op == "xfm11adds") { auto Z = A + k; return obs(show(Z), show(A), show(k)); }
      if (op == "xfm11sadd") { auto Z = k + A; return obs(show(Z), show(A), show(k)); }
      if (op == "xfm11subs") { auto Z = A - k; return obs(show(Z), show(A), show(k)); }
      if (op == "xfm11ssub") { auto Z = k - A; return obs(show(Z), show(A), show(k)); }
      if (op == "xfm11pluseq") { A += k; return obs(show(A), show(A), show(k)); }
      if (op == "xfm11minuseq") { A -= k; return obs(show(A), show(A), show(k)); }
      if (op == "xfm11timeseq") { A *= k; return obs(show(A), show(A), show(k)); }
      if (op == "xfm11diveq") { A /= k; return obs(show(A), show(A), show(k)); }
      if (op == "xfm11mpluseq") { A += B; A -= B; A += B; return obs(show(A), show(A), show(B)); }     // the DenseMatrix overloads (fix C01-3)
      if (op == "xfm11conv") { const K& r = A; K v = A; K w = static_cast<K>(A) * k; return obs(same({show(r), show(v)}), show(w), show(A)); }
    }
    if (op.rfind("xfv1", 0) == 0) {
      FV<1> a(a0), b(b0);
      if (op == "xfv1adds") { FV<1> z = a + k; return obs(show(z), show(a), show(k)); }
      if (op == "xfv1sadd") { FV<1> z = k + a; return obs(show(z), show(a), show(k)); }
      if (op == "xfv1subs") { FV<1> z = a - k; return obs(show(z), show(a), show(k)); }
      if (op == "xfv1ssub") { FV<1> z = k - a; return obs(show(z), show(a), show(k)); }
      if (op == "xfv1muls") { FV<1> z = a * k; return obs(show(z), show(a), show(k)); }
      if (op == "xfv1smul") { FV<1> z = k * a; return obs(show(z), show(a), show(k)); }
      if (op == "xfv1divs") { FV<1> z = a / k; return obs(show(z), show(a), show(k)); }
      if (op == "xfv1sdiv") { FV<1> z = k / a; return obs(show(z), show(a), show(k)); }
      if (op == "xfv1conv") { K& r = a; K old = r; r = k; const FV<1>& ca = a; const K& cr = ca; FV<1> c1 = k; FV<1> c2; c2 = k; return obs(same({show(cr), show(a), show(c1), show(c2)}), show(old), show(k)); }
      if (op == "xfv1eq") {
        std::string s;
        s += b01(a == k); s += b01(a != k); s += b01(k == a); s += b01(k != a); s += b01(a == b); s += b01(a != b);
        return obs(s, show(a), show(b));
      }
#if C01_FIELD == 0 || C01_FIELD == 1 || C01_FIELD == 3 || C01_FIELD == 4
      if (op == "xfv1cmp") {
        std::string s;
        s += b01(a > b); s += b01(a >= b); s += b01(a < b); s += b01(a <= b);
        s += b01(a > k); s += b01(a >= k); s += b01(a < k); s += b01(a <= k);
        s += b01(k > a); s += b01(k >= a); s += b01(k < a); s += b01(k <= a);
        return obs(s, show(a), show(b));
      }
#endif
    }
  }
  throw std::runtime_error("1x1 / size-1 op");
}

// ---------------------------------------------------------------- xhelp*: FMatrixHelp / DenseMatrixHelp free functions, Dune::dot / dotT
static std::string xhelp(const Case& cs, Cur& cu)
{
  const std::string& op = cs.op;
  std::string out;
  cu.next();
  if (op == "xdotfree") {
    if (cs.rep == "DV") { DV x(cs.r), y(cs.r); loadV(x, cs.r, cu); loadV(y, cs.r, cu); K d = Dune::dot(x, y); K t = Dune::dotT(x, y); K e = Dune::dot(x[0], y[0]); K f = Dune::dotT(x[0], y[0]); return obs(show(d), show(t), show(e) + "," + show(f)); }
    if (cs.r != R) throw std::runtime_error("wrong TU");
    FV<R> x, y; loadV(x, R, cu); loadV(y, R, cu); K d = Dune::dot(x, y); K t = Dune::dotT(x, y); K e = Dune::dot(x[0], y[0]); K f = Dune::dotT(x[0], y[0]);
    return obs(show(d), show(t), show(e) + "," + show(f));
  }
  if (op == "xhelpmvd") {                // DenseMatrixHelp::multAssign on the dynamic representation
    DM A(cs.r, cs.c); loadM(A, cs.r, cs.c, cu); DV x(cs.c), y(cs.r); loadV(x, cs.c, cu); loadV(y, cs.r, cu);
    DenseMatrixHelp::multAssign(A, x, y); return obs(show(y), show(A), show(x));
  }
  if (cs.r != R) throw std::runtime_error("wrong TU");
  withDim(cs.c, [&](auto C) {
    constexpr int c = decltype(C)::value;
    FM<R, c> A; loadM(A, R, c, cu);
    if (op == "xhelpmv") { FV<c> x; FV<R> y; loadV(x, c, cu); loadV(y, R, cu); FMatrixHelp::multAssign(A, x, y); FV<R> z = FMatrixHelp::mult(A, x); out = obs(same({show(y), show(z)}), show(A), show(x)); return; }
    if (op == "xhelpmtv") { FV<R> x; FV<c> y; loadV(x, R, cu); loadV(y, c, cu); FMatrixHelp::multAssignTransposed(A, x, y); FV<c> z = FMatrixHelp::multTransposed(A, x); out = obs(same({show(y), show(z)}), show(A), show(x)); return; }
    if (op == "xhelpmtm") { FM<c, c> Z; loadM(Z, c, c, cu); FMatrixHelp::multTransposedMatrix(A, Z); out = obs(show(Z), show(A), "-"); return; }
    withDim(cs.p, [&](auto P) {
      constexpr int p = decltype(P)::value;
      if (op == "xhelpmult") { FM<c, p> B; loadM(B, c, p, cu); FM<R, p> Z; loadM(Z, R, p, cu); FMatrixHelp::multMatrix(A, B, Z); out = obs(show(Z), show(A), show(B)); }
      else throw std::runtime_error("xhelp op");
    });
  });
  return out;
}

// ---------------------------------------------------------------- xnorm: the norms that are exact on (Gaussian) integers
#if C01_FIELD <= 2
#define C01_HAS_NORMS 1
template<class V> static std::string vnorms(const V& x)
{
  std::vector<std::string> r;
#if C01_FIELD != 2
  r.push_back(showNorm(x.one_norm()));
#else
  r.push_back("-");
#endif
  r.push_back(showNorm(x.one_norm_real()));
  r.push_back(showNorm(x.two_norm2()));
#if C01_FIELD != 2
  r.push_back(showNorm(x.infinity_norm()));
#else
  r.push_back("-");
#endif
  r.push_back(showNorm(x.infinity_norm_real()));
  return sj(r);
}
template<class M> static std::string mnorms(const M& A)
{
  std::vector<std::string> r;
  r.push_back(showNorm(A.frobenius_norm2()));
#if C01_FIELD != 2
  r.push_back(showNorm(A.infinity_norm()));
#else
  r.push_back("-");
#endif
  r.push_back(showNorm(A.infinity_norm_real()));
  return sj(r);
}
static std::string xnorm(const Case& cs, Cur& cu)
{
  cu.next();
  std::string out;
  if (cs.rep == "DV") { DV x(cs.r); loadV(x, cs.r, cu); return obs(vnorms(x), show(x), "-"); }
  if (cs.rep == "DM") { DM A(cs.r, cs.c); loadM(A, cs.r, cs.c, cu); return obs(mnorms(A), show(A), "-"); }
  if (cs.r != R) throw std::runtime_error("wrong TU");
  if (cs.rep == "FV") { FV<R> x; loadV(x, R, cu); return obs(vnorms(x), show(x), "-"); }
  if (cs.rep == "DG") { DG<R> D; loadD(D, cu); return obs(mnorms(D), show(D), "-"); }
  withDim(cs.c, [&](auto C) { constexpr int c = decltype(C)::value; FM<R, c> A; loadM(A, R, c, cu); out = obs(mnorms(A), show(A), "-"); });
  return out;
}
#endif

// ---------------------------------------------------------------- xvaccess / xmaccess: const and non-const element access, iterators, sizes
template<class V, class W> static std::string vaccess(V& x, const W& y)
{
  const V& cx = x;
  std::vector<std::string> viaIt, viaIdx, viaData;
  std::size_t pos = 0; bool idxok = true;
  for (auto it = cx.begin(); it != cx.end(); ++it, ++pos) { viaIt.push_back(showK(*it)); idxok = idxok && (it.index() == pos); }
  for (std::size_t i = 0; i < cx.size(); ++i) { viaIdx.push_back(showK(cx[i])); viaData.push_back(showK(cx.data()[i])); }
  std::vector<std::string> info;
  if (cx.size() > 0) { info.push_back(showK(cx.front())); info.push_back(showK(cx.back())); info.push_back(showK(*cx.beforeEnd())); info.push_back(std::to_string(cx.find(cx.size() - 1).index())); }
  info.push_back(std::to_string(cx.size())); info.push_back(std::to_string(cx.N())); info.push_back(std::to_string(cx.dim()));
  info.push_back(b01(cx.empty())); info.push_back(b01(idxok)); info.push_back(std::to_string(cx.find(cx.size() + 3).index()));
  // writes: through the non-const iterator, operator[], front()/back(), data()
  V w(x);
  std::size_t i = 0;
  for (auto it = w.begin(); it != w.end(); ++it, ++i) *it = y[i];
  V w2(x);
  for (std::size_t j = 0; j < w2.size(); ++j) w2[j] = y[j];
  V w3(x);
  for (std::size_t j = 0; j < w3.size(); ++j) w3.data()[j] = y[j];
  if (w3.size() > 0) { w3.front() = y[0]; w3.back() = y[w3.size() - 1]; *w3.beforeEnd() = y[w3.size() - 1]; *w3.find(0) = y[0]; }
  return obs(same({sj(viaIt), sj(viaIdx), sj(viaData)}), sj(info), same({show(w), show(w2), show(w3)}));
}
template<class M> static std::string maccessDense(M& A, const M& B)
{
  const M& cA = A;
  std::vector<std::string> rows1, rows2;
  for (auto rit = cA.begin(); rit != cA.end(); ++rit) {
    std::vector<std::string> e; for (auto cit = rit->begin(); cit != rit->end(); ++cit) e.push_back(showK(*cit));
    std::string s; for (std::size_t j = 0; j < e.size(); ++j) { if (j) s += ","; s += e[j]; } rows1.push_back(s);
  }
  std::string viaIt; for (std::size_t i = 0; i < rows1.size(); ++i) { if (i) viaIt += ";"; viaIt += rows1[i]; }
  std::size_t ex = 0; for (std::size_t i = 0; i < cA.N(); ++i) for (std::size_t j = 0; j < cA.M(); ++j) ex += cA.exists(i, j) ? 1 : 0;
  std::vector<std::string> info{std::to_string(cA.N()), std::to_string(cA.M()), std::to_string(static_cast<const DenseMatrix<M>&>(cA).rows()), std::to_string(static_cast<const DenseMatrix<M>&>(cA).cols()), std::to_string(cA.size()), std::to_string(ex)};
  M w(A);
  for (std::size_t i = 0; i < w.N(); ++i) for (std::size_t j = 0; j < w.M(); ++j) w[i][j] = B[i][j];
  M w2(A);
  std::size_t i = 0;
  for (auto rit = w2.begin(); rit != w2.end(); ++rit, ++i) { std::size_t j = 0; for (auto cit = rit->begin(); cit != rit->end(); ++cit, ++j) *cit = B[i][j]; }
  return obs(same({viaIt, show(cA)}), sj(info), same({show(w), show(w2)}));
}
template<int n> static std::string maccessDiag(DG<n>& D, const DG<n>& E)
{
  const DG<n>& cD = D;
  // dense picture through operator[] const (row proxies), exists(), and through the row/column iterators
  std::string dense1, dense2;
  std::vector<std::vector<K>> M2(n, std::vector<K>(n, K(0)));
  for (auto rit = cD.begin(); rit != cD.end(); ++rit) for (auto cit = rit->begin(); cit != rit->end(); ++cit) M2[rit.index()][cit.index()] = *cit;
  std::size_t ex = 0;
  for (int i = 0; i < n; ++i) {
    if (i) { dense1 += ";"; dense2 += ";"; }
    for (int j = 0; j < n; ++j) {
      if (j) { dense1 += ","; dense2 += ","; }
      K v = cD.exists(i, j) ? cD[i][j] : K(0); ex += cD.exists(i, j) ? 1 : 0;
      dense1 += showK(v); dense2 += showK(M2[i][j]);
    }
  }
  std::vector<std::string> info{std::to_string(cD.N()), std::to_string(cD.M()), std::to_string(DG<n>::rows), std::to_string(DG<n>::cols), std::to_string(cD.size()), std::to_string(ex),
                                showK(cD[n - 1].diagonal()), std::to_string(cD[n - 1].rowIndex()), show(cD.diagonal())};
  if (cD[0].N() != (std::size_t)n || cD[0].dim() != (std::size_t)n || !(cD[0] == cD[0]) || (cD[0] == cD[1])) return "INCONSISTENT DiagonalRowVectorConst";
  DG<n> w(D); for (int i = 0; i < n; ++i) w[i][i] = E.diagonal(i);                 // non-const row proxy
  DG<n> w2(D); for (int i = 0; i < n; ++i) w2.diagonal(i) = E.diagonal(i);
  DG<n> w3(D); for (int i = 0; i < n; ++i) w3.diagonal()[i] = E.diagonal()[i];
  DG<n> w4(D); for (auto rit = w4.begin(); rit != w4.end(); ++rit) for (auto cit = rit->begin(); cit != rit->end(); ++cit) *cit = E.diagonal(rit.index());
  DG<n> w5(D); for (int i = 0; i < n; ++i) w5[i] = E.diagonal(i);                    // DiagonalRowVector::operator=(K)
  return obs(same({dense1, dense2}), sj(info), same({show(w), show(w2), show(w3), show(w4), show(w5)}));
}
template<int n> static std::string xaccessDiag(Cur& cu)
{
  DG<n> D, E; loadD(D, cu); loadD(E, cu);
  if constexpr (n == 1) {                                                  // DiagonalMatrix<K,1> is a FieldMatrix<K,1,1>
    DG<1> w(D); w.diagonal()[0] = E.diagonal()[0]; DG<1> w2(D); w2.diagonal(0) = E.diagonal(0);
    if (show(w) != show(E) || show(w2) != show(E)) return "INCONSISTENT diagonal() of DiagonalMatrix<K,1>";
    FM<1, 1>& Dm = D; const FM<1, 1>& Em = E; return maccessDense(Dm, Em);
  }
  else return maccessDiag<n>(D, E);
}
static std::string xaccess(const Case& cs, Cur& cu)
{
  cu.next();
  std::string out;
  if (cs.op == "xvaccess") {
    if (cs.rep == "DV") { DV x(cs.r), y(cs.r); loadV(x, cs.r, cu); loadV(y, cs.r, cu); return vaccess(x, y); }
    if (cs.r != R) throw std::runtime_error("wrong TU");
    FV<R> x, y; loadV(x, R, cu); loadV(y, R, cu); return vaccess(x, y);
  }
  if (cs.rep == "DM") { DM A(cs.r, cs.c), B(cs.r, cs.c); loadM(A, cs.r, cs.c, cu); loadM(B, cs.r, cs.c, cu); return maccessDense(A, B); }
  if (cs.r != R) throw std::runtime_error("wrong TU");
  if (cs.rep == "DG") return xaccessDiag<R>(cu);
  withDim(cs.c, [&](auto C) { constexpr int c = decltype(C)::value; FM<R, c> A, B; loadM(A, R, c, cu); loadM(B, R, c, cu); out = maccessDense(A, B); });
  return out;
}

// ---------------------------------------------------------------- xdgadds / xdgsubs : DiagonalMatrix += k, -= k
static std::string xdiag(const Case& cs, Cur& cu)
{
  K k = cu.next();
  if (cs.r != R) throw std::runtime_error("wrong TU");
  DG<R> D; loadD(D, cu);
  if (cs.op == "xdgadds") { D += k; return obs(show(D), show(D), show(k)); }
  if (cs.op == "xdgsubs") { D -= k; return obs(show(D), show(D), show(k)); }
  throw std::runtime_error("xdiag op");
}

// ---------------------------------------------------------------- xview: scalar views (const views, pass-through of non-numbers)
static std::string xview(const Case& cs, Cur& cu)
{
  if constexpr (R == 1) {
    K alpha = cu.next(); K s = cu.next(); K xs = cu.next(); K ys = cu.next();
    const K cs_ = s;
    auto cm = Impl::asMatrix(cs_);                 // ScalarMatrixView<const K>
    auto cv = Impl::asVector(xs);
    const K cxs = xs;
    auto ccv = Impl::asVector(cxs);                // ScalarVectorView<const K>
    K y1 = ys, y2 = ys, y3 = ys;
    auto yv = Impl::asVector(y1);
    cm.usmhv(alpha, ccv, yv);                      // const matrix view, const vector view, mutable vector view
    FM<1, 1> F; F[0][0] = s;
    FM<1, 1>& Fr = Impl::asMatrix(F);              // non-numbers are forwarded
    const FM<1, 1>& Fc = Impl::asMatrix(static_cast<const FM<1, 1>&>(F));
    FV<1> xv1(xs);
    FV<1>& xr = Impl::asVector(xv1);
    Fr.usmhv(alpha, xr, y2);
    Fc.usmhv(alpha, xs, y3);
    bool fwd = (&Fr == &F) && (&Fc == &F) && (&xr == &xv1);
    return obs(same({show(y1), show(y2), show(y3)}), show(s) + "," + show(xs), b01(fwd) + std::string(",") + std::to_string(cm.N()) + std::to_string(cm.M()) + std::to_string(cv.size()));
  }
  throw std::runtime_error("xview needs R == 1");
}

// ---------------------------------------------------------------- xtw: transposed wrapper by value / by reference / from an rvalue
template<class M, class X, class Y> static std::string twKinds(M& A, const X& x, const Y& y0)
{
  Impl::TransposedMatrixWrapper<M> byValue(A);                       // TransposedMatrixWrapper(const M&)
  M tmp(A);
  Impl::TransposedMatrixWrapper<M> fromRvalue(std::move(tmp));       // TransposedMatrixWrapper(M&&)
  auto byRef = transpose(std::ref(A));                               // transpose(const std::reference_wrapper<Matrix>&)
  auto byCref = transposedView(A);
  auto rw = std::cref(A);
  auto byLvalueRw = transpose(rw);                                   // lvalue reference_wrapper
  A *= K(2);                                                         // change the wrapped matrix afterwards
  Y y1(y0), y2(y0), y3(y0), y4(y0), y5(y0);
  byValue.mv(x, y1); fromRvalue.mv(x, y2); byRef.mv(x, y3); byCref.mv(x, y4); byLvalueRw.mv(x, y5);
  return obs(same({show(y1), show(y2)}), same({show(y3), show(y4), show(y5)}), show(byValue.wrappedMatrix()));
}
static std::string xtw(const Case& cs, Cur& cu)
{
  cu.next();
  std::string out;
  if (cs.rep == "DM") { DM A(cs.r, cs.c); loadM(A, cs.r, cs.c, cu); DV x(cs.r), y(cs.c); loadV(x, cs.r, cu); loadV(y, cs.c, cu); return twKinds(A, x, y); }
  if (cs.r != R) throw std::runtime_error("wrong TU");
  withDim(cs.c, [&](auto C) { constexpr int c = decltype(C)::value; FM<R, c> A; loadM(A, R, c, cu); FV<R> x; FV<c> y; loadV(x, R, cu); loadV(y, c, cu); out = twKinds(A, x, y); });
  return out;
}

// ---------------------------------------------------------------- xresize: DynamicVector::resize keeps the prefix
static std::string xresize(const Case& cs, Cur& cu)
{
  K k = cu.next();
  DV x(cs.r); loadV(x, cs.r, cu);
  DV a(x); a.resize(cs.c, k);
  DV b(x); b.resize(cs.c);
  DV viaContainer(x); viaContainer.container().push_back(k);
  return obs(show(a), show(b), show(viaContainer));
}

// ---------------------------------------------------------------- xselfmul: A.rightmultiply(A), A.leftmultiply(A) (the factor is the object itself)
static std::string xselfmul(const Case& cs, Cur& cu)
{
  const bool left = (cs.op == "xselfleft");
  std::string out;
  if (cs.rep == "DM") { DM A(cs.r, cs.r); loadM(A, cs.r, cs.r, cu); DM B(A); if (left) A.leftmultiply(A); else A.rightmultiply(A); return obs(show(A), show(A), show(B)); }
  if (cs.r != R) throw std::runtime_error("wrong TU");
  FM<R, R> A; loadM(A, R, R, cu); FM<R, R> B(A);
  if (left) A.leftmultiply(A); else A.rightmultiply(A);
  // also through the DenseMatrix base overload (FieldMatrix::rightmultiply(FieldMatrix) hides it only for FieldMatrix arguments)
  FM<R, R> A2(B); DenseMatrix<FM<R, R>>& base = A2;
  if (left) base.leftmultiply(base); else base.rightmultiply(base);
  return obs(same({show(A), show(A2)}), show(A), show(B));
}

// ---------------------------------------------------------------- xvself: in-place vector operations with both arguments the same object
template<class V> static std::string vself(V& x, const K& k)
{
  V a(x), b(x), c(x);
  a += a; b -= b; c.axpy(k, c);
  K d = x * x; K e = x.dot(x); bool eq = (x == x);
  return obs(show(a), show(b), show(c) + "|" + show(d) + "|" + show(e) + "|" + b01(eq));
}
static std::string xvself(const Case& cs, Cur& cu)
{
  K k = cu.next();
  if (cs.rep == "DV") { DV x(cs.r); loadV(x, cs.r, cu); return vself(x, k); }
  if (cs.r != R) throw std::runtime_error("wrong TU");
  FV<R> x; loadV(x, R, cu); return vself(x, k);
}

// ---------------------------------------------------------------- xr_* / xw_*: every in-place operation with EVERY 1x1 / size-1 representation
// as the receiver and as the argument: owning (FieldMatrix<K,1,1>, DynamicMatrix(1,1), FieldVector<K,1>, DynamicVector(1)) and
// views (ScalarMatrixView / ScalarVectorView; "SS" = a second view of the SAME scalar as the receiver).  The wrapped scalar is observed.
template<class A, class B> static std::string recvMat(const std::string& op, A& a, B& b, const K& k, const K& sa, const K& sb)
{
  // sa / sb: the scalars behind a / b (read after the call through references held by the caller)
  if (op == "xr_leftmultiply") a.leftmultiply(b);
  else if (op == "xr_rightmultiply") a.rightmultiply(b);
  else if (op == "xr_madd") a += b;
  else if (op == "xr_msub") a -= b;
  else if (op == "xr_mscale") a *= k;
  else if (op == "xr_mdiv") a /= k;
  else if (op == "xr_maxpy") a.axpy(k, b);
  else if (op == "xr_meq") { bool e = (a == b); return obs(b01(e), show(a), show(b)); }
  else if (op == "xr_mneg") { auto z = -a; return obs(show(z), show(a), show(b)); }
  else throw std::runtime_error("xr op");
  return obs(show(a), show(a), show(b));
}
template<class A> static std::string recvMatB(const Case& cs, A& a, K& sa, Cur& cu, const K& k)
{
  K sb = cu.next();
  if (cs.rep2 == "SS") { auto b = Impl::asMatrix(sa); return recvMat(cs.op, a, b, k, sa, sa); }           // second view of the same scalar
  if (cs.rep2 == "SV") { auto b = Impl::asMatrix(sb); return recvMat(cs.op, a, b, k, sa, sb); }
  if (cs.rep2 == "SC") { const K cb = sb; auto b = Impl::asMatrix(cb); return recvMat(cs.op, a, b, k, sa, cb); }   // view of a const scalar
  if (cs.rep2 == "DM") { DM b(1, 1, sb); return recvMat(cs.op, a, b, k, sa, sb); }
  FM<1, 1> b; b[0][0] = sb; return recvMat(cs.op, a, b, k, sa, sb);
}
template<class A, class B> static std::string recvVec(const std::string& op, A& a, B& b, const K& k)
{
  if (op == "xw_vadd") a += b;
  else if (op == "xw_vsub") a -= b;
  else if (op == "xw_vaxpy") a.axpy(k, b);
  else if (op == "xw_vadds") a += k;
  else if (op == "xw_vsubs") a -= k;
  else if (op == "xw_vscale") a *= k;
  else if (op == "xw_vdiv") a /= k;
  else if (op == "xw_veq") { bool e = (a == b); return obs(b01(e), show(a), show(b)); }
  else if (op == "xw_vdotT") { K d = a * b; return obs(show(d), show(a), show(b)); }
  else if (op == "xw_vdot") { K d = a.dot(b); return obs(show(d), show(a), show(b)); }
  else if (op == "xw_vplus") { auto z = a + b; return obs(show(z), show(a), show(b)); }
  else if (op == "xw_vminus") { auto z = a - b; return obs(show(z), show(a), show(b)); }
  else if (op == "xw_vneg") { auto z = -a; return obs(show(z), show(a), show(b)); }
  else throw std::runtime_error("xw op");
  return obs(show(a), show(a), show(b));
}
template<class A> static std::string recvVecB(const Case& cs, A& a, K& sa, Cur& cu, const K& k)
{
  K sb = cu.next();
  if (cs.rep2 == "SS") { auto b = Impl::asVector(sa); return recvVec(cs.op, a, b, k); }
  if (cs.rep2 == "SW") { auto b = Impl::asVector(sb); return recvVec(cs.op, a, b, k); }
  if (cs.rep2 == "SC") { const K cb = sb; auto b = Impl::asVector(cb); return recvVec(cs.op, a, b, k); }
  if (cs.rep2 == "DV") { DV b(1, sb); return recvVec(cs.op, a, b, k); }
  FV<1> b(sb); return recvVec(cs.op, a, b, k);
}
static std::string xrecv(const Case& cs, Cur& cu)
{
  if constexpr (R == 1) {
    K k = cu.next(); K sa = cu.next();
    if (cs.op.rfind("xr_", 0) == 0) {
      if (cs.rep == "SV") { auto a = Impl::asMatrix(sa); return recvMatB(cs, a, sa, cu, k); }
      if (cs.rep == "DM") { DM a(1, 1, sa); return recvMatB(cs, a, sa, cu, k); }
      FM<1, 1> a; a[0][0] = sa; return recvMatB(cs, a, sa, cu, k);
    }
    if (cs.rep == "SW") { auto a = Impl::asVector(sa); return recvVecB(cs, a, sa, cu, k); }
    if (cs.rep == "DV") { DV a(1, sa); return recvVecB(cs, a, sa, cu, k); }
    FV<1> a(sa); return recvVecB(cs, a, sa, cu, k);
  }
  throw std::runtime_error("xr/xw need R == 1");
}

// ---------------------------------------------------------------- x?elem: the SCALAR argument is an entry of the receiver (passed by const reference)
template<class V, class W> static std::string velem(const V& x, const W& y, int i0)
{
  V a(x), b(x), c(x), d(x), e(x);
  a += a[i0]; b -= b[i0]; c *= c[i0]; d /= d[i0]; e.axpy(e[i0], y);
  return obs(show(a) + "|" + show(b) + "|" + show(c) + "|" + show(d) + "|" + show(e), show(x), show(y));
}
template<class M, class MB> static std::string melem(const M& A, const MB& B, int i0, int j0)
{
  M a(A), b(A), c(A);
  a *= a[i0][j0]; b /= b[i0][j0]; c.axpy(c[i0][j0], B);
  return obs(show(a) + "|" + show(b) + "|" + show(c), show(A), show(B));
}
template<class M, class X, class Y> static std::string kelem(const M& A, const X& x, const Y& y, int i0, bool nk)
{
  Y y1(y), y2(y);
  if (nk) { A.usmv(y1[i0], x, y1); return obs(show(y1), show(A), show(x)); }
  A.usmtv(y1[i0], x, y1); A.usmhv(y2[i0], x, y2);
  return obs(show(y1) + "|" + show(y2), show(A), show(x));
}
static std::string xelem(const Case& cs, Cur& cu)
{
  cu.next();
  std::string out;
  const int i0 = cs.p;
  if (cs.op == "xvelem") {
    if (cs.rep == "DV") { DV y(cs.r), x(cs.r); loadV(y, cs.r, cu); loadV(x, cs.r, cu); return velem(x, y, i0); }
    if (cs.r != R) throw std::runtime_error("wrong TU");
    FV<R> y, x; loadV(y, R, cu); loadV(x, R, cu); return velem(x, y, i0);
  }
  if (cs.op == "xdelem") {          // DiagonalMatrix op= its own diagonal entry
    if (cs.r != R) throw std::runtime_error("wrong TU");
    DG<R> D; loadD(D, cu); DG<R> a(D), b(D), c(D), d(D);
    a += a.diagonal(i0); b -= b.diagonal(i0); c *= c.diagonal(i0); d /= d.diagonal(i0);
    return obs(show(a) + "|" + show(b) + "|" + show(c) + "|" + show(d), show(D), "-");
  }
  if (cs.op == "xmelem") {
    const int ii = cs.p / cs.c, jj = cs.p % cs.c;
    if (cs.rep == "DM") { DM B(cs.r, cs.c), A(cs.r, cs.c); loadM(B, cs.r, cs.c, cu); loadM(A, cs.r, cs.c, cu); return melem(A, B, ii, jj); }
    if (cs.r != R) throw std::runtime_error("wrong TU");
    withDim(cs.c, [&](auto C) { constexpr int c = decltype(C)::value; FM<R, c> B, A; loadM(B, R, c, cu); loadM(A, R, c, cu); out = melem(A, B, ii, jj); });
    return out;
  }
  // xkelemN / xkelemT: usmv / usmtv+usmhv with alpha = an entry of y
  const bool nk = (cs.op == "xkelemN");
  if (cs.rep == "DM") {
    DM A(cs.r, cs.c); loadM(A, cs.r, cs.c, cu); const int xs = nk ? cs.c : cs.r, ys = nk ? cs.r : cs.c;
    DV x(xs), y(ys); loadV(x, xs, cu); loadV(y, ys, cu); return kelem(A, x, y, i0, nk);
  }
  if (cs.r != R) throw std::runtime_error("wrong TU");
  if (cs.rep == "DG") { DG<R> A; loadD(A, cu); FV<R> x, y; loadV(x, R, cu); loadV(y, R, cu); return kelem(A, x, y, i0, nk); }
  withDim(cs.c, [&](auto C) {
    constexpr int c = decltype(C)::value; FM<R, c> A; loadM(A, R, c, cu);
    if (nk) { FV<c> x; FV<R> y; loadV(x, c, cu); loadV(y, R, cu); out = kelem(A, x, y, i0, nk); }
    else { FV<R> x; FV<c> y; loadV(x, R, cu); loadV(y, c, cu); out = kelem(A, x, y, i0, nk); }
  });
  return out;
}

// ---------------------------------------------------------------- xmself: in-place matrix operations with the matrix itself as argument
template<class M> static std::string mself(const M& A, const K& k)
{
  M a(A), b(A), c(A);
  a += a; b -= b; c.axpy(k, c);
  bool eq = (A == A);
  return obs(show(a) + "|" + show(b) + "|" + show(c) + "|" + b01(eq), show(A), "-");
}
static std::string xmself(const Case& cs, Cur& cu)
{
  K k = cu.next(); std::string out;
  if (cs.rep == "DM") { DM A(cs.r, cs.c); loadM(A, cs.r, cs.c, cu); return mself(A, k); }
  if (cs.r != R) throw std::runtime_error("wrong TU");
  if (cs.rep == "DG") { DG<R> D; loadD(D, cu); DG<R> a(D), b(D); a += a; b -= b; bool eq = (D == D); return obs(show(a) + "|" + show(b) + "|" + b01(eq), show(D), "-"); }
  withDim(cs.c, [&](auto C) { constexpr int c = decltype(C)::value; FM<R, c> A; loadM(A, R, c, cu); out = mself(A, k); });
  return out;
}

// ---------------------------------------------------------------- xhist: one object through a history of operations (re-use after resize / move / refill)
static std::string xhist(const Case& cs, Cur& cu)
{
  K k = cu.next();
  if (cs.rep == "DV") {
    const int n = cs.r; DV x(n), y(n); loadV(x, n, cu); loadV(y, n, cu);
    DV a(x); a += y; a.resize(n + 2, k); DV b(std::move(a));
    a = y; a.axpy(k, x); a.resize(n); a.resize(1); a.resize(n, k); a -= x; a -= x;
    return obs(show(a), show(b), show(x) + "|" + show(y));
  }
  // DynamicMatrix: the same kernel twice, resize with the DEFAULT value, refill, kernel on the new shape
  const int r = cs.r, c = cs.c;
  DM A(r, c); loadM(A, r, c, cu); DV x(c), y(r); loadV(x, c, cu); loadV(y, r, cu);
  DV y1(y); A.umv(x, y1); A.umv(x, y1);
  A.resize(c, r);
  std::string zeros = show(A);
  A = k; A[0][0] = y[0];
  DV y2(x); A.umv(y, y2);
  DM T = A.transposed(); T.resize(1, 1, k);
  return obs(show(y1), show(y2), zeros + "|" + show(A) + "|" + show(T));
}

// ---------------------------------------------------------------- xalloc: DynamicVector with a stateful allocator
template<class T> struct TrackAlloc
{
  using value_type = T;
  int id;
  explicit TrackAlloc(int i = 0) : id(i) {}
  template<class U> TrackAlloc(const TrackAlloc<U>& o) : id(o.id) {}
  T* allocate(std::size_t n) { return static_cast<T*>(::operator new(n * sizeof(T))); }
  void deallocate(T* p, std::size_t) { ::operator delete(p); }
  template<class U> bool operator==(const TrackAlloc<U>& o) const { return id == o.id; }
  template<class U> bool operator!=(const TrackAlloc<U>& o) const { return id != o.id; }
};
static std::string xalloc(const Case& cs, Cur& cu)
{
  K k = cu.next();
  const int n = cs.r;
  DV x(n); loadV(x, n, cu);
  using AV = DynamicVector<K, TrackAlloc<K>>;
  AV a(n, k, TrackAlloc<K>(7));              // (n, c, allocator)
  AV b(a);                                    // copy keeps the allocator
  AV c(x, TrackAlloc<K>(9));                  // from another dense vector, with an allocator
  AV d(n, TrackAlloc<K>(5));                  // (n, allocator): value-initialised
  AV e{TrackAlloc<K>(3)};                     // (allocator): empty
  c += a; d -= c; AV f(std::move(b));
  std::string ids = std::to_string(a.container().get_allocator().id) + "," + std::to_string(f.container().get_allocator().id) + "," +
                    std::to_string(c.container().get_allocator().id) + "," + std::to_string(d.container().get_allocator().id) + "," +
                    std::to_string(e.container().get_allocator().id) + "," + std::to_string(e.size());
  return obs(show(c), show(d), show(f) + "|" + ids);
}

// ---------------------------------------------------------------- xasgm / xasgv (round 6): assignment / conversion INTO AN EXISTING OBJECT
// The target holds OTHER NON-ZERO entries (and, for the dynamic classes, ANOTHER SHAPE: p = 100*rows + cols, resp. p = size) before it is
// assigned.  R=<target after> A=<source after> B=<shape of the target after>.  Sources: every representation incl. scalars, views,
// DiagonalMatrix, and (fields D, C) the representations over the other field type S (XF, XD, XG, XV, XW).
template<class M> static std::string showG(const DenseMatrix<M>& m)
{
  std::string s;
  for (std::size_t i = 0; i < m.N(); ++i) { if (i) s += ";"; for (std::size_t j = 0; j < m.M(); ++j) { if (j) s += ","; s += showK(K(m[i][j])); } }
  return s;
}
template<class F, int n> static std::string showG(const DiagonalMatrix<F, n>& d)
{
  std::string s; for (int i = 0; i < n; ++i) { if (i) s += ","; s += showK(K(d.diagonal(i))); } return s;
}
template<class V> static std::string showG(const DenseVector<V>& v)
{
  std::string s; for (std::size_t i = 0; i < v.size(); ++i) { if (i) s += ","; s += showK(K(v[i])); } return s;
}
static std::string showG(const K& k) { return showK(k); }
template<class M> static std::string dimsOf(const M& m) { return std::to_string(m.N()) + "x" + std::to_string(m.N() ? m.M() : 0); }   // M() of a matrix without rows is not defined
template<class T, class Sx> static std::string asgMat(const T& t0, const Sx& s)
{
  std::vector<std::string> r;
  T a(t0); T* pa = &(a = s); r.push_back(showG(a));                                    // assignment / conversion into the dirty target
  if (pa != &a) r.push_back("operator= does not return *this");
  if constexpr (std::is_same_v<T, Sx>) { T b(t0); Sx s2(s); b = std::move(s2); r.push_back(showG(b)); }      // move assignment
  else if constexpr (!IsNumber<Sx>::value && std::is_constructible_v<T, const Sx&>) { T b(t0); const T tmp(s); b = tmp; r.push_back(showG(b)); }
  { T b(t0); b = s; b = s; r.push_back(showG(b)); }                                    // assigning twice changes nothing
  return obs(same(r), showG(s), dimsOf(a));
}
template<class T, class Sx> static std::string asgVec(const T& t0, const Sx& s)
{
  std::vector<std::string> r;
  T a(t0); T* pa = &(a = s); r.push_back(showG(a));
  if (pa != &a) r.push_back("operator= does not return *this");
  if constexpr (std::is_same_v<T, Sx>) { T b(t0); Sx s2(s); b = std::move(s2); r.push_back(showG(b)); }
  else if constexpr (!IsNumber<Sx>::value && std::is_constructible_v<T, const Sx&>) { T b(t0); const T tmp(s); b = tmp; r.push_back(showG(b)); }
  { T b(t0); b = s; b = s; r.push_back(showG(b)); }
  return obs(same(r), showG(s), std::to_string(a.size()));
}
// sources for a target of static shape R x c (FM) or any shape (DM)
template<int c, class T> static std::string asgMatSources(const Case& cs, const T& t0, const K& k, Cur& cu)
{
  const std::string& s = cs.rep2;
  if (s == "K") return asgMat(t0, k);
  if (s == "FM") { FM<R, c> S; loadM(S, R, c, cu); return asgMat(t0, S); }
  if (s == "DM") { DM S(R, c); loadM(S, R, c, cu); return asgMat(t0, S); }
  if (s == "TF") { FM<c, R> W; loadM(W, c, R, cu); return asgMat(t0, transposedView(W).asDense()); }      // the FieldMatrix made by asDense()
  if (s == "TD") { DM W(c, R); loadM(W, c, R, cu); return asgMat(t0, transposedView(W).asDense()); }      // the DynamicMatrix made by asDense()
  if constexpr (R == c) {
    if (s == "DG") { DG<R> S; loadD(S, cu); return asgMat(t0, S); }
#if C01_HAS_SRC
    if (s == "XG") { DiagonalMatrix<S, R> Sx; for (int i = 0; i < R; ++i) Sx.diagonal(i) = toS(cu.next()); return asgMat(t0, Sx); }
#endif
  }
  if constexpr (R == 1 && c == 1) {
    if (s == "SV") { K v = cu.next(); auto S = Impl::asMatrix(v); return asgMat(t0, S); }
    if (s == "SC") { const K v = cu.next(); auto S = Impl::asMatrix(v); return asgMat(t0, S); }
  }
#if C01_HAS_SRC
  if (s == "XF") { FMS<R, c> Sx; loadMS(Sx, R, c, cu); return asgMat(t0, Sx); }
  if (s == "XD") { DynamicMatrix<S> Sx(R, c); loadMS(Sx, R, c, cu); return asgMat(t0, Sx); }
#endif
  throw std::runtime_error("xasgm source");
}
static std::string xasgm(const Case& cs, Cur& cu)
{
  K k = cu.next();
  std::string out;
  const std::string& d = cs.rep; const std::string& s = cs.rep2;
  if (d == "DM") {
    const int r0 = cs.p / 100, c0 = cs.p % 100;
    DM t0(r0, c0); loadM(t0, r0, c0, cu);
    if (s == "K") return asgMat(t0, k);                                              // scalar: no resize, fills the shape the matrix has
    if (s == "DM" || s == "TD") {
      if (s == "TD") { DM W(cs.c, cs.r); loadM(W, cs.c, cs.r, cu); return asgMat(t0, transposedView(W).asDense()); }
      DM S(cs.r, cs.c); loadM(S, cs.r, cs.c, cu); return asgMat(t0, S);
    }
#if C01_HAS_SRC
    if (s == "XD") { DynamicMatrix<S> Sx(cs.r, cs.c); loadMS(Sx, cs.r, cs.c, cu); return asgMat(t0, Sx); }
#endif
    if (cs.r != R) throw std::runtime_error("wrong TU");
    withDim(cs.c, [&](auto C) { constexpr int c = decltype(C)::value; out = asgMatSources<c>(cs, t0, k, cu); });
    return out;
  }
  if (cs.r != R) throw std::runtime_error("wrong TU");
  if (d == "FM") {
    withDim(cs.c, [&](auto C) { constexpr int c = decltype(C)::value; FM<R, c> t0; loadM(t0, R, c, cu); out = asgMatSources<c>(cs, t0, k, cu); });
    return out;
  }
  if (d == "DG") {
    DG<R> t0; loadD(t0, cu);
    if (s == "K") { DG<R> a(t0); a = k; DG<R> b(t0); b = k; b = k; return obs(same({show(a), show(b)}), show(k), dimsOf(a)); }
    DG<R> S; loadD(S, cu); DG<R> a(t0); a = S; DG<R> b(t0); DG<R> S2(S); b = std::move(S2);
    return obs(same({show(a), show(b)}), show(S), dimsOf(a));
  }
  if constexpr (R == 1) {
    if (d == "SV") {
      K t = cu.next(); auto a = Impl::asMatrix(t);
      if (s == "K") { a = k; return obs(show(t), show(k), dimsOf(a)); }
      K v = cu.next();
      if (s == "SV") { auto b = Impl::asMatrix(v); a = b; }
      else if (s == "SC") { const K cv = v; auto b = Impl::asMatrix(cv); a = b; }
      else if (s == "FM") { FM<1, 1> b; b[0][0] = v; a = b; v = b[0][0]; }
      else throw std::runtime_error("xasgm view source");
      return obs(show(t), show(v), dimsOf(a));
    }
  }
  throw std::runtime_error("xasgm target");
}
static std::string xasgv(const Case& cs, Cur& cu)
{
  K k = cu.next();
  const std::string& d = cs.rep; const std::string& s = cs.rep2;
  const int n = cs.r;
  if (d == "DV") {
    const int n0 = cs.p;
    DV t0(n0); loadV(t0, n0, cu);
    if (s == "K") return asgVec(t0, k);
    if (s == "DV") { DV S(n); loadV(S, n, cu); return asgVec(t0, S); }
#if C01_HAS_SRC
    if (s == "XW") { DynamicVector<S> Sx(n); loadVS(Sx, n, cu); return asgVec(t0, Sx); }
#endif
    if (n != R) throw std::runtime_error("wrong TU");
    if (s == "FV") { FV<R> S; loadV(S, R, cu); return asgVec(t0, S); }
    if constexpr (R == 1) { if (s == "SW") { K v = cu.next(); auto S = Impl::asVector(v); return asgVec(t0, S); } }
    throw std::runtime_error("xasgv source");
  }
  if (n != R) throw std::runtime_error("wrong TU");
  if (d == "FV") {
    FV<R> t0; loadV(t0, R, cu);
    if (s == "K") return asgVec(t0, k);
    if (s == "FV") { FV<R> S; loadV(S, R, cu); return asgVec(t0, S); }
    if (s == "DV") { DV S(R); loadV(S, R, cu); return asgVec(t0, S); }
#if C01_HAS_SRC
    if (s == "XV") { FVS<R> Sx; loadVS(Sx, R, cu); return asgVec(t0, Sx); }
    if (s == "XW") { DynamicVector<S> Sx(R); loadVS(Sx, R, cu); return asgVec(t0, Sx); }
#endif
    if constexpr (R == 1) { if (s == "SW") { K v = cu.next(); auto S = Impl::asVector(v); return asgVec(t0, S); } }
    throw std::runtime_error("xasgv source");
  }
  if constexpr (R == 1) {
    if (d == "SW") {
      K t = cu.next(); auto a = Impl::asVector(t);
      if (s == "K") { a = k; return obs(show(t), show(k), "1"); }
      K v = cu.next();
      if (s == "SW") { auto b = Impl::asVector(v); a = b; }
      else if (s == "SC") { const K cv = v; auto b = Impl::asVector(cv); a = b; }
      else if (s == "FV") { FV<1> b(v); a = b; v = b[0]; }
      else throw std::runtime_error("xasgv view source");
      return obs(show(t), show(v), "1");
    }
  }
  throw std::runtime_error("xasgv target");
}

static std::string runExtra(const Case& cs, Cur& cu)
{
  const std::string& op = cs.op;
  if (op == "xasgm") return xasgm(cs, cu);
  if (op == "xasgv") return xasgv(cs, cu);
  if (op == "xvelem" || op == "xmelem" || op == "xdelem" || op == "xkelemN" || op == "xkelemT") return xelem(cs, cu);
  if (op == "xmself") return xmself(cs, cu);
  if (op == "xhist") return xhist(cs, cu);
  if (op == "xalloc") return xalloc(cs, cu);
  if (op.rfind("xr_", 0) == 0 || op.rfind("xw_", 0) == 0) return xrecv(cs, cu);
  if (op == "xvself") return xvself(cs, cu);
  if (op == "xselfleft" || op == "xselfright") return xselfmul(cs, cu);
  if (op == "xfill") return xfill(cs, cu);
  if (op == "xcopy") return xcopy(cs, cu);
  if (op == "xmcopy") return xmcopy(cs, cu);
#if C01_HAS_SRC
  if (op == "xfield") return xfield(cs, cu);
  if (op.rfind("xmix", 0) == 0) return xmix(cs, cu);
#endif
  if (op.rfind("xfm11", 0) == 0 || op.rfind("xfv1", 0) == 0) return xone(cs, cu);
  if (op.rfind("xhelp", 0) == 0 || op == "xdotfree") return xhelp(cs, cu);
#ifdef C01_HAS_NORMS
  if (op == "xnorm") return xnorm(cs, cu);
#endif
  if (op == "xvaccess" || op == "xmaccess") return xaccess(cs, cu);
  if (op == "xdgadds" || op == "xdgsubs") return xdiag(cs, cu);
  if (op == "xview") return xview(cs, cu);
  if (op == "xtw") return xtw(cs, cu);
  if (op == "xresize") return xresize(cs, cu);
  throw std::runtime_error("unknown extra op");
}
