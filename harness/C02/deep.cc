// C02 deep stream: luDecomposition itself (protected) with ElimPivot: prints the pivot vector and the packed LU.
// Optional: if this file stops compiling after a refactoring of private members only the evidence is downgraded.
#include <config.h>
#include <cstdio>
#include <fstream>
#include <sstream>
#include <string>
#include <vector>
#include "gfp.hh"
#include <dune/common/fmatrix.hh>
#include <dune/common/dynmatrix.hh>
#include <dune/common/exceptions.hh>
using namespace Dune;

template<class M> struct Peek : public M
{
  typedef DenseMatrix<M> Base;
  static std::string run(M& A, int n, bool piv)
  {
    std::vector<Simd::Rebind<std::size_t, typename Base::value_type>> pivot(n);
    Simd::Mask<typename FieldTraits<typename Base::value_type>::real_type> nonsing(true);
    std::ostringstream o;
    try {
      Base::luDecomposition(A, typename Base::ElimPivot(pivot), nonsing, true, piv);
      o << "OK";
      for (int i = 0; i < n; i++) o << " " << pivot[i];
      o << " ;";
      for (int i = 0; i < n; i++) for (int j = 0; j < n; j++) o << " " << A[i][j].v;
    }
    catch (FMatrixError&) { o << "EXC FMatrixError"; }
    catch (C02DivByZero&) { o << "EXC DivByZero"; }
    return o.str();
  }
};
template<int n> static std::string run_F(bool piv, const std::vector<long>& v)
{
  FieldMatrix<GFp, n, n> A;
  for (int i = 0; i < n; i++) for (int j = 0; j < n; j++) A[i][j] = GFp(v[i * n + j]);
  return Peek<FieldMatrix<GFp, n, n>>::run(A, n, piv);
}
static std::string run_D(int n, bool piv, const std::vector<long>& v)
{
  DynamicMatrix<GFp> A(n, n);
  for (int i = 0; i < n; i++) for (int j = 0; j < n; j++) A[i][j] = GFp(v[i * n + j]);
  return Peek<DynamicMatrix<GFp>>::run(A, n, piv);
}
int main(int argc, char** argv)
{
  if (argc < 2) return 2;
  std::ifstream in(argv[1]);
  std::string line;
  while (std::getline(in, line)) {
    std::istringstream s(line);
    long p; std::string kind, op; int n, piv;
    s >> p >> kind >> op >> n >> piv;
    std::vector<long> v; long t; while (s >> t) v.push_back(t);
    GFp::P = p;
    std::string r = "BAD-CASE";
    if ((int)v.size() == n * n) {
      if (kind == "D") r = run_D(n, piv, v);
      else switch (n) {
        case 4: r = run_F<4>(piv, v); break; case 5: r = run_F<5>(piv, v); break; case 6: r = run_F<6>(piv, v); break;
        case 7: r = run_F<7>(piv, v); break; case 8: r = run_F<8>(piv, v); break; }
    }
    std::printf("%s\n", r.c_str()); std::fflush(stdout);
  }
  return 0;
}
