// C02 floating-point TEST (labelled test, NOT a proof): backward error of solve / invert over double, long double,
// complex<double> for matrices A = H1 * diag(s) * H2 (Householder reflections, geometric spectrum, prescribed
// condition number <= 1e6), n = 1..12, FieldMatrix (n<=6) and DynamicMatrix, with pivoting.
//   solve:  ||A x - b||_inf <= 64 n eps (||A||_inf ||x||_inf + ||b||_inf)
//   invert: ||A B - I||_max <= 64 n eps cond
//   determinant: |det - prod(s) * (+-1)| <= 64 n eps cond |prod s|      (real types)
// prints "FAIL <what> ..." lines and a summary; exit code 1 on any failure.
#include <config.h>
#include <cstdio>
#include <cstdlib>
#include <cmath>
#include <complex>
#include <limits>
#include <random>
#include <vector>
#include <dune/common/fmatrix.hh>
#include <dune/common/fvector.hh>
#include <dune/common/dynmatrix.hh>
#include <dune/common/dynvector.hh>
using namespace Dune;

static std::mt19937_64 rng;
template<class R> static R urand() { return R(std::uniform_real_distribution<double>(-1, 1)(rng)); }
template<class K> struct Rnd { static K get() { return K(urand<K>()); } };
template<class R> struct Rnd<std::complex<R>> { static std::complex<R> get() { return std::complex<R>(urand<R>(), urand<R>()); } };
template<class K> struct RealOf { typedef K type; };
template<class R> struct RealOf<std::complex<R>> { typedef R type; };
template<class K> static K cj(const K& x) { return x; }
template<class R> static std::complex<R> cj(const std::complex<R>& x) { return std::conj(x); }

static int fails = 0, runs = 0;

// dense n x n matrix with prescribed singular values: (I - 2 u u^H) diag(s) (I - 2 v v^H)
template<class K> static std::vector<std::vector<K>> make(int n, double cond, typename RealOf<K>::type& prods)
{
  typedef typename RealOf<K>::type R;
  std::vector<K> u(n), v(n); R nu = 0, nv = 0;
  for (int i = 0; i < n; i++) { u[i] = Rnd<K>::get(); v[i] = Rnd<K>::get(); nu += std::norm(u[i]); nv += std::norm(v[i]); }
  for (int i = 0; i < n; i++) { u[i] /= std::sqrt(nu); v[i] /= std::sqrt(nv); }
  std::vector<R> s(n); prods = 1;
  for (int i = 0; i < n; i++) { s[i] = std::pow(R(cond), n > 1 ? -R(i) / R(n - 1) : R(0)); prods *= s[i]; }
  std::vector<std::vector<K>> A(n, std::vector<K>(n));
  for (int i = 0; i < n; i++) for (int j = 0; j < n; j++) {
    K a = 0;
    for (int k = 0; k < n; k++) {
      K h1 = (i == k ? K(1) : K(0)) - K(2) * u[i] * cj(u[k]);
      K h2 = (k == j ? K(1) : K(0)) - K(2) * v[k] * cj(v[j]);
      a += h1 * K(s[k]) * h2;
    }
    A[i][j] = a;
  }
  return A;
}

template<class K, class M, class V> static void one(const char* what, int n, double cond, M A, V x, V b)
{
  typedef typename RealOf<K>::type R;
  const R eps = std::numeric_limits<R>::epsilon();
  R prods; auto a = make<K>(n, cond, prods);
  R nA = 0, nb = 0;
  for (int i = 0; i < n; i++) { R r = 0; for (int j = 0; j < n; j++) { A[i][j] = a[i][j]; r += std::abs(a[i][j]); } nA = std::max(nA, r); }
  for (int i = 0; i < n; i++) { b[i] = Rnd<K>::get(); nb = std::max(nb, R(std::abs(b[i]))); }
  runs++;
  try {
    A.solve(x, b);
    R nx = 0, res = 0;
    for (int i = 0; i < n; i++) nx = std::max(nx, R(std::abs(x[i])));
    for (int i = 0; i < n; i++) { K r = -b[i]; for (int j = 0; j < n; j++) r += a[i][j] * x[j]; res = std::max(res, R(std::abs(r))); }
    if (!(res <= 64 * n * eps * (nA * nx + nb))) {
      fails++; std::printf("FAIL solve-residual %s n=%d cond=%g res=%Lg bound=%Lg", what, n, cond, (long double)res, (long double)(64 * n * eps * (nA * nx + nb)));
      if (n <= 3) { std::printf(" A="); for (int i = 0; i < n; i++) for (int j = 0; j < n; j++) std::printf("(%La,%La)", (long double)std::real(a[i][j]), (long double)std::imag(a[i][j]));
                    std::printf(" b="); for (int i = 0; i < n; i++) std::printf("(%La,%La)", (long double)std::real(b[i]), (long double)std::imag(b[i])); }
      std::printf("\n"); }
    M B = A; B.invert();
    R dev = 0;
    for (int i = 0; i < n; i++) for (int j = 0; j < n; j++) { K r = (i == j ? K(-1) : K(0)); for (int k = 0; k < n; k++) r += a[i][k] * B[k][j]; dev = std::max(dev, R(std::abs(r))); }
    if (!(dev <= 64 * n * eps * R(cond))) { fails++; std::printf("FAIL invert-residual %s n=%d cond=%g dev=%Lg\n", what, n, cond, (long double)dev); }
    R d = std::abs(A.determinant());
    if (!(std::abs(d - prods) <= 64 * n * eps * R(cond) * prods)) { fails++; std::printf("FAIL determinant %s n=%d cond=%g |det|=%Lg expected %Lg\n", what, n, cond, (long double)d, (long double)prods); }
    for (int i = 0; i < n; i++) for (int j = 0; j < n; j++) if (A[i][j] != a[i][j]) { fails++; std::printf("FAIL inputs-modified %s n=%d\n", what, n); i = n; break; }
  } catch (Dune::Exception& e) { fails++; std::printf("FAIL exception %s n=%d cond=%g\n", what, n, cond); }
}

template<class K, int n> static void fm(const char* what, double cond)
{ one<K>(what, n, cond, FieldMatrix<K, n, n>(), FieldVector<K, n>(), FieldVector<K, n>()); }
template<class K> static void all(const char* what)
{
  for (double cond : {1.0, 1e2, 1e4, 1e6}) for (int rep = 0; rep < 6; rep++) {
    fm<K, 1>(what, 1.0); fm<K, 2>(what, cond); fm<K, 3>(what, cond); fm<K, 4>(what, cond); fm<K, 5>(what, cond); fm<K, 6>(what, cond);
    for (int n = 1; n <= 12; n++) one<K>(what, n, n == 1 ? 1.0 : cond, DynamicMatrix<K>(n, n), DynamicVector<K>(n), DynamicVector<K>(n));
  }
}

// exactly singular matrices (two identical small-integer rows, n >= 4): whatever the rounding, the two rows stay identical
// until one of them becomes the pivot row, the other is then eliminated with factor exactly 1 to an exact zero row:
// solve and invert must throw FMatrixError, determinant must be exactly 0 — for every floating-point field type.
template<class K, class M, class V> static void singular_one(const char* what, int n, M A, V x, V b)
{
  for (int i = 0; i < n; i++) for (int j = 0; j < n; j++) A[i][j] = K(double(int(rng() % 7) - 3));
  int r1 = rng() % n, r2 = (r1 + 1 + rng() % (n - 1)) % n;
  for (int j = 0; j < n; j++) A[r2][j] = A[r1][j];
  for (int i = 0; i < n; i++) b[i] = K(double(int(rng() % 5) - 2));
  runs++;
  bool thrown = false;
  try { A.solve(x, b); } catch (FMatrixError&) { thrown = true; }
  if (!thrown) { fails++; std::printf("FAIL singular-solve-not-reported %s n=%d\n", what, n); }
  thrown = false;
  try { M B = A; B.invert(); } catch (FMatrixError&) { thrown = true; }
  if (!thrown) { fails++; std::printf("FAIL singular-invert-not-reported %s n=%d\n", what, n); }
  if (!(std::abs(A.determinant()) == 0)) { fails++; std::printf("FAIL singular-determinant-nonzero %s n=%d\n", what, n); }
}
template<class K, int n> static void fsing(const char* what) { singular_one<K>(what, n, FieldMatrix<K, n, n>(), FieldVector<K, n>(), FieldVector<K, n>()); }
template<class K> static void all_singular(const char* what)
{
  for (int rep = 0; rep < 10; rep++) {
    fsing<K, 4>(what); fsing<K, 5>(what); fsing<K, 6>(what);
    for (int n = 4; n <= 9; n++) singular_one<K>(what, n, DynamicMatrix<K>(n, n), DynamicVector<K>(n), DynamicVector<K>(n));
  }
}
int main(int argc, char** argv)
{
  rng.seed(argc > 1 ? std::atoll(argv[1]) : 1);
  all<double>("double"); all<long double>("longdouble"); all<std::complex<double>>("complexdouble");
  all<float>("float"); all<std::complex<float>>("complexfloat");
  all_singular<float>("float"); all_singular<double>("double"); all_singular<long double>("longdouble");
  all_singular<std::complex<float>>("complexfloat"); all_singular<std::complex<double>>("complexdouble");
  std::printf("fp TEST (not a proof): %d matrices, %d failures\n", runs, fails);
  return fails ? 1 : 0;
}
