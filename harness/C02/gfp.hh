// C02 harness: a prime-field number class GF(p) usable as field_type of Dune dense matrices.
// The modulus is a run-time global (one set of template instantiations serves p = 7, 13, 31).
// abs() returns the class itself (representative in [0,p)), and the order relations compare
// representatives, so that `absreal(A[k][i]) > pivmax` picks the same pivot row as the Coq model
// instantiated with  absgt a b := rep a > rep b.
// Division by zero throws C02DivByZero (the model's C02_DivByZero result).
#ifndef VERIF_C02_GFP_HH
#define VERIF_C02_GFP_HH
#include <iostream>
#include <cmath>
#include <type_traits>
#include <dune/common/typetraits.hh>
#include <dune/common/ftraits.hh>
#include <dune/common/promotiontraits.hh>

struct C02DivByZero {};

struct GFp
{
  static inline long P = 7;
  long v;
  static long norm(long x) { x %= P; if (x < 0) x += P; return x; }
  GFp() : v(0) {}
  GFp(int x) : v(norm(x)) {}
  GFp(long x) : v(norm(x)) {}
  GFp(unsigned long x) : v(norm(long(x % (unsigned long)P))) {}
  GFp(unsigned x) : v(norm(long(x))) {}
  GFp(double x) : v(norm(long(x))) {}
  static GFp inv(const GFp& a)
  {
    if (a.v == 0) throw C02DivByZero();
    long r = 1, b = a.v, e = P - 2;          // Fermat
    while (e) { if (e & 1) r = r * b % P; b = b * b % P; e >>= 1; }
    return GFp(r);
  }
  GFp& operator+=(const GFp& o) { v = norm(v + o.v); return *this; }
  GFp& operator-=(const GFp& o) { v = norm(v - o.v); return *this; }
  GFp& operator*=(const GFp& o) { v = norm(v * o.v); return *this; }
  GFp& operator/=(const GFp& o) { v = norm(v * inv(o).v); return *this; }
  GFp operator-() const { return GFp(-v); }
  GFp operator+() const { return *this; }
  friend GFp operator+(GFp a, const GFp& b) { return a += b; }
  friend GFp operator-(GFp a, const GFp& b) { return a -= b; }
  friend GFp operator*(GFp a, const GFp& b) { return a *= b; }
  friend GFp operator/(GFp a, const GFp& b) { return a /= b; }
  friend bool operator==(const GFp& a, const GFp& b) { return a.v == b.v; }
  friend bool operator!=(const GFp& a, const GFp& b) { return a.v != b.v; }
  friend bool operator<(const GFp& a, const GFp& b) { return a.v < b.v; }
  friend bool operator>(const GFp& a, const GFp& b) { return a.v > b.v; }
  friend bool operator<=(const GFp& a, const GFp& b) { return a.v <= b.v; }
  friend bool operator>=(const GFp& a, const GFp& b) { return a.v >= b.v; }
  // comparison with a floating-point threshold (absreal(x) < FMatrixPrecision<>::absolute_limit() under
  // DUNE_FMatrix_WITH_CHECKING): the representative as a real number
  friend bool operator<(const GFp& a, double d) { return double(a.v) < d; }
  friend bool operator>(const GFp& a, double d) { return double(a.v) > d; }
  friend GFp abs(const GFp& a) { return a; }
  friend GFp sqrt(const GFp& a) { return a; }   // only to satisfy norms that are never called
  friend std::ostream& operator<<(std::ostream& s, const GFp& a) { return s << a.v; }
  friend std::istream& operator>>(std::istream& s, GFp& a) { long x; s >> x; a = GFp(x); return s; }
};

namespace Dune {
  template<> struct IsNumber<GFp> : public std::true_type {};
  template<> struct FieldTraits<GFp> { typedef GFp field_type; typedef GFp real_type; };
  template<> struct PromotionTraits<GFp, GFp> { typedef GFp PromotedType; };
}
#endif
