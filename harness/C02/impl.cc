// C02 impl driver: runs solve / invert / determinant of FieldMatrix, DynamicMatrix, DiagonalMatrix and
// FMatrixHelp::invertMatrix* of the CURRENT tree over GF(p) on the cases of argv[1]; one flushed line per case.
// case line:  p kind op n piv v...      kind: F FieldMatrix<GFp,n,n> | D DynamicMatrix<GFp> | G DiagonalMatrix<GFp,n> | H FMatrixHelp
//   op solve : n*n entries (row major) then n rhs entries        (G: n diagonal entries then n rhs)
//   op invert/det/hinv/hinvT : n*n entries                       (G: n diagonal entries)
//   op nsq (kind D only): n = rows, piv = cols: non-square matrix -> every call must throw FMatrixError
//   piv = 2: the call uses the DEFAULT argument (solve(x,b), invert(), determinant())
//   kinds X / Y: matrices obtained through converting constructor / assignment / copy, mixed vector types
//   op seq: det, solve, invert, det, invert, solve on ONE object
//   built a second time with -DDUNE_FMatrix_WITH_CHECKING (singular n<=3 must throw FMatrixError)
// output: "OK <numbers> | U" (U: A and b unchanged after the call, MOD otherwise), "EXC FMatrixError | U", "EXC DivByZero | U"
#include <config.h>
#include <cstdio>
#include <cstdlib>
#include <fstream>
#include <sstream>
#include <string>
#include <vector>
#include "gfp.hh"
#include <dune/common/fmatrix.hh>
#include <dune/common/fvector.hh>
#include <dune/common/dynmatrix.hh>
#include <dune/common/dynvector.hh>
#include <dune/common/diagonalmatrix.hh>
#include <dune/common/scalarmatrixview.hh>
#include <utility>
#include <dune/common/exceptions.hh>

using namespace Dune;
typedef std::vector<long> VL;

template<class M> static bool sameM(const M& A, const VL& v, int n)
{ for (int i = 0; i < n; i++) for (int j = 0; j < n; j++) if (A[i][j].v != GFp(v[i * n + j]).v) return false; return true; }
template<class V> static bool sameV(const V& b, const VL& v, int off, int n)
{ for (int i = 0; i < n; i++) if (b[i].v != GFp(v[off + i]).v) return false; return true; }

// op seq: a multi-step history on ONE object: det, solve, invert (in place), det of the inverse, invert back, solve again
template<class M, class VX, class V>
static std::string run_seq(M& A, VX& x, V& b, int n, int piv, const VL& v)
{
  std::ostringstream o; const char* stage = "det";
  for (int i = 0; i < n; i++) { b[i] = GFp(v[n * n + i]); x[i] = GFp(0); }
  try {
    GFp d = A.determinant(piv != 0); o << "OK " << d.v << " ;";
    stage = "solve"; A.solve(x, b, piv != 0); for (int i = 0; i < n; i++) o << " " << x[i].v; o << " ;";
    stage = "invert"; A.invert(piv != 0); for (int i = 0; i < n; i++) for (int j = 0; j < n; j++) o << " " << A[i][j].v; o << " ;";
    stage = "det2"; GFp d2 = A.determinant(piv != 0); o << " " << d2.v << " ;";
    stage = "invert2"; A.invert(piv != 0);
    stage = "solve2"; for (int i = 0; i < n; i++) x[i] = GFp(0); A.solve(x, b, piv != 0); for (int i = 0; i < n; i++) o << " " << x[i].v;
    o << " | " << ((sameM(A, v, n) && sameV(b, v, n * n, n)) ? "U" : "MOD");
  }
  catch (FMatrixError&) { o.str(""); o << "EXC FMatrixError @" << stage; }
  catch (C02DivByZero&) { o.str(""); o << "EXC DivByZero @" << stage; }
  return o.str();
}

template<class M, class VX, class V>
static std::string run_dense(M& A, VX& x, V& b, const std::string& op, int n, int piv, const VL& v, bool fill = true)
{
  std::ostringstream o;
  if (fill) for (int i = 0; i < n; i++) for (int j = 0; j < n; j++) A[i][j] = GFp(v[i * n + j]);
  if (op == "seq") return run_seq(A, x, b, n, piv, v);
  if (op == "solvealias") {                         // A.solve(x, x): the right-hand side IS the result vector
    for (int i = 0; i < n; i++) x[i] = GFp(v[n * n + i]);
    const M& Ac = A; const VX& xc = x;
    try { Ac.solve(x, xc, piv != 0); o << "OK"; for (int i = 0; i < n; i++) o << " " << x[i].v; }
    catch (FMatrixError&) { o << "EXC FMatrixError"; }
    catch (C02DivByZero&) { o << "EXC DivByZero"; }
    o << " | " << (sameM(A, v, n) ? "U" : "MOD");
    return o.str();
  }
  if (op == "solverow") {                           // A.solve(x, A[0]): the right-hand side is a sub-object (row 0) of the receiver
    for (int i = 0; i < n; i++) x[i] = GFp(0);
    const M& Ac = A;
    try { Ac.solve(x, Ac[0], piv != 0); o << "OK"; for (int i = 0; i < n; i++) o << " " << x[i].v; }
    catch (FMatrixError&) { o << "EXC FMatrixError"; }
    catch (C02DivByZero&) { o << "EXC DivByZero"; }
    o << " | " << (sameM(A, v, n) ? "U" : "MOD");
    return o.str();
  }
  if (op == "seqthrow") {                           // history: invert (may throw), then determinant and solve on the SAME object
    for (int i = 0; i < n; i++) { b[i] = GFp(v[n * n + i]); x[i] = GFp(0); }
    try { A.invert(piv != 0); o << "OK"; for (int i = 0; i < n; i++) for (int j = 0; j < n; j++) o << " " << A[i][j].v; }
    catch (FMatrixError&) { o << "EXC FMatrixError " << (sameM(A, v, n) ? "U" : "MOD"); }
    catch (C02DivByZero&) { o << "EXC DivByZero " << (sameM(A, v, n) ? "U" : "MOD"); }
    o << " ;";
    try { GFp d = A.determinant(piv != 0); o << " OK " << d.v; } catch (FMatrixError&) { o << " EXC FMatrixError"; } catch (C02DivByZero&) { o << " EXC DivByZero"; }
    o << " ;";
    try { A.solve(x, b, piv != 0); o << " OK"; for (int i = 0; i < n; i++) o << " " << x[i].v; } catch (FMatrixError&) { o << " EXC FMatrixError"; } catch (C02DivByZero&) { o << " EXC DivByZero"; }
    return o.str();
  }
  if (op == "solve") {
    for (int i = 0; i < n; i++) { b[i] = GFp(v[n * n + i]); x[i] = GFp(0); }
    const M& Ac = A; const V& bc = b;
    std::string r;
    try { if (piv == 2) Ac.solve(x, bc); else Ac.solve(x, bc, piv != 0); o << "OK"; for (int i = 0; i < n; i++) o << " " << x[i].v; }
    catch (FMatrixError&) { o << "EXC FMatrixError"; }
    catch (C02DivByZero&) { o << "EXC DivByZero"; }
    o << " | " << ((sameM(A, v, n) && sameV(b, v, n * n, n)) ? "U" : "MOD");
  } else if (op == "det") {
    const M& Ac = A;
    try { GFp d = (piv == 2) ? Ac.determinant() : Ac.determinant(piv != 0); o << "OK " << d.v; }
    catch (FMatrixError&) { o << "EXC FMatrixError"; }
    catch (C02DivByZero&) { o << "EXC DivByZero"; }
    o << " | " << (sameM(A, v, n) ? "U" : "MOD");
  } else if (op == "invert") {
    // after an exception the matrix object must be what it was (flag U)
    try { if (piv == 2) A.invert(); else A.invert(piv != 0); o << "OK"; for (int i = 0; i < n; i++) for (int j = 0; j < n; j++) o << " " << A[i][j].v; }
    catch (FMatrixError&) { o << "EXC FMatrixError | " << (sameM(A, v, n) ? "U" : "MOD"); }
    catch (C02DivByZero&) { o << "EXC DivByZero | " << (sameM(A, v, n) ? "U" : "MOD"); }
  } else o << "UNKNOWN-OP";
  return o.str();
}

template<int n> static std::string run_F(const std::string& op, int piv, const VL& v)
{
  FieldMatrix<GFp, n, n> A; FieldVector<GFp, n> x, b;
  return run_dense(A, x, b, op, n, piv, v);
}
// kind X: FieldMatrix built by the converting constructor from a DynamicMatrix; x is a DynamicVector, b a FieldVector
template<int n> static std::string run_X(const std::string& op, int piv, const VL& v)
{
  DynamicMatrix<GFp> D(n, n);
  for (int i = 0; i < n; i++) for (int j = 0; j < n; j++) D[i][j] = GFp(v[i * n + j]);
  FieldMatrix<GFp, n, n> A(D); DynamicVector<GFp> x(n); FieldVector<GFp, n> b;
  return run_dense(A, x, b, op, n, piv, v, false);
}
// kind Y: DynamicMatrix assigned from a FieldMatrix, then copy-constructed; x is a FieldVector, b a DynamicVector
template<int n> static std::string run_Y(const std::string& op, int piv, const VL& v)
{
  FieldMatrix<GFp, n, n> Fm;
  for (int i = 0; i < n; i++) for (int j = 0; j < n; j++) Fm[i][j] = GFp(v[i * n + j]);
  DynamicMatrix<GFp> A0; A0 = Fm; DynamicMatrix<GFp> A(A0); FieldVector<GFp, n> x; DynamicVector<GFp> b(n);
  return run_dense(A, x, b, op, n, piv, v, false);
}
// kind Z: FieldMatrix after self-assignment, move construction, move assignment and std::swap with another matrix
template<int n> static std::string run_Z(const std::string& op, int piv, const VL& v)
{
  FieldMatrix<GFp, n, n> A0, other(GFp(1));
  for (int i = 0; i < n; i++) for (int j = 0; j < n; j++) A0[i][j] = GFp(v[i * n + j]);
  A0 = *&A0;                                   // self-assignment
  FieldMatrix<GFp, n, n> A1(std::move(A0));    // move construction
  FieldMatrix<GFp, n, n> A2; A2 = std::move(A1); // move assignment
  using std::swap; swap(A2, other);            // swap: `other` now holds the matrix
  FieldMatrix<GFp, n, n>& A = other; FieldVector<GFp, n> x, b;
  return run_dense(A, x, b, op, n, piv, v, false);
}
// kind W: the same for DynamicMatrix
static std::string run_W(const std::string& op, int n, int piv, const VL& v)
{
  DynamicMatrix<GFp> A0(n, n), other(n, n, GFp(1));
  for (int i = 0; i < n; i++) for (int j = 0; j < n; j++) A0[i][j] = GFp(v[i * n + j]);
  A0 = *&A0;
  DynamicMatrix<GFp> A1(std::move(A0));
  DynamicMatrix<GFp> A2; A2 = std::move(A1);
  using std::swap; swap(A2, other);
  DynamicVector<GFp> x(n), b(n);
  return run_dense(other, x, b, op, n, piv, v, false);
}
// kind R: a DynamicMatrix with a HISTORY: used as a 3x3 matrix (determinant, invert), then resize(n,n), refilled, used again
static std::string run_R(const std::string& op, int n, int piv, const VL& v)
{
  DynamicMatrix<GFp> A(3, 3, GFp(0));
  A[0][0] = GFp(1); A[1][1] = GFp(2); A[2][2] = GFp(3); A[0][2] = GFp(1);
  volatile long sink = A.determinant().v; (void)sink;
  try { A.invert(); } catch (...) {}
  A.resize(n, n);
  DynamicVector<GFp> x(n), b(n);
  return run_dense(A, x, b, op, n, piv, v);
}
// kind V: Impl::ScalarMatrixView<GFp> (a 1x1 DenseMatrix viewing a scalar) as receiver
static std::string run_V(const std::string& op, int piv, const VL& v)
{
  GFp s(v[0]); auto A = Impl::asMatrix(s); FieldVector<GFp, 1> x, b;
  std::string r = run_dense(A, x, b, op, 1, piv, v, false);
  if (op == "invert" && r.substr(0, 2) == "OK" && !(s.v == A[0][0].v)) r += " VIEW-DETACHED";
  return r;
}
template<int r, int c> static std::string run_nsqF()
{
  FieldMatrix<GFp, r, c> A(GFp(1)); DynamicVector<GFp> x(c), b(r);   // (FieldVectors of the two different sizes do not compile in solve)
  std::ostringstream o;
  const FieldMatrix<GFp, r, c>& Ac = A;
  try { Ac.solve(x, b); o << "OK"; } catch (FMatrixError&) { o << "EXC FMatrixError"; } catch (C02DivByZero&) { o << "EXC DivByZero"; }
  try { (void)Ac.determinant(); o << " OK"; } catch (FMatrixError&) { o << " EXC FMatrixError"; } catch (C02DivByZero&) { o << " EXC DivByZero"; }
  try { A.invert(); o << " OK"; } catch (FMatrixError&) { o << " EXC FMatrixError"; } catch (C02DivByZero&) { o << " EXC DivByZero"; }
  return o.str();
}
static std::string run_D(const std::string& op, int n, int piv, const VL& v)
{
  DynamicMatrix<GFp> A(n, n); DynamicVector<GFp> x(n), b(n);
  return run_dense(A, x, b, op, n, piv, v);
}
static std::string run_nsq(int r, int c)
{
  DynamicMatrix<GFp> A(r, c, GFp(1)); DynamicVector<GFp> x(c), b(r);
  std::ostringstream o;
  const DynamicMatrix<GFp>& Ac = A;
  try { Ac.solve(x, b); o << "OK"; } catch (FMatrixError&) { o << "EXC FMatrixError"; } catch (C02DivByZero&) { o << "EXC DivByZero"; }
  try { (void)Ac.determinant(); o << " OK"; } catch (FMatrixError&) { o << " EXC FMatrixError"; } catch (C02DivByZero&) { o << " EXC DivByZero"; }
  try { A.invert(); o << " OK"; } catch (FMatrixError&) { o << " EXC FMatrixError"; } catch (C02DivByZero&) { o << " EXC DivByZero"; }
  return o.str();
}
template<int n> static std::string run_G(const std::string& op, const VL& v)
{
  DiagonalMatrix<GFp, n> A; FieldVector<GFp, n> x, b;
  std::ostringstream o;
  for (int i = 0; i < n; i++) A.diagonal(i) = GFp(v[i]);
  auto unch = [&]() { for (int i = 0; i < n; i++) if (A.diagonal(i).v != GFp(v[i]).v) return false; return true; };
  try {
    if (op == "solve") {
      for (int i = 0; i < n; i++) { b[i] = GFp(v[n + i]); x[i] = GFp(0); }
      const DiagonalMatrix<GFp, n>& Ac = A; const FieldVector<GFp, n>& bc = b;
      try { Ac.solve(x, bc); o << "OK"; for (int i = 0; i < n; i++) o << " " << x[i].v; }
      catch (C02DivByZero&) { o << "EXC DivByZero"; }
      o << " | " << ((unch() && sameV(b, v, n, n)) ? "U" : "MOD");
    } else if (op == "solvedyn" || op == "solvealias") {   // V = DynamicVector; and A.solve(x, x)
      DynamicVector<GFp> xd(n), bd(n);
      for (int i = 0; i < n; i++) { bd[i] = GFp(v[n + i]); xd[i] = (op == "solvealias") ? GFp(v[n + i]) : GFp(0); }
      const DiagonalMatrix<GFp, n>& Ac = A; const DynamicVector<GFp>& bc = (op == "solvealias") ? xd : bd;
      try { Ac.solve(xd, bc); o << "OK"; for (int i = 0; i < n; i++) o << " " << xd[i].v; }
      catch (C02DivByZero&) { o << "EXC DivByZero"; }
      o << " | " << (unch() ? "U" : "MOD");
    } else if (op == "det") {
      const DiagonalMatrix<GFp, n>& Ac = A;
      GFp d = Ac.determinant(); o << "OK " << d.v << " | " << (unch() ? "U" : "MOD");
    } else if (op == "invert") {
      try { A.invert(); o << "OK"; for (int i = 0; i < n; i++) o << " " << A.diagonal(i).v; }
      catch (C02DivByZero&) { o << "EXC DivByZero"; }
    } else o << "UNKNOWN-OP";
  } catch (FMatrixError&) { o << "EXC FMatrixError"; }
  return o.str();
}
template<int n> static std::string run_H(const std::string& op, const VL& v)
{
  FieldMatrix<GFp, n, n> A, B;
  for (int i = 0; i < n; i++) for (int j = 0; j < n; j++) { A[i][j] = GFp(v[i * n + j]); B[i][j] = GFp(0); }
  std::ostringstream o;
  const FieldMatrix<GFp, n, n>& Ac = A;
  if (op == "hinvalias") {                          // invertMatrix(M, M): outside the documented contract, observed only
    try { GFp d = FMatrixHelp::invertMatrix(Ac, A); o << "OK " << d.v << " ;"; for (int i = 0; i < n; i++) for (int j = 0; j < n; j++) o << " " << A[i][j].v; }
    catch (FMatrixError&) { o << "EXC FMatrixError"; } catch (C02DivByZero&) { o << "EXC DivByZero"; }
    return o.str();
  }
  try {
    GFp d = (op == "hinv") ? FMatrixHelp::invertMatrix(Ac, B) : FMatrixHelp::invertMatrix_retTransposed(Ac, B);
    o << "OK " << d.v << " ;";
    for (int i = 0; i < n; i++) for (int j = 0; j < n; j++) o << " " << B[i][j].v;
  }
  catch (FMatrixError&) { o << "EXC FMatrixError"; }
  catch (C02DivByZero&) { o << "EXC DivByZero"; }
  o << " | " << (sameM(A, v, n) ? "U" : "MOD");
  return o.str();
}

int main(int argc, char** argv)
{
  if (argc < 2) return 2;
  std::ifstream in(argv[1]);
  std::string line;
  while (std::getline(in, line)) {
    std::istringstream s(line);
    long p; std::string kind, op; int n, piv;
    s >> p >> kind >> op >> n >> piv;
    VL v; long t; while (s >> t) v.push_back(t);
    GFp::P = p;
    std::string r = "BAD-CASE";
    bool rhs = (op == "solve" || op == "seq" || op == "solvealias" || op == "seqthrow" || op == "solvedyn");
    size_t need = (kind == "G") ? (rhs ? 2 * n : n) : (rhs ? n * n + n : n * n);
    if (op == "nsq" && kind == "F") {
      if (n == 2 && piv == 3) r = run_nsqF<2, 3>(); else if (n == 3 && piv == 2) r = run_nsqF<3, 2>();
      else if (n == 1 && piv == 2) r = run_nsqF<1, 2>(); else if (n == 4 && piv == 5) r = run_nsqF<4, 5>(); }
    else if (op == "nsq") r = run_nsq(n, piv);
    else if (v.size() != need || n < 1) r = "BAD-CASE";
    else if (kind == "D") r = run_D(op, n, piv, v);
    else if (kind == "W") r = run_W(op, n, piv, v);
    else if (kind == "R") r = run_R(op, n, piv, v);
    else if (kind == "V") r = (n == 1) ? run_V(op, piv, v) : "BAD-CASE";
    else if (kind == "Z") switch (n) {
      case 1: r = run_Z<1>(op, piv, v); break; case 2: r = run_Z<2>(op, piv, v); break;
      case 3: r = run_Z<3>(op, piv, v); break; case 4: r = run_Z<4>(op, piv, v); break;
      case 5: r = run_Z<5>(op, piv, v); break; case 6: r = run_Z<6>(op, piv, v); break; }
    else if (kind == "F") switch (n) {
      case 1: r = run_F<1>(op, piv, v); break; case 2: r = run_F<2>(op, piv, v); break;
      case 3: r = run_F<3>(op, piv, v); break; case 4: r = run_F<4>(op, piv, v); break;
      case 5: r = run_F<5>(op, piv, v); break; case 6: r = run_F<6>(op, piv, v); break;
      case 7: r = run_F<7>(op, piv, v); break; case 8: r = run_F<8>(op, piv, v); break; }
    else if (kind == "X") switch (n) {
      case 1: r = run_X<1>(op, piv, v); break; case 2: r = run_X<2>(op, piv, v); break;
      case 3: r = run_X<3>(op, piv, v); break; case 4: r = run_X<4>(op, piv, v); break;
      case 5: r = run_X<5>(op, piv, v); break; case 6: r = run_X<6>(op, piv, v); break; }
    else if (kind == "Y") switch (n) {
      case 1: r = run_Y<1>(op, piv, v); break; case 2: r = run_Y<2>(op, piv, v); break;
      case 3: r = run_Y<3>(op, piv, v); break; case 4: r = run_Y<4>(op, piv, v); break;
      case 5: r = run_Y<5>(op, piv, v); break; case 6: r = run_Y<6>(op, piv, v); break; }
    else if (kind == "G") switch (n) {
      case 1: r = run_G<1>(op, v); break; case 2: r = run_G<2>(op, v); break;
      case 3: r = run_G<3>(op, v); break; case 4: r = run_G<4>(op, v); break;
      case 5: r = run_G<5>(op, v); break; case 6: r = run_G<6>(op, v); break; }
    else if (kind == "H") switch (n) {
      case 1: r = run_H<1>(op, v); break; case 2: r = run_H<2>(op, v); break; case 3: r = run_H<3>(op, v); break; }
    std::printf("%s\n", r.c_str());
    std::fflush(stdout);
  }
  return 0;
}
