// C02 magnitude stream (round 6): solve / invert / determinant of FLOATING-POINT matrices whose entries are small integers
// times powers of two:  A'[i][j] = a_ij * 2^(e_i + f_j),  b'[i] = b_i * 2^g   (A' = diag(2^e) * A * diag(2^f)).
// Scaling by powers of two is exact in binary floating point, so results are printed EXACTLY (odd mantissa and binary
// exponent) and compared with rational arithmetic by checks/C02.py.
// case line:  Q <T><K><S> <op> <n> <piv> e_0..e_{n-1} f_0..f_{n-1} g a_00..a_{n-1,n-1} [b_0..b_{n-1}]
//   T: d double | l long double | f float | c complex<double> (real entries) | i complex<double> (entries times the unit i)
//   K: F FieldMatrix<T,n,n> (n <= 6) | D DynamicMatrix<T>;   S: x / m (stream tag, ignored here)
//   op: solve | invert | det;  piv: 0 | 1 | 2 (default argument)
// output: "OK v v ... | U"  (v = <odd mantissa in hex>p<binary exponent> | 0 | inf | nan; complex: re,im)  or  "EXC <class> | U"
//   (U: A' and b' bitwise what they were; for invert the matrix object is compared only after an exception)
// With -DDUNE_FMatrix_WITH_CHECKING the same driver is the checking build.
#include <config.h>
#include <cstdio>
#include <cmath>
#include <complex>
#include <fstream>
#include <sstream>
#include <string>
#include <vector>
#include <dune/common/fmatrix.hh>
#include <dune/common/fvector.hh>
#include <dune/common/dynmatrix.hh>
#include <dune/common/dynvector.hh>
#include <dune/common/exceptions.hh>
using namespace Dune;
typedef std::vector<long> VL;

static std::string num(long double d)
{
  if (std::isnan(d)) return "nan";
  if (std::isinf(d)) return d > 0 ? "inf" : "-inf";
  if (d == 0) return "0";
  int e; long double m = std::frexp(d, &e);           // |m| in [0.5, 1)
  bool neg = m < 0; if (neg) m = -m;
  unsigned long long u = (unsigned long long)std::ldexp(m, 64); e -= 64;   // exact: at most 64 mantissa bits
  while (!(u & 1)) { u >>= 1; e++; }
  char buf[96]; std::snprintf(buf, sizeof buf, "%s%llxp%d", neg ? "-" : "", u, e); return buf;
}
template<class R> static std::string str(const R& x) { return num((long double)x); }
template<class R> static std::string str(const std::complex<R>& x) { return num((long double)x.real()) + "," + num((long double)x.imag()); }

template<class K> struct Mk { static K get(long a, int e, bool) { return K(std::ldexp((long double)a, e)); } };
template<class R> struct Mk<std::complex<R>> {
  static std::complex<R> get(long a, int e, bool imag) { R v = R(std::ldexp((long double)a, e)); return imag ? std::complex<R>(0, v) : std::complex<R>(v, 0); } };
template<class K> static bool same(const K& a, const K& b) { return a == b; }

template<class K, class M, class V>
static std::string run(M& A, V& x, V& b, const std::string& op, int n, int piv, bool imag, const VL& v)
{
  const long* e = &v[0]; const long* f = &v[n]; long g = v[2 * n]; const long* a = &v[2 * n + 1];
  for (int i = 0; i < n; i++) for (int j = 0; j < n; j++) A[i][j] = Mk<K>::get(a[i * n + j], int(e[i] + f[j]), imag);
  if (op == "solve") for (int i = 0; i < n; i++) { b[i] = Mk<K>::get(a[n * n + i], int(g), false); x[i] = K(0); }
  M A0 = A; V b0 = b;
  auto unchangedA = [&]() { for (int i = 0; i < n; i++) for (int j = 0; j < n; j++) if (!same(A[i][j], A0[i][j])) return false; return true; };
  auto unchangedb = [&]() { if (op != "solve") return true; for (int i = 0; i < n; i++) if (!same(b[i], b0[i])) return false; return true; };
  std::ostringstream o;
  try {
    if (op == "solve") {
      const M& Ac = A; const V& bc = b;
      if (piv == 2) Ac.solve(x, bc); else Ac.solve(x, bc, piv != 0);
      o << "OK"; for (int i = 0; i < n; i++) o << " " << str(x[i]);
      o << " | " << (unchangedA() && unchangedb() ? "U" : "MOD");
    } else if (op == "det") {
      const M& Ac = A; K d = (piv == 2) ? Ac.determinant() : Ac.determinant(piv != 0);
      o << "OK " << str(d) << " | " << (unchangedA() ? "U" : "MOD");
    } else {
      if (piv == 2) A.invert(); else A.invert(piv != 0);
      o << "OK"; for (int i = 0; i < n; i++) for (int j = 0; j < n; j++) o << " " << str(A[i][j]);
      o << " | U";
    }
  }
  catch (FMatrixError&) { o.str(""); o << "EXC FMatrixError | " << (unchangedA() && unchangedb() ? "U" : "MOD"); }
  catch (Dune::Exception&) { o.str(""); o << "EXC DuneException | " << (unchangedA() && unchangedb() ? "U" : "MOD"); }
  catch (std::exception&) { o.str(""); o << "EXC std | U"; }
  return o.str();
}
template<class K, int n> static std::string run_F(const std::string& op, int piv, bool imag, const VL& v)
{ FieldMatrix<K, n, n> A; FieldVector<K, n> x, b; return run<K>(A, x, b, op, n, piv, imag, v); }
template<class K> static std::string run_D(const std::string& op, int n, int piv, bool imag, const VL& v)
{ DynamicMatrix<K> A(n, n); DynamicVector<K> x(n), b(n); return run<K>(A, x, b, op, n, piv, imag, v); }
template<class K> static std::string dispatch(char kind, const std::string& op, int n, int piv, bool imag, const VL& v)
{
  if (kind == 'D') return run_D<K>(op, n, piv, imag, v);
  switch (n) {
    case 1: return run_F<K, 1>(op, piv, imag, v); case 2: return run_F<K, 2>(op, piv, imag, v); case 3: return run_F<K, 3>(op, piv, imag, v);
    case 4: return run_F<K, 4>(op, piv, imag, v); case 5: return run_F<K, 5>(op, piv, imag, v); case 6: return run_F<K, 6>(op, piv, imag, v);
  }
  return "BAD-CASE";
}

int main(int argc, char** argv)
{
  if (argc < 2) return 2;
  std::ifstream in(argv[1]);
  std::string line;
  while (std::getline(in, line)) {
    std::istringstream s(line);
    std::string q, kind, op; int n, piv;
    s >> q >> kind >> op >> n >> piv;
    VL v; long t; while (s >> t) v.push_back(t);
    std::string r = "BAD-CASE";
    if (q == "Q" && kind.size() >= 2 && n >= 1 && n <= 16 && (long)v.size() == 2 * n + 1 + n * n + (op == "solve" ? n : 0)) {
      char T = kind[0], K = kind[1];
      if (T == 'd') r = dispatch<double>(K, op, n, piv, false, v);
      else if (T == 'l') r = dispatch<long double>(K, op, n, piv, false, v);
      else if (T == 'f') r = dispatch<float>(K, op, n, piv, false, v);
      else if (T == 'c') r = dispatch<std::complex<double>>(K, op, n, piv, false, v);
      else if (T == 'i') r = dispatch<std::complex<double>>(K, op, n, piv, true, v);
    }
    std::printf("%s\n", r.c_str()); std::fflush(stdout);
  }
  return 0;
}
