// C02 SIMD stream: solve / invert / determinant of FieldMatrix<LoopSIMD<double,L>,n,n> (L = 2, 4) and
// DynamicMatrix<LoopSIMD<double,4>>, n = 1..6 (closed forms n <= 3: regular lanes only).  Lanes hold DIFFERENT small-integer matrices (different pivot patterns,
// regular and exactly singular lanes); the generator only emits lanes on which the elimination is exact in binary
// floating point, so the printed doubles can be compared exactly with rational arithmetic.
// case line:  0 kind op n piv v...   kind: S2 | S4 (FieldMatrix<LoopSIMD<double,L>,n,n>) | T4 (DynamicMatrix<LoopSIMD<double,4>>)
//   v: for each lane: n*n entries (row major) [then n rhs entries for solve]
// output: "OK <lane 0 values> ; <lane 1 values> ; ... | U"   or  "EXC FMatrixError | U"   (U: A and b unchanged in every lane)
#include <config.h>
#include <cstdio>
#include <fstream>
#include <sstream>
#include <string>
#include <vector>
#include <dune/common/simd/loop.hh>
#include <dune/common/fmatrix.hh>
#include <dune/common/fvector.hh>
#include <dune/common/dynmatrix.hh>
#include <dune/common/dynvector.hh>
#include <dune/common/exceptions.hh>
using namespace Dune;
typedef std::vector<long> VL;

static std::string num(double d) { char buf[64]; std::snprintf(buf, sizeof buf, "%.17g", d); return buf; }

template<class K, class M, class V>
static std::string run(M& A, V& x, V& b, const std::string& op, int n, int L, bool piv, const VL& v)
{
  const int per = n * n + (op == "solve" ? n : 0);
  for (int l = 0; l < L; l++) {
    for (int i = 0; i < n; i++) for (int j = 0; j < n; j++) Simd::lane(l, A[i][j]) = double(v[l * per + i * n + j]);
    if (op == "solve") for (int i = 0; i < n; i++) { Simd::lane(l, b[i]) = double(v[l * per + n * n + i]); Simd::lane(l, x[i]) = 0.0; }
  }
  auto unchanged = [&]() {
    for (int l = 0; l < L; l++) {
      for (int i = 0; i < n; i++) for (int j = 0; j < n; j++) if (Simd::lane(l, A[i][j]) != double(v[l * per + i * n + j])) return false;
      if (op == "solve") for (int i = 0; i < n; i++) if (Simd::lane(l, b[i]) != double(v[l * per + n * n + i])) return false;
    }
    return true; };
  std::ostringstream o;
  try {
    if (op == "solve") {
      const M& Ac = A; const V& bc = b; Ac.solve(x, bc, piv);
      o << "OK"; for (int l = 0; l < L; l++) { if (l) o << " ;"; for (int i = 0; i < n; i++) o << " " << num(Simd::lane(l, x[i])); }
      o << " | " << (unchanged() ? "U" : "MOD");
    } else if (op == "det") {
      const M& Ac = A; K d = Ac.determinant(piv);
      o << "OK"; for (int l = 0; l < L; l++) { if (l) o << " ;"; o << " " << num(Simd::lane(l, d)); }
      o << " | " << (unchanged() ? "U" : "MOD");
    } else {
      M B = A; B.invert(piv);
      o << "OK"; for (int l = 0; l < L; l++) { if (l) o << " ;"; for (int i = 0; i < n; i++) for (int j = 0; j < n; j++) o << " " << num(Simd::lane(l, B[i][j])); }
      o << " | " << (unchanged() ? "U" : "MOD");
    }
  } catch (FMatrixError&) { o.str(""); o << "EXC FMatrixError | " << (unchanged() ? "U" : "MOD"); }
  return o.str();
}
template<int L, int n> static std::string run_S(const std::string& op, bool piv, const VL& v)
{ typedef LoopSIMD<double, L> K; FieldMatrix<K, n, n> A; FieldVector<K, n> x, b; return run<K>(A, x, b, op, n, L, piv, v); }
static std::string run_T(const std::string& op, int n, bool piv, const VL& v)
{ typedef LoopSIMD<double, 4> K; DynamicMatrix<K> A(n, n); DynamicVector<K> x(n), b(n); return run<K>(A, x, b, op, n, 4, piv, v); }

int main(int argc, char** argv)
{
  if (argc < 2) return 2;
  std::ifstream in(argv[1]);
  std::string line;
  while (std::getline(in, line)) {
    std::istringstream s(line);
    long p; std::string kind, op; int n, piv;
    s >> p >> kind >> op >> n >> piv;
    VL v; long t; while (s >> t) v.push_back(t);
    int L = (kind == "S2") ? 2 : 4;
    std::string r = "BAD-CASE";
    if ((int)v.size() == L * (n * n + (op == "solve" ? n : 0))) {
      if (kind == "T4") r = run_T(op, n, piv, v);
      else if (kind == "S2") switch (n) { case 1: r = run_S<2, 1>(op, piv, v); break; case 2: r = run_S<2, 2>(op, piv, v); break; case 3: r = run_S<2, 3>(op, piv, v); break; case 4: r = run_S<2, 4>(op, piv, v); break; case 5: r = run_S<2, 5>(op, piv, v); break; case 6: r = run_S<2, 6>(op, piv, v); break; }
      else if (kind == "S4") switch (n) { case 1: r = run_S<4, 1>(op, piv, v); break; case 2: r = run_S<4, 2>(op, piv, v); break; case 3: r = run_S<4, 3>(op, piv, v); break; case 4: r = run_S<4, 4>(op, piv, v); break; case 5: r = run_S<4, 5>(op, piv, v); break; case 6: r = run_S<4, 6>(op, piv, v); break; }
    }
    std::printf("%s\n", r.c_str()); std::fflush(stdout);
  }
  return 0;
}
