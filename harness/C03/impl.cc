// C03 impl driver: executes histories on Dune::ParallelIndexSet<int, ParallelLocalIndex<Attr>, N> and
// Dune::GlobalLookupIndexSet built from the working tree.  One output line per case (history), the
// outputs of the ops joined by ';', same canonical form as ml/C03_driver.ml.
// Case line:  N chk op op ...   (chk must match how this binary was built: 1 = without NDEBUG, 0 = with NDEBUG)
//   B | A:g:loc:attr:pub | D:k | E | R | X:g | T:g | G:g | S | Q | M | I | V:l | W:sz:l
// Only the public API is used.
#include <config.h>
#include <cstdio>
#include <cstdlib>
#include <fstream>
#include <iostream>
#include <sstream>
#include <string>
#include <vector>
#include <dune/common/exceptions.hh>
#include <dune/common/parallel/indexset.hh>
#include <dune/common/parallel/plocalindex.hh>

enum Attr { a0 = 0, a1, a2, a3, a4, a5, a6, a7 };
typedef Dune::ParallelLocalIndex<Attr> LI;

template<class P>
static std::string pstr(const P& p)
{
  char buf[128];
  std::snprintf(buf, sizeof buf, "(%d,%zu,%d,%d,%s)", (int) p.global(), (std::size_t) p.local().local(),
                (int) p.local().attribute(), p.local().isPublic() ? 1 : 0,
                p.local().state() == Dune::DELETED ? "D" : (p.local().state() == Dune::VALID ? "V" : "?"));
  return buf;
}

static std::vector<long> fields(const std::string& s)
{
  std::vector<long> r; std::string w; std::istringstream is(s);
  bool first = true;
  while (std::getline(is, w, ':')) { if (first) { first = false; continue; } r.push_back(std::stol(w)); }
  return r;
}

template<int N>
static std::string run(const std::vector<std::string>& t)
{
  typedef Dune::ParallelIndexSet<int, LI, N> Set;
  Set s;
  const Set& cs = s;
#ifdef NDEBUG
  const bool checking = false;
#else
  const bool checking = true;
#endif
  std::string out;
  for (std::size_t i = 2; i < t.size(); ++i) {
    const std::string& op = t[i];
    std::vector<long> f = fields(op);
    std::string r;
    try {
      switch (op[0]) {
      case 'B': s.beginResize(); r = "ok"; break;
      case 'A': s.add((int) f[0], LI((std::size_t) f[1], (Attr) f[2], f[3] != 0)); r = "ok"; break;
      case 'D': {
        std::size_t k = (std::size_t) f[0];
        if (k >= s.size() && (!checking || s.state() == Dune::RESIZE)) { r = "PRECOND"; break; }
        typename Set::iterator it = s.begin();
        for (std::size_t j = 0; j < k; ++j) ++it;
        s.markAsDeleted(it); r = "ok"; break;
      }
      case 'E': s.endResize(); r = "ok"; break;
      case 'R': s.renumberLocal(); r = "ok"; break;
      case 'X': r = cs.exists((int) f[0]) ? "1" : "0"; break;
      case 'T': {
        std::string r1, r2;
        try { r1 = pstr(s.at((int) f[0])); } catch (Dune::RangeError&) { r1 = "EXC RangeError"; }
        try { r2 = pstr(cs.at((int) f[0])); } catch (Dune::RangeError&) { r2 = "EXC RangeError"; }
        r = (r1 == r2) ? r1 : ("nonconst=" + r1 + ",const=" + r2); break;
      }
      case 'G': {
        if (s.size() == 0) { r = "PRECOND"; break; }
        std::string r1 = pstr(s[(int) f[0]]), r2 = pstr(cs[(int) f[0]]);
        r = (r1 == r2) ? r1 : ("nonconst=" + r1 + ",const=" + r2); break;
      }
      case 'S': r = std::to_string(cs.size()); break;
      case 'Q': r = std::to_string(cs.seqNo()); break;
      case 'M': r = (s.state() == Dune::GROUND) ? "GROUND" : (s.state() == Dune::RESIZE ? "RESIZE" : "?"); break;
      case 'I': {
        std::string r1 = "[", r2 = "[";
        for (typename Set::const_iterator it = cs.begin(); it != cs.end(); ++it) r1 += pstr(*it);
        for (typename Set::iterator it = s.begin(); it != s.end(); ++it) r2 += pstr(*it);
        r1 += "]"; r2 += "]";
        r = (r1 == r2) ? r1 : ("const=" + r1 + ",nonconst=" + r2); break;
      }
      case 'V': {
        Dune::GlobalLookupIndexSet<Set> gl(cs);
        std::size_t l = (std::size_t) f[0];
        if (l >= gl.size()) { r = "PRECOND"; break; }
        const typename Dune::GlobalLookupIndexSet<Set>::IndexPair* p = gl.pair(l);
        r = p ? pstr(*p) : "NULL";
        if (gl.seqNo() != cs.seqNo()) r += " (seqNo differs)";
        break;
      }
      case 'W': {
        std::size_t sz = (std::size_t) f[0], l = (std::size_t) f[1];
        bool pre = l < sz;
        for (typename Set::const_iterator it = cs.begin(); it != cs.end(); ++it) if (it->local().local() >= sz) pre = false;
        if (!pre) { r = "PRECOND"; break; }
        Dune::GlobalLookupIndexSet<Set> gl(cs, sz);
        const typename Dune::GlobalLookupIndexSet<Set>::IndexPair* p = gl.pair(l);
        r = p ? pstr(*p) : "NULL";
        if (gl.size() != sz) r += " (size differs)";
        break;
      }
      default: r = "UNKNOWN-OP";
      }
    }
    catch (Dune::InvalidIndexSetState&) { r = "EXC InvalidIndexSetState"; }
    catch (Dune::RangeError&) { r = "EXC RangeError"; }
    catch (Dune::Exception&) { r = "EXC Exception"; }
    catch (std::exception&) { r = "EXC std"; }
    if (i > 2) out += ";";
    out += r;
  }
  return out;
}

#define NS X(1) X(2) X(3) X(4) X(7) X(100)

int main(int argc, char** argv)
{
  if (argc < 2) return 2;
  std::ifstream in(argv[1]);
  std::string line;
  while (std::getline(in, line)) {
    std::istringstream is(line); std::vector<std::string> t; std::string w;
    while (is >> w) t.push_back(w);
    if (t.size() < 2) { std::cout << "BAD-CASE" << std::endl; continue; }
    int n = std::atoi(t[0].c_str());
    std::string r = "UNSUPPORTED-N";
    switch (n) {
#define X(K) case K: r = run<K>(t); break;
      NS
#undef X
    }
    std::cout << r << std::endl;
  }
  return 0;
}
