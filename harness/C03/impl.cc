// C03 impl driver: executes histories on Dune::ParallelIndexSet<TG, TL, N> and Dune::GlobalLookupIndexSet built
// from the working tree.  One output line per case (history), the outputs of the ops joined by ';', same
// canonical form as ml/C03_driver.ml.
// Case line:  <N>[L] chk op op ...   (chk must match how this binary was built: 1 = without NDEBUG, 0 = with NDEBUG)
//   variant without suffix: TG = int,       TL = ParallelLocalIndex<Attr>
//   variant with suffix L : TG = long long, TL = LocalIndex   (generic LocalIndexComparator; attribute/public printed as 0)
//   variant with suffix S : TG = GIdx (class type with comparison operators only), TL = ParallelLocalIndex<int>; N in {2,100}
//   r:k re-adds the k-th stored pair passing references into the set's own storage (aliasing)
//   B | A:g:loc:attr:pub | a:g | D:k | E | R | X:g | T:g | G:g | S | Q | M | I | V:l | W:sz:l
//   U:g:l (at(g).setLocal / at(g).local()=) | Z:w (operator==/!= against a rebuilt, perturbed set of another chunk size)
//   K:i:j:g (12 IndexPair comparison operators) | Y:g (GlobalLookupIndexSet::operator[]) | J (GlobalLookupIndexSet begin/end)
//   C (copy construction / copy assignment, read back immediately)
//   c:w (audit 2, kind A) the current set is assigned (w even: copy, w odd: move) to a TARGET holding other state (w/2: 0 fresh,
//        1 nine other pairs + seqNo 2, 2 additionally an unfinished resize phase with pending adds and a deletion mark, 3 emptied
//        again) and the history CONTINUES ON THE TARGET
//   numbers: local numbers up to 2^64-1, long long globals from -2^63 to 2^63-1 (audit 2, kinds C/D)
// Only the public API is used.
#include <config.h>
#include <cstdio>
#include <cstdlib>
#include <fstream>
#include <iostream>
#include <memory>
#include <sstream>
#include <string>
#include <vector>
#include <type_traits>
#include <dune/common/exceptions.hh>
#include <dune/common/parallel/indexset.hh>
#include <dune/common/parallel/plocalindex.hh>
#include <dune/common/parallel/localindex.hh>

enum Attr { a0 = 0, a1, a2, a3, a4, a5, a6, a7, a8, a9 };
typedef Dune::ParallelLocalIndex<Attr> PLI;

// ---- a class-type global index: only the comparison operators the index set is documented to need (no arithmetic, no
// implicit conversions), so that code which silently assumes an integer global index does not compile
struct GIdx {
  int v;
  GIdx() : v(0) {}
  explicit GIdx(long long x) : v((int) x) {}
  explicit operator long long() const { return v; }
  GIdx operator+(int d) const { return GIdx((long long) v + d); }   // used by the harness only (perturbation in 'Z')
  bool operator<(const GIdx& o) const { return v < o.v; }
  bool operator>(const GIdx& o) const { return v > o.v; }
  bool operator<=(const GIdx& o) const { return v <= o.v; }
  bool operator>=(const GIdx& o) const { return v >= o.v; }
  bool operator==(const GIdx& o) const { return v == o.v; }
  bool operator!=(const GIdx& o) const { return v != o.v; }
};
static std::ostream& operator<<(std::ostream& os, const GIdx& g) { return os << g.v; }   // at() puts the global index into its RangeError message

// ---- the local index types behind one small interface
template<class A> static Dune::ParallelLocalIndex<A> mk(const Dune::ParallelLocalIndex<A>*, std::size_t loc, int attr, bool pub)
{
  typedef Dune::ParallelLocalIndex<A> L;
  if (loc == 0) return L((A) attr, pub);                       // 2-argument ctor: local index 0
  if (pub && loc % 2 == 1) return L(loc, (A) attr);            // default argument isPublic = true
  return L(loc, (A) attr, pub);
}
static Dune::LocalIndex mk(const Dune::LocalIndex*, std::size_t loc, int, bool)
{ return loc == 0 ? Dune::LocalIndex() : Dune::LocalIndex(loc); }
template<class A> static int attr_of(const Dune::ParallelLocalIndex<A>& l) { return (int) l.attribute(); }
static int attr_of(const Dune::LocalIndex&) { return 0; }
template<class A> static int pub_of(const Dune::ParallelLocalIndex<A>& l) { return l.isPublic() ? 1 : 0; }
static int pub_of(const Dune::LocalIndex&) { return 0; }
template<class A> static void set_attr(Dune::ParallelLocalIndex<A>& l, int a) { l.setAttribute((A) a); }
static void set_attr(Dune::LocalIndex&, int) {}
template<class A> static Dune::ParallelLocalIndex<A> with_pub(const Dune::ParallelLocalIndex<A>& l, bool pub)
{ Dune::ParallelLocalIndex<A> r(l.local(), l.attribute(), pub); r.setState(l.state()); return r; }
static Dune::LocalIndex with_pub(const Dune::LocalIndex& l, bool) { return l; }

template<class P>
static std::string pstr(const P& p)
{
  char buf[160];
  std::snprintf(buf, sizeof buf, "(%lld,%zu,%d,%d,%s)", (long long) p.global(), (std::size_t) p.local().local(),
                attr_of(p.local()), pub_of(p.local()),
                p.local().state() == Dune::DELETED ? "D" : (p.local().state() == Dune::VALID ? "V" : "?"));
  return buf;
}

static std::vector<long long> fields(const std::string& s)
{
  std::vector<long long> r; std::string w; std::istringstream is(s);
  bool first = true;
  while (std::getline(is, w, ':')) { if (first) { first = false; continue; } r.push_back(!w.empty() && w[0] == '-' ? std::stoll(w) : (long long) std::stoull(w)); }
  return r;
}

static std::string bits(std::initializer_list<bool> b) { std::string r = "b"; for (bool x : b) r += x ? '1' : '0'; return r; }

// a GlobalLookupIndexSet has (largest local number + 1) entries: not built for local numbers near 2^31 .. 2^64 (same rule in the model driver)
template<class Set>
static bool table_too_large(const Set& cs)
{
  for (typename Set::const_iterator it = cs.begin(); it != cs.end(); ++it) if ((std::size_t) it->local().local() >= 999999) return true;
  return false;
}

template<class TG, class TL, int N>
static std::string run(const std::vector<std::string>& t)
{
  typedef Dune::ParallelIndexSet<TG, TL, N> Set;
  typedef Dune::ParallelIndexSet<TG, TL, 5> Set2;                 // the other chunk size for operator== (N is never 5)
  typedef typename Set::IndexPair Pair;
  static_assert(Set::arraySize == ((N > 0) ? N : 1), "arraySize");
  std::unique_ptr<Set> sp(new Set);                                // the object under test (op 'c' replaces it by an assigned target)
#ifdef NDEBUG
  const bool checking = false;
#else
  const bool checking = true;
#endif
  std::string out;
  for (std::size_t i = 2; i < t.size(); ++i) {
    const std::string& op = t[i];
    std::vector<long long> f = fields(op);
    std::string r;
    Set& s = *sp;
    const Set& cs = *sp;
    try {
      switch (op[0]) {
      case 'B': s.beginResize(); r = "ok"; break;
      case 'A':
        if (f[1] % 3 == 2) {                                      // arguments as named (const / non-const) lvalues instead of temporaries
          const TG g = (TG) f[0]; TL l = mk((const TL*) 0, (std::size_t) f[1], (int) f[2], f[3] != 0);
          s.add(g, l);
        } else
          s.add((TG) f[0], mk((const TL*) 0, (std::size_t) f[1], (int) f[2], f[3] != 0));
        r = "ok"; break;
      case 'c': {
        const int w = (int) f[0], cfg = w / 2;
        std::unique_ptr<Set> t(new Set);
        if (cfg >= 1) {
          t->beginResize();
          for (int j = 0; j < 9; ++j) t->add((TG) (long long) (1000 + 7 * j), mk((const TL*) 0, (std::size_t) (50 + j), j % 3, j % 2 == 1));
          t->endResize();
          t->beginResize(); t->endResize();
        }
        if (cfg == 2) {
          t->beginResize();
          t->add((TG) (long long) -77, mk((const TL*) 0, 5, 1, true)); t->add((TG) (long long) 2000);
          t->markAsDeleted(t->begin());
        } else if (cfg >= 3) {
          t->beginResize();
          for (typename Set::iterator it = t->begin(); it != t->end(); ++it) t->markAsDeleted(it);
          t->endResize();
        }
        if (w % 2 == 0) *t = cs; else *t = std::move(s);
        sp = std::move(t);                                        // the old object is destroyed; all later ops run on the target
        r = "ok"; break;
      }
      case 'a': s.add((TG) f[0]); r = "ok"; break;
      case 'r': {                                               // aliasing: add() with references INTO the set's own storage
        std::size_t k = (std::size_t) f[0];
        if (k >= s.size()) { r = "PRECOND"; break; }
        typename Set::iterator it = s.begin(); it += k;
        const Pair& stored = *it;
        if (stored.local().state() != Dune::VALID) { r = "PRECOND"; break; }   // add() would copy the DELETED state
        s.add(stored.global(), stored.local()); r = "ok"; break;
      }
      case 'D': {
        std::size_t k = (std::size_t) f[0];
        if (k >= s.size() && (!checking || s.state() == Dune::RESIZE)) { r = "PRECOND"; break; }
        if (k == 0) { s.markAsDeleted(s.begin()); r = "ok"; break; }   // a temporary iterator
        typename Set::iterator it = s.begin();
        if (k % 2) it += k; else for (std::size_t j = 0; j < k; ++j) ++it;
        s.markAsDeleted(it); r = "ok"; break;
      }
      case 'E': s.endResize(); r = "ok"; break;
      case 'R': s.renumberLocal(); r = "ok"; break;
      case 'X': r = cs.exists((TG) f[0]) ? "1" : "0"; break;
      case 'T': {
        std::string r1, r2;
        try { r1 = pstr(s.at((TG) f[0])); } catch (Dune::RangeError&) { r1 = "EXC RangeError"; }
        try { r2 = pstr(cs.at((TG) f[0])); } catch (Dune::RangeError&) { r2 = "EXC RangeError"; }
        r = (r1 == r2) ? r1 : ("nonconst=" + r1 + ",const=" + r2); break;
      }
      case 'G': {
        if (s.size() == 0) { r = "PRECOND"; break; }
        std::string r1 = pstr(s[(TG) f[0]]), r2 = pstr(cs[(TG) f[0]]);
        r = (r1 == r2) ? r1 : ("nonconst=" + r1 + ",const=" + r2); break;
      }
      case 'U': {
        Pair& p = s.at((TG) f[0]);
        if (f[1] % 2) p.local() = (std::size_t) f[1]; else p.setLocal((int) f[1]);
        r = "ok"; break;
      }
      case 'S': r = std::to_string(cs.size()); break;
      case 'Q': r = std::to_string(cs.seqNo()); break;
      case 'M': r = (s.state() == Dune::GROUND) ? "GROUND" : (s.state() == Dune::RESIZE ? "RESIZE" : "?"); break;
      case 'I': {
        std::string r1 = "[", r2 = "[";
        for (typename Set::const_iterator it = cs.begin(); it != cs.end(); ++it) r1 += pstr(*it);
        for (typename Set::iterator it = s.begin(); it != s.end(); ++it) r2 += pstr(*it);
        r1 += "]"; r2 += "]";
        r = (r1 == r2) ? r1 : ("const=" + r1 + ",nonconst=" + r2);
        const std::size_t n = cs.size();
        if (n <= 48) {                                           // the other access paths of the iterators
          std::vector<std::string> bw, cbw; std::string r3 = "[", r4 = "[", r5 = "[", r6 = "[";
          typename Set::iterator e = s.end(), b = s.begin();
          while (e != b) { --e; bw.push_back(pstr(*e)); }
          for (std::size_t k = bw.size(); k-- > 0; ) r3 += bw[k];
          typename Set::const_iterator ce = cs.end(), cb = cs.begin();
          while (ce != cb) { --ce; cbw.push_back(pstr(*ce)); }
          for (std::size_t k = cbw.size(); k-- > 0; ) r4 += cbw[k];
          for (std::size_t k = 0; k < n; ++k) { typename Set::const_iterator c = cs.begin(); c += k; r5 += pstr(*c); r6 += pstr(s.begin()[k]); }
          r3 += "]"; r4 += "]"; r5 += "]"; r6 += "]";
          if (r3 != r1) r += ",backward=" + r3;
          if (r4 != r1) r += ",const-backward=" + r4;
          if (r5 != r1) r += ",const-advance=" + r5;
          if (r6 != r1) r += ",index=" + r6;
          { typename Set::const_iterator conv(s.begin()); if (n && pstr(*conv) != pstr(*cs.begin())) r += ",iterator-conversion=" + pstr(*conv); }
          if ((std::size_t) (cs.end() - cs.begin()) != n) r += ",const-distance=" + std::to_string(cs.end() - cs.begin());
          if ((std::size_t) (s.end() - s.begin()) != n) r += ",distance=" + std::to_string(s.end() - s.begin());
        }
        break;
      }
      case 'V': {
        if (table_too_large(cs)) { r = "TABLE-TOO-LARGE"; break; }
        Dune::GlobalLookupIndexSet<Set> gl0(cs);
        Dune::GlobalLookupIndexSet<Set> gl(gl0);                 // a copy of the lookup set must answer the same
        std::size_t l = (std::size_t) f[0];
        if (l >= gl.size()) { r = "PRECOND"; break; }
        const typename Dune::GlobalLookupIndexSet<Set>::IndexPair* p = gl.pair(l);
        r = p ? pstr(*p) : "NULL";
        if (gl.seqNo() != cs.seqNo()) r += " (seqNo differs)";
        break;
      }
      case 'W': {
        std::size_t sz = (std::size_t) f[0], l = (std::size_t) f[1];
        if (sz >= 1000000) { r = "TABLE-TOO-LARGE"; break; }
        bool pre = l < sz;
        for (typename Set::const_iterator it = cs.begin(); it != cs.end(); ++it) if (it->local().local() >= sz) pre = false;
        if (!pre) { r = "PRECOND"; break; }
        Dune::GlobalLookupIndexSet<Set> gl(cs, sz);
        const typename Dune::GlobalLookupIndexSet<Set>::IndexPair* p = gl.pair(l);
        r = p ? pstr(*p) : "NULL";
        if (gl.size() != sz) r += " (size differs)";
        break;
      }
      case 'Y': {
        if (table_too_large(cs)) { r = "TABLE-TOO-LARGE"; break; }
        if (s.size() == 0) { r = "PRECOND"; break; }
        Dune::GlobalLookupIndexSet<Set> gl(cs);
        r = pstr(gl[(TG) f[0]]); break;
      }
      case 'J': {
        if (table_too_large(cs)) { r = "TABLE-TOO-LARGE"; break; }
        Dune::GlobalLookupIndexSet<Set> gl(cs);
        r = "[";
        for (typename Dune::GlobalLookupIndexSet<Set>::const_iterator it = gl.begin(); it != gl.end(); ++it) r += pstr(*it);
        r += "]/" + std::to_string(gl.size()); break;
      }
      case 'K': {
        std::size_t a = (std::size_t) f[0], b = (std::size_t) f[1]; TG g = (TG) f[2];
        if (a >= cs.size() || b >= cs.size()) { r = "PRECOND"; break; }
        const Pair& p = cs.begin()[a];
        const Pair& q = s.begin()[b];
        r = bits({ p == q, p != q, p < q, p > q, p <= q, p >= q, p == g, p != g, p < g, p > g, p <= g, p >= g });
        break;
      }
      case 'Z': {
        int w = (int) f[0];
        if (w == 7) {                                            // aliasing: both operands are the same object
          bool eq = (cs == cs), ne = (cs != cs); r = bits({ eq, ne }); break;
        }
        if (w == 8) {                                            // a copy (shares the chunks) against its source
          Set c(cs); bool eq = (cs == c), ne = (cs != c); r = bits({ eq, ne });
          if ((c == cs) != eq) r += " (asymmetric)";
          break;
        }
        // second set with the same (perturbed) content.  With pairwise distinct (global, attribute) keys one batch is enough;
        // with equal keys std::sort leaves their order unspecified, so the pairs are added one per resize phase, last first
        // (merge() puts an added pair before equal old ones), which reproduces the iteration order deterministically.
        std::vector<std::pair<TG, TL> > content;
        const std::size_t n = cs.size(); std::size_t k = 0;
        bool ties = false;
        for (typename Set::const_iterator it = cs.begin(); it != cs.end(); ++it, ++k) {
          TG g = it->global(); TL l = it->local();
          if (k + 1 == n) {
            if (w == 1) l = l.local() + 1;
            else if (w == 2) set_attr(l, attr_of(l) + 1);
            else if (w == 3) l = with_pub(l, !pub_of(l));
            else if (w == 4) g = g + 1;
            else if (w == 5) continue;
            else if (w == 6) l.setState(l.state() == Dune::VALID ? Dune::DELETED : Dune::VALID);
          }
          if (!content.empty() && content.back().first == g && attr_of(content.back().second) == attr_of(l)) ties = true;
          content.push_back(std::make_pair(g, l));
        }
        // all pairs enter s2 as VALID (merge() would drop DELETED ones in a later phase); the states are set afterwards
        Set2 s2;
        if (!ties) {
          s2.beginResize();
          for (std::size_t j = 0; j < content.size(); ++j) { TL l = content[j].second; l.setState(Dune::VALID); s2.add(content[j].first, l); }
          s2.endResize();
        } else {
          for (std::size_t j = content.size(); j-- > 0; ) {
            TL l = content[j].second; l.setState(Dune::VALID);
            s2.beginResize(); s2.add(content[j].first, l); s2.endResize();
          }
        }
        { std::size_t j = 0;
          for (typename Set2::iterator it = s2.begin(); it != s2.end() && j < content.size(); ++it, ++j) it->local().setState(content[j].second.state()); }
        bool eq = (cs == s2), ne = (cs != s2);
        r = bits({ eq, ne });
        if ((s2 == cs) != eq) r += " (asymmetric)";
        break;
      }
      case 'z': {
        // operator== between instances with DIFFERENT global index types (int <-> long long) and chunk sizes, same local index type
        // (instances with different local index types do not compile).  Same perturbations as 'Z'.
        if constexpr (std::is_same<TG, GIdx>::value) { r = "UNSUPPORTED"; }
        else {
          typedef typename std::conditional<std::is_same<TG, int>::value, long long, int>::type TG2;
          typedef Dune::ParallelIndexSet<TG2, TL, 6> SetO;
          int w = (int) f[0];
          std::vector<std::pair<TG2, TL> > content;
          const std::size_t n = cs.size(); std::size_t k = 0; bool ties = false;
          for (typename Set::const_iterator it = cs.begin(); it != cs.end(); ++it, ++k) {
            TG2 g = (TG2) it->global(); TL l = it->local();
            if (k + 1 == n) {
              if (w == 1) l = l.local() + 1;
              else if (w == 2) set_attr(l, attr_of(l) + 1);
              else if (w == 3) l = with_pub(l, !pub_of(l));
              else if (w == 4) g = g + 1;
              else if (w == 5) continue;
              else if (w == 6) l.setState(l.state() == Dune::VALID ? Dune::DELETED : Dune::VALID);
            }
            if (!content.empty() && content.back().first == g && attr_of(content.back().second) == attr_of(l)) ties = true;
            content.push_back(std::make_pair(g, l));
          }
          SetO s2;
          if (!ties) {
            s2.beginResize();
            for (std::size_t j = 0; j < content.size(); ++j) { TL l = content[j].second; l.setState(Dune::VALID); s2.add(content[j].first, l); }
            s2.endResize();
          } else
            for (std::size_t j = content.size(); j-- > 0; ) { TL l = content[j].second; l.setState(Dune::VALID); s2.beginResize(); s2.add(content[j].first, l); s2.endResize(); }
          { std::size_t j = 0;
            for (typename SetO::iterator it = s2.begin(); it != s2.end() && j < content.size(); ++it, ++j) it->local().setState(content[j].second.state()); }
          const SetO& cs2 = s2;
          bool eq = (cs == cs2), ne = (cs != cs2);
          r = bits({ eq, ne });
          if ((cs2 == cs) != eq) r += " (asymmetric)";
        }
        break;
      }
      case 'C': {
        // special members, each read back at once: copy construction, copy assignment over a non-empty set, self-assignment,
        // move construction, move assignment, std::swap.  The source `s` is read by the following ops of the history.
        Set c(cs); Set d; d.beginResize(); d.add((TG) 1); d.endResize(); d = cs;
        { Set& dref = d; d = dref; }
        Set c2(cs); Set m(std::move(c2));
        Set c3(cs); Set ma; ma.beginResize(); ma.add((TG) 2); ma.endResize(); ma = std::move(c3);
        Set c4(cs); Set sw; { using std::swap; swap(sw, c4); }
        auto show = [](Set& x) {
          const Set& cx = x; std::string q = "[";
          for (typename Set::const_iterator it = cx.begin(); it != cx.end(); ++it) q += pstr(*it);
          return q + "]/" + std::to_string(cx.size()) + "/" + std::to_string(cx.seqNo()) + "/" + (x.state() == Dune::GROUND ? "GROUND" : "RESIZE");
        };
        std::string r1 = show(c);
        r = r1;
        if (show(d) != r1) r += ",assigned=" + show(d);
        if (show(m) != r1) r += ",move-constructed=" + show(m);
        if (show(ma) != r1) r += ",move-assigned=" + show(ma);
        if (show(sw) != r1) r += ",swapped=" + show(sw);
        if (c4.size() != 0 || c4.seqNo() != 0 || c4.state() != Dune::GROUND) r += ",swapped-away=" + show(c4);
        break;
      }
      default: r = "UNKNOWN-OP";
      }
    }
    catch (Dune::InvalidIndexSetState&) { r = "EXC InvalidIndexSetState"; }
    catch (Dune::RangeError&) { r = "EXC RangeError"; }
    catch (Dune::Exception&) { r = "EXC Exception"; }
    catch (std::exception&) { r = "EXC std"; }
    if (i > 2) out += ";";
    out += r;
  }
  return out;
}

#ifdef C03_SAN_SUBSET
#define NS X(1) X(3)      /* the sanitizer build instantiates two chunk sizes only (compile time) */
#else
#define NS X(-3) X(0) X(1) X(2) X(3) X(4) X(7) X(100)
#endif

int main(int argc, char** argv)
{
  if (argc < 2) return 2;
  std::ifstream in(argv[1]);
  std::string line;
  while (std::getline(in, line)) {
    std::istringstream is(line); std::vector<std::string> t; std::string w;
    while (is >> w) t.push_back(w);
    if (t.size() < 2) { std::cout << "BAD-CASE" << std::endl; continue; }
    int n = std::atoi(t[0].c_str());
    bool variantL = !t[0].empty() && t[0][t[0].size() - 1] == 'L';
    bool variantS = !t[0].empty() && t[0][t[0].size() - 1] == 'S';
    std::string r = "UNSUPPORTED-N";
    if (variantS) {                                            // class-type global index, ParallelLocalIndex<int>: two chunk sizes
      if (n == 2) r = run<GIdx, Dune::ParallelLocalIndex<int>, 2>(t);
      else if (n == 100) r = run<GIdx, Dune::ParallelLocalIndex<int>, 100>(t);
    } else
    switch (n) {
#define X(K) case K: r = variantL ? run<long long, Dune::LocalIndex, K>(t) : run<int, PLI, K>(t); break;
      NS
#undef X
    }
    std::cout << r << std::endl;
  }
  return 0;
}
