// C04 impl driver: runs Dune::RemoteIndices (current tree) on the decompositions of a case file.
// Launch:  mpirun -np NP impl cases.txt     (a case with P <= NP ranks runs on the first P ranks of a split communicator;
//                                            every rank reads the whole case file)
// Case line: see ml/C04_driver.ml (same file).  Output: ONE line per case, printed by world rank 0, same canonical
// form as the model driver:
//   r<p> pre=<b> syn=<b> nb=<n> {<q>:S[g.li.a.pub.ra ...]R[...] ...} aft=<b> syn2=<b> nb2=<n> {...} ; r<p+1> ...
//   pre  = isSynced() after construction, syn = isSynced() after rebuild<ign>(), nb = neighbours(),
//   {..} = iteration over the object: rank q, send list, receive list; entry = global index, local index, local
//          attribute, local public flag of the local pair pointed to, and the remote attribute,
//   aft  = isSynced() after the (collective) resize of the source and/or target sets, syn2/nb2/{..} after rebuild<ign2>().
// Global index type: environment C04_GTYPE = 0 int (ids as they are, default) | 1 long (with a long-based attribute enum and chunk
// size 3) | 2 unsigned long long | 3 bigunsignedint<55> | 4 bigunsignedint<64> | 5 bigunsignedint<100> | rot (per case
// 1 + FNV-1a(line) % 5).  For types 1..5 the small global id of the case is mapped, order preserving, to (0x80+id)*2^(w-8)+id
// (w = 63, 64, 55, 64, 100: the top bits / the most significant digit are in use) and mapped back (low byte) for printing, so
// the observation does not depend on the type.
// A case that does not return within C04_CASE_TIMEOUT seconds (default 30) makes the process print
// "ERROR C04-HANG ..." to stderr and exit(86); vcheck.run_cases attributes that to the case.
#include <config.h>
#include <mpi.h>
#include <csignal>
#include <cstdio>
#include <cstdlib>
#include <cstring>
#include <fstream>
#include <iostream>
#include <map>
#include <sstream>
#include <string>
#include <vector>
#include <unistd.h>
#include <dune/common/bigunsignedint.hh>
#include <dune/common/parallel/indexset.hh>
#include <dune/common/parallel/plocalindex.hh>
#include <dune/common/parallel/remoteindices.hh>

#ifdef C04_WITH_SHIM
extern "C" {
void pmpi_sched_reseed(unsigned long long seed);
void pmpi_sched_counters(unsigned long long *sweeps, unsigned long long *reordered, unsigned long long *delays);
}
#else
static void pmpi_sched_reseed(unsigned long long) {}
static void pmpi_sched_counters(unsigned long long *a, unsigned long long *b, unsigned long long *c) { *a = *b = *c = 0; }
#endif

enum Attr { a0, a1, a2, a3, a4, a5, a6, a7 };
enum AttrL : long { l0, l1, l2, l3, l4, l5, l6, l7 };

// order-preserving embedding of the small ids into the global index type
template<class G> struct Enc;
template<> struct Enc<int> { static int enc(int id) { return id; } static int dec(int v) { return v; } };
template<> struct Enc<long> { static long enc(int id) { return ((long) (0x80 + id) << 55) + id; } static int dec(long v) { return (int) (v & 0xff); } };
template<> struct Enc<unsigned long long> {
  static unsigned long long enc(int id) { return ((unsigned long long) (0x80 + id) << 56) + (unsigned long long) id; }
  static int dec(unsigned long long v) { return (int) (v & 0xff); } };
template<int k> struct Enc<Dune::bigunsignedint<k> > {
  typedef Dune::bigunsignedint<k> B;
  static B enc(int id) { return (B(std::uintmax_t(0x80 + id)) << (k - 8)) + B(std::uintmax_t(id)); }
  static int dec(const B& v) { return (int) (v.touint() & 0xffu); } };

static int g_rank = 0;
static volatile long g_case = 0;

static void on_alarm(int)
{
  char b[128];
  int n = std::snprintf(b, sizeof b, "ERROR C04-HANG case=%ld rank=%d did not return\n", (long) g_case, g_rank);
  if (write(2, b, n) < 0) {}
  _exit(86);
}

struct P4 { int g, li, a, pub; bool operator==(const P4& o) const { return g == o.g && li == o.li && a == o.a && pub == o.pub; } };
typedef std::vector<P4> Set;
struct Case {
  int P, two, ign, incself, mode; unsigned long long seed; int ign2, resize;
  std::vector<Set> src[2], dst[2];
  std::vector<std::vector<int> > hints, orders;
};

static bool rdset(std::istream& is, Set& s)
{
  int n; if (!(is >> n) || n < 0 || n > 100000) return false;
  s.resize(n);
  for (auto& x : s) is >> x.g >> x.li >> x.a >> x.pub;
  return !is.fail();
}
static bool rdlist(std::istream& is, std::vector<int>& l)
{
  int n; if (!(is >> n) || n < 0 || n > 100000) return false;
  l.resize(n); for (auto& x : l) is >> x;
  return !is.fail();
}
static bool parse(const std::string& line, Case& c)
{
  std::istringstream is(line);
  if (!(is >> c.P >> c.two >> c.ign >> c.incself >> c.mode >> c.seed >> c.ign2 >> c.resize)) return false;
  if (c.P < 1 || c.P > 64) return false;
  for (int ph = 0; ph < 2; ++ph) {
    c.src[ph].resize(c.P); c.dst[ph].resize(c.P);
    for (int r = 0; r < c.P; ++r) if (!rdset(is, c.src[ph][r]) || !rdset(is, c.dst[ph][r])) return false;
  }
  c.hints.resize(c.P); c.orders.resize(c.P);
  for (auto& l : c.hints) if (!rdlist(is, l)) return false;
  for (auto& l : c.orders) if (!rdlist(is, l)) return false;
  return true;
}

// fill an empty set (pairs added in reverse order: the set sorts them)
template<class PIS>
static void fill(PIS& s, const Set& c)
{
  s.beginResize();
  for (std::size_t i = c.size(); i-- > 0;) s.add(Enc<typename PIS::GlobalIndex>::enc(c[i].g), typename PIS::LocalIndex((std::size_t) c[i].li, (typename PIS::LocalIndex::Attribute) c[i].a, c[i].pub != 0));
  s.endResize();
}
// one beginResize/endResize that turns the content `from` into the content `to`
template<class PIS>
static void resize_to(PIS& s, const Set& from, const Set& to)
{
  auto has = [](const Set& v, const P4& x) { for (auto& y : v) if (y == x) return true; return false; };
  s.beginResize();
  for (auto it = s.begin(); it != s.end(); ++it) {
    P4 x{Enc<typename PIS::GlobalIndex>::dec(it->global()), (int) it->local().local(), (int) it->local().attribute(), it->local().isPublic() ? 1 : 0};
    if (!has(to, x)) s.markAsDeleted(it);
  }
  for (std::size_t i = to.size(); i-- > 0;) if (!has(from, to[i])) s.add(Enc<typename PIS::GlobalIndex>::enc(to[i].g), typename PIS::LocalIndex((std::size_t) to[i].li, (typename PIS::LocalIndex::Attribute) to[i].a, to[i].pub != 0));
  s.endResize();
}

template<class G, class L>
static void plist(std::ostream& os, const L& l)
{
  bool first = true;
  for (auto it = l.begin(); it != l.end(); ++it) {
    const auto& p = it->localIndexPair();
    os << (first ? "" : " ") << Enc<G>::dec(p.global()) << "." << p.local().local() << "." << (int) p.local().attribute() << "."
       << (p.local().isPublic() ? 1 : 0) << "." << (int) it->attribute();
    first = false;
  }
}
template<class RI>
static void pmap(std::ostream& os, const RI& ri, const char* nb)
{
  os << nb << "=" << ri.neighbours() << " {";
  bool first = true;
  for (auto it = ri.begin(); it != ri.end(); ++it) {
    os << (first ? "" : " ") << it->first << ":S[";
    plist<typename RI::GlobalIndex>(os, *(it->second.first));
    os << "]R[";
    plist<typename RI::GlobalIndex>(os, *(it->second.second));
    os << "]";
    first = false;
  }
  os << "}";
}

template<class G, class A, int N>
static void run_case(std::ostream& os, const Case& c, int rank, MPI_Comm comm)
{
  typedef Dune::ParallelLocalIndex<A> LI;
  typedef Dune::ParallelIndexSet<G, LI, N> PIS;
  typedef Dune::RemoteIndices<PIS> RI;
  PIS S, T;
  fill(S, c.src[0][rank]);
  if (c.two) fill(T, c.dst[0][rank]);
  PIS& tgt = c.two ? T : S;
  RI ri(S, tgt, comm, c.mode ? c.hints[rank] : std::vector<int>(), c.incself != 0);
  os << "r" << rank << " pre=" << (ri.isSynced() ? 1 : 0);
  pmpi_sched_reseed(c.seed);
  if (c.ign) ri.template rebuild<true>(); else ri.template rebuild<false>();
  os << " syn=" << (ri.isSynced() ? 1 : 0) << " ";
  pmap(os, ri, "nb");
  // with one index set the "target" set is the source set: a resize of either resizes that one object (once per bit)
  if (c.resize & 1) resize_to(S, c.src[0][rank], c.src[1][rank]);
  if (c.resize & 2) {
    if (c.two) resize_to(T, c.dst[0][rank], c.dst[1][rank]);
    else resize_to(tgt, (c.resize & 1) ? c.src[1][rank] : c.src[0][rank], c.src[1][rank]);
  }
  os << " aft=" << (ri.isSynced() ? 1 : 0);
  if (c.ign2) ri.template rebuild<true>(); else ri.template rebuild<false>();
  pmpi_sched_reseed(0);
  os << " syn2=" << (ri.isSynced() ? 1 : 0) << " ";
  pmap(os, ri, "nb2");
}

static unsigned fnv(const std::string& s) { unsigned h = 2166136261u; for (unsigned char ch : s) { h ^= ch; h *= 16777619u; } return h; }

int main(int argc, char** argv)
{
  MPI_Init(&argc, &argv);
  int np;
  MPI_Comm_rank(MPI_COMM_WORLD, &g_rank);
  MPI_Comm_size(MPI_COMM_WORLD, &np);
  const int rank = g_rank;
  int tmo = std::getenv("C04_CASE_TIMEOUT") ? std::atoi(std::getenv("C04_CASE_TIMEOUT")) : 30;
  std::signal(SIGALRM, on_alarm);
  const char* ge = std::getenv("C04_GTYPE");
  int gtype_env = !ge ? 0 : (std::string(ge) == "rot" ? -1 : std::atoi(ge));
  std::vector<MPI_Comm> sub(np + 1, MPI_COMM_NULL);
  for (int P = 1; P <= np; ++P) MPI_Comm_split(MPI_COMM_WORLD, rank < P ? 0 : MPI_UNDEFINED, rank, &sub[P]);
  std::ifstream in(argv[1]);
  std::string line;
  while (std::getline(in, line)) {
    ++g_case;
    Case c;
    bool ok = parse(line, c) && c.P <= np;
    std::string mine;
    if (ok && rank < c.P) {
      std::ostringstream os;
      alarm(tmo);
      int gt = gtype_env;
      if (gt < 0) gt = 1 + (int) (fnv(line) % 5u);
      switch (gt) {
        case 1: run_case<long, AttrL, 3>(os, c, rank, sub[c.P]); break;
        case 2: run_case<unsigned long long, Attr, 8>(os, c, rank, sub[c.P]); break;
        case 3: run_case<Dune::bigunsignedint<55>, Attr, 8>(os, c, rank, sub[c.P]); break;
        case 4: run_case<Dune::bigunsignedint<64>, Attr, 8>(os, c, rank, sub[c.P]); break;
        case 5: run_case<Dune::bigunsignedint<100>, Attr, 8>(os, c, rank, sub[c.P]); break;
        default: run_case<int, Attr, 8>(os, c, rank, sub[c.P]); break;
      }
      alarm(0);
      mine = os.str();
    }
    // collect on world rank 0
    alarm(tmo);
    int mylen = (int) mine.size();
    std::vector<int> lens(np), displs(np);
    MPI_Gather(&mylen, 1, MPI_INT, lens.data(), 1, MPI_INT, 0, MPI_COMM_WORLD);
    int tot = 0; if (rank == 0) for (int r = 0; r < np; ++r) { displs[r] = tot; tot += lens[r]; }
    std::vector<char> rb(tot + 1);
    MPI_Gatherv(mine.data(), mylen, MPI_CHAR, rb.data(), lens.data(), displs.data(), MPI_CHAR, 0, MPI_COMM_WORLD);
    alarm(0);
    if (rank == 0) {
      if (!ok) { std::cout << "BADCASE" << std::endl; continue; }
      std::string out;
      for (int r = 0; r < c.P; ++r) { if (r) out += " ; "; out.append(rb.data() + displs[r], lens[r]); }
      std::cout << out << std::endl;
    }
  }
  unsigned long long sw = 0, ro = 0, dl = 0;
  pmpi_sched_counters(&sw, &ro, &dl);
  unsigned long long loc[3] = {sw, ro, dl}, glob[3] = {0, 0, 0};
  MPI_Reduce(loc, glob, 3, MPI_UNSIGNED_LONG_LONG, MPI_SUM, 0, MPI_COMM_WORLD);
  if (rank == 0) std::cerr << "C04-SHIM sweeps=" << glob[0] << " reordered=" << glob[1] << " delays=" << glob[2] << std::endl;
  for (int P = 1; P <= np; ++P) if (sub[P] != MPI_COMM_NULL) MPI_Comm_free(&sub[P]);
  MPI_Finalize();
  return 0;
}
