// C04 impl driver: runs Dune::RemoteIndices (current tree) on the decompositions of a case file.
// Launch:  mpirun -np NP impl cases.txt     (a case with P <= NP ranks runs on the first P ranks of a split communicator;
//                                            every rank reads the whole case file)
// Case line: see ml/C04_driver.ml (same file).  Output: ONE line per case, printed by world rank 0, same canonical
// form as the model driver:
//   r<p> pre=<b> syn=<b> nb=<n> {<q>:S[g.li.a.pub.ra ...]R[...] ...} aft=<b> syn2=<b> nb2=<n> {...} ; r<p+1> ...
//   pre  = isSynced() after construction, syn = isSynced() after rebuild<ign>(), nb = neighbours(),
//   {..} = iteration over the object: rank q, send list, receive list; entry = global index, local index, local
//          attribute, local public flag of the local pair pointed to, and the remote attribute,
//   aft  = isSynced() after the (collective) resize of the source and/or target sets, syn2/nb2/{..} after rebuild<ign2>().
// Global index type: environment C04_GTYPE = 0 int (ids as they are, default) | 1 long (with a long-based attribute enum and chunk
// size 3) | 2 unsigned long long | 3 bigunsignedint<55> | 4 bigunsignedint<64> | 5 bigunsignedint<100> | rot (per case
// 1 + FNV-1a(line) % 6).  For types 1..5 the global id (< 2^14) of the case is mapped, order preserving, to (0x8000+id)*2^(w-16)+id
// (w = 63 [0x4000], 64, 55, 64, 100: the top bits / the most significant digit are in use) and mapped back (low bits) for printing,
// so the observation does not depend on the type.
// Type 6 (dimension audit 2): short globals spread over the whole signed range (SHRT_MIN.., around 0, ..SHRT_MAX), an int
// based attribute enum whose enumerators include -128, -1 and 127, the ends of the char ParallelLocalIndex stores (chunk size 5).
// Communicators (dimension audit 2): kind 0 = the P-rank communicator, 1 = a duplicate, 2 = ranks reversed, 3 = ranks rotated
// (comm rank = (rank+1) mod P).  Per-case stream: mode token = (ring|neighbour) + 2*kind + 8*pre; the decomposition, hints and the
// printed records are indexed by the rank IN that communicator; pre = 1: the object is first constructed and BUILT over other,
// non-trivial index sets on communicator 0 with the opposite includeSelf and is then re-targeted with setIndexSets + setIncludeSelf
// (must behave like a fresh object: theorem C04_retarget_as_fresh).  incself token >= 2: per rank, bit r of (incself-2).
// Histories: slot tokens of the constructor and of setIndexSets carry the communicator kind (slot + 16*kind); hints given with a
// call are indexed by the rank in the communicator in force after that call; records stay indexed by process.
// A case that does not return within C04_CASE_TIMEOUT seconds (default 30; case lines shorter than 4000 characters:
// C04_SMALL_TIMEOUT, default the same) makes the process print
// "ERROR C04-HANG ..." to stderr and exit(86); vcheck.run_cases attributes that to the case.
#include <config.h>
#include <mpi.h>
#include <csignal>
#include <csetjmp>
#include <cstdio>
#include <cstdlib>
#include <cstring>
#include <fstream>
#include <iostream>
#include <map>
#include <memory>
#include <sstream>
#include <string>
#include <vector>
#include <unistd.h>
#include <dune/common/bigunsignedint.hh>
#include <dune/common/parallel/indexset.hh>
#include <dune/common/parallel/plocalindex.hh>
#include <dune/common/parallel/remoteindices.hh>

#ifdef C04_WITH_SHIM
extern "C" {
void pmpi_sched_reseed(unsigned long long seed);
void pmpi_sched_counters(unsigned long long *sweeps, unsigned long long *reordered, unsigned long long *delays);
}
#else
static void pmpi_sched_reseed(unsigned long long) {}
static void pmpi_sched_counters(unsigned long long *a, unsigned long long *b, unsigned long long *c) { *a = *b = *c = 0; }
#endif

enum Attr { a0, a1, a2, a3, a4, a5, a6, a7 };
enum AttrL : long { l0, l1, l2, l3, l4, l5, l6, l7 };
enum AttrS : int { s0 = -128, s1 = -1, s2 = 0, s3 = 1, s4 = 127, s5 = 2, s6 = -2, s7 = 64 };
// attribute numbers of the case file <-> enumerators
template<class A> struct AEnc { static A enc(int a) { return (A) a; } static int dec(A a) { return (int) a; } };
template<> struct AEnc<AttrS> {
  static AttrS enc(int a) { static const AttrS t[8] = {s0, s1, s2, s3, s4, s5, s6, s7}; return t[a & 7]; }
  static int dec(AttrS a) { static const AttrS t[8] = {s0, s1, s2, s3, s4, s5, s6, s7}; for (int i = 0; i < 8; ++i) if (t[i] == a) return i; return 99; } };

// order-preserving embedding of the small ids into the global index type
template<class G> struct Enc;
template<> struct Enc<int> { static int enc(int id) { return id; } static int dec(int v) { return v; } };
template<> struct Enc<long> { static long enc(int id) { return ((long) (0x4000 + id) << 47) + id; } static int dec(long v) { return (int) (v & 0x3fff); } };
template<> struct Enc<unsigned long long> {
  static unsigned long long enc(int id) { return ((unsigned long long) (0x8000 + id) << 48) + (unsigned long long) id; }
  static int dec(unsigned long long v) { return (int) (v & 0x7fff); } };
template<> struct Enc<short> {
  static short enc(int id) { return (short) (id < 8 ? -32768 + id : id < 16 ? id - 12 : 32767 - (10000 - id)); }
  static int dec(short v) { return v < -16000 ? v + 32768 : v < 8 ? v + 12 : v - 32767 + 10000; } };
template<int k> struct Enc<Dune::bigunsignedint<k> > {
  typedef Dune::bigunsignedint<k> B;
  static B enc(int id) { return (B(std::uintmax_t(0x8000 + id)) << (k - 16)) + B(std::uintmax_t(id)); }
  static int dec(const B& v) { return (int) (v.touint() & 0x7fffu); } };

static int g_rank = 0;
static volatile long g_case = 0;

static void on_alarm(int)
{
  char b[128];
  int n = std::snprintf(b, sizeof b, "ERROR C04-HANG case=%ld rank=%d did not return\n", (long) g_case, g_rank);
  if (write(2, b, n) < 0) {}
  _exit(86);
}

struct P4 { int g, li, a, pub; bool operator==(const P4& o) const { return g == o.g && li == o.li && a == o.a && pub == o.pub; } };
typedef std::vector<P4> Set;
struct Case {
  int P, two, ign, incself, mode; unsigned long long seed; int ign2, resize;
  int ck = 0, pre = 0;                      // communicator kind, pre-existing state
  std::vector<Set> src[2], dst[2];
  std::vector<std::vector<int> > hints, orders;
};

static bool rdset(std::istream& is, Set& s)
{
  int n; if (!(is >> n) || n < 0 || n > 100000) return false;
  s.resize(n);
  for (auto& x : s) is >> x.g >> x.li >> x.a >> x.pub;
  return !is.fail();
}
static bool rdlist(std::istream& is, std::vector<int>& l)
{
  int n; if (!(is >> n) || n < 0 || n > 100000) return false;
  l.resize(n); for (auto& x : l) is >> x;
  return !is.fail();
}
static bool parse(const std::string& line, Case& c)
{
  std::istringstream is(line);
  if (!(is >> c.P >> c.two >> c.ign >> c.incself >> c.mode >> c.seed >> c.ign2 >> c.resize)) return false;
  if (c.P < 1 || c.P > 64) return false;
  c.ck = (c.mode >> 1) & 3; c.pre = (c.mode >> 3) & 1; c.mode &= 1;
  for (int ph = 0; ph < 2; ++ph) {
    c.src[ph].resize(c.P); c.dst[ph].resize(c.P);
    for (int r = 0; r < c.P; ++r) if (!rdset(is, c.src[ph][r]) || !rdset(is, c.dst[ph][r])) return false;
  }
  c.hints.resize(c.P); c.orders.resize(c.P);
  for (auto& l : c.hints) if (!rdlist(is, l)) return false;
  for (auto& l : c.orders) if (!rdlist(is, l)) return false;
  return true;
}

// fill an empty set (pairs added in reverse order: the set sorts them)
template<class PIS>
static void fill(PIS& s, const Set& c)
{
  s.beginResize();
  for (std::size_t i = c.size(); i-- > 0;) s.add(Enc<typename PIS::GlobalIndex>::enc(c[i].g), typename PIS::LocalIndex((std::size_t) c[i].li, AEnc<typename PIS::LocalIndex::Attribute>::enc(c[i].a), c[i].pub != 0));
  s.endResize();
}
// one beginResize/endResize that turns the content `from` into the content `to`
template<class PIS>
static void resize_to(PIS& s, const Set& from, const Set& to)
{
  auto has = [](const Set& v, const P4& x) { for (auto& y : v) if (y == x) return true; return false; };
  s.beginResize();
  for (auto it = s.begin(); it != s.end(); ++it) {
    P4 x{Enc<typename PIS::GlobalIndex>::dec(it->global()), (int) it->local().local(), AEnc<typename PIS::LocalIndex::Attribute>::dec(it->local().attribute()), it->local().isPublic() ? 1 : 0};
    if (!has(to, x)) s.markAsDeleted(it);
  }
  for (std::size_t i = to.size(); i-- > 0;) if (!has(from, to[i])) s.add(Enc<typename PIS::GlobalIndex>::enc(to[i].g), typename PIS::LocalIndex((std::size_t) to[i].li, AEnc<typename PIS::LocalIndex::Attribute>::enc(to[i].a), to[i].pub != 0));
  s.endResize();
}

template<class G, class L>
static void plist(std::ostream& os, const L& l)
{
  bool first = true;
  for (auto it = l.begin(); it != l.end(); ++it) {
    const auto& p = it->localIndexPair();
    os << (first ? "" : " ") << Enc<G>::dec(p.global()) << "." << p.local().local() << "." << AEnc<decltype(p.local().attribute())>::dec(p.local().attribute()) << "."
       << (p.local().isPublic() ? 1 : 0) << "." << AEnc<decltype(p.local().attribute())>::dec(it->attribute());
    first = false;
  }
}
template<class RI>
static void pmap(std::ostream& os, const RI& ri, const char* nb)
{
  os << nb << "=" << ri.neighbours() << " {";
  bool first = true;
  for (auto it = ri.begin(); it != ri.end(); ++it) {
    os << (first ? "" : " ") << it->first << ":S[";
    plist<typename RI::GlobalIndex>(os, *(it->second.first));
    os << "]R[";
    plist<typename RI::GlobalIndex>(os, *(it->second.second));
    os << "]";
    first = false;
  }
  os << "}";
}


// Printing follows RemoteIndex::localIndexPair(), a stored pointer.  A defect that stores an invalid pointer must not take the
// whole launch down (every queued case would be lost and mpirun needs seconds to tear down): while printing, SIGSEGV/SIGBUS
// jump back and the map is reported as {SEGV}, which the oracle rejects.
static sigjmp_buf g_jb;
static volatile sig_atomic_t g_guard = 0;
static void on_segv(int sig)
{
  if (g_guard) { g_guard = 0; siglongjmp(g_jb, 1); }
  std::signal(sig, SIG_DFL); raise(sig);
}
template<class RI>
static void pmap_guarded(std::ostream& os, const RI& ri, const char* nb)
{
  std::ostringstream* tmp = new std::ostringstream();      // leaked on the SEGV path
  g_guard = 1;
  if (sigsetjmp(g_jb, 1) == 0) { pmap(*tmp, ri, nb); g_guard = 0; os << tmp->str(); delete tmp; }
  else { g_guard = 0; os << nb << "=" << ri.neighbours() << " {SEGV}"; }
}

template<class G, class A, int N>
static void run_case(std::ostream& os, const Case& c, int wrank, const std::vector<MPI_Comm>& comms)
{
  MPI_Comm comm = comms[c.ck];
  int rank; MPI_Comm_rank(comm, &rank);             // everything of the case is indexed by the rank in the case's communicator
  typedef Dune::ParallelLocalIndex<A> LI;
  typedef Dune::ParallelIndexSet<G, LI, N> PIS;
  typedef Dune::RemoteIndices<PIS> RI;
  PIS S, T;
  fill(S, c.src[0][rank]);
  // two = 0: every rank passes ONE index-set object for both roles; 1: every rank passes two objects;
  // two >= 2: mixed, bit r of (two - 2) says whether rank r passes two objects (the others pass their source set twice)
  const bool two = c.two >= 2 ? (((c.two - 2) >> rank) & 1) != 0 : c.two != 0;
  if (two) fill(T, c.dst[0][rank]);
  PIS& tgt = two ? T : S;
  const bool inc = c.incself >= 2 ? (((c.incself - 2) >> rank) & 1) != 0 : c.incself != 0;
  // pre-existing state: the object has been built over OTHER sets (the phase-2 contents under the numbering of communicator 0,
  // resized once more so that their seqNo differs) on communicator 0, ring mode, with the opposite includeSelf
  PIS S0, T0;
  std::unique_ptr<RI> rip;
  if (c.pre) {
    fill(S0, c.src[1][wrank]); fill(T0, c.dst[1][wrank].empty() ? c.src[0][wrank] : c.dst[1][wrank]);
    S0.beginResize(); S0.endResize(); T0.beginResize(); T0.endResize();
    rip.reset(new RI(S0, T0, comms[0], std::vector<int>(), !inc));
    rip->template rebuild<true>();
    if (c.mode) rip->setIndexSets(S, tgt, comm, c.hints[rank]); else rip->setIndexSets(S, tgt, comm);
    rip->setIncludeSelf(inc);
  } else
    rip.reset(new RI(S, tgt, comm, c.mode ? c.hints[rank] : std::vector<int>(), inc));
  RI& ri = *rip;
  os << "r" << rank << " pre=" << (ri.isSynced() ? 1 : 0);
  pmpi_sched_reseed(c.seed);
  if (c.ign) ri.template rebuild<true>(); else ri.template rebuild<false>();
  os << " syn=" << (ri.isSynced() ? 1 : 0) << " ";
  pmap_guarded(os, ri, "nb");
  // with one index set the "target" set is the source set: a resize of either resizes that one object (once per bit)
  if (c.resize & 1) resize_to(S, c.src[0][rank], c.src[1][rank]);
  if (c.resize & 2) {
    if (two) resize_to(T, c.dst[0][rank], c.dst[1][rank]);
    else resize_to(tgt, (c.resize & 1) ? c.src[1][rank] : c.src[0][rank], c.src[1][rank]);
  }
  os << " aft=" << (ri.isSynced() ? 1 : 0);
  if (c.ign2) ri.template rebuild<true>(); else ri.template rebuild<false>();
  pmpi_sched_reseed(0);
  os << " syn2=" << (ri.isSynced() ? 1 : 0) << " ";
  pmap_guarded(os, ri, "nb2");
}


// ---- object histories (argv: hist <file>): ONE RemoteIndices object re-used; case format see ml/C04_driver.ml -------------
struct HOp { int kind; int slot, hintflag, b, ign, cmpinc, ws, wd, m; int ck = 0; std::vector<std::vector<int> > hints; };
struct HCase {
  int P, two; unsigned long long seed; int M; int cck = 0;
  std::vector<std::vector<Set> > dsrc, ddst;      // [m][rank]
  std::vector<int> slot0;
  int ckind, cslot, chf, cinc; std::vector<std::vector<int> > chints;
  std::vector<HOp> ops;
};
static bool rdhints(std::istream& is, int P, std::vector<std::vector<int> >& h)
{
  h.resize(P);
  for (auto& l : h) if (!rdlist(is, l)) return false;
  return true;
}
static bool parse_hist(const std::string& line, HCase& c)
{
  std::istringstream is(line);
  if (!(is >> c.P >> c.two >> c.seed >> c.M)) return false;
  if (c.P < 1 || c.P > 64 || c.M < 1 || c.M > 16) return false;
  c.dsrc.assign(c.M, std::vector<Set>(c.P)); c.ddst.assign(c.M, std::vector<Set>(c.P));
  for (int m = 0; m < c.M; ++m) for (int r = 0; r < c.P; ++r) if (!rdset(is, c.dsrc[m][r]) || !rdset(is, c.ddst[m][r])) return false;
  int ns; if (!(is >> ns) || ns < 1 || ns > 8) return false;
  c.slot0.resize(ns); for (auto& x : c.slot0) { is >> x; if (x < 0 || x >= c.M) return false; }
  if (!(is >> c.ckind >> c.cslot >> c.chf >> c.cinc)) return false;
  c.cck = (c.cslot >> 4) & 3; c.cslot &= 15;
  if (c.cslot < 0 || c.cslot >= ns) return false;
  if (c.chf && !rdhints(is, c.P, c.chints)) return false;
  int nops; if (!(is >> nops) || nops < 0 || nops > 1000) return false;
  c.ops.resize(nops);
  for (auto& o : c.ops) {
    if (!(is >> o.kind)) return false;
    switch (o.kind) {
      case 1: is >> o.slot >> o.hintflag; o.ck = (o.slot >> 4) & 3; o.slot &= 15; if (o.slot < 0 || o.slot >= ns) return false; if (o.hintflag && !rdhints(is, c.P, o.hints)) return false; break;
      case 2: if (!rdhints(is, c.P, o.hints)) return false; break;
      case 3: is >> o.b; break;
      case 4: break;
      case 5: is >> o.ign >> o.cmpinc; break;
      case 6: is >> o.slot >> o.ws >> o.wd >> o.m; if (o.slot < 0 || o.slot >= ns || o.m < 0 || o.m >= c.M) return false; break;
      default: return false;
    }
  }
  return !is.fail();
}

template<class G, class A, int N>
static void run_hist(std::ostream& os, const HCase& c, int rank, const std::vector<MPI_Comm>& comms)
{
  int ck = c.cck;                                   // kind of the communicator given last
  MPI_Comm comm = comms[ck];
  int cr; MPI_Comm_rank(comm, &cr);                 // this process's rank in it: hints are indexed by it
  typedef Dune::ParallelLocalIndex<A> LI;
  typedef Dune::ParallelIndexSet<G, LI, N> PIS;
  typedef Dune::RemoteIndices<PIS> RI;
  const int ns = (int) c.slot0.size();
  std::vector<PIS> S(ns), T(ns);
  std::vector<Set> cs(ns), ct(ns);               // current contents of this rank's sets
  for (int j = 0; j < ns; ++j) {
    cs[j] = c.dsrc[c.slot0[j]][rank]; fill(S[j], cs[j]);
    ct[j] = c.ddst[c.slot0[j]][rank]; fill(T[j], ct[j]);           // with one index set T[j] is unused (seqNo irrelevant)
  }
  auto tgt = [&](int j) -> PIS& { return c.two ? T[j] : S[j]; };
  os << "r" << rank;
  int cur = c.cslot;
  std::unique_ptr<RI> ri;
  if (c.ckind == 0) {
    if (c.chf) ri.reset(new RI(S[cur], tgt(cur), comm, c.chints[cr], c.cinc != 0));
    else if (c.cinc) ri.reset(new RI(S[cur], tgt(cur), comm, std::vector<int>(), true));
    else ri.reset(new RI(S[cur], tgt(cur), comm));                  // both defaults
  } else {
    ri.reset(new RI());
    if (c.chf) ri->setIndexSets(S[cur], tgt(cur), comm, c.chints[cr]); else ri->setIndexSets(S[cur], tgt(cur), comm);
    ri->setIncludeSelf(c.cinc != 0);
  }
  pmpi_sched_reseed(c.seed);
  for (const HOp& o : c.ops) {
    switch (o.kind) {
      case 1:
        cur = o.slot; ck = o.ck; comm = comms[ck]; MPI_Comm_rank(comm, &cr);
        if (o.hintflag) ri->setIndexSets(S[cur], tgt(cur), comm, o.hints[cr]); else ri->setIndexSets(S[cur], tgt(cur), comm);
        break;
      case 2: ri->setNeighbours(o.hints[cr]); break;
      case 3: ri->setIncludeSelf(o.b != 0); break;
      case 4: ri->free(); break;
      case 5: {
        os << " [b=" << (ri->isSynced() ? 1 : 0);
        if (o.ign) ri->template rebuild<true>(); else ri->template rebuild<false>();
        os << " s=" << (ri->isSynced() ? 1 : 0) << " gn=";
        bool f = true; for (int q : ri->getNeighbours()) { os << (f ? "" : ",") << q; f = false; }
        // an independent fresh object over the same sets, ring mode: operator== must hold
        bool eq;
        {
          RI fresh(S[cur], tgt(cur), comm, std::vector<int>(), o.cmpinc != 0);
          if (o.ign) fresh.template rebuild<true>(); else fresh.template rebuild<false>();
          eq = (*ri == fresh) && (fresh == *ri);
        }
        os << " eq=" << (eq ? 1 : 0) << " ";
        pmap_guarded(os, *ri, "nb");
        // accessors: find() agrees with the iteration, the index sets are the ones given, a copy of a list equals the list
        std::string bad;
        int seen = 0;
        for (int q = 0; q < c.P; ++q) {
          auto it = ri->find(q);
          if (it != ri->end()) { ++seen; if (it->first != q) bad += " BAD:find-key"; }
        }
        if (seen != ri->neighbours()) bad += " BAD:find-count";
        if (&ri->sourceIndexSet() != &S[cur] || &ri->destinationIndexSet() != &tgt(cur)) bad += " BAD:index-set-accessors";
        for (auto it = ri->begin(); it != ri->end(); ++it) {
          typename RI::RemoteIndexList cp(*(it->second.first));
          if (!(cp == *(it->second.first)) || cp.size() != it->second.first->size()) bad += " BAD:list-copy";
          for (auto e = it->second.second->begin(); e != it->second.second->end(); ++e) { if (!(*e == *e) || (*e != *e)) bad += " BAD:remoteindex-eq"; }
        }
        os << bad << "]";
        break;
      }
      case 6: {
        if (o.ws) { resize_to(S[o.slot], cs[o.slot], c.dsrc[o.m][rank]); cs[o.slot] = c.dsrc[o.m][rank]; }
        if (o.wd) {
          if (c.two) { resize_to(T[o.slot], ct[o.slot], c.ddst[o.m][rank]); ct[o.slot] = c.ddst[o.m][rank]; }
          else { resize_to(S[o.slot], cs[o.slot], cs[o.slot]); }          // one index set: the target IS the source
        }
        break;
      }
    }
  }
  pmpi_sched_reseed(0);
  ri.reset();
}

static unsigned fnv(const std::string& s) { unsigned h = 2166136261u; for (unsigned char ch : s) { h ^= ch; h *= 16777619u; } return h; }

int main(int argc, char** argv)
{
  MPI_Init(&argc, &argv);
  std::signal(SIGSEGV, on_segv); std::signal(SIGBUS, on_segv);
  int np;
  MPI_Comm_rank(MPI_COMM_WORLD, &g_rank);
  MPI_Comm_size(MPI_COMM_WORLD, &np);
  const int rank = g_rank;
  int tmo = std::getenv("C04_CASE_TIMEOUT") ? std::atoi(std::getenv("C04_CASE_TIMEOUT")) : 30;
  // small cases (the bulk) take milliseconds: a shorter limit keeps trees that make many cases hang affordable
  int tmo_small = std::getenv("C04_SMALL_TIMEOUT") ? std::atoi(std::getenv("C04_SMALL_TIMEOUT")) : tmo;
  std::signal(SIGALRM, on_alarm);
  const char* ge = std::getenv("C04_GTYPE");
  int gtype_env = !ge ? 0 : (std::string(ge) == "rot" ? -1 : std::atoi(ge));
  std::vector<MPI_Comm> sub(np + 1, MPI_COMM_NULL);
  for (int P = 1; P <= np; ++P) MPI_Comm_split(MPI_COMM_WORLD, rank < P ? 0 : MPI_UNDEFINED, rank, &sub[P]);
  // comms[P][kind]: 0 the P-rank communicator, 1 a duplicate, 2 ranks reversed, 3 ranks rotated by one
  std::vector<std::vector<MPI_Comm> > comms(np + 1, std::vector<MPI_Comm>(4, MPI_COMM_NULL));
  for (int P = 1; P <= np; ++P) if (sub[P] != MPI_COMM_NULL) {
    comms[P][0] = sub[P];
    MPI_Comm_dup(sub[P], &comms[P][1]);
    MPI_Comm_split(sub[P], 0, P - 1 - rank, &comms[P][2]);
    MPI_Comm_split(sub[P], 0, (rank + 1) % P, &comms[P][3]);
  }
  const bool hist = argc >= 3 && std::string(argv[1]) == "hist";
  std::ifstream in(argv[argc - 1]);
  std::string line;
  while (std::getline(in, line)) {
    ++g_case;
    Case c; HCase hc;
    bool ok = hist ? (parse_hist(line, hc) && hc.P <= np) : (parse(line, c) && c.P <= np);
    if (hist) c.P = hc.P;
    std::string mine;
    if (ok && rank < c.P) {
      std::ostringstream os;
      alarm(line.size() < 4000 ? tmo_small : tmo);
      int gt = gtype_env;
      if (gt < 0) gt = 1 + (int) (fnv(line) % 6u);
      if (hist) switch (gt) {
        case 1: run_hist<long, AttrL, 3>(os, hc, rank, comms[c.P]); break;
        case 2: run_hist<unsigned long long, Attr, 8>(os, hc, rank, comms[c.P]); break;
        case 3: run_hist<Dune::bigunsignedint<55>, Attr, 8>(os, hc, rank, comms[c.P]); break;
        case 4: run_hist<Dune::bigunsignedint<64>, Attr, 8>(os, hc, rank, comms[c.P]); break;
        case 5: run_hist<Dune::bigunsignedint<100>, Attr, 8>(os, hc, rank, comms[c.P]); break;
        case 6: run_hist<short, AttrS, 5>(os, hc, rank, comms[c.P]); break;
        default: run_hist<int, Attr, 8>(os, hc, rank, comms[c.P]); break;
      }
      else switch (gt) {
        case 1: run_case<long, AttrL, 3>(os, c, rank, comms[c.P]); break;
        case 2: run_case<unsigned long long, Attr, 8>(os, c, rank, comms[c.P]); break;
        case 3: run_case<Dune::bigunsignedint<55>, Attr, 8>(os, c, rank, comms[c.P]); break;
        case 4: run_case<Dune::bigunsignedint<64>, Attr, 8>(os, c, rank, comms[c.P]); break;
        case 5: run_case<Dune::bigunsignedint<100>, Attr, 8>(os, c, rank, comms[c.P]); break;
        case 6: run_case<short, AttrS, 5>(os, c, rank, comms[c.P]); break;
        default: run_case<int, Attr, 8>(os, c, rank, comms[c.P]); break;
      }
      alarm(0);
      mine = os.str();
    }
    // collect on world rank 0
    alarm(tmo);
    int mylen = (int) mine.size();
    std::vector<int> lens(np), displs(np);
    MPI_Gather(&mylen, 1, MPI_INT, lens.data(), 1, MPI_INT, 0, MPI_COMM_WORLD);
    int tot = 0; if (rank == 0) for (int r = 0; r < np; ++r) { displs[r] = tot; tot += lens[r]; }
    std::vector<char> rb(tot + 1);
    MPI_Gatherv(mine.data(), mylen, MPI_CHAR, rb.data(), lens.data(), displs.data(), MPI_CHAR, 0, MPI_COMM_WORLD);
    alarm(0);
    if (rank == 0) {
      if (!ok) { std::cout << "BADCASE" << std::endl; continue; }
      std::string out;
      for (int i = 0; i < c.P; ++i) {
        // per-case stream: record i comes from the process with rank i in the case's communicator
        int r = hist ? i : (c.ck == 2 ? c.P - 1 - i : c.ck == 3 ? (i + c.P - 1) % c.P : i);
        if (i) out += " ; "; out.append(rb.data() + displs[r], lens[r]);
      }
      std::cout << out << std::endl;
    }
  }
  unsigned long long sw = 0, ro = 0, dl = 0;
  pmpi_sched_counters(&sw, &ro, &dl);
  unsigned long long loc[3] = {sw, ro, dl}, glob[3] = {0, 0, 0};
  MPI_Reduce(loc, glob, 3, MPI_UNSIGNED_LONG_LONG, MPI_SUM, 0, MPI_COMM_WORLD);
  if (rank == 0) std::cerr << "C04-SHIM sweeps=" << glob[0] << " reordered=" << glob[1] << " delays=" << glob[2] << std::endl;
  for (int P = 1; P <= np; ++P) if (sub[P] != MPI_COMM_NULL) { for (int k = 1; k < 4; ++k) MPI_Comm_free(&comms[P][k]); MPI_Comm_free(&sub[P]); }
  MPI_Finalize();
  return 0;
}
