// C05 impl driver: RemoteIndices -> Interface -> BufferedCommunicator of the current tree on generated decompositions.
// Launch:  mpirun -np NP impl cases.txt     (a case with P <= NP ranks runs on the first P ranks of a split communicator)
// Case line (space separated integers):
//   P two ign src dst mode pol seed NG sz[0..NG-1]  { nS {g l a pub}*nS capS  [ nT {g l a pub}*nT capT ] } x P
//     two  : 0 = one index set (source == target, forward(data)), 1 = two index sets (redistribution; self entry)
//     ign  : 1 = rebuild<true>() (publicity ignored), 0 = rebuild<false>() (only public indices are published)
//     src,dst : flag-set ids (table FLAGSETS below; the same table is in ml/C05_driver.ml)
//     mode : 0 = SizeOne payload (std::vector<double>), 1 = variable-size block vector (block size sz[g] for the entry of global g)
//            2 = SizeOne payload through build(source,dest,interface) instead of build<Data>(interface)
//            3 = SizeOne payload with a 16-byte element type (std::vector<FieldVector<double,2>>, components (v,-v))
//            +4 = the BufferedCommunicator object was built before for the AllSet/AllSet interface (build() called twice)
//            +8 = same, with free() between the two build() calls
//     pol  : 0 = copying scatter, 1 = accumulating scatter (recording policy in both cases)
//            +4 = afterwards phase 5: forward with the default policy Dune::CopyGatherScatter<Data> (SizeOne modes only; P5[D:.. T:..]) and phase 6: backward,
//                 both on a SECOND BufferedCommunicator built from the same Interface
//            +8 = one index set but SEPARATE source and target containers (forward(source,dest)/backward(source,dest))
//            +16 = one index set, ONE container, but passed twice: forward(data, data) / backward(data, data) (aliased arguments)
//            +32 = the communicator has the REVERSED rank order of MPI_COMM_WORLD (MPI_Comm_split with key P-1-rank)
//            +64 = phases 0-2 run on a COPY of the built BufferedCommunicator built from a COPY of the Interface (both leaked: the
//                  classes have no deep copy; the originals stay alive), phases 5/6 on the original
//            +128 = the Interface used for the communication was constructed with Interface(OTHER), OTHER = the communicator over the same
//                   processes with the opposite rank order (object history x communicator, round 6)
//            +256 = that Interface object was built before from RemoteIndices living on OTHER (AllSet/AllSet), then free()d
//            +512 = the earlier life of the BufferedCommunicator (mode +4/+8) and a forced earlier build of the DatatypeCommunicator
//                   happened on OTHER (interface / remote indices built on OTHER)
//            +2 = afterwards also a DatatypeCommunicator on the same remote indices and flag sets: phase 3 forward(), 4 backward()
//                 (output fields P3[D:.. T:..] P4[D:.. T:..]; copies only; not modelled, judged by the spec alone)
//     seed : schedule seed for harness/common/pmpi_sched.c (0 = no perturbation)
//     capS/capT : container sizes (> every local index)
// Three phases on ONE communicator: forward, backward, forward.  Before each phase the containers are re-tagged with
// globally unique values  tag(phase,rank,set,l,j) = ((((phase*8+rank)*2+set)*64+l)*4+j)+1 .
// Output: ONE line per case printed by rank 0:  r0 <fields> ;; r1 <fields> ...   with fields
//   RI[q:g.l.a.ra,.../g.l.a.ra,... ...]   remote index lists (send/receive) as built by the tree        (deep)
//   IF[q:l,l/l,l ...]                     Interface::interfaces()  (send/receive local indices)          (public)
//   SE[l,l/l,l/u]                         Selection<src>(source set) / Selection<dst>(target set) / 1 if UncachedSelection (also default-constructed
//                                         + setIndexSet, iterator ==), and a default-constructed Selection after setIndexSet (twice) agree
//   SD[b]                                 1 if a default-constructed Selection is empty (begin()==end())
//   EQ[x/y/z/w/v]                         Interface::operator==: same flags (Interface(MPI_Comm) ctor) / swapped flags / != is the negation /
//                                         operator<< prints interfaces() / after free() and build() with swapped flags equal to the swapped one
//   CM[a/b]                               Interface::communicator() is (MPI_IDENT) the communicator of the RemoteIndices of the last build():
//                                         the Interface of the communication / the Interface(OTHER) of the EQ stream after build and after free()+build
//   CP[b]                                 copy-constructed and copy-assigned Interface equal the original (==, !=, communicator())
//   ST[e/i/n]                             self tests: enumset combine() and operator<< / InterfaceInformation members / build() on
//                                         remote indices that are not in sync throws RemoteIndicesStateError
//   DT[q:l.n,l.n/l.n ...]                the (entry, block length) lists of the send / receive MPI datatype per remote process   (deep)
//   P<k>[G:l.j=v,... S:l.j=v,... D:v.v,v.v,... T:... M:q=n,...]   per phase: gather calls (in call order), scatter calls
//                                         (in call order), source container, target container, (dest=count) of every send  (M deep)
#include <config.h>
#include <mpi.h>
#include <csignal>
#include <cstdio>
#include <cstdlib>
#include <cstring>
#include <fstream>
#include <iostream>
#include <map>
#include <sstream>
#include <string>
#include <vector>
#include <new>
#include <type_traits>
#include <unistd.h>
#include <dune/common/enumset.hh>
#include <dune/common/fvector.hh>
#include <dune/common/parallel/indexset.hh>
#include <dune/common/parallel/plocalindex.hh>
#include <dune/common/parallel/remoteindices.hh>
#include <dune/common/parallel/interface.hh>
#include <dune/common/parallel/communicator.hh>
#include <dune/common/parallel/selection.hh>

extern "C" {
void pmpi_sched_reseed(unsigned long long seed);
void pmpi_sched_trace(int on);
int pmpi_sched_trace_get(int *triples, int max_triples);
void pmpi_sched_counters(unsigned long long *sweeps, unsigned long long *reordered, unsigned long long *delays);
}

static int g_rank = 0;
static volatile long g_case = 0;
static void on_alarm(int)
{
  char b[128];
  int n = std::snprintf(b, sizeof b, "ERROR C05-HANG case=%ld rank=%d did not return\n", (long) g_case, g_rank);
  if (write(2, b, n) < 0) {}
  _exit(86);
}

enum Attr { a0 = 0, a1 = 1, a2 = 2 };
typedef Dune::ParallelLocalIndex<Attr> LI;
typedef Dune::ParallelIndexSet<int, LI, 16> PIS;
typedef Dune::RemoteIndices<PIS> RI;

// ---- the variable-size container the repo's CommPolicy specialisation is written for (dune-istl's class is only
//      forward-declared in communicator.hh; this is a minimal stand-in with the members CommPolicy uses)
namespace Dune {
  template<class B_, class A>
  class VariableBlockVector {
  public:
    typedef B_ B;
    struct Block {
      std::vector<B_> d;
      int getsize() const { return (int) d.size(); }
      B_& operator[](int i) { return d.data()[i]; }               // (blocks keep capacity >= 1, see retag)
      const B_& operator[](int i) const { return d.data()[i]; }
    };
    std::vector<Block> blocks;
    Block& operator[](int i) { return blocks[i]; }
    const Block& operator[](int i) const { return blocks[i]; }
  };
}
typedef Dune::FieldVector<double, 1> FV1;
typedef Dune::VariableBlockVector<FV1, std::allocator<FV1> > VBV;
typedef std::vector<double> SV;
typedef Dune::FieldVector<double, 2> FV2;
typedef std::vector<FV2> SV2;

struct Rec { long l, j; double v; };
static std::vector<Rec>* g_glog = 0;
static std::vector<Rec>* g_slog = 0;

template<int POL>
struct RecGS1 {                       // SizeOne
  static double gather(const SV& d, std::size_t i) { g_glog->push_back({(long) i, 0, d[i]}); return d[i]; }
  static void scatter(SV& d, double v, std::size_t i) { g_slog->push_back({(long) i, 0, v}); if (POL) d[i] += v; else d[i] = v; }
};
template<int POL>
struct RecGS2 {                       // SizeOne, 16-byte elements (v,-v)
  static FV2 gather(const SV2& d, std::size_t i) { g_glog->push_back({(long) i, 0, d[i][0]}); return d[i]; }
  static void scatter(SV2& d, const FV2& v, std::size_t i)
  { g_slog->push_back({(long) i, 0, v[1] == -v[0] ? v[0] : -7777.5}); if (POL) d[i] += v; else d[i] = v; }
};
template<int POL>
struct RecGSV {                       // VariableSize
  static FV1 gather(const VBV& d, std::size_t i, std::size_t j) { g_glog->push_back({(long) i, (long) j, d[i][j][0]}); return d[i][j]; }
  static void scatter(VBV& d, const FV1& v, std::size_t i, std::size_t j)
  { g_slog->push_back({(long) i, (long) j, v[0]}); if (POL) d[i][j][0] += v[0]; else d[i][j][0] = v[0]; }
};

// ---- flag sets (ids shared with ml/C05_driver.ml and checks/C05.py)
template<int N> struct FS;
template<> struct FS<0> { typedef Dune::EmptySet<Attr> T; };
template<> struct FS<1> { typedef Dune::AllSet<Attr> T; };
template<> struct FS<2> { typedef Dune::EnumItem<Attr, 0> T; };
template<> struct FS<3> { typedef Dune::EnumItem<Attr, 1> T; };
template<> struct FS<4> { typedef Dune::EnumItem<Attr, 2> T; };
template<> struct FS<5> { typedef Dune::EnumRange<Attr, 0, 1> T; };
template<> struct FS<6> { typedef Dune::EnumRange<Attr, 1, 2> T; };
template<> struct FS<7> { typedef Dune::Combine<Dune::EnumItem<Attr, 0>, Dune::EnumItem<Attr, 2>, Attr> T; };
template<> struct FS<8> { typedef Dune::NegateSet<Dune::EnumItem<Attr, 1> > T; };
template<> struct FS<9> { typedef Dune::NegateSet<Dune::EnumRange<Attr, 0, 1> > T; };
template<> struct FS<10> { typedef Dune::Combine<Dune::EnumRange<Attr, 1, 1>, Dune::NegateSet<Dune::AllSet<Attr> >, Attr> T; };
template<> struct FS<11> { typedef Dune::Combine<Dune::NegateSet<Dune::EnumRange<Attr, 0, 1> >, Dune::EmptySet<Attr>, Attr> T; };
static const int NFS = 12;

template<int N, class F> struct Disp {
  static void go(int id, F& f) { if (id == N) f.template run<typename FS<N>::T>(); else Disp<N + 1, F>::go(id, f); }
};
template<class F> struct Disp<NFS, F> { static void go(int, F&) {} };

struct Ent { int g, l, a, pub; };
struct RankSets { std::vector<Ent> S, T; int capS, capT; };
struct Case {
  int P, two, ign, src, dst, mode, pol, rebuild, dt, cgs, sep, tc, al2, rev, cop, ictor, ipre, opre; unsigned long long seed; int NG; std::vector<int> sz; std::vector<RankSets> rs;
};
static bool parse(const std::string& line, Case& c)
{
  std::istringstream is(line);
  if (!(is >> c.P >> c.two >> c.ign >> c.src >> c.dst >> c.mode >> c.pol >> c.seed >> c.NG)) return false;
  if (c.P < 1 || c.P > 8 || c.NG < 0 || c.NG > 64) return false;
  c.dt = (c.pol / 2) % 2; c.cgs = (c.pol / 4) % 2; c.sep = (c.pol / 8) % 2; c.al2 = (c.pol / 16) % 2; c.rev = (c.pol / 32) % 2; c.cop = (c.pol / 64) % 2; c.ictor = (c.pol / 128) % 2; c.ipre = (c.pol / 256) % 2; c.opre = (c.pol / 512) % 2; c.pol %= 2;
  c.rebuild = c.mode / 4; c.mode %= 4;
  c.sz.resize(c.NG); for (auto& x : c.sz) is >> x;
  c.rs.resize(c.P);
  for (auto& r : c.rs) {
    int n; is >> n; if (!is || n < 0 || n > 64) return false;
    r.S.resize(n); for (auto& e : r.S) is >> e.g >> e.l >> e.a >> e.pub;
    is >> r.capS;
    if (c.two) { is >> n; if (!is || n < 0 || n > 64) return false; r.T.resize(n); for (auto& e : r.T) is >> e.g >> e.l >> e.a >> e.pub; is >> r.capT; }
    else { r.T = r.S; r.capT = r.capS; }
  }
  c.tc = c.two || c.sep;
  return !is.fail() && c.src >= 0 && c.src < NFS && c.dst >= 0 && c.dst < NFS;
}

static double tagv(int phase, int rank, int set, int l, int j) { return (double) (((((long) phase * 8 + rank) * 2 + set) * 64 + l) * 4 + j + 1); }
static std::string num(double v)
{
  long long k = (long long) v; char b[64];
  if ((double) k == v) std::snprintf(b, sizeof b, "%lld", k); else std::snprintf(b, sizeof b, "%a", v);
  return b;
}

static void fill_sizes(const Case& c, const std::vector<Ent>& es, int cap, std::vector<int>& out)
{
  out.assign(cap, 1);
  if (c.mode == 1) for (auto& e : es) out[e.l] = c.sz[e.g];
}
static void retag(SV& d, int phase, int rank, int set, const std::vector<int>& sizes)
{ d.resize(sizes.size()); for (std::size_t l = 0; l < sizes.size(); ++l) d[l] = tagv(phase, rank, set, (int) l, 0); }
static void retag(SV2& d, int phase, int rank, int set, const std::vector<int>& sizes)
{ d.resize(sizes.size()); for (std::size_t l = 0; l < sizes.size(); ++l) { d[l][0] = tagv(phase, rank, set, (int) l, 0); d[l][1] = -d[l][0]; } }
static void retag(VBV& d, int phase, int rank, int set, const std::vector<int>& sizes)
{
  d.blocks.resize(sizes.size());
  for (std::size_t l = 0; l < sizes.size(); ++l) { d.blocks[l].d.reserve(4); d.blocks[l].d.resize(sizes[l]); for (int j = 0; j < sizes[l]; ++j) d.blocks[l].d[j][0] = tagv(phase, rank, set, (int) l, j); }
}
static void dump(std::ostream& os, const SV& d) { for (std::size_t l = 0; l < d.size(); ++l) os << (l ? "," : "") << num(d[l]); }
static void dump(std::ostream& os, const SV2& d)
{ for (std::size_t l = 0; l < d.size(); ++l) os << (l ? "," : "") << num(d[l][0]) << (d[l][1] == -d[l][0] ? "" : "!"); }
static void dump(std::ostream& os, const VBV& d)
{
  for (std::size_t l = 0; l < d.blocks.size(); ++l) {
    os << (l ? "," : "");
    for (std::size_t j = 0; j < d.blocks[l].d.size(); ++j) os << (j ? "." : "") << num(d.blocks[l].d[j][0]);
    if (d.blocks[l].d.empty()) os << "-";
  }
}
static void dumplog(std::ostream& os, const std::vector<Rec>& lg)
{ for (std::size_t i = 0; i < lg.size(); ++i) os << (i ? "," : "") << lg[i].l << "." << lg[i].j << "=" << num(lg[i].v); }

template<class Data, class GS>
static void phases(const Case& c, int rank, Dune::BufferedCommunicator& bc, Dune::BufferedCommunicator& second, std::ostream& os)
{
  const RankSets& r = c.rs[rank];
  std::vector<int> szS, szT;
  fill_sizes(c, r.S, r.capS, szS); fill_sizes(c, r.T, r.capT, szT);
  Data src, dstc;
  for (int ph = 0; ph < 3; ++ph) {
    retag(src, ph, rank, 0, szS);
    if (c.tc) retag(dstc, ph, rank, 1, szT);
    std::vector<Rec> gl, sl; g_glog = &gl; g_slog = &sl;
    pmpi_sched_reseed(c.seed ? c.seed + 7919ULL * ph : 0);
    pmpi_sched_trace(1);
    if (c.tc) { if (ph == 1) bc.template backward<GS>(src, dstc); else bc.template forward<GS>(src, dstc); }
    else if (c.al2) { if (ph == 1) bc.template backward<GS>(src, src); else bc.template forward<GS>(src, src); }
    else       { if (ph == 1) bc.template backward<GS>(src);       else bc.template forward<GS>(src); }
    pmpi_sched_trace(0);
    pmpi_sched_reseed(0);
    os << " P" << ph << "[G:"; dumplog(os, gl); os << " S:"; dumplog(os, sl);
    os << " D:"; dump(os, src); os << " T:"; if (c.tc) dump(os, dstc); else dump(os, src);
    os << " M:";
    std::vector<int> t(3 * 256);
    int nt = pmpi_sched_trace_get(t.data(), 256); if (nt > 256) nt = 256;
    for (int i = 0; i < nt; ++i) os << (i ? "," : "") << t[3 * i] << "=" << t[3 * i + 2];
    os << "]";
  }
  if constexpr (!std::is_same<Data, VBV>::value) {
    if (c.cgs) {                     // the library's default policy (no log): forward, containers only
      retag(src, 5, rank, 0, szS);
      if (c.tc) retag(dstc, 5, rank, 1, szT);
      pmpi_sched_reseed(c.seed ? c.seed + 7919ULL * 5 : 0);
      if (c.tc) second.template forward<Dune::CopyGatherScatter<Data> >(src, dstc); else second.template forward<Dune::CopyGatherScatter<Data> >(src);
      pmpi_sched_reseed(0);
      os << " P5[D:"; dump(os, src); os << " T:"; if (c.tc) dump(os, dstc); else dump(os, src); os << "]";
      retag(src, 6, rank, 0, szS);
      if (c.tc) retag(dstc, 6, rank, 1, szT);
      pmpi_sched_reseed(c.seed ? c.seed + 7919ULL * 6 : 0);
      if (c.tc) second.template backward<Dune::CopyGatherScatter<Data> >(src, dstc); else second.template backward<Dune::CopyGatherScatter<Data> >(src);
      pmpi_sched_reseed(0);
      os << " P6[D:"; dump(os, src); os << " T:"; if (c.tc) dump(os, dstc); else dump(os, src); os << "]";
    }
  }
}

// ---- interposition: record the arguments of every MPI_Type_create_hindexed (the datatypes DatatypeCommunicator builds)
struct HIdx { std::vector<int> len; std::vector<MPI_Aint> displ; };
static std::vector<HIdx> g_hidx;
extern "C" int MPI_Type_create_hindexed(int count, const int lens[], const MPI_Aint displs[], MPI_Datatype oldtype, MPI_Datatype* newtype)
{
  HIdx h; h.len.assign(lens, lens + count); h.displ.assign(displs, displs + count);
  g_hidx.push_back(h);
  return PMPI_Type_create_hindexed(count, lens, displs, oldtype, newtype);
}
// byte displacement relative to entry 0 -> local index of the entry that starts there (-1: none)
static long entry_at(const SV& d, MPI_Aint displ) { return displ % (MPI_Aint) sizeof(double) == 0 ? (long) (displ / (MPI_Aint) sizeof(double)) : -1; }
static long entry_at(const SV2& d, MPI_Aint displ) { return displ % (MPI_Aint) sizeof(FV2) == 0 ? (long) (displ / (MPI_Aint) sizeof(FV2)) : -1; }
static long entry_at(const VBV& d, MPI_Aint displ)
{
  const char* base = (const char*) d.blocks[0].d.data();
  for (std::size_t l = 0; l < d.blocks.size(); ++l) if ((const char*) d.blocks[l].d.data() - base == displ) return (long) l;
  return -1;
}
template<class Data>
static void dump_type(std::ostream& os, const HIdx& h, const Data& d)
{ for (std::size_t i = 0; i < h.len.size(); ++i) os << (i ? "," : "") << entry_at(d, h.displ[i]) << "." << h.len[i]; }

// ---- DatatypeCommunicator (MPI derived datatypes; copies only): phases 3 (forward) and 4 (backward), containers only
template<class Data>
struct BuildDT {
  const RI* ri; Dune::DatatypeCommunicator<PIS>* dc; Data* s; Data* t; int dstid;
  template<class S> struct Inner { const RI* ri; Dune::DatatypeCommunicator<PIS>* dc; Data* s; Data* t;
    template<class D> void run() { dc->build(*ri, S(), *s, D(), *t); } };
  template<class S> void run() { Inner<S> in{ri, dc, s, t}; Disp<0, Inner<S> >::go(dstid, in); }
};
template<class Data>
static void dt_phases(const Case& c, int rank, const RI& ri, const RI* rio, std::ostream& os)
{
  const RankSets& r = c.rs[rank];
  std::vector<int> szS, szT;
  fill_sizes(c, r.S, r.capS, szS); fill_sizes(c, r.T, r.capT, szT);
  Data src, dstc;
  retag(src, 3, rank, 0, szS);
  if (c.tc) retag(dstc, 3, rank, 1, szT);
  Dune::DatatypeCommunicator<PIS> dc;
  if (c.opre && rio)                 // built before from remote indices on the OTHER communicator (requests on the other communicator)
    dc.build(*rio, Dune::AllSet<Attr>(), src, Dune::AllSet<Attr>(), c.tc ? dstc : src);
  else if (c.seed % 2)               // built before for all attributes: build() has to free the first set of datatypes/requests
    dc.build(ri, Dune::AllSet<Attr>(), src, Dune::AllSet<Attr>(), c.tc ? dstc : src);
  g_hidx.clear();
  BuildDT<Data> b{&ri, &dc, &src, c.tc ? &dstc : &src, c.dst};
  Disp<0, BuildDT<Data> >::go(c.src, b);
  {   // deep stream: createDataTypes<false>(receiveData) for every remote process, then createDataTypes<true>(sendData)
    std::vector<int> procs; for (auto p = ri.begin(); p != ri.end(); ++p) procs.push_back(p->first);
    const Data& rcv = c.tc ? dstc : src;
    os << " DT[";
    if (g_hidx.size() == 2 * procs.size())
      for (std::size_t k = 0; k < procs.size(); ++k) {
        os << (k ? " " : "") << procs[k] << ":"; dump_type(os, g_hidx[procs.size() + k], src); os << "/"; dump_type(os, g_hidx[k], rcv);
      }
    else os << "?" << g_hidx.size();
    os << "]";
  }
  for (int ph = 3; ph < 5; ++ph) {
    if (ph == 4) { retag(src, 4, rank, 0, szS); if (c.tc) retag(dstc, 4, rank, 1, szT); }     // same storage, fresh tags
    if (ph == 3) dc.forward(); else dc.backward();
    os << " P" << ph << "[D:"; dump(os, src); os << " T:"; if (c.tc) dump(os, dstc); else dump(os, src); os << "]";
  }
  if (c.seed % 3 == 0) dc.free();    // explicit free(), then the destructor
}

struct BuildIf {
  const RI* ri; Dune::Interface* inf; int dstid;
  template<class S> struct Inner { const RI* ri; Dune::Interface* inf; template<class D> void run() { inf->build(*ri, S(), D()); } };
  template<class S> void run() { Inner<S> in{ri, inf}; Disp<0, Inner<S> >::go(dstid, in); }
};
struct Sel {
  const PIS* is; const PIS* other; std::ostream* os; bool* agree; bool* defempty;
  template<class S> void run()
  {
    Dune::Selection<S, int, LI, 16> sel(*is);
    Dune::UncachedSelection<S, int, LI, 16> us(*is);
    std::vector<unsigned> a, b;
    for (auto it = sel.begin(); it != sel.end(); ++it) a.push_back(*it);
    for (auto it = us.begin(); it != us.end(); ++it) b.push_back(*it);
    if (a != b) *agree = false;
    {   // default-constructed UncachedSelection + setIndexSet, iterator operator==
      Dune::UncachedSelection<S, int, LI, 16> us2;
      us2.setIndexSet(*is);
      std::vector<unsigned> b2;
      for (auto it = us2.begin(); !(it == us2.end()); ++it) b2.push_back(*it);
      if (b2 != a) *agree = false;
    }
    {   // default-constructed Selection (storage pre-filled with 0x01 bytes), setIndexSet on `other` and then on `is`
      typedef Dune::Selection<S, int, LI, 16> Sl;
      alignas(Sl) unsigned char buf[sizeof(Sl)];
      std::memset(buf, 1, sizeof buf);
      Sl* p = new (buf) Sl();
      if (!(p->begin() == p->end())) *defempty = false;
      p->setIndexSet(*other);
      p->setIndexSet(*is);
      std::vector<unsigned> a2(p->begin(), p->end());
      if (a2 != a) *agree = false;
      p->free();
      p->setIndexSet(*is);
      if (std::vector<unsigned>(p->begin(), p->end()) != a) *agree = false;
      p->~Sl();
    }
    for (std::size_t i = 0; i < a.size(); ++i) *os << (i ? "," : "") << a[i];
  }
};

static void fill_set(PIS& is, const std::vector<Ent>& es)
{
  is.beginResize();
  for (auto& e : es) is.add(e.g, LI((std::size_t) e.l, (Attr) e.a, e.pub != 0));
  is.endResize();
}

static bool same_comm(MPI_Comm a, MPI_Comm b)
{
  if (a == MPI_COMM_NULL || b == MPI_COMM_NULL) return a == b;
  int r = MPI_UNEQUAL; MPI_Comm_compare(a, b, &r); return r == MPI_IDENT;
}

static std::string run_case(const Case& c, int rank, MPI_Comm comm, MPI_Comm other)
{
  std::ostringstream os;
  const RankSets& r = c.rs[rank];
  PIS S, T;
  fill_set(S, r.S);
  if (c.two) fill_set(T, r.T);
  const PIS& TT = c.two ? T : S;
  RI ri(S, TT, comm);
  if (c.ign) ri.rebuild<true>(); else ri.rebuild<false>();
  os << "RI[";
  bool first = true;
  for (auto p = ri.begin(); p != ri.end(); ++p) {
    os << (first ? "" : " ") << p->first << ":"; first = false;
    for (int side = 0; side < 2; ++side) {
      auto* lst = side ? p->second.second : p->second.first;
      bool f2 = true;
      for (auto it = lst->begin(); it != lst->end(); ++it) {
        os << (f2 ? "" : ",") << it->localIndexPair().global() << "." << it->localIndexPair().local().local() << "."
           << (int) it->localIndexPair().local().attribute() << "." << (int) it->attribute();
        f2 = false;
      }
      if (!side) os << "/";
    }
  }
  os << "]";
  // the same index sets seen through the OTHER communicator (same processes, opposite rank order): earlier lives of the objects
  RI* rio = 0;
  if (c.ipre || c.opre) { rio = new RI(S, TT, other); if (c.ign) rio->rebuild<true>(); else rio->rebuild<false>(); }
  Dune::Interface inf_default, inf_other(other);
  Dune::Interface& inf = c.ictor ? inf_other : inf_default;
  if (c.ipre) { inf.build(*rio, Dune::AllSet<Attr>(), Dune::AllSet<Attr>()); inf.free(); }
  BuildIf bi{&ri, &inf, c.dst};
  Disp<0, BuildIf>::go(c.src, bi);
  os << " IF[";
  first = true;
  const Dune::Interface& cinf = inf;
  for (auto p = cinf.interfaces().begin(); p != cinf.interfaces().end(); ++p) {
    os << (first ? "" : " ") << p->first << ":"; first = false;
    for (std::size_t i = 0; i < p->second.first.size(); ++i) os << (i ? "," : "") << p->second.first[i];
    os << "/";
    for (std::size_t i = 0; i < p->second.second.size(); ++i) os << (i ? "," : "") << p->second.second[i];
  }
  os << "]";
  bool agree = true, defempty = true;
  os << " SE[";
  { Sel s{&S, &TT, &os, &agree, &defempty}; Disp<0, Sel>::go(c.src, s); }
  os << "/";
  { Sel s{&TT, &S, &os, &agree, &defempty}; Disp<0, Sel>::go(c.dst, s); }
  os << "/" << (agree ? 1 : 0) << "] SD[" << (defempty ? 1 : 0) << "]";
  {   // Interface equality, printing, free() + build()
    Dune::Interface inf2(other), inf3;
    BuildIf b2{&ri, &inf2, c.dst}; Disp<0, BuildIf>::go(c.src, b2);
    BuildIf b3{&ri, &inf3, c.src}; Disp<0, BuildIf>::go(c.dst, b3);        // source and target flag sets exchanged
    bool x = (inf == inf2) && !(inf != inf2) && (inf == inf) && !(inf != inf);
    bool y = (inf == inf3);
    bool z = ((inf != inf3) == !y) && ((inf3 == inf) == y);
    std::ostringstream pr, ex; pr << inf;
    for (auto p = cinf.interfaces().begin(); p != cinf.interfaces().end(); ++p) {
      ex << p->first << ": [ source=[";
      for (std::size_t j = 0; j < p->second.first.size(); ++j) ex << p->second.first[j] << " ";
      ex << "] size=" << p->second.first.size() << ", target=[";
      for (std::size_t j = 0; j < p->second.second.size(); ++j) ex << p->second.second[j] << " ";
      ex << "] size=" << p->second.second.size() << "\n";
    }
    bool w = pr.str() == ex.str();
    bool cmb = same_comm(inf2.communicator(), ri.communicator());
    inf2.free();
    BuildIf b4{&ri, &inf2, c.src}; Disp<0, BuildIf>::go(c.dst, b4);
    const Dune::Interface& c2 = inf2; const Dune::Interface& c3 = inf3;
    bool v = c2.interfaces().size() == c3.interfaces().size();
    for (auto p = c2.interfaces().begin(), q = c3.interfaces().begin(); v && p != c2.interfaces().end(); ++p, ++q)
      v = p->first == q->first && p->second.first == q->second.first && p->second.second == q->second.second;
    cmb = cmb && same_comm(inf2.communicator(), ri.communicator());
    os << " EQ[" << x << "/" << y << "/" << z << "/" << w << "/" << v << "]";
    os << " CM[" << same_comm(inf.communicator(), ri.communicator()) << "/" << cmb << "]";
  }
  {   // self tests of members no communication path reaches
    bool e = true, ii = true;
    auto cs = Dune::combine(Dune::EnumItem<Attr, 0>(), Dune::EnumItem<Attr, 2>());
    static_assert(std::is_same<decltype(cs), FS<7>::T>::value, "combine() type");
    static_assert(std::is_same<Dune::Combine<Dune::EnumItem<Attr, 0>, Dune::EnumItem<Attr, 2> >, FS<7>::T>::value, "default TA of Combine");
    if (!Dune::Combine<Dune::EnumItem<Attr, 0>, Dune::EnumItem<Attr, 2> >::contains(a2) || Dune::Combine<Dune::EnumItem<Attr, 0>, Dune::EnumItem<Attr, 2> >::contains(a1)) e = false;
    for (int a = 0; a < 3; ++a) if (cs.contains((Attr) a) != (a != 1)) e = false;
    { std::ostringstream o; o << Dune::EnumItem<Attr, 2>() << "|" << Dune::EnumRange<Attr, 0, 1>() << "|" << cs; if (o.str() != "2|[0 - 1]|0 2") e = false; }
    Dune::InterfaceInformation ia, ib;
    ia.reserve(3); ia.add(5); ia.add(7); ib.reserve(2); ib.add(5); ib.add(7);
    if (!(ia == ib) || (ia != ib) || ia.size() != 2) ii = false;
    ia[1] = 9;
    const Dune::InterfaceInformation& ca = ia;
    if (!(ia != ib) || (ia == ib) || ca[1] != 9 || ca[0] != 5) ii = false;
    ia.free(); ib.free();
    if (ia.size() != 0 || !(ia == ib)) ii = false;
    os << " ST[" << e << "/" << ii << "/";
  }
  {
    Dune::BufferedCommunicator bc;
    std::vector<int> szS, szT;
    fill_sizes(c, r.S, r.capS, szS); fill_sizes(c, r.T, r.capT, szT);
    Dune::Interface pre;
    if (c.rebuild) {      // the communicator object has been built before, for another interface (all attributes)
      pre.build(c.opre ? *rio : ri, Dune::AllSet<Attr>(), Dune::AllSet<Attr>());
      if (c.mode == 1) { VBV s0, t0; retag(s0, 0, rank, 0, szS); retag(t0, 0, rank, 1, szT); bc.build(s0, c.tc ? t0 : s0, pre); }
      else if (c.mode == 3) bc.build<SV2>(pre);
      else bc.build<SV>(pre);
      if (c.rebuild == 2) bc.free();
    }
    // copies (leaked on purpose: Interface and BufferedCommunicator copy shallowly, see API_COVERAGE.md)
    const Dune::Interface* use = &inf;
    {
      Dune::Interface* ic = new Dune::Interface(inf);           // copy construction
      Dune::Interface* ia = new Dune::Interface();
      *ia = inf;                                                  // copy assignment
      bool same = (*ic == inf) && (*ia == inf) && !(*ic != *ia) && ic->communicator() == inf.communicator();
      os << " CP[" << same << "]";
      if (c.cop) use = ic;
    }
    Dune::BufferedCommunicator second;                            // a second communicator on the same Interface
    Dune::BufferedCommunicator* run = &bc;
    if (c.mode == 1) {
      VBV s0, t0; retag(s0, 0, rank, 0, szS); retag(t0, 0, rank, 1, szT);
      bc.build(s0, c.tc ? t0 : s0, *use);
      if (c.cop) run = new Dune::BufferedCommunicator(bc);
      if (c.pol) phases<VBV, RecGSV<1> >(c, rank, *run, second, os); else phases<VBV, RecGSV<0> >(c, rank, *run, second, os);
    } else if (c.mode == 3) {
      bc.build<SV2>(*use);
      if (c.cgs) second.build<SV2>(inf);
      if (c.cop) run = new Dune::BufferedCommunicator(bc);
      if (c.pol) phases<SV2, RecGS2<1> >(c, rank, *run, c.cop ? bc : second, os); else phases<SV2, RecGS2<0> >(c, rank, *run, c.cop ? bc : second, os);
    } else {
      if (c.mode == 2) { SV s0, t0; retag(s0, 0, rank, 0, szS); retag(t0, 0, rank, 1, szT); bc.build(s0, c.tc ? t0 : s0, *use); }
      else bc.build<SV>(*use);
      if (c.cgs) second.build<SV>(inf);
      if (c.cop) run = new Dune::BufferedCommunicator(bc);
      if (c.pol) phases<SV, RecGS1<1> >(c, rank, *run, c.cop ? bc : second, os); else phases<SV, RecGS1<0> >(c, rank, *run, c.cop ? bc : second, os);
    }
  }
  if (c.dt) { if (c.mode == 1) dt_phases<VBV>(c, rank, ri, rio, os); else if (c.mode == 3) dt_phases<SV2>(c, rank, ri, rio, os); else dt_phases<SV>(c, rank, ri, rio, os); }
  delete rio;
  {   // remote indices out of sync with the index set: build() must refuse
    S.beginResize(); S.endResize();
    bool thrown = false;
    Dune::Interface t;
    try { t.build(ri, Dune::AllSet<Attr>(), Dune::AllSet<Attr>()); }
    catch (Dune::InterfaceBuilder::RemoteIndicesStateError&) { thrown = true; }
    {   // the object after the rejected build: still empty, free() and strip() are harmless
      const Dune::Interface& ct = t;
      if (!ct.interfaces().empty()) thrown = false;
      t.strip(); t.free();
      if (!ct.interfaces().empty()) thrown = false;
    }
    std::string st = os.str();
    std::size_t k = st.find(" ST[");
    k = st.find("/", st.find("/", k) + 1);
    st.insert(k + 1, std::string(thrown ? "1" : "0") + "]");
    return st;
  }
}

int main(int argc, char** argv)
{
  MPI_Init(&argc, &argv);
  int np;
  MPI_Comm_rank(MPI_COMM_WORLD, &g_rank);
  MPI_Comm_size(MPI_COMM_WORLD, &np);
  const int rank = g_rank;
  int tmo = std::getenv("C05_CASE_TIMEOUT") ? std::atoi(std::getenv("C05_CASE_TIMEOUT")) : 30;
  std::signal(SIGALRM, on_alarm);
  std::vector<MPI_Comm> sub(np + 1, MPI_COMM_NULL);
  for (int P = 1; P <= np; ++P) MPI_Comm_split(MPI_COMM_WORLD, rank < P ? 0 : MPI_UNDEFINED, rank, &sub[P]);
  std::vector<MPI_Comm> subrev(np + 1, MPI_COMM_NULL);          // same processes, ranks in reverse order of MPI_COMM_WORLD
  for (int P = 1; P <= np; ++P) MPI_Comm_split(MPI_COMM_WORLD, rank < P ? 0 : MPI_UNDEFINED, P - 1 - rank, &subrev[P]);
  std::ifstream in(argv[1]);
  std::string line;
  while (std::getline(in, line)) {
    ++g_case;
    Case c;
    bool ok = parse(line, c) && c.P <= np;
    std::string mine;
    if (ok && rank < c.P) {
      alarm(tmo);
      try { mine = c.rev ? run_case(c, c.P - 1 - rank, subrev[c.P], sub[c.P]) : run_case(c, rank, sub[c.P], subrev[c.P]); }
      catch (Dune::Exception& e) { mine = std::string("EXC[") + e.what() + "]"; }
      alarm(0);
    }
    alarm(tmo);
    int mylen = (int) mine.size();
    std::vector<int> lens(np), displs(np);
    MPI_Gather(&mylen, 1, MPI_INT, lens.data(), 1, MPI_INT, 0, MPI_COMM_WORLD);
    int tot = 0; if (rank == 0) for (int r = 0; r < np; ++r) { displs[r] = tot; tot += lens[r]; }
    std::vector<char> rb(tot + 1);
    MPI_Gatherv(mine.data(), mylen, MPI_CHAR, rb.data(), lens.data(), displs.data(), MPI_CHAR, 0, MPI_COMM_WORLD);
    alarm(0);
    if (rank == 0) {
      if (!ok) { std::cout << "BADCASE" << std::endl; continue; }
      std::ostringstream o;
      for (int r = 0; r < c.P; ++r) { int w = c.rev ? c.P - 1 - r : r; o << (r ? " ;; " : "") << "r" << r << " " << std::string(rb.data() + displs[w], lens[w]); }
      std::cout << o.str() << std::endl;
    }
  }
  unsigned long long sw = 0, ro = 0, dl = 0;
  pmpi_sched_counters(&sw, &ro, &dl);
  unsigned long long loc[3] = {sw, ro, dl}, glob[3] = {0, 0, 0};
  MPI_Reduce(loc, glob, 3, MPI_UNSIGNED_LONG_LONG, MPI_SUM, 0, MPI_COMM_WORLD);
  if (rank == 0) std::cerr << "C05-SHIM sweeps=" << glob[0] << " reordered=" << glob[1] << " delays=" << glob[2] << std::endl;
  for (int P = 1; P <= np; ++P) if (sub[P] != MPI_COMM_NULL) MPI_Comm_free(&sub[P]);
  for (int P = 1; P <= np; ++P) if (subrev[P] != MPI_COMM_NULL) MPI_Comm_free(&subrev[P]);
  MPI_Finalize();
  return 0;
}
