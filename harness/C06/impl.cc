// C06 impl driver: runs Dune::VariableSizeCommunicator (current tree) on the cases of a case file.
// Launch:  mpirun -np NP impl cases.txt        (cases with P <= NP ranks run on the first P ranks of a split communicator)
// Case line (space separated integers):
//   P mode dir buf seed NI NE  { p q n1 first[n1] n2 second[n2] } x NE   { size[p][0..NI-1] } x P
//     mode 0 = fixed-size handle, 1 = variable-size handle;  dir 0 = forward, 1 = backward
//     entry (p,q): rank p's interface map has key q with InterfaceInformation pair (first, second)
//     size[p][i] = number of items the handle of rank p reports/gathers for local index i
//     seed = schedule seed for harness/common/pmpi_sched.c (0 = no perturbation)
//   optional trailing fields  v t mb  (default 0 0 0):
//     v  = API path: 0 ctor(MPI_Comm, map, buf); 1 ctor(MPI_Comm, map) [default buffer]; 2 ctor(Interface, buf);
//          3 ctor(Interface) [default buffer]; 4 copy-constructed communicator (original destroyed first);
//          5 copy-assigned over a communicator with another map/buffer, plus self-assignment;
//          6 the same object used twice (a warm-up communication in the opposite direction first);
//          7 VariableSizeCommunicator<non-default Allocator>
//     t  = DataType of the handle: 0 long, 1 double, 2 int, 3 a POD struct (generic MPITraits), 4 std::pair<int,double>
//          8 copy made, the COPY communicates and is destroyed, then the ORIGINAL is observed (source unaffected);
//          9 b = a, b communicates, then a is observed; 10 construction from std::move(original); 11 std::swap(a, b) with a
//          communicator over another map/buffer, the swapped-in one is observed; 12 the interface map is rebuilt in place
//          between two communications; 13 the same object first used with a handle of the other kind (fixed<->variable)
//          and another DataType; 14 the same object first used with handles of the same kind but OTHER sizes (opposite
//          direction: one size per rank; same direction: every size s -> s % buf + 1), then observed
//     t  additionally 5 long double, 6 std::complex<double>, 7 Dune::FieldVector<double,2>
//     mb = value of DUNE_PARALLEL_MAX_COMMUNICATION_BUFFER_SIZE the binary must have been compiled with (0: undefined);
//          a case whose mb differs from the binary's prints BADCASE
//   further optional trailing fields  k hk al  (default 0 0 0):
//     k  = communicator handed to the constructor: 0 split of MPI_COMM_WORLD in world order, 1 split with REVERSED rank order,
//          2 split with rotated rank order, 3 an MPI_Comm_dup of kind 0, 4 MPI_COMM_SELF (P = 1 only).  "Rank p" of the case is
//          always the rank in THAT communicator.
//     hk = handle class: 0 non-const members, size_t size(size_t); 1 const-qualified members, unsigned size(int) const (t = 0, 1 only)
//     al = 1: where first and second list of a map entry are equal, the two InterfaceInformation objects share one index array
// Output: ONE line per case, printed by rank 0:
//   R0 <src>><idx>:<n>:<item>.<item>... ... ; R1 ... || <p>><q>:<len>.<len>... ...
//   left of "||": per rank the scatter calls with n > 0, stably grouped by the source rank decoded from the
//   first item (item = src*1000000 + index*1000 + k); right: per (sender,dest) the lengths of the messages
//   sent with tag 933399 in order (deep stream: size rounds then data rounds).
// A case that does not return within C06_CASE_TIMEOUT seconds (default 20) makes the process print
// "ERROR C06-HANG ..." to stderr and exit(86); vcheck.run_cases attributes that to the case.
#include <config.h>
#include <mpi.h>
#include <csignal>
#include <cstdio>
#include <cstdlib>
#include <cstring>
#include <fstream>
#include <iostream>
#include <map>
#include <sstream>
#include <string>
#include <vector>
#include <unistd.h>
#include <complex>
#include <dune/common/fvector.hh>
#include <dune/common/parallel/interface.hh>
#include <dune/common/parallel/variablesizecommunicator.hh>

extern "C" {
void pmpi_sched_reseed(unsigned long long seed);
void pmpi_sched_trace(int on);
int pmpi_sched_trace_get(int *triples, int max_triples);
void pmpi_sched_counters(unsigned long long *sweeps, unsigned long long *reordered, unsigned long long *delays);
}

static int g_rank = 0;
static volatile long g_case = 0;

static void on_alarm(int)
{
  char b[128];
  int n = std::snprintf(b, sizeof b, "ERROR C06-HANG case=%ld rank=%d did not return\n", (long) g_case, g_rank);
  if (write(2, b, n) < 0) {}
  _exit(86);
}

struct Call { long idx, n; std::vector<long> items; };

struct Pod { int v; unsigned char tag; };
template<class T> struct Codec { static T enc(long c) { return (T) c; } static long dec(const T& x) { return (long) x; } };
template<> struct Codec<Pod> {
  static Pod enc(long c) { Pod p; std::memset(&p, 0, sizeof p); p.v = (int) c; p.tag = (unsigned char)(c % 251); return p; }
  static long dec(const Pod& p) { return p.tag == (unsigned char)(p.v % 251) ? (long) p.v : -7; }
};
template<> struct Codec<std::pair<int,double> > {
  static std::pair<int,double> enc(long c) { return std::make_pair((int) c, 0.5 * (double) c); }
  static long dec(const std::pair<int,double>& p) { return p.second == 0.5 * (double) p.first ? (long) p.first : -7; }
};

template<> struct Codec<std::complex<double> > {
  static std::complex<double> enc(long c) { return std::complex<double>((double) c, -(double) c); }
  static long dec(const std::complex<double>& z) { return z.imag() == -z.real() ? (long) z.real() : -7; }
};
template<> struct Codec<Dune::FieldVector<double,2> > {
  static Dune::FieldVector<double,2> enc(long c) { Dune::FieldVector<double,2> v; v[0] = (double) c; v[1] = (double) c + 0.5; return v; }
  static long dec(const Dune::FieldVector<double,2>& v) { return v[1] == v[0] + 0.5 ? (long) v[0] : -7; }
};

template<class T>
struct RecHandle
{
  typedef T DataType;
  bool fixed;
  int rank;
  std::vector<long> sizes;       // per local index
  std::vector<Call> log;
  bool fixedSize() { return fixed; }
  std::size_t size(std::size_t i) { return i < sizes.size() ? (std::size_t) sizes[i] : 0; }
  template<class B> void gather(B& buf, std::size_t i)
  {
    long n = (long) size(i);
    for (long k = 0; k < n; ++k) buf.write(Codec<T>::enc(rank * 1000000L + (long) i * 1000L + k));
  }
  template<class B> void scatter(B& buf, std::size_t i, std::size_t n)
  {
    Call c; c.idx = (long) i; c.n = (long) n;
    // the count is recorded exactly as told; items are read only while the message buffer has any left (a wrong count must
    // not turn into an out-of-bounds read of the driver: it shows up as a wrong n and a short/shifted item list)
    if (n <= 400000) for (std::size_t k = 0; k < n && buf.hasSpaceForItems(1); ++k) { T v; buf.read(v); c.items.push_back(Codec<T>::dec(v)); }
    log.push_back(c);
  }
};

// the same handle with const-qualified members and other integer types in the interface
template<class T>
struct RecHandleC
{
  typedef T DataType;
  bool fixed;
  int rank;
  std::vector<long> sizes;
  mutable std::vector<Call> log;
  bool fixedSize() const { return fixed; }
  unsigned size(int i) const { return i >= 0 && (std::size_t) i < sizes.size() ? (unsigned) sizes[i] : 0u; }
  template<class B> void gather(B& buf, int i) const
  {
    long n = (long) size(i);
    for (long k = 0; k < n; ++k) buf.write(Codec<T>::enc(rank * 1000000L + (long) i * 1000L + k));
  }
  template<class B> void scatter(B& buf, int i, unsigned n) const
  {
    Call c; c.idx = (long) i; c.n = (long) n;
    if (n <= 400000) for (unsigned k = 0; k < n && buf.hasSpaceForItems(1); ++k) { T v; buf.read(v); c.items.push_back(Codec<T>::dec(v)); }
    log.push_back(c);
  }
};

struct Entry { int p, q; std::vector<long> first, second; };
struct Case { int P, mode, dir; long buf; unsigned long long seed; int NI; std::vector<Entry> es; std::vector<std::vector<long> > sz; int v = 0, t = 0; long mb = 0; int k = 0, hk = 0, al = 0; };

static bool parse(const std::string& line, Case& c)
{
  std::istringstream is(line);
  int NE;
  if (!(is >> c.P >> c.mode >> c.dir >> c.buf >> c.seed >> c.NI >> NE)) return false;
  c.es.resize(NE);
  for (auto& e : c.es) {
    int n1, n2;
    is >> e.p >> e.q >> n1; e.first.resize(n1); for (auto& x : e.first) is >> x;
    is >> n2; e.second.resize(n2); for (auto& x : e.second) is >> x;
  }
  c.sz.assign(c.P, std::vector<long>(c.NI));
  for (auto& r : c.sz) for (auto& x : r) is >> x;
  if (is.fail()) return false;
  if (!(is >> c.v >> c.t >> c.mb)) { c.v = 0; c.t = 0; c.mb = 0; return true; }
  if (!(is >> c.k >> c.hk >> c.al)) { c.k = 0; c.hk = 0; c.al = 0; }
  return true;
}

#ifdef DUNE_PARALLEL_MAX_COMMUNICATION_BUFFER_SIZE
static const long BINARY_MB = DUNE_PARALLEL_MAX_COMMUNICATION_BUFFER_SIZE;
#else
static const long BINARY_MB = 0;
#endif

// a stateless non-default allocator
template<class U> struct CountingAlloc {
  typedef U value_type;
  CountingAlloc() {}
  template<class V> CountingAlloc(const CountingAlloc<V>&) {}
  U* allocate(std::size_t n) { return static_cast<U*>(::operator new(n * sizeof(U))); }
  void deallocate(U* p, std::size_t) { ::operator delete(p); }
  template<class V> bool operator==(const CountingAlloc<V>&) const { return true; }
  template<class V> bool operator!=(const CountingAlloc<V>&) const { return false; }
};

struct OpenInterface : public Dune::Interface {
  OpenInterface(MPI_Comm c) : Dune::Interface(c) {}
  using Dune::Interface::interfaces;
};

template<class Map>
static void fill_map(Map& imap, const Case& c, int rank)
{
  for (auto& e : c.es) if (e.p == rank) {
    auto& pr = imap[e.q];
    pr.first.reserve(e.first.size() + 1);  for (long x : e.first) pr.first.add((std::size_t) x);
    if (c.al && !e.first.empty() && e.first == e.second) pr.second = pr.first;      // two InterfaceInformation, one index array
    else { pr.second.reserve(e.second.size() + 1); for (long x : e.second) pr.second.add((std::size_t) x); }
    // read back through the non-const accessors and the comparison operators of InterfaceInformation
    bool okrb = pr.first.size() == e.first.size() && pr.second.size() == e.second.size();
    for (std::size_t k = 0; okrb && k < e.first.size(); ++k) okrb = (pr.first[k] == (std::size_t) e.first[k]);
    for (std::size_t k = 0; okrb && k < e.second.size(); ++k) okrb = (pr.second[k] == (std::size_t) e.second[k]);
    okrb = okrb && (pr.first == pr.first) && !(pr.first != pr.first) && ((pr.first == pr.second) == (e.first == e.second))
           && ((pr.first != pr.second) == (e.first != e.second));
    if (!okrb) { std::fprintf(stderr, "ERROR C06-INTERFACE-READBACK rank=%d neighbour=%d\n", rank, e.q); _exit(87); }
  }
}
// undo the sharing before anything frees the arrays (InterfaceInformation::free() deletes the array it points to)
template<class Map> static void unshare(Map& imap, const Case& c, int rank)
{
  if (!c.al) return;
  for (auto& e : c.es) if (e.p == rank && !e.first.empty() && e.first == e.second) {
    auto it = imap.find(e.q);
    if (it != imap.end()) it->second.second = Dune::InterfaceInformation();
  }
}
template<class Map> static void free_map(Map& imap) { for (auto& kv : imap) { kv.second.first.free(); kv.second.second.free(); } }
// the transposed interface (first and second list exchanged)
static Case transposed(const Case& c) { Case t = c; for (auto& e : t.es) std::swap(e.first, e.second); t.dir = 1 - c.dir; t.seed = c.seed ? c.seed + 1 : 0; return t; }

// handle of a warm-up communication (not observed): same kind and DataType as h, OTHER sizes.
//   variant 0 (any direction): fixed-size -> one size per rank, rank-dependent, 1..min(buf,3) (h's sizes are only guaranteed to
//                              be homogeneous on the send lists of the case's own direction); variable-size -> h's sizes
//   variant 1 (the case's direction): every size s -> s % buf + 1 (homogeneous lists stay homogeneous, 1 <= size <= buf)
template<class H>
static H warm_handle(const H& h, const Case& c, int variant)
{
  H w = h; w.log.clear();
  const long cap = c.buf < 3 ? (c.buf < 1 ? 1 : c.buf) : 3;
  if (variant == 0) { if (h.fixed) for (auto& x : w.sizes) x = 1 + (h.rank + c.NI) % cap; }
  else for (auto& x : w.sizes) x = x % (c.buf < 1 ? 1 : c.buf) + 1;
  return w;
}

template<class VSC, class H>
static void communicate(VSC& comm, H& h, const Case& c, int tmo)
{
  alarm(tmo);
  pmpi_sched_reseed(c.seed);
  pmpi_sched_trace(1);
  if (c.dir == 0) comm.forward(h); else comm.backward(h);
  pmpi_sched_trace(0);
  pmpi_sched_reseed(0);
  alarm(0);
}

#ifndef C06_NO_SPECIAL_MEMBERS
// the special members of the communicator, kept in one place: if they stop compiling, checks/C06.py rebuilds the
// driver with -DC06_NO_SPECIAL_MEMBERS, reports `compile:special-members` and still runs everything else
template<class H>
static void special_members(const Case& c, MPI_Comm cm, const Dune::VariableSizeCommunicator<>::InterfaceMap& imap, std::size_t buf,
                            H& h, int tmo)
{
  typedef Dune::VariableSizeCommunicator<> VSC;
  Case w = c; w.dir = 1 - c.dir; w.seed = c.seed ? c.seed + 1 : 0;       // warm-up communication (not observed)
  if (c.v == 4) {
    VSC* orig = new VSC(cm, imap, buf);
    const VSC& corig = *orig;
    VSC copy(corig);                   // copy construction from a const source
    delete orig;                       // the copy owns its own duplicated communicator
    communicate(copy, h, c, tmo);
  } else if (c.v == 5) {
    VSC::InterfaceMap other;           // an unrelated (empty) interface and a useless buffer size
    VSC a(cm, imap, buf);
    VSC b(cm, other, 1);
    const VSC& ca = a;
    b = ca;
    VSC& br = b; b = br;               // self-assignment must leave it intact
    communicate(b, h, c, tmo);
  } else if (c.v == 8) {
    VSC orig(cm, imap, buf);
    { const VSC& corig = orig; VSC copy(corig); H warm = warm_handle(h, c, 0); communicate(copy, warm, w, tmo); }   // copy used and destroyed
    communicate(orig, h, c, tmo);      // the source of the copy must be unaffected
  } else if (c.v == 9) {
    VSC::InterfaceMap other;
    VSC a(cm, imap, buf);
    { VSC b(cm, other, 1); const VSC& ca = a; b = ca; H warm = warm_handle(h, c, 0); communicate(b, warm, w, tmo); }
    communicate(a, h, c, tmo);         // the source of the assignment must be unaffected
  } else if (c.v == 10) {
    VSC* orig = new VSC(cm, imap, buf);
    VSC moved(std::move(*orig));       // no move constructor is declared: this must behave as a copy
    delete orig;
    communicate(moved, h, c, tmo);
  } else {                             // 11
    VSC::InterfaceMap other;
    VSC a(cm, imap, buf);
    VSC b(cm, other, 1);
    std::swap(a, b);                   // b now has the configured map and buffer, a the empty map
    { H warm = h; communicate(a, warm, w, tmo); if (!warm.log.empty()) { std::fprintf(stderr, "ERROR C06-SWAP empty interface scattered\n"); _exit(88); } }
    communicate(b, h, c, tmo);
  }
}
#endif

template<class H>
static void run_case(const Case& c, int rank, MPI_Comm cm, int tmo, std::vector<long>& ser, std::vector<long>& tr, bool& skipped)
{
  typedef Dune::VariableSizeCommunicator<> VSC;
  H h; h.fixed = (c.mode == 0); h.rank = rank; h.sizes = c.sz[rank];
  const std::size_t buf = (std::size_t) c.buf;
  if (c.v == 2 || c.v == 3) {
    OpenInterface iface(cm);
    fill_map(iface.interfaces(), c, rank);
    const Dune::Interface& ci = iface;
    if (c.v == 2) { VSC comm(ci, buf); communicate(comm, h, c, tmo); }
    else          { VSC comm(ci);      communicate(comm, h, c, tmo); }
    unshare(iface.interfaces(), c, rank);
    // ~Interface frees the index arrays
  } else if (c.v == 7) {
    typedef Dune::VariableSizeCommunicator<CountingAlloc<std::pair<Dune::InterfaceInformation,Dune::InterfaceInformation> > > AVSC;
    typename AVSC::InterfaceMap imap;
    fill_map(imap, c, rank);
    { AVSC comm(cm, imap, buf); communicate(comm, h, c, tmo); }
    unshare(imap, c, rank); free_map(imap);
  } else {
    VSC::InterfaceMap imap;
    if (c.v == 12) {
      // the communicator keeps a POINTER to the map: rebuild the map in place between two communications.  First the
      // transposed interface in the opposite direction (the same communication pattern), then the real one.
      Case t = transposed(c);
      fill_map(imap, t, rank);
      VSC comm(cm, imap, buf);
      { H warm = h; communicate(comm, warm, t, tmo); }
      unshare(imap, t, rank); free_map(imap); imap.clear();
      fill_map(imap, c, rank);
      communicate(comm, h, c, tmo);
    } else {
    fill_map(imap, c, rank);
    if (c.v == 1) { VSC comm(cm, imap); communicate(comm, h, c, tmo); }
    else if (c.v == 4 || c.v == 5 || (c.v >= 8 && c.v <= 11)) {
#ifndef C06_NO_SPECIAL_MEMBERS
      special_members(c, cm, imap, buf, h, tmo);
#else
      skipped = true;                    // this binary was built without the copy constructor / assignment paths
#endif
    } else if (c.v == 6) {
      VSC comm(cm, imap, buf);
      { H warm = warm_handle(h, c, 0); Case w = c; w.dir = 1 - c.dir; w.seed = c.seed ? c.seed + 1 : 0; communicate(comm, warm, w, tmo); }
      communicate(comm, h, c, tmo);      // trace restarts: only the second communication is observed
    } else if (c.v == 14) {
      // object history: the same object used with handles of the SAME kind but other (fixed) sizes, in both directions, first
      VSC comm(cm, imap, buf);
      { H warm = warm_handle(h, c, 0); Case w = c; w.dir = 1 - c.dir; w.seed = c.seed ? c.seed + 1 : 0; communicate(comm, warm, w, tmo); }
      { H warm = warm_handle(h, c, 1); Case w = c; w.seed = c.seed ? c.seed + 2 : 0; communicate(comm, warm, w, tmo); }
      communicate(comm, h, c, tmo);
    } else if (c.v == 13) {
      // the same object first with a handle of the other kind and another DataType: fixed size 1 <-> variable sizes
      VSC comm(cm, imap, buf);
      RecHandle<float> warm; warm.fixed = !h.fixed; warm.rank = 0; warm.sizes.assign(c.sz[rank].size(), 1);
      { Case w = c; w.seed = c.seed ? c.seed + 1 : 0; communicate(comm, warm, w, tmo); }
      communicate(comm, h, c, tmo);
    } else { VSC comm(cm, imap, buf); communicate(comm, h, c, tmo); }
    }
    unshare(imap, c, rank); free_map(imap);
  }
  for (auto& cl : h.log) { ser.push_back(cl.idx); ser.push_back(cl.n); ser.push_back((long) cl.items.size()); for (long v : cl.items) ser.push_back(v); }
  std::vector<int> t(3 * 4096);
  int nt = pmpi_sched_trace_get(t.data(), 4096);
  if (nt > 4096) nt = 4096;
  for (int i = 0; i < nt; ++i) if (t[3*i+1] == 933399) { tr.push_back(t[3*i]); tr.push_back(t[3*i+2]); }
}

// role (rank in the case's communicator) of world rank r
static int role_of(int kind, int r, int P) { return kind == 1 ? P - 1 - r : kind == 2 ? (r + P - 1) % P : r; }

int main(int argc, char** argv)
{
  MPI_Init(&argc, &argv);
  int np;
  MPI_Comm_rank(MPI_COMM_WORLD, &g_rank);
  MPI_Comm_size(MPI_COMM_WORLD, &np);
  const int rank = g_rank;
  int tmo = std::getenv("C06_CASE_TIMEOUT") ? std::atoi(std::getenv("C06_CASE_TIMEOUT")) : 20;
  std::signal(SIGALRM, on_alarm);
  std::vector<std::vector<MPI_Comm> > sub(5, std::vector<MPI_Comm>(np + 1, MPI_COMM_NULL));
  for (int P = 1; P <= np; ++P) {
    const int color = rank < P ? 0 : MPI_UNDEFINED;
    MPI_Comm_split(MPI_COMM_WORLD, color, rank, &sub[0][P]);
    MPI_Comm_split(MPI_COMM_WORLD, color, -rank, &sub[1][P]);                 // reversed rank order
    MPI_Comm_split(MPI_COMM_WORLD, color, (rank + P - 1) % P, &sub[2][P]);    // rotated rank order
    if (rank < P) MPI_Comm_dup(sub[0][P], &sub[3][P]);
    sub[4][P] = (P == 1 && rank == 0) ? MPI_COMM_SELF : sub[0][P];
  }
  std::ifstream in(argv[1]);
  std::string line;
  while (std::getline(in, line)) {
    ++g_case;
    Case c;
    bool ok = parse(line, c) && c.P >= 1 && c.P <= np && c.mb == BINARY_MB && c.v >= 0 && c.v <= 14 && c.t >= 0 && c.t <= 7 && c.k >= 0 && c.k <= 4 && (c.k != 4 || c.P == 1) && (c.hk == 0 || c.t <= 1);
    std::vector<long> ser;           // serialised log of this rank: idx n nitems items...
    std::vector<long> tr;            // dest count pairs
    bool skipped = false;
    if (ok && rank < c.P) {
      MPI_Comm cm = sub[c.k][c.P];
      int role = 0; MPI_Comm_rank(cm, &role);
      if (role != role_of(c.k, rank, c.P)) { std::fprintf(stderr, "ERROR C06-ROLE world=%d role=%d\n", rank, role); _exit(89); }
      switch (c.t) {
        case 1: if (c.hk) run_case<RecHandleC<double> >(c, role, cm, tmo, ser, tr, skipped); else run_case<RecHandle<double> >(c, role, cm, tmo, ser, tr, skipped); break;
        case 2: run_case<RecHandle<int> >(c, role, cm, tmo, ser, tr, skipped); break;
        case 3: run_case<RecHandle<Pod> >(c, role, cm, tmo, ser, tr, skipped); break;
        case 4: run_case<RecHandle<std::pair<int,double> > >(c, role, cm, tmo, ser, tr, skipped); break;
        case 5: run_case<RecHandle<long double> >(c, role, cm, tmo, ser, tr, skipped); break;
        case 6: run_case<RecHandle<std::complex<double> > >(c, role, cm, tmo, ser, tr, skipped); break;
        case 7: run_case<RecHandle<Dune::FieldVector<double,2> > >(c, role, cm, tmo, ser, tr, skipped); break;
        default: if (c.hk) run_case<RecHandleC<long> >(c, role, cm, tmo, ser, tr, skipped); else run_case<RecHandle<long> >(c, role, cm, tmo, ser, tr, skipped);
      }
    }
    // collect on world rank 0 (blocking collectives; a lost rank shows up as a hang of this step)
    alarm(tmo);
    std::vector<long> all = ser; all.insert(all.begin(), (long) ser.size());
    all.insert(all.end(), tr.begin(), tr.end());
    int mylen = (int) all.size();
    std::vector<int> lens(np), displs(np);
    MPI_Gather(&mylen, 1, MPI_INT, lens.data(), 1, MPI_INT, 0, MPI_COMM_WORLD);
    int tot = 0; if (rank == 0) for (int r = 0; r < np; ++r) { displs[r] = tot; tot += lens[r]; }
    std::vector<long> rb(tot + 1);
    MPI_Gatherv(all.data(), mylen, MPI_LONG, rb.data(), lens.data(), displs.data(), MPI_LONG, 0, MPI_COMM_WORLD);
    alarm(0);
    if (rank == 0) {
      if (!ok) { std::cout << "BADCASE" << std::endl; continue; }
      if (skipped) { std::cout << "SKIPPED-SPECIAL-MEMBERS" << std::endl; continue; }
      std::ostringstream pub, deep;
      for (int r = 0; r < c.P; ++r) {                 // r = role; its data came from the world rank playing it
        int wr = 0; for (int x = 0; x < c.P; ++x) if (role_of(c.k, x, c.P) == r) wr = x;
        const long* p = rb.data() + displs[wr];
        long nser = p[0]; const long* s = p + 1; const long* e = s + nser;
        std::vector<Call> calls;
        while (s < e) { Call cl; cl.idx = s[0]; cl.n = s[1]; long ni = s[2]; s += 3; cl.items.assign(s, s + ni); s += ni; calls.push_back(cl); }
        if (r) pub << " ; ";
        pub << "R" << r;
        // stable grouping by source
        for (int src = -1; src < c.P + 1; ++src)
          for (auto& cl : calls) {
            if (cl.n == 0) continue;
            long sr = -1;                             // no items read (absurd count): grouped first
            if (!cl.items.empty()) {
              sr = cl.items[0] / 1000000L;
              if (sr < 0 || sr >= c.P) sr = c.P;      // undecodable: grouped last
            }
            if (sr != src) continue;
            pub << " " << sr << ">" << cl.idx << ":" << cl.n << ":";
            for (std::size_t k = 0; k < cl.items.size(); ++k) pub << (k ? "." : "") << cl.items[k];
          }
        const long* t = e; const long* te = p + lens[wr];
        for (int q = 0; q < c.P; ++q) {
          bool any = false;
          for (const long* u = t; u < te; u += 2) if (u[0] == q) { deep << (any ? "." : (std::string(" ") + std::to_string(r) + ">" + std::to_string(q) + ":")) << u[1]; any = true; }
        }
      }
      std::cout << pub.str() << " ||" << deep.str() << std::endl;
    }
  }
  unsigned long long sw = 0, ro = 0, dl = 0;
  pmpi_sched_counters(&sw, &ro, &dl);
  unsigned long long loc[3] = {sw, ro, dl}, glob[3] = {0, 0, 0};
  MPI_Reduce(loc, glob, 3, MPI_UNSIGNED_LONG_LONG, MPI_SUM, 0, MPI_COMM_WORLD);
  if (rank == 0) std::cerr << "C06-SHIM sweeps=" << glob[0] << " reordered=" << glob[1] << " delays=" << glob[2] << std::endl;
  for (int P = 1; P <= np; ++P) for (int kd = 0; kd < 4; ++kd) if (sub[kd][P] != MPI_COMM_NULL) MPI_Comm_free(&sub[kd][P]);
  MPI_Finalize();
  return 0;
}
