// C07 impl driver: runs the case file on Dune::Communication<MPI_Comm>, Dune::Communication<No_Comm>,
// MPITraits / MPIData / MPIPack / rrecv of the working tree.  Launched under mpirun -np P; every case is executed
// by all ranks, rank 0 collects the per-rank observations (with raw MPI, not with the code under test) and prints
// ONE line per case:  obs(rank0);obs(rank1);...      usage: impl <casefile>   |   impl --layout
#include <config.h>
#include <algorithm>
#include <array>
#include <cmath>
#include <complex>
#include <cstdint>
#include <cstdio>
#include <cstring>
#include <fstream>
#include <iostream>
#include <new>
#include <sstream>
#include <string>
#include <utility>
#include <vector>
#include <mpi.h>
#include <dune/common/exceptions.hh>
#include <dune/common/fvector.hh>
#include <dune/common/bigunsignedint.hh>
#include <dune/common/binaryfunctions.hh>
#include <dune/common/parallel/communication.hh>
#include <dune/common/parallel/mpihelper.hh>
#include <dune/common/parallel/mpicommunication.hh>
#include <dune/common/parallel/mpitraits.hh>
#include <dune/common/parallel/mpidata.hh>
#include <dune/common/parallel/mpipack.hh>
#include <dune/common/parallel/plocalindex.hh>
#include <dune/common/parallel/indexset.hh>
#include <dune/common/parallel/remoteindices.hh>

using namespace Dune;
typedef std::vector<std::string> Elem;                 // one element = its fields as tokens
enum Flag : char { owner = 0, overlap = 1, border = 2, flagmax = 0x7f };
typedef ParallelLocalIndex<Flag> PLI;
typedef IndexPair<int, PLI> IP;
struct Pod { double a, b; };                       // no MPITraits specialisation: shipped as sizeof raw bytes (alignment 1 for MPI)
enum En { en0 = 0, en1 = 1000000 };                // likewise

static std::vector<std::string> split(const std::string& s, char c)
{
  std::vector<std::string> r; std::string cur;
  for (char ch : s) { if (ch == c) { r.push_back(cur); cur.clear(); } else cur += ch; }
  r.push_back(cur); return r;
}
static long long toll(const std::string& s) { return std::strtoll(s.c_str(), nullptr, 10); }
static unsigned long long toull(const std::string& s) { return std::strtoull(s.c_str(), nullptr, 10); }
static std::string hexof(const void* p, std::size_t n)
{
  static const char* d = "0123456789abcdef"; std::string r; const unsigned char* b = (const unsigned char*) p;
  for (std::size_t i = 0; i < n; ++i) { r += d[b[i] >> 4]; r += d[b[i] & 15]; } return r.empty() ? "_" : r;
}
static std::vector<unsigned char> unhex(const std::string& s)
{
  std::vector<unsigned char> r; if (s == "_") return r;
  for (std::size_t i = 0; i + 1 < s.size(); i += 2) r.push_back((unsigned char) std::stoul(s.substr(i, 2), nullptr, 16));
  return r;
}

// ------------------------------------------------------------------ user functors (not intrinsic ops: trampoline path)
template<class T> struct XorF { T operator()(const T& a, const T& b) const { return a ^ b; } };
struct MaxSumF { std::pair<int,double> operator()(const std::pair<int,double>& a, const std::pair<int,double>& b) const
  { return { std::max(a.first, b.first), a.second + b.second }; } };
template<class T> struct PlusF { T operator()(const T& a, const T& b) const { return a + b; } };   // user-written plus: forces the trampoline on int

// ------------------------------------------------------------------ codecs (by value)
template<class I> struct CInt { typedef I T; static constexpr int nf = 1; static constexpr int kind = 0;
  static T make(const Elem& e) { return std::is_signed<I>::value ? (I) toll(e[0]) : (I) toull(e[0]); }
  static Elem fields(const T& t) { return { std::is_signed<I>::value ? std::to_string((long long) t) : std::to_string((unsigned long long) t) }; } };
template<class F> struct CFloat { typedef F T; static constexpr int nf = 1; static constexpr int kind = 1;
  static T make(const Elem& e) { return (F) toll(e[0]); }
  static Elem fields(const T& t) { long long v = (long long) t; if ((F) v == t) return { std::to_string(v) }; return { "nonint" }; } };
// exactly rescaled floating-point values: token v stands for v * 2^K (huge, tiny, denormal): every sum/min/max of the unscaled run rescales exactly
template<class F, int K> struct CScaled { typedef F T; static constexpr int nf = 1; static constexpr int kind = 14;
  static T make(const Elem& e) { return std::ldexp((F) toll(e[0]), K); }
  static Elem fields(const T& t) { F u = std::ldexp(t, -K); long long v = (long long) u; if ((F) v == u) return { std::to_string(v) }; return { "nonint" }; } };
template<class F, class U> struct CBits { typedef F T; static constexpr int nf = 1; static constexpr int kind = 2;   // value token = bit pattern
  static T make(const Elem& e) { U u = (U) toull(e[0]); F f; std::memcpy(&f, &u, sizeof f); return f; }
  static Elem fields(const T& t) { U u; std::memcpy(&u, &t, sizeof u); return { std::to_string((unsigned long long) u) }; } };
template<class F> struct CComplexT { typedef std::complex<F> T; static constexpr int nf = 2; static constexpr int kind = 13;
  static T make(const Elem& e) { return T((F) toll(e[0]), (F) toll(e[1])); }
  static Elem fields(const T& t) { return { std::to_string((long long) t.real()), std::to_string((long long) t.imag()) }; } };
struct CComplex { typedef std::complex<double> T; static constexpr int nf = 2; static constexpr int kind = 3;
  static T make(const Elem& e) { return T((double) toll(e[0]), (double) toll(e[1])); }
  static Elem fields(const T& t) { return { std::to_string((long long) t.real()), std::to_string((long long) t.imag()) }; } };
template<class K, int n> struct CFV { typedef FieldVector<K,n> T; static constexpr int nf = n; static constexpr int kind = 4;
  static T make(const Elem& e) { T t; for (int i = 0; i < n; ++i) t[i] = (K) toll(e[i]); return t; }
  static Elem fields(const T& t) { Elem e; for (int i = 0; i < n; ++i) e.push_back(std::to_string((long long) t[i])); return e; } };
template<int k> struct CBig { typedef bigunsignedint<k> T; static constexpr int nf = 1; static constexpr int kind = 5;   // token: decimal < 2^64, or hi.lo (two decimals, value = hi*2^64+lo)
  static T make(const Elem& e) { auto p = split(e[0], '.'); if (p.size() == 1) return T((std::uintmax_t) toull(p[0]));
    return (T((std::uintmax_t) toull(p[0])) << 64) | T((std::uintmax_t) toull(p[1])); }
  static Elem fields(const T& t) {
    auto u64 = [](const T& x) { unsigned long long v = 0; T y = x; for (int i = 0; i < 4 && i < (int) T::n; ++i) { v |= (unsigned long long) ((y >> (16 * i)) & T((std::uintmax_t) 0xffff)).touint() << (16 * i); } return v; };
    if constexpr (k <= 64) return { std::to_string(u64(t)) };
    else { T lo = t & T((std::uintmax_t) ~0ull); T hi = t >> 64;
      if (hi == T((std::uintmax_t) 0)) return { std::to_string(u64(lo)) };
      return { std::to_string(u64(hi)) + "." + std::to_string(u64(lo)) }; } } };
struct CPairID { typedef std::pair<int,double> T; static constexpr int nf = 2; static constexpr int kind = 6;
  static T make(const Elem& e) { return T((int) toll(e[0]), (double) toll(e[1])); }
  static Elem fields(const T& t) { return { std::to_string(t.first), std::to_string((long long) t.second) }; } };
struct CPairCL { typedef std::pair<char,long> T; static constexpr int nf = 2; static constexpr int kind = 7;
  static T make(const Elem& e) { return T((char) toll(e[0]), (long) toll(e[1])); }
  static Elem fields(const T& t) { return { std::to_string((int) t.first), std::to_string(t.second) }; } };
struct CPod { typedef Pod T; static constexpr int nf = 2; static constexpr int kind = 10;
  static T make(const Elem& e) { return T{ (double) toll(e[0]), (double) toll(e[1]) }; }
  static Elem fields(const T& t) { return { std::to_string((long long) t.a), std::to_string((long long) t.b) }; } };
struct CEnum { typedef En T; static constexpr int nf = 1; static constexpr int kind = 11;
  static T make(const Elem& e) { return En((int) toll(e[0])); }
  static Elem fields(const T& t) { return { std::to_string((long long) (int) t) }; } };
template<class CA, class CB> struct CPair { typedef std::pair<typename CA::T, typename CB::T> T; static constexpr int nf = CA::nf + CB::nf; static constexpr int kind = 12;
  static T make(const Elem& e) { return T(CA::make(Elem(e.begin(), e.begin() + CA::nf)), CB::make(Elem(e.begin() + CA::nf, e.end()))); }
  static Elem fields(const T& t) { Elem r = CA::fields(t.first); Elem b = CB::fields(t.second); r.insert(r.end(), b.begin(), b.end()); return r; } };
struct CPLI { typedef PLI T; static constexpr int nf = 4; static constexpr int kind = 8;                 // local, attribute, public, state
  static T make(const Elem& e) { T t((std::size_t) toull(e[0]), Flag((char) toll(e[1])), toll(e[2]) != 0); t.setState(LocalIndexState(toll(e[3]))); return t; }
  static Elem fields(const T& t) { return { std::to_string(t.local()), std::to_string((int) t.attribute()), std::to_string((int) t.isPublic()), std::to_string((int) t.state()) }; } };
struct CIP { typedef IP T; static constexpr int nf = 5; static constexpr int kind = 9;                    // global, local, attribute, public, state
  static T make(const Elem& e) { Elem l(e.begin() + 1, e.end()); return T((int) toll(e[0]), CPLI::make(l)); }
  static Elem fields(const T& t) { Elem r = { std::to_string(t.global()) }; Elem l = CPLI::fields(t.local()); r.insert(r.end(), l.begin(), l.end()); return r; } };

template<class C> struct Tag { typedef C Codec; };
// name -> codec
template<class F> static bool dispatch(const std::string& ty, F&& f)
{
  if (ty == "int") { f(Tag<CInt<int>>()); return true; }
  if (ty == "long") { f(Tag<CInt<long>>()); return true; }
  if (ty == "uchar") { f(Tag<CInt<unsigned char>>()); return true; }
  if (ty == "char") { f(Tag<CInt<char>>()); return true; }
  if (ty == "short") { f(Tag<CInt<short>>()); return true; }
  if (ty == "ulong") { f(Tag<CInt<unsigned long>>()); return true; }
  if (ty == "llong") { f(Tag<CInt<long long>>()); return true; }       // no intrinsic trait: generic byte datatype
  if (ty == "float") { f(Tag<CFloat<float>>()); return true; }
  if (ty == "double") { f(Tag<CFloat<double>>()); return true; }
  if (ty == "ldouble") { f(Tag<CFloat<long double>>()); return true; }
  if (ty == "d_hi") { f(Tag<CScaled<double, 300>>()); return true; }
  if (ty == "d_lo") { f(Tag<CScaled<double, -300>>()); return true; }
  if (ty == "d_den") { f(Tag<CScaled<double, -1074>>()); return true; }
  if (ty == "f_hi") { f(Tag<CScaled<float, 100>>()); return true; }
  if (ty == "f_den") { f(Tag<CScaled<float, -149>>()); return true; }
  if (ty == "dbits") { f(Tag<CBits<double, std::uint64_t>>()); return true; }
  if (ty == "fbits") { f(Tag<CBits<float, std::uint32_t>>()); return true; }
  if (ty == "cdouble") { f(Tag<CComplex>()); return true; }
  if (ty == "fv_d3") { f(Tag<CFV<double,3>>()); return true; }
  if (ty == "fv_i1") { f(Tag<CFV<int,1>>()); return true; }
  if (ty == "fv_c3") { f(Tag<CFV<char,3>>()); return true; }
  if (ty == "big64") { f(Tag<CBig<64>>()); return true; }
  if (ty == "big100") { f(Tag<CBig<100>>()); return true; }
  if (ty == "pr_id") { f(Tag<CPairID>()); return true; }
  if (ty == "pr_cl") { f(Tag<CPairCL>()); return true; }
  if (ty == "uint") { f(Tag<CInt<unsigned int>>()); return true; }
  if (ty == "ushort") { f(Tag<CInt<unsigned short>>()); return true; }
  if (ty == "cfloat") { f(Tag<CComplexT<float>>()); return true; }
  if (ty == "cldouble") { f(Tag<CComplexT<long double>>()); return true; }
  if (ty == "pr_li") { f(Tag<CPair<CInt<long long>, CInt<int>>>()); return true; }
  if (ty == "pr_il") { f(Tag<CPair<CInt<int>, CInt<long long>>>()); return true; }
  if (ty == "pr_pc") { f(Tag<CPair<CPod, CInt<char>>>()); return true; }
  if (ty == "pr_cp") { f(Tag<CPair<CInt<char>, CPod>>()); return true; }
  if (ty == "pr_ed") { f(Tag<CPair<CEnum, CFloat<double>>>()); return true; }
  if (ty == "pr_n") { f(Tag<CPair<CPair<CInt<char>, CFloat<double>>, CInt<char>>>()); return true; }
  if (ty == "big16") { f(Tag<CBig<16>>()); return true; }
  if (ty == "big17") { f(Tag<CBig<17>>()); return true; }
  if (ty == "big55") { f(Tag<CBig<55>>()); return true; }
  if (ty == "fv_d2") { f(Tag<CFV<double,2>>()); return true; }
  if (ty == "fv_l5") { f(Tag<CFV<long,5>>()); return true; }
  if (ty == "pli") { f(Tag<CPLI>()); return true; }
  if (ty == "ip") { f(Tag<CIP>()); return true; }
  return false;
}
static const char* ALLTYPES[] = { "int", "long", "uchar", "char", "short", "ulong", "llong", "float", "double", "ldouble", "cdouble",
  "fv_d3", "fv_i1", "fv_c3", "big64", "big100", "pr_id", "pr_cl", "pli", "ip",
  "pr_li", "pr_il", "pr_pc", "pr_cp", "pr_ed", "pr_n", "big16", "big17", "big55", "fv_d2", "fv_l5",
  "uint", "ushort", "cfloat", "cldouble" };

static long g_case = 0;      // running case number: every second case uses containers whose capacity exceeds their size
template<class C> static std::vector<typename C::T> make_buf(const std::string& s)
{
  std::vector<typename C::T> r;
  if (s == "_" || s.empty()) { if (g_case & 1) r.reserve(3); return r; }
  auto es = split(s, ',');
  if (g_case & 1) r.reserve(2 * es.size() + 5);
  for (auto& e : es) r.push_back(C::make(split(e, ':')));
  return r;
}
template<class C, class It> static std::string show_range(It b, It e)
{
  std::string r;
  for (; b != e; ++b) { if (!r.empty()) r += ","; Elem f = C::fields(*b); for (std::size_t i = 0; i < f.size(); ++i) { if (i) r += ":"; r += f[i]; } }
  return r.empty() ? "_" : r;
}
template<class C> static std::string show_buf(const std::vector<typename C::T>& v) { return show_range<C>(v.begin(), v.end()); }
static std::vector<int> ints(const std::string& s) { std::vector<int> r; if (s == "-" || s == "_") return r; for (auto& t : split(s, ',')) r.push_back((int) toll(t)); return r; }

// ------------------------------------------------------------------ collectives
template<class T> struct IsCplx : std::false_type {};
template<class F> struct IsCplx<std::complex<F>> : std::true_type {};
template<class T> struct OpsOf { static constexpr bool arith = std::is_arithmetic<T>::value && !std::is_same<T,bool>::value; static constexpr bool plus = arith; static constexpr bool order = arith; static constexpr bool xr = std::is_integral<T>::value && !std::is_same<T,bool>::value; };
template<> struct OpsOf<std::complex<double>> { static constexpr bool arith = false, plus = true, order = false, xr = false; };
template<> struct OpsOf<std::complex<float>> { static constexpr bool arith = false, plus = true, order = false, xr = false; };
template<> struct OpsOf<std::complex<long double>> { static constexpr bool arith = false, plus = true, order = false, xr = false; };
template<class K, int n> struct OpsOf<FieldVector<K,n>> { static constexpr bool arith = false, plus = true, order = false, xr = false; };
template<int k> struct OpsOf<bigunsignedint<k>> { static constexpr bool arith = false, plus = true, order = true, xr = true; };
template<class A, class B> struct OpsOf<std::pair<A,B>> { static constexpr bool arith = false, plus = false, order = false, xr = false; };
template<> struct OpsOf<PLI> { static constexpr bool arith = false, plus = false, order = false, xr = false; };
template<> struct OpsOf<IP> { static constexpr bool arith = false, plus = false, order = false, xr = false; };

// call l(functor) for the functor named fn, when T supports it
template<class T, class L> static bool with_fn(const std::string& fn, L&& l)
{
  if constexpr (OpsOf<T>::plus) { if (fn == "plus") { l(std::plus<T>()); return true; } if (fn == "uplus") { l(PlusF<T>()); return true; } }
  if constexpr (OpsOf<T>::arith || IsCplx<T>::value) { if (fn == "mult") { l(std::multiplies<T>()); return true; } }
  if constexpr (OpsOf<T>::order) { if (fn == "min") { l(Min<T>()); return true; } if (fn == "max") { l(Max<T>()); return true; } }
  if constexpr (OpsOf<T>::xr) { if (fn == "xor") { l(XorF<T>()); return true; } }
  if constexpr (std::is_same<T, std::pair<int,double>>::value) { if (fn == "maxsum") { l(MaxSumF()); return true; } }
  return false;
}

struct Case { std::vector<std::string> t; };

template<class C, class Comm>
static std::string do_coll(Comm& cc, bool ismpi, const Case& c, int me)
{
  typedef typename C::T T;
  const std::string& op = c.t[2]; const std::string& fn = c.t[3];
  int root = (int) toll(c.t[7]); int len = (int) toll(c.t[8]);
  std::vector<int> lens = ints(c.t[9]), displs = ints(c.t[10]);
  auto ins = split(c.t[11], ';'), outs = split(c.t[12], ';');
  std::vector<T> in0 = make_buf<C>(ins.at(me)), out = make_buf<C>(outs.at(me));
  // per-rank arguments that are significant at the root only: the other ranks pass DIFFERENT (garbage) count / displacement arrays
  std::vector<int> glens = lens, gdispls = displs;
  if (fn == "asym" && me != root) for (std::size_t i = 0; i < glens.size(); ++i) { glens[i] = (me & 1) ? 0 : lens[i] + 3 + (int) i + me; gdispls[i] = 1000 + 7 * (int) i; }
  const bool alias = fn == "alias";            // exact aliasing: in and out are the same storage
  std::vector<T>& in = alias ? out : in0;
  bool ok = true;
  if (op == "sum1" || op == "prod1" || op == "min1" || op == "max1") {
    if constexpr (OpsOf<T>::plus) { if (op == "sum1") out[0] = cc.sum(in[0]); }
    if constexpr (OpsOf<T>::arith || IsCplx<T>::value) { if (op == "prod1") out[0] = cc.prod(in[0]); }
    if constexpr (OpsOf<T>::order) { if (op == "min1") out[0] = cc.min(in[0]); if (op == "max1") out[0] = cc.max(in[0]); }
  }
  else if (op == "sumN" || op == "prodN" || op == "minN" || op == "maxN") {
    if constexpr (OpsOf<T>::plus) { if (op == "sumN") cc.sum(out.data(), len); }
    if constexpr (OpsOf<T>::arith || IsCplx<T>::value) { if (op == "prodN") cc.prod(out.data(), len); }
    if constexpr (OpsOf<T>::order) { if (op == "minN") cc.min(out.data(), len); if (op == "maxN") cc.max(out.data(), len); }
  }
  else if (op == "allred2") ok = with_fn<T>(fn, [&](auto F) { cc.template allreduce<decltype(F)>(in.data(), out.data(), len); });
  else if (op == "allredN") ok = with_fn<T>(fn, [&](auto F) { cc.template allreduce<decltype(F)>(out.data(), len); });
  else if (op == "allredV") {        // Type allreduce(Type&&): MPI only, built-in ops on intrinsic element types
    if constexpr (std::is_same<Comm, Communication<MPI_Comm>>::value && OpsOf<T>::arith) { if constexpr (MPITraits<T>::is_intrinsic) {
      if (fn == "plus") out = cc.template allreduce<std::plus<T>>(std::move(out));
      else if (fn == "max") out = cc.template allreduce<Max<T>>(std::move(out));
      else if (fn == "min") out = cc.template allreduce<Min<T>>(std::move(out));
      else if (fn == "mult") out = cc.template allreduce<std::multiplies<T>>(std::move(out));
      else ok = false;
    } else ok = false; } else ok = false;
  }
  else if (op == "iallred2") {       // scalar in / scalar out, rvalues (Generic_MPI_Op<TIN,F> needs a non-reference TIN for user functors)
    ok = with_fn<T>(fn, [&](auto F) { auto f = cc.template iallreduce<decltype(F)>(T(in[0]), T(out[0])); out[0] = f.get(); });
  }
  else if (op == "iallred1") ok = with_fn<T>(fn, [&](auto F) { auto f = cc.template iallreduce<decltype(F)>(T(out[0])); out[0] = f.get(); });
  else if (op == "iallred2V") {      // vector in / vector out: built-in ops on intrinsic types only
    if constexpr (OpsOf<T>::arith) { if constexpr (MPITraits<T>::is_intrinsic) {
      if (fn == "plus") { auto f = cc.template iallreduce<std::plus<T>>(in, out); f.wait(); }
      else if (fn == "max") { auto f = cc.template iallreduce<Max<T>>(in, out); f.wait(); }
      else ok = false;
    } else ok = false; } else ok = false;
  }
  else if (op == "bcast") cc.broadcast(out.data(), len, root);
  else if (op == "ibcast") { auto f = cc.ibroadcast(out, root); f.wait(); }
  else if (op == "ibcast1") { auto f = cc.ibroadcast(out[0], root); f.wait(); }
  else if (op == "gather") cc.gather(in.data(), out.data(), len, root);
  else if (op == "igather1") { auto f = cc.igather(in[0], out, root); f.wait(); }
  else if (op == "igatherV") { if constexpr (std::is_same<Comm, Communication<MPI_Comm>>::value) { auto f = cc.igather(in, out, root); f.wait(); } else ok = false; }
  else if (op == "gatherv") cc.gatherv(in.data(), lens.at(me), out.data(), glens.data(), gdispls.data(), root);
  else if (op == "scatter") cc.scatter(in.data(), out.data(), len, root);
  else if (op == "iscatter1") { auto f = cc.iscatter(in, out[0], root); f.wait(); }
  else if (op == "iscatterV") { if constexpr (std::is_same<Comm, Communication<MPI_Comm>>::value) { auto f = cc.iscatter(in, out, root); f.wait(); } else ok = false; }
  else if (op == "scatterv") cc.scatterv(in.data(), glens.data(), gdispls.data(), out.data(), lens.at(me), root);
  else if (op == "allgather") cc.allgather(in.data(), len, out.data());
  else if (op == "iallgather1") { auto f = cc.iallgather(in[0], out); f.wait(); }
  else if (op == "iallgatherV") { if constexpr (std::is_same<Comm, Communication<MPI_Comm>>::value) { auto f = cc.iallgather(in, out); f.wait(); } else ok = false; }
  else if (op == "allgatherv") cc.allgatherv(in.data(), lens.at(me), out.data(), lens.data(), displs.data());
  else ok = false;
  if (!ok) return "UNSUPPORTED";
  return show_buf<C>(out);
}

// ------------------------------------------------------------------ point to point with size discovery
template<class C>
static std::string do_p2p(Communication<MPI_Comm>& cc, const Case& c, int me)
{
  typedef typename C::T T;
  const std::string& op = c.t[1];
  std::vector<T> sent = make_buf<C>(c.t[4]), pre = make_buf<C>(c.t[5]);
  const int tag = 11;
  if (me > 1) return "-";
  if (op == "rrecv") { if (me == 0) { cc.send(sent, 1, tag); return "-"; } auto r = cc.rrecv(std::move(pre), 0, tag); return show_buf<C>(r); }
  if (op == "rrecv_lv") { if (me == 0) { const std::vector<T>& cs = sent; cc.send(cs, 1, tag); return "-"; } cc.rrecv(pre, 0, tag); return show_buf<C>(pre); }
  if (op == "rrecv_twice") {   // the same receive object re-used: first the whole sequence, then only its first half
    std::vector<T> half(sent.begin(), sent.begin() + sent.size() / 2);
    if (me == 0) { cc.send(sent, 1, tag); cc.send(half, 1, tag); return "-"; }
    cc.rrecv(pre, 0, tag); std::string r = show_buf<C>(pre); cc.rrecv(pre, 0, tag); return r + "/" + show_buf<C>(pre); }
  if (op == "rrecv_status" || op == "recv_status") {   // explicit MPI_Status argument instead of the default MPI_STATUS_IGNORE
    if (me == 0) { cc.send(sent, 1, tag); return "-"; }
    MPI_Status st; std::memset(&st, 0x7f, sizeof st);
    std::vector<T> r = op == "rrecv_status" ? cc.rrecv(std::move(pre), 0, tag, &st) : cc.recv(std::move(pre), 0, tag, &st);
    int cnt = -1; MPI_Get_count(&st, MPITraits<T>::getType(), &cnt);
    return show_buf<C>(r) + "/src=" + std::to_string(st.MPI_SOURCE) + ",tag=" + std::to_string(st.MPI_TAG == tag ? 1 : 0) + ",count=" + std::to_string(cnt); }
  if (op == "irecv0") {        // irecv into an empty dynamic object is rejected (documented: reserve the size first)
    if (me == 0) return "-";
    try { auto f = cc.irecv(std::vector<T>(), 0, tag); return "accepted"; } catch (ParallelError&) { return "ParallelError"; } }
  if (op == "recv") { if (me == 0) { cc.send(sent, 1, tag); return "-"; } auto r = cc.recv(std::move(pre), 0, tag); return show_buf<C>(r); }
  if (op == "isend_irecv") {
    if (me == 0) { auto f = cc.isend(std::move(sent), 1, tag); f.wait(); return "-"; }
    auto f = cc.irecv(std::move(pre), 0, tag); auto r = f.get(); return show_buf<C>(r); }
  if (op == "isend_irecv_lv") {   // const lvalue send buffer (MPIFuture<const vector&>), lvalue receive buffer (MPIFuture<vector&>): data lands in the caller's object
    if (me == 0) { const std::vector<T>& cs = sent; auto f = cc.isend(cs, 1, tag); f.wait(); return "-"; }
    auto f = cc.irecv(pre, 0, tag); f.wait(); return show_buf<C>(pre); }
  if (op == "scalar") {   // single object through the default MPIData (size 1)
    if (me == 0) { cc.send(sent[0], 1, tag); return "-"; } cc.recv(pre[0], 0, tag); return show_buf<C>(pre); }
  if (op == "rrecv_str") {
    if constexpr (std::is_same<T, char>::value) {
      if (me == 0) { std::string s(sent.begin(), sent.end()); cc.send(s, 1, tag); return "-"; }
      std::string p(pre.begin(), pre.end()); std::string r = cc.rrecv(std::move(p), 0, tag); return show_range<C>(r.begin(), r.end());
    } else return "UNSUPPORTED"; }
  if (op == "rrecv_pack") {   // sender: each element, then the whole vector, into an MPIPack; receiver: rrecv(MPIPack), read back
    if (me == 0) { MPIPack p(cc); for (auto& x : sent) p << x; p << sent; cc.send(p, 1, tag); return "-"; }
    MPIPack p = cc.rrecv(MPIPack(cc), 0, tag);
    std::string r = std::to_string(p.size()) + "/";
    std::vector<T> single(pre.begin(), pre.end()); single.resize(sent.size(), pre.empty() ? C::make(Elem(C::nf, "0")) : pre[0]);
    for (auto& x : single) p >> x;
    std::vector<T> v(pre); p >> v;
    return r + show_buf<C>(single) + "/" + show_buf<C>(v) + "/" + std::to_string(p.tell()) + "/" + (p.eof() ? "eof" : "noeof"); }
  return "UNSUPPORTED";
}

// ------------------------------------------------------------------ datatype content (raw object bytes)
template<class T> static std::vector<T> objs_from(const std::vector<unsigned char>& b)
{ std::vector<T> v(b.size() / sizeof(T)); if (!v.empty()) std::memcpy((void*) v.data(), b.data(), v.size() * sizeof(T)); return v; }
template<class C>
static std::string do_dt(Communication<MPI_Comm>& cc, const Case& c, int me)
{
  typedef typename C::T T;
  const std::string& via = c.t[3]; int count = (int) toll(c.t[2]);
  std::vector<T> src = objs_from<T>(unhex(c.t[4])), dst = objs_from<T>(unhex(c.t[5]));
  const int tag = 12;
  if (me > 1) { if (via == "bcast") { cc.broadcast(dst.data(), count, 0); } return "-"; }
  if (via == "send") { if (me == 0) { src.resize(count); cc.send(src, 1, tag); return "-"; } cc.recv(dst, 0, tag); }
  else if (via == "scalar") { if (me == 0) { cc.send(src[0], 1, tag); return "-"; } cc.recv(dst[0], 0, tag); }
  else if (via == "bcast") { if (me == 0) { cc.broadcast(src.data(), count, 0); return "-"; } cc.broadcast(dst.data(), count, 0); }
  else if (via == "raw") { if (me == 0) { MPI_Send(src.data(), count, MPITraits<T>::getType(), 1, tag, (MPI_Comm) cc); return "-"; }
    MPI_Recv(dst.data(), count, MPITraits<T>::getType(), 0, tag, (MPI_Comm) cc, MPI_STATUS_IGNORE); }
  else return "UNSUPPORTED";
  return hexof(dst.data(), dst.size() * sizeof(T));
}

// ------------------------------------------------------------------ MPIPack script
// pack <prelen> <item>...   item = s|<ty>|<hex of one object>   or   d|<ty>|<hex of n objects>  (d: std::vector<T>; std::string for ty=char)
struct Layout { std::size_t size; std::string desc, comm, all; };
template<class T> static Layout layout_of();
static std::vector<std::pair<int,int>> ranges(const std::string& s)
{ std::vector<std::pair<int,int>> r; for (auto& t : split(s, ',')) { auto p = split(t, ':'); r.push_back({ (int) toll(p[0]), (int) toll(p[1]) }); } return r; }
template<class T> static std::string masked(const T* p, std::size_t n)
{
  static const std::vector<std::pair<int,int>> all = ranges(layout_of<T>().all);
  std::string r;
  for (std::size_t i = 0; i < n; ++i) { std::string h = hexof(p + i, sizeof(T));
    for (std::size_t b = 0; b < sizeof(T); ++b) { bool in = false; for (auto& f : all) if ((int) b >= f.first && (int) b < f.first + f.second) in = true;
      if (!in) { h[2*b] = '.'; h[2*b+1] = '.'; } }
    r += h; }
  return r.empty() ? "_" : r;
}
static std::string do_pack(Communication<MPI_Comm>& cc, const Case& c)
{
  MPIPack p(cc);
  std::size_t prelen = (std::size_t) toll(c.t[1]);
  std::string r;
  for (std::size_t i = 2; i < c.t.size(); ++i) {
    auto it = split(c.t[i], '|'); auto bytes = unhex(it[2]);
    bool ok = dispatch(it[1], [&](auto tag) { typedef typename decltype(tag)::Codec::T T;
      auto v = objs_from<T>(bytes);
      if (it[0] == "s") p << v[0];
      else if constexpr (std::is_same<T,char>::value) { std::string s(v.begin(), v.end()); p << s; }
      else p << v; });
    if (!ok) return "UNSUPPORTED";
  }
  // buffer content through the public interface: send-side MPIData view
  { auto md = getMPIData(p); r += hexof(md.ptr(), (std::size_t) md.size()); }
  r += "/" + std::to_string(p.tell()) + "/" + std::to_string(p.size()) + "/" + (p.eof() ? "eof" : "noeof");
  p.seek(0);
  for (std::size_t i = 2; i < c.t.size(); ++i) {
    auto it = split(c.t[i], '|');
    dispatch(it[1], [&](auto tag) { typedef typename decltype(tag)::Codec::T T;
      if (it[0] == "s") { alignas(T) unsigned char raw[sizeof(T)]; std::memset(raw, 0xA5, sizeof raw); T* t = (T*) raw; p >> *t; r += "/" + hexof(raw, sizeof raw); }
      else if constexpr (std::is_same<T,char>::value) { std::string s(prelen, 'z'); p >> s; r += "/" + hexof(s.data(), s.size()); }
      else { std::vector<T> v(prelen); if (prelen) std::memset((void*) v.data(), 0x5A, prelen * sizeof(T)); p >> v; r += "/" + masked<T>(v.data(), v.size()); } });
  }
  r += "/" + std::to_string(p.tell()) + "/" + (p.eof() ? "eof" : "noeof");
  return r;
}

// ------------------------------------------------------------------ MPIPack script with seeks, overwrites and a hop to another rank
// pks <prelen> <op>...    op = s|<ty>|<hex> , d|<ty>|<hex> (pack at the cursor)   k|<pos> , k|end (seek)   r|s|<ty>|<exp> , r|d|<ty>|<exp> (unpack)
//                              x (rank 0 sends the pack, rank 1 receives it with rrecv and executes the remaining ops)
// after every op: B<buffer>,<size>,<tell>,<e|n>   K<size>,...   R<object bytes>,<size>,...   X<buffer>,<size>,...
static std::string pk_state(MPIPack& p) { return std::to_string(p.size()) + "," + std::to_string(p.tell()) + "," + (p.eof() ? "e" : "n"); }
static std::string pk_buf(MPIPack& p) { auto md = getMPIData(p); return hexof(md.ptr(), (std::size_t) md.size()); }
static bool pk_op(MPIPack& p, const std::string& op, std::size_t prelen, std::string& r)
{
  auto it = split(op, '|');
  if (it[0] == "k") { p.seek(it[1] == "end" ? (int) p.size() : (int) toll(it[1])); r += "/K" + pk_state(p); return true; }
  if (it[0] == "m") {   // move ctor x2, move assignment onto a pack that holds OTHER content and another cursor (twice)
    Communication<MPI_Comm> ccp(MPI_COMM_WORLD);
    MPIPack q(std::move(p)); MPIPack w(std::move(q)); MPIPack other(ccp, 5); other << 'j' << 'k'; other.seek(1);
    p.seek(p.tell() + 3); other = std::move(w); p = std::move(other); r += "/Z" + pk_buf(p) + "," + pk_state(p); return true; }   // move ctor x2, move assignment
  if (it[0] == "q") {   // a pack as the payload of a pack:  p << inner   (inner holds the given raw bytes)
    Communication<MPI_Comm> ccp(MPI_COMM_WORLD); MPIPack inner(ccp); for (unsigned char b : unhex(it[1])) inner << (char) b;
    p << inner; r += "/B" + pk_buf(p) + "," + pk_state(p); return true; }
  if (it[0] == "u") {   // p >> inner
    Communication<MPI_Comm> ccp(MPI_COMM_WORLD); MPIPack inner(ccp, 3);
    if (it.size() >= 4) { for (unsigned char b : unhex(it[2])) inner << (char) b; inner.seek((int) toll(it[3])); }   // target already holds other bytes and a cursor
    p >> inner; r += "/R" + pk_buf(inner) + "," + pk_state(p); return true; }
  if (it[0] == "z") { p.resize((std::size_t) toll(it[1])); r += "/Z" + pk_buf(p) + "," + pk_state(p); return true; }
  if (it[0] == "g") { p.enlarge((int) toll(it[1])); r += "/Z" + pk_buf(p) + "," + pk_state(p); return true; }
  if (it[0] == "s" || it[0] == "d") {
    auto bytes = unhex(it[2]);
    bool ok = dispatch(it[1], [&](auto tag) { typedef typename decltype(tag)::Codec::T T;
      auto v = objs_from<T>(bytes);
      if (it[0] == "s") p << v[0];
      else if constexpr (std::is_same<T,char>::value) { std::string s(v.begin(), v.end()); p << s; }
      else p << v; });
    r += "/B" + pk_buf(p) + "," + pk_state(p); return ok;
  }
  if (it[0] == "r") {
    bool ok = dispatch(it[2], [&](auto tag) { typedef typename decltype(tag)::Codec::T T;
      if (it[1] == "s") { alignas(T) unsigned char raw[sizeof(T)]; std::memset(raw, 0xA5, sizeof raw); T* t = (T*) raw; p >> *t; r += "/R" + hexof(raw, sizeof raw); }
      else if constexpr (std::is_same<T,char>::value) { std::string s(prelen, 'z'); p >> s; r += "/R" + hexof(s.data(), s.size()); }
      else { std::vector<T> v(prelen); if (prelen) std::memset((void*) v.data(), 0x5A, prelen * sizeof(T)); p >> v; r += "/R" + masked<T>(v.data(), v.size()); } });
    r += "," + pk_state(p); return ok;
  }
  return false;
}
static std::string do_pks(Communication<MPI_Comm>& cc, const Case& c, int me)
{
  std::size_t prelen = (std::size_t) toll(c.t[1]);
  std::size_t xi = c.t.size();
  for (std::size_t i = 2; i < c.t.size(); ++i) if (c.t[i] == "x" || c.t[i].rfind("x|", 0) == 0) xi = i;
  const int tag = 13;
  if (xi < c.t.size() && cc.size() < 2) return "UNSUPPORTED";
  std::string r;
  if (me == 0) {
    // first op n|<size>: MPIPack(comm, size) with a non-default size (zero-filled buffer, cursor 0)
    std::size_t first = 2; std::size_t isz = 0;
    if (c.t.size() > 2 && c.t[2].rfind("n|", 0) == 0) { isz = (std::size_t) toll(c.t[2].substr(2)); first = 3; }
    MPIPack p(cc, isz);
    if (first == 3) r += "/Z" + pk_buf(p) + "," + pk_state(p);
    for (std::size_t i = first; i < xi; ++i) if (!pk_op(p, c.t[i], prelen, r)) return "UNSUPPORTED";
    if (xi < c.t.size()) cc.send(p, 1, tag);
    return r.empty() ? "-" : r;
  }
  if (me == 1 && xi < c.t.size()) {
    // x: rrecv into a fresh pack;  x|<hex>|<pos>: into a pack that already holds other bytes with its cursor at pos
    MPIPack tgt(cc);
    { auto xf = split(c.t[xi], '|'); if (xf.size() >= 3) { for (unsigned char b : unhex(xf[1])) tgt << (char) b; tgt.seek((int) toll(xf[2])); } }
    MPIPack p = cc.rrecv(std::move(tgt), 0, tag);
    r += "/X" + pk_buf(p) + "," + pk_state(p);
    for (std::size_t i = xi + 1; i < c.t.size(); ++i) if (!pk_op(p, c.t[i], prelen, r)) return "UNSUPPORTED";
    return r;
  }
  return "-";
}

// ------------------------------------------------------------------ layout measurement (public interface only)
template<class T, class... A> static std::vector<unsigned char> image(A&&... a)
{ alignas(T) unsigned char raw[sizeof(T)]; std::memset(raw, 0, sizeof raw); new (raw) T(std::forward<A>(a)...); return std::vector<unsigned char>(raw, raw + sizeof(T)); }
static std::pair<int,int> diffrange(const std::vector<unsigned char>& a, const std::vector<unsigned char>& b)
{ int lo = -1, hi = -1; for (std::size_t i = 0; i < a.size(); ++i) if (a[i] != b[i]) { if (lo < 0) lo = (int) i; hi = (int) i; } return { lo, hi - lo + 1 }; }
static std::string rg(std::pair<int,int> p) { return std::to_string(p.first) + ":" + std::to_string(p.second); }
template<class T> static std::string basic_desc();
template<> std::string basic_desc<int>() { return "b4.4"; }
template<> std::string basic_desc<long>() { return "b8.8"; }
template<> std::string basic_desc<unsigned long>() { return "b8.8"; }
template<> std::string basic_desc<unsigned char>() { return "b1.1"; }
template<> std::string basic_desc<char>() { return "b1.1"; }
template<> std::string basic_desc<short>() { return "b2.2"; }
template<> std::string basic_desc<float>() { return "b4.4"; }
template<> std::string basic_desc<double>() { return "b8.8"; }
template<> std::string basic_desc<long double>() { return "b16.16"; }
template<> std::string basic_desc<std::complex<double>>() { return "b16.8"; }
template<> std::string basic_desc<std::complex<float>>() { return "b8.4"; }
template<> std::string basic_desc<std::complex<long double>>() { return "b32.16"; }
template<> std::string basic_desc<unsigned int>() { return "b4.4"; }
template<> std::string basic_desc<unsigned short>() { return "b2.2"; }
template<class T> static Layout scalar_layout(const std::string& d) { std::string f = "0:" + std::to_string(sizeof(T)); return { sizeof(T), d, f, f }; }
template<class T> static Layout generic_layout() { return scalar_layout<T>("g" + std::to_string(sizeof(T))); }
template<class K, int n> static Layout fv_layout()
{ typedef FieldVector<K,n> T; T v; int d = (int) ((char*) &v[0] - (char*) &v); std::string f;
  for (int i = 0; i < n; ++i) { if (i) f += ","; f += std::to_string((int) ((char*) &v[i] - (char*) &v)) + ":" + std::to_string(sizeof(K)); }
  return { sizeof(T), "fv(" + std::to_string(n) + "," + basic_desc<K>() + "," + std::to_string(d) + ")", f, f }; }
template<int k> static Layout big_layout()
{ typedef bigunsignedint<k> T; auto a = image<T>((std::uintmax_t) 0); T ones = ~T((std::uintmax_t) 0); auto b = image<T>(ones); auto r = diffrange(a, b);
  // the value bits occupy r; the digit array is n uint16 (the top digit may have unused bits that operator~ leaves 0..): round to whole digits
  int n = T::n; std::string f = std::to_string(r.first) + ":" + std::to_string(2 * n);
  return { sizeof(T), "bu(" + std::to_string(n) + "," + std::to_string(r.first) + ")", f, f }; }
template<class A, class B> static Layout pair_layout(const std::string& da, const std::string& db)
{ typedef std::pair<A,B> T; int d1 = (int) offsetof(T, first), d2 = (int) offsetof(T, second);
  std::string f = std::to_string(d1) + ":" + std::to_string(sizeof(A)) + "," + std::to_string(d2) + ":" + std::to_string(sizeof(B));
  return { sizeof(T), "pr(" + da + "," + db + "," + std::to_string(d1) + "," + std::to_string(d2) + "," + std::to_string(sizeof(T)) + ")", f, f }; }
// bytes that follow a byte pattern written through the public interface (robust against garbage in padding bytes, which the compiler
// may write when it copies members with wide stores): byte i belongs to the member iff it equals the pattern for all four patterns
template<class F> static std::pair<int,int> follows(F&& img)
{
  const unsigned char pats[4] = { 0x00, 0xFF, 0x5A, 0xA5 };
  std::vector<unsigned char> im[4]; for (int k = 0; k < 4; ++k) im[k] = img(pats[k]);
  int lo = -1, hi = -1;
  for (std::size_t i = 0; i < im[0].size(); ++i) { bool all = true; for (int k = 0; k < 4; ++k) all = all && im[k][i] == pats[k];
    if (all) { if (lo < 0) lo = (int) i; hi = (int) i; } }
  return { lo, hi - lo + 1 };
}
struct PLIProbe { std::pair<int,int> local, attr, pub, state; };
static PLIProbe probe_pli()
{ auto a = image<PLI>((std::size_t) 0, Flag(0), false);
  PLIProbe p; p.local = follows([&](unsigned char b) { std::size_t v; std::memset(&v, b, sizeof v); return image<PLI>(v, Flag(0), false); }); p.attr = diffrange(a, image<PLI>((std::size_t) 0, flagmax, false));
  p.pub = diffrange(a, image<PLI>((std::size_t) 0, Flag(0), true)); PLI s((std::size_t) 0, Flag(0), false); s.setState(DELETED); p.state = diffrange(a, image<PLI>(s)); return p; }
static Layout pli_layout()
{ PLIProbe p = probe_pli();
  return { sizeof(PLI), "pl(" + std::to_string(p.attr.first) + "," + std::to_string(sizeof(PLI)) + ")", rg(p.attr), rg(p.local) + "," + rg(p.attr) + "," + rg(p.pub) + "," + rg(p.state) }; }
static Layout ip_layout()
{ PLIProbe p = probe_pli(); PLI z((std::size_t) 0, Flag(0), false);
  auto g = follows([&](unsigned char b) { int v; std::memset(&v, b, sizeof v); return image<IP>(v, z); });
  auto l = follows([&](unsigned char b) { std::size_t v; std::memset(&v, b, sizeof v); return image<IP>(0, PLI(v, Flag(0), false)); });
  int dl = l.first - p.local.first;
  auto sh = [&](std::pair<int,int> r) { return std::to_string(r.first + dl) + ":" + std::to_string(r.second); };
  return { sizeof(IP), "ip(b4.4," + std::to_string(g.first) + "," + std::to_string(dl) + "," + pli_layout().desc + "," + std::to_string(sizeof(IP)) + ")",
           rg(g) + "," + sh(p.attr), rg(g) + "," + sh(p.local) + "," + sh(p.attr) + "," + sh(p.pub) + "," + sh(p.state) }; }
template<class T> struct IsPair : std::false_type {};
template<class A, class B> struct IsPair<std::pair<A,B>> : std::true_type { typedef A first_type; typedef B second_type; };
template<class T> struct IsFV : std::false_type {};
template<class K, int n> struct IsFV<FieldVector<K,n>> : std::true_type { typedef K field; static constexpr int dim = n; };
template<class T> struct IsBig : std::false_type {};
template<int k> struct IsBig<bigunsignedint<k>> : std::true_type { static constexpr int bits = k; };
static std::string shift_ranges(const std::string& s, int d)
{ std::string r; for (auto& p : ranges(s)) { if (!r.empty()) r += ","; r += std::to_string(p.first + d) + ":" + std::to_string(p.second); } return r; }
template<class T> static Layout layout_of()
{
  if constexpr (std::is_same<T,long long>::value || std::is_same<T,bool>::value || std::is_same<T,Pod>::value || std::is_enum<T>::value) return generic_layout<T>();
  else if constexpr (std::is_arithmetic<T>::value || std::is_same<T,std::complex<double>>::value || std::is_same<T,std::complex<float>>::value
                     || std::is_same<T,std::complex<long double>>::value) return scalar_layout<T>(basic_desc<T>());
  else if constexpr (IsFV<T>::value) return fv_layout<typename IsFV<T>::field, IsFV<T>::dim>();
  else if constexpr (IsBig<T>::value) return big_layout<IsBig<T>::bits>();
  else if constexpr (IsPair<T>::value) {
    typedef typename IsPair<T>::first_type A; typedef typename IsPair<T>::second_type B;
    Layout la = layout_of<A>(), lb = layout_of<B>(); int d1 = (int) offsetof(T, first), d2 = (int) offsetof(T, second);
    return { sizeof(T), "pr(" + la.desc + "," + lb.desc + "," + std::to_string(d1) + "," + std::to_string(d2) + "," + std::to_string(sizeof(T)) + ")",
             shift_ranges(la.comm, d1) + "," + shift_ranges(lb.comm, d2), shift_ranges(la.all, d1) + "," + shift_ranges(lb.all, d2) }; }
  else if constexpr (std::is_same<T,PLI>::value) return pli_layout();
  else return ip_layout();
}

// ------------------------------------------------------------------ main
// world rank 0 collects the observations; slot = position of this process in the printed line (its rank in the communicator under test)
static std::string collect(const std::string& mine0, int slot, int me, int P)
{
  std::string mine = std::to_string(slot) + "#" + mine0;
  int n = (int) mine.size(); std::vector<int> ns(P), off(P);
  MPI_Gather(&n, 1, MPI_INT, ns.data(), 1, MPI_INT, 0, MPI_COMM_WORLD);
  int tot = 0; if (me == 0) for (int i = 0; i < P; ++i) { off[i] = tot; tot += ns[i]; }
  std::vector<char> all(tot + 1);
  MPI_Gatherv(const_cast<char*>(mine.data()), n, MPI_CHAR, all.data(), ns.data(), off.data(), MPI_CHAR, 0, MPI_COMM_WORLD);
  std::string r;
  if (me == 0) { std::vector<std::string> parts(P);
    for (int i = 0; i < P; ++i) { std::string x(all.data() + off[i], ns[i]); auto h = x.find('#'); int k = (int) toll(x.substr(0, h)); parts.at(k) = x.substr(h + 1); }
    for (int i = 0; i < P; ++i) { if (i) r += ";"; r += parts[i]; } }
  return r;
}

int main(int argc, char** argv)
{
  MPIHelper& helper = MPIHelper::instance(argc, argv);
  Communication<MPI_Comm> cc(MPI_COMM_WORLD);
  int me = cc.rank(), P = cc.size();
  if (argc > 1 && std::string(argv[1]) == "--layout") {
    if (me == 0) for (const char* n : ALLTYPES) dispatch(n, [&](auto tag) { typedef typename decltype(tag)::Codec::T T; Layout l = layout_of<T>();
      int ps = 0; MPI_Pack_size(1, MPITraits<T>::getType(), MPI_COMM_WORLD, &ps); MPI_Aint lb, ext; MPI_Type_get_extent(MPITraits<T>::getType(), &lb, &ext);
      std::cout << n << " " << l.size << " " << l.desc << " " << l.comm << " " << l.all << " " << ps << " " << (long) ext << std::endl; });
    return 0;
  }
  std::ifstream f(argv[1]); std::string line;
  Communication<No_Comm> nc;
  // the communicators under test: world (through the default constructor argument), a duplicate, a split with REVERSED ranks,
  // and MPI_COMM_SELF obtained through the converting constructor from Communication<No_Comm>
  Communication<MPI_Comm> cdef;
  MPI_Comm dupc, revc; MPI_Comm_dup(MPI_COMM_WORLD, &dupc); MPI_Comm_split(MPI_COMM_WORLD, 0, -me, &revc);
  Communication<MPI_Comm> cdup(dupc), crev(revc), cself(nc);
  Communication<MPI_Comm> ccopy(cdup);          // copy of a Communication, then copy-ASSIGNED from one with another communicator and rank:
  ccopy = crev;                                 // must take over communicator, rank and size
  while (std::getline(f, line)) {
    ++g_case;
    Case c; { std::istringstream is(line); std::string t; while (is >> t) c.t.push_back(t); }
    std::string kind = "@world";
    if (!c.t.empty() && c.t[0][0] == '@') { kind = c.t[0]; c.t.erase(c.t.begin()); }
    Communication<MPI_Comm>& cu = kind == "@dup" ? cdup : kind == "@rev" ? ccopy : kind == "@self" ? cself : cdef;
    int cme = cu.rank();
    int slot = kind == "@self" ? me : cme;
    std::string mine = "UNSUPPORTED";
    try {
      if (c.t.empty()) mine = "EMPTY";
      else if (c.t[0] == "coll") {
        bool ismpi = c.t[1] == "mpi";
        if (!ismpi && cme != 0) mine = "-";
        else dispatch(c.t[4], [&](auto tag) { typedef typename decltype(tag)::Codec C;
          if (ismpi) mine = do_coll<C>(cu, true, c, cme); else mine = do_coll<C>(nc, false, c, 0); });
      }
      else if (c.t[0] == "p2p") dispatch(c.t[2], [&](auto tag) { typedef typename decltype(tag)::Codec C; mine = do_p2p<C>(cu, c, cme); });
      else if (c.t[0] == "dt") dispatch(c.t[1], [&](auto tag) { typedef typename decltype(tag)::Codec C; mine = do_dt<C>(cu, c, cme); });
      else if (c.t[0] == "pack") mine = cme == 0 ? do_pack(cu, c) : "-";
      else if (c.t[0] == "pks") mine = do_pks(cu, c, cme);
      else if (c.t[0] == "layout") { if (cme != 0) mine = "-"; else dispatch(c.t[1], [&](auto tag) { typedef typename decltype(tag)::Codec::T T;
        int ps = 0; MPI_Pack_size(1, MPITraits<T>::getType(), MPI_COMM_WORLD, &ps); MPI_Aint lb, ext; MPI_Type_get_extent(MPITraits<T>::getType(), &lb, &ext);
        MPI_Aint tlb, text; MPI_Type_get_true_extent(MPITraits<T>::getType(), &tlb, &text);
        mine = "size=" + std::to_string(ps) + " extent=" + std::to_string((long) ext) + " sizeof=" + std::to_string(sizeof(T))
             + " lb=" + std::to_string((long) lb) + " tlb=" + std::to_string((long) tlb) + " tub=" + std::to_string((long) (tlb + text));
        // the MPIData view of one object: (count, packed size of its datatype, static_size)
        T obj{}; auto md = getMPIData(obj); int ts = 0; MPI_Type_size(md.type(), &ts);
        mine += " md=" + std::to_string(md.size()) + "x" + std::to_string(ts) + (decltype(md)::static_size ? "s" : "d"); }); }
    } catch (Dune::Exception& e) { mine = "EXC Dune"; }
    catch (std::exception& e) { mine = std::string("EXC std ") + e.what(); }
    std::string all = collect(mine, slot, me, P);
    if (me == 0) std::cout << all << std::endl;
  }
  return 0;
}
