// C08 impl driver: runs the case file on FMatrixHelp / DynamicMatrixHelp eigenvalue routines built from the working tree.
// One flushed output line per case (canonical form shared with ml/C08_driver.ml and checks/C08.py).
// Two builds:  plain (links the system LAPACK; tolerance TESTS + bit-exact 2x2 stream)
//              -DC08_MOCK (no LAPACK linked; ?syev_/?geev_ are the recording stubs below: exact hand-over stream)
#include <config.h>
#include <cmath>
#include <cstdio>
#include <cstdint>
#include <cstring>
#include <unistd.h>
#include <fstream>
#include <iostream>
#include <sstream>
#include <string>
#include <vector>
#include <complex>
#include <dune/common/fmatrix.hh>
#include <dune/common/fvector.hh>
#include <dune/common/dynmatrix.hh>
#include <dune/common/dynvector.hh>
#include <dune/common/fmatrixev.hh>
#include <dune/common/dynmatrixev.hh>

// ---------------------------------------------------------------- number <-> bit pattern
static std::string hx(double v) { if (std::isnan(v)) return "nan"; std::uint64_t b; std::memcpy(&b, &v, 8); char s[24]; std::snprintf(s, sizeof s, "%016llx", (unsigned long long) b); return s; }
static std::string hx(float v) { if (std::isnan(v)) return "nan"; std::uint32_t b; std::memcpy(&b, &v, 4); char s[16]; std::snprintf(s, sizeof s, "%08x", (unsigned) b); return s; }
static std::string hx(long double v) { if (std::isnan(v)) return "nan"; char s[64]; std::snprintf(s, sizeof s, "%La", v); return s; }   // exact hex-float
static void unhx(const std::string& s, long double& v) { std::uint64_t b = std::stoull(s, nullptr, 16); double d; std::memcpy(&d, &b, 8); v = d; }  // inputs are doubles
template<class K> static K qnan() { return std::numeric_limits<K>::quiet_NaN(); }
static void unhx(const std::string& s, double& v) { std::uint64_t b = std::stoull(s, nullptr, 16); std::memcpy(&v, &b, 8); }
static void unhx(const std::string& s, float& v) { std::uint32_t b = (std::uint32_t) std::stoul(s, nullptr, 16); std::memcpy(&v, &b, 4); }

template<class F> static std::string guarded(F&& f)
{
  try { return f(); }
  catch (Dune::FMatrixError&) { return "EXC FMatrixError"; }
  catch (Dune::MathError&) { return "EXC MathError"; }
  catch (Dune::InvalidStateException&) { return "EXC InvalidStateException"; }
  catch (Dune::NotImplemented&) { return "EXC NotImplemented"; }
  catch (Dune::Exception&) { return "EXC Dune::Exception"; }
  catch (std::exception&) { return "EXC std::exception"; }
}

// ---------------------------------------------------------------- recording LAPACK stubs (mock build)
#ifdef C08_MOCK
static std::string g_log;           // what the routine under test handed to "LAPACK"
static long g_info = 0;             // scripted info
template<class R> static void mock_syev(const char* jobz, const char* uplo, const long int* n, R* a, const long int* lda, R* w,
                                        R* work, const long int* lwork, long int* info)
{
  std::ostringstream os;
  long N = *n;
  os << "syev jobz=" << *jobz << " uplo=" << *uplo << " n=" << N << " lda=" << *lda << " lwork=" << *lwork << " a=";
  for (long k = 0; k < N*N; ++k) os << (k ? "," : "") << (long long) a[k];
  g_log += os.str();
  for (long i = 0; i < N; ++i) w[i] = R(1000 + i);
  for (long k = 0; k < N*N; ++k) a[k] = (*jobz == 'v' || *jobz == 'V') ? R(2000 + k) : R(-1);
  for (long k = 0; k < *lwork; ++k) work[k] = R(-7);      // touches the whole workspace (ASan sees a short one)
  *info = g_info;
}
template<class R> static void mock_geev(const char* jobvl, const char* jobvr, const long int* n, R* a, const long int* lda, R* wr, R* wi,
                                        R* vl, const long int* ldvl, R* vr, const long int* ldvr, R* work, const long int* lwork, long int* info)
{
  std::ostringstream os;
  long N = *n;
  os << "geev jobvl=" << *jobvl << " jobvr=" << *jobvr << " n=" << N << " lda=" << *lda << " ldvl=" << *ldvl << " ldvr=" << *ldvr
     << " lwork=" << *lwork << " vl=" << (vl ? "ptr" : "null") << " vr=" << (vr ? "ptr" : "null") << " a=";
  for (long k = 0; k < N*N; ++k) os << (k ? "," : "") << (long long) a[k];
  g_log += os.str();
  for (long i = 0; i < N; ++i) { wr[i] = R(1000 + i); wi[i] = R(3000 + i); }
  if ((*jobvl == 'v' || *jobvl == 'V') && vl) for (long k = 0; k < N*N; ++k) vl[k] = R(4000 + k);
  if ((*jobvr == 'v' || *jobvr == 'V') && vr) for (long k = 0; k < N*N; ++k) vr[k] = R(5000 + k);
  for (long k = 0; k < N*N; ++k) a[k] = R(-1);
  for (long k = 0; k < *lwork; ++k) work[k] = R(-7);
  *info = g_info;
}
extern "C" {
  void dsyev_(const char* jobz, const char* uplo, const long int* n, double* a, const long int* lda, double* w, double* work, const long int* lwork, long int* info)
  { mock_syev(jobz, uplo, n, a, lda, w, work, lwork, info); }
  void ssyev_(const char* jobz, const char* uplo, const long int* n, float* a, const long int* lda, float* w, float* work, const long int* lwork, long int* info)
  { mock_syev(jobz, uplo, n, a, lda, w, work, lwork, info); }
  void dgeev_(const char* jobvl, const char* jobvr, const long int* n, double* a, const long int* lda, double* wr, double* wi, double* vl,
              const long int* ldvl, double* vr, const long int* ldvr, double* work, const long int* lwork, long int* info)
  { mock_geev(jobvl, jobvr, n, a, lda, wr, wi, vl, ldvl, vr, ldvr, work, lwork, info); }
  void sgeev_(const char* jobvl, const char* jobvr, const long int* n, float* a, const long int* lda, float* wr, float* wi, float* vl,
              const long int* ldvl, float* vr, const long int* ldvr, float* work, const long int* lwork, long int* info)
  { mock_geev(jobvl, jobvr, n, a, lda, wr, wi, vl, ldvl, vr, ldvr, work, lwork, info); }
}
#endif

// ---------------------------------------------------------------- helpers
template<class K, int n> static std::string vec_int(const Dune::FieldVector<K,n>& w)
{ std::ostringstream os; for (int i = 0; i < n; ++i) os << (i ? "," : "") << (long long) w[i]; return os.str(); }
template<class K, int n> static std::string mat_int(const Dune::FieldMatrix<K,n,n>& V)
{ std::ostringstream os; for (int i = 0; i < n; ++i) { if (i) os << ";"; for (int j = 0; j < n; ++j) os << (j ? "," : "") << (long long) V[i][j]; } return os.str(); }
template<class K, int n> static std::string vec_hx(const Dune::FieldVector<K,n>& w)
{ std::string s; for (int i = 0; i < n; ++i) { if (i) s += " "; s += hx(w[i]); } return s; }
template<class K, int n> static std::string mat_hx(const Dune::FieldMatrix<K,n,n>& V)
{ std::string s; for (int i = 0; i < n; ++i) for (int j = 0; j < n; ++j) { if (i || j) s += " "; s += hx(V[i][j]); } return s; }

struct ReIm { double real, imag; };          // FMatrixHelp::eigenValuesNonSym assigns `.real = ` / `.imag = ` (data members)

// ---------------------------------------------------------------- hand-over stream (mock build)
#ifdef C08_MOCK
template<class K, int n> static std::string ho_fm(const std::string& routine, const std::vector<long>& e)
{
  Dune::FieldMatrix<K,n,n> A;
  for (int i = 0; i < n; ++i) for (int j = 0; j < n; ++j) A[i][j] = K(e[i*n + j]);
  Dune::FieldVector<K,n> w(K(-5)); Dune::FieldMatrix<K,n,n> V(K(-6));
  g_log.clear();
  std::string res = guarded([&]() -> std::string {
    if (routine == "lvecs") { Dune::FMatrixHelp::eigenValuesVectorsLapack(A, w, V); return "w=" + vec_int(w) + " V=" + mat_int(V); }
    if (routine == "lvals") { Dune::FMatrixHelp::eigenValuesLapack(A, w); return "w=" + vec_int(w); }
    if (routine == "vals")  { Dune::FMatrixHelp::eigenValues(A, w); return "w=" + vec_int(w); }                 // n >= 4: generic specialisation
    if (routine == "vecs")  { Dune::FMatrixHelp::eigenValuesVectors(A, w, V); return "w=" + vec_int(w) + " V=" + mat_int(V); }
    if (routine == "fmnonsym") {
      Dune::FieldVector<ReIm,n> ev;
      Dune::FMatrixHelp::eigenValuesNonSym(A, ev);
      std::ostringstream os; os << "ev="; for (int i = 0; i < n; ++i) os << (i ? "," : "") << (long long) ev[i].real << "+" << (long long) ev[i].imag << "i"; return os.str();
    }
    return "BAD routine";
  });
  return "CALL " + (g_log.empty() ? std::string("none") : g_log) + " | " + res;
}
template<class K> static std::string ho_dyn(int n, bool want, const std::vector<long>& e)
{
  Dune::DynamicMatrix<K> A(n, n);
  for (int i = 0; i < n; ++i) for (int j = 0; j < n; ++j) A[i][j] = K(e[i*n + j]);
  Dune::DynamicVector<std::complex<double>> ev; std::vector<Dune::DynamicVector<K>> vecs;
  g_log.clear();
  std::string res = guarded([&]() -> std::string {
    Dune::DynamicMatrixHelp::eigenValuesNonSym(A, ev, want ? &vecs : nullptr);
    std::ostringstream os; os << "ev=";
    for (std::size_t i = 0; i < ev.size(); ++i) os << (i ? "," : "") << (long long) ev[i].real() << "+" << (long long) ev[i].imag() << "i";
    if (want) { os << " V="; for (std::size_t i = 0; i < vecs.size(); ++i) { if (i) os << ";"; for (std::size_t j = 0; j < vecs[i].size(); ++j) os << (j ? "," : "") << (long long) vecs[i][j]; } }
    return os.str();
  });
  return "CALL " + (g_log.empty() ? std::string("none") : g_log) + " | " + res;
}
template<class K> static std::string ho_dispatch(const std::string& routine, int n, const std::vector<long>& e)
{
  if (routine == "dyn0") return ho_dyn<K>(n, false, e);
  if (routine == "dyn1") return ho_dyn<K>(n, true, e);
  switch (n) {
    case 1: return ho_fm<K,1>(routine, e); case 2: return ho_fm<K,2>(routine, e); case 3: return ho_fm<K,3>(routine, e);
    case 4: return ho_fm<K,4>(routine, e); case 5: return ho_fm<K,5>(routine, e); case 6: return ho_fm<K,6>(routine, e);
  }
  return "BAD n";
}
#endif

// ---------------------------------------------------------------- value streams (real LAPACK build)
// all four symmetric entry points on one matrix.  Outputs are pre-filled with NaN (an entry the routine forgets to write shows);
// each eigenvector routine is also called with the eigenvector matrix ALIASING the input matrix (in-place decomposition):
// the result must be bit-identical to the non-aliased call (operands are read before the result is written).
template<class K, int n, class F> static std::string alias_check(const Dune::FieldMatrix<K,n,n>& A, const std::string& ref, F&& call)
{
  Dune::FieldMatrix<K,n,n> B = A;
  std::string got = guarded([&] { Dune::FieldVector<K,n> w(qnan<K>()); call(B, w, B); return vec_hx(w) + " " + mat_hx(B); });
  return got == ref ? "ok" : "DIFF";
}
template<class K, int n> static std::string sym_fm(const std::vector<std::string>& t, std::size_t at)
{
  Dune::FieldMatrix<K,n,n> A;
  for (int i = 0; i < n; ++i) for (int j = 0; j < n; ++j) unhx(t[at + i*n + j], A[i][j]);
  const Dune::FieldMatrix<K,n,n> A0 = A;
  std::string out, alias;
  out += "vals " + guarded([&] { Dune::FieldVector<K,n> w(qnan<K>()); Dune::FMatrixHelp::eigenValues(A, w); return vec_hx(w); });
  std::string r = guarded([&] { Dune::FieldVector<K,n> w(qnan<K>()); Dune::FieldMatrix<K,n,n> V(qnan<K>()); Dune::FMatrixHelp::eigenValuesVectors(A, w, V); return vec_hx(w) + " " + mat_hx(V); });
  out += " | vecs " + r;
  alias += "vecs=" + alias_check<K,n>(A, r, [](const Dune::FieldMatrix<K,n,n>& M, Dune::FieldVector<K,n>& w, Dune::FieldMatrix<K,n,n>& V) { Dune::FMatrixHelp::eigenValuesVectors(M, w, V); });
#ifndef C08_MOCK
  out += " | lvals " + guarded([&] { Dune::FieldVector<K,n> w(qnan<K>()); Dune::FMatrixHelp::eigenValuesLapack(A, w); return vec_hx(w); });
  r = guarded([&] { Dune::FieldVector<K,n> w(qnan<K>()); Dune::FieldMatrix<K,n,n> V(qnan<K>()); Dune::FMatrixHelp::eigenValuesVectorsLapack(A, w, V); return vec_hx(w) + " " + mat_hx(V); });
  out += " | lvecs " + r;
  alias += ",lvecs=" + alias_check<K,n>(A, r, [](const Dune::FieldMatrix<K,n,n>& M, Dune::FieldVector<K,n>& w, Dune::FieldMatrix<K,n,n>& V) { Dune::FMatrixHelp::eigenValuesVectorsLapack(M, w, V); });
#endif
  bool same = true;
  for (int i = 0; i < n; ++i) for (int j = 0; j < n; ++j) same = same && (hx(A[i][j]) == hx(A0[i][j]));
  out += same ? " | input-unchanged" : " | INPUT-MODIFIED";
  out += " | alias " + alias;
  return out;
}
template<class K> static std::string sym_dispatch(int n, const std::vector<std::string>& t, std::size_t at)
{
  switch (n) {
    case 1: return sym_fm<K,1>(t, at); case 2: return sym_fm<K,2>(t, at); case 3: return sym_fm<K,3>(t, at);
    case 4: return sym_fm<K,4>(t, at); case 5: return sym_fm<K,5>(t, at); case 6: return sym_fm<K,6>(t, at);
  }
  return "BAD n";
}
#ifndef C08_MOCK
// DynamicMatrixHelp::eigenValuesNonSym for K = double / float / long double.  The output objects are ALSO persistent ones that
// are re-used from case to case (other sizes, stale contents): the result must equal the one obtained with fresh objects.
template<class K> static std::string nonsym_dyn(int n, bool want, const std::vector<std::string>& t, std::size_t at)
{
  Dune::DynamicMatrix<K> A(n, n);
  for (int i = 0; i < n; ++i) for (int j = 0; j < n; ++j) unhx(t[at + i*n + j], A[i][j]);
  auto show = [&](Dune::DynamicVector<std::complex<double>>& ev, std::vector<Dune::DynamicVector<K>>& vecs) {
    std::string s = "ev";
    for (std::size_t i = 0; i < ev.size(); ++i) s += " " + hx(ev[i].real()) + " " + hx(ev[i].imag());
    if (want) { s += " | V"; for (auto& v : vecs) for (std::size_t j = 0; j < v.size(); ++j) s += " " + hx(v[j]); }
    return s;
  };
  std::string fresh = guarded([&]() -> std::string {
    Dune::DynamicVector<std::complex<double>> ev; std::vector<Dune::DynamicVector<K>> vecs;
    Dune::DynamicMatrixHelp::eigenValuesNonSym(A, ev, want ? &vecs : nullptr);
    return show(ev, vecs);
  });
  static Dune::DynamicVector<std::complex<double>> ev_p; static std::vector<Dune::DynamicVector<K>> vecs_p;
  std::string reused = guarded([&]() -> std::string {
    Dune::DynamicMatrixHelp::eigenValuesNonSym(A, ev_p, want ? &vecs_p : nullptr);
    return show(ev_p, vecs_p);
  });
  return fresh + (reused == fresh ? " | reuse-ok" : " | REUSE-DIFF");
}
template<class K, int n> static std::string nonsym_fm_n(const std::vector<std::string>& t, std::size_t at)
{
  Dune::FieldMatrix<K,n,n> A;
  for (int i = 0; i < n; ++i) for (int j = 0; j < n; ++j) unhx(t[at + i*n + j], A[i][j]);
  return guarded([&]() -> std::string {
    Dune::FieldVector<ReIm,n> ev;
    for (int i = 0; i < n; ++i) { ev[i].real = qnan<double>(); ev[i].imag = qnan<double>(); }
    Dune::FMatrixHelp::eigenValuesNonSym(A, ev);
    std::string s = "ev";
    for (int i = 0; i < n; ++i) s += " " + hx(ev[i].real) + " " + hx(ev[i].imag);
    return s;
  });
}
template<class K> static std::string nonsym_fm(int n, const std::vector<std::string>& t, std::size_t at)
{
  switch (n) { case 1: return nonsym_fm_n<K,1>(t, at); case 2: return nonsym_fm_n<K,2>(t, at); case 3: return nonsym_fm_n<K,3>(t, at);
               case 4: return nonsym_fm_n<K,4>(t, at); case 5: return nonsym_fm_n<K,5>(t, at); case 6: return nonsym_fm_n<K,6>(t, at); }
  return "BAD n";
}
#endif

int main(int argc, char** argv)
{
  if (argc < 2) return 2;
  std::ifstream in(argv[1]);
  // Result lines go to a private duplicate of stdout; fd 1/2 themselves are pointed at /dev/null, because the code under
  // test and LAPACK print there (eigenValues2dImpl prints the matrix to std::cout before throwing, the LAPACK paths print to
  // std::cerr, xerbla prints "On entry to DSYEV parameter number ..." through the Fortran runtime).
  FILE* res = fdopen(dup(1), "w");
  if (!res) return 3;
  if (!freopen("/dev/null", "w", stdout)) return 3;
#ifndef C08_MOCK
  if (!freopen("/dev/null", "w", stderr)) return 3;     // (the sanitizer of the mock build keeps its stderr)
#endif
  std::cout.rdbuf(nullptr);
  std::cerr.rdbuf(nullptr);
  std::string line;
  while (std::getline(in, line)) {
    std::istringstream is(line);
    std::vector<std::string> t; std::string x;
    while (is >> x) t.push_back(x);
    std::string out = "BAD case";
    if (!t.empty()) {
      const std::string& op = t[0];
      if (op == "ev2" && t.size() == 8) {
        // ev2 <thrq> <thrid> <flags> m00 m01 m10 m11 (binary64 bit patterns); thresholds and flags are for the model only
        Dune::FieldMatrix<double,2,2> A;
        unhx(t[4], A[0][0]); unhx(t[5], A[0][1]); unhx(t[6], A[1][0]); unhx(t[7], A[1][1]);
        out = "vals " + guarded([&] { Dune::FieldVector<double,2> w(qnan<double>()); Dune::FMatrixHelp::eigenValues(A, w); return vec_hx(w); });
        out += " | vecs " + guarded([&] { Dune::FieldVector<double,2> w(qnan<double>()); Dune::FieldMatrix<double,2,2> V(qnan<double>());
                                          Dune::FMatrixHelp::eigenValuesVectors(A, w, V); return vec_hx(w) + " " + mat_hx(V); });
      }
      else if (op == "ev2f" && t.size() == 8) {
        Dune::FieldMatrix<float,2,2> A;
        unhx(t[4], A[0][0]); unhx(t[5], A[0][1]); unhx(t[6], A[1][0]); unhx(t[7], A[1][1]);
        out = "vals " + guarded([&] { Dune::FieldVector<float,2> w(qnan<float>()); Dune::FMatrixHelp::eigenValues(A, w); return vec_hx(w); });
        out += " | vecs " + guarded([&] { Dune::FieldVector<float,2> w(qnan<float>()); Dune::FieldMatrix<float,2,2> V(qnan<float>());
                                          Dune::FMatrixHelp::eigenValuesVectors(A, w, V); return vec_hx(w) + " " + mat_hx(V); });
      }
      else if (op == "k3" && t.size() >= 2) {
        // the 3x3 eigenvector kernels called directly (binary64 bit patterns):
        //   k3 eig0 <9 entries row-major> <eval0>      -> evec0
        //   k3 ortho <e0 e1 e2>                        -> u v
        //   k3 eig1 <9 entries> <e0 e1 e2> <eval1>     -> evec1
        using V3 = Dune::FieldVector<double,3>;
        auto rd = [&](std::size_t i) { double x; unhx(t[i], x); return x; };
        if (t[1] == "eig0" && t.size() == 12) {
          Dune::FieldMatrix<double,3,3> A; for (int i = 0; i < 3; ++i) for (int j = 0; j < 3; ++j) A[i][j] = rd(2 + 3*i + j);
          out = guarded([&] { V3 e(qnan<double>()); Dune::FMatrixHelp::Impl::eig0(A, rd(11), e); return vec_hx(e); });
        }
        else if (t[1] == "ortho" && t.size() == 5) {
          V3 e = {rd(2), rd(3), rd(4)};
          out = guarded([&] { V3 u(qnan<double>()), v(qnan<double>()); Dune::FMatrixHelp::Impl::orthoComp(e, u, v); return vec_hx(u) + " " + vec_hx(v); });
        }
        else if (t[1] == "eig1" && t.size() == 15) {
          Dune::FieldMatrix<double,3,3> A; for (int i = 0; i < 3; ++i) for (int j = 0; j < 3; ++j) A[i][j] = rd(2 + 3*i + j);
          V3 e = {rd(11), rd(12), rd(13)};
          out = guarded([&] { V3 w(qnan<double>()); Dune::FMatrixHelp::Impl::eig1(A, e, w, rd(14)); return vec_hx(w); });
        }
      }
      else if (op == "sym" && t.size() >= 3) {
        int n = std::stoi(t[2]);
        if ((int) t.size() == 3 + n*n) out = (t[1] == "f") ? sym_dispatch<float>(n, t, 3) : (t[1] == "l") ? sym_dispatch<long double>(n, t, 3) : sym_dispatch<double>(n, t, 3);
      }
#ifndef C08_MOCK
      else if (op == "nonsym" && t.size() >= 3) {
        // nonsym <dyn0|dyn1|fm> n entries...
        int n = std::stoi(t[2]);
        // routine: dyn0|dyn1 (double), dynf0|dynf1 (float), dynl0|dynl1 (long double), fm (FieldMatrix<double>), fmf (FieldMatrix<float>: sgeev)
        if ((int) t.size() == 3 + n*n) {
          const std::string& r = t[1];
          bool want = !r.empty() && r.back() == '1';
          if (r == "fm") out = nonsym_fm<double>(n, t, 3);
          else if (r == "fmf") out = nonsym_fm<float>(n, t, 3);
          else if (r.rfind("dynf", 0) == 0) out = nonsym_dyn<float>(n, want, t, 3);
          else if (r.rfind("dynl", 0) == 0) out = nonsym_dyn<long double>(n, want, t, 3);
          else out = nonsym_dyn<double>(n, want, t, 3);
        }
      }
#else
      else if (op == "ho" && t.size() >= 5) {
        // ho <routine> <d|f|l> n info entries(ints)...
        int n = std::stoi(t[3]); g_info = std::stol(t[4]);
        std::vector<long> e; for (std::size_t k = 5; k < t.size(); ++k) e.push_back(std::stol(t[k]));
        if ((int) e.size() == n*n) {
          if (t[2] == "f") out = ho_dispatch<float>(t[1], n, e);
          else if (t[2] == "l") out = ho_dispatch<long double>(t[1], n, e);
          else out = ho_dispatch<double>(t[1], n, e);
        }
      }
#endif
    }
    std::fputs(out.c_str(), res); std::fputc('\n', res); std::fflush(res);
  }
  return 0;
}
