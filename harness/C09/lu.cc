// C09 impl driver, dense-matrix part: FieldMatrix<V,n,n> / DynamicMatrix<V> over a simd number type V (LoopSIMD<double,S>, over-aligned,
// float, nested, Rebind-derived) from the working tree: solve / invert / determinant / products / norms of matrices and vectors, versus the
// SAME member functions on the scalar FieldMatrix<Sc,n,n> filled with flat lane l, for every lane l.  One output line per case:
//   <S-lane result> | <scalar result of lane 0> ; <scalar result of lane 1> ; ...
// floating point as bit patterns (any NaN printed as "nan"), FMatrixError as "EXC FMatrixError".  Lanes are written / read in memory
// order through std::array::operator[], not through the functions under test.
// Compile with -DC09_LANES=<S> (V = LoopSIMD<double,S>) or -DC09_VKIND=<k> for the other number types.
#include <config.h>
#include <cmath>
#include <cstdio>
#include <cstdint>
#include <cstring>
#include <fstream>
#include <iostream>
#include <sstream>
#include <string>
#include <vector>
#include <dune/common/simd/loop.hh>
#include <dune/common/simd/simd.hh>
#include <dune/common/fmatrix.hh>
#include <dune/common/fvector.hh>
#include <dune/common/dynmatrix.hh>
#include <dune/common/dynvector.hh>
#include "traits.hh"

using namespace Dune;
typedef std::vector<std::string> Tok;
#ifndef C09_VKIND
#define C09_VKIND 0
#endif
#ifndef C09_LANES
#define C09_LANES 2
#endif
#if C09_VKIND == 0
typedef LoopSIMD<double, C09_LANES> V;                                    static const char* TAG = "";
#elif C09_VKIND == 1
typedef LoopSIMD<double, 4, 32> V;                                        static const char* TAG = "a4";
#elif C09_VKIND == 2
typedef LoopSIMD<float, 8, 64> V;                                         static const char* TAG = "f8";
#elif C09_VKIND == 3
typedef LoopSIMD<LoopSIMD<double, 2>, 2> V;                               static const char* TAG = "n22";
#elif C09_VKIND == 4
typedef LoopSIMD<LoopSIMD<double, 2, 16>, 2> V;                           static const char* TAG = "na22";
#elif C09_VKIND == 5
typedef Simd::Rebind<double, LoopSIMD<LoopSIMD<int, 2, 16>, 2, 64> > V;   static const char* TAG = "rb";   // = LoopSIMD<LoopSIMD<double,2,16>,2,64>
#endif
typedef Simd::Scalar<V> Sc;
static const int S = (int) Simd::lanes<V>();

static double unhex(const std::string& s) { std::uint64_t b = std::stoull(s, nullptr, 16); double d; std::memcpy(&d, &b, 8); return d; }
static std::string hex(double d) { if (d != d) return "nan"; std::uint64_t b; std::memcpy(&b, &d, 8); char buf[32]; std::snprintf(buf, sizeof buf, "%016llx", (unsigned long long) b); return buf; }
static std::string hex(float d) { if (d != d) return "nan"; std::uint32_t b; std::memcpy(&b, &d, 4); char buf[32]; std::snprintf(buf, sizeof buf, "%08x", (unsigned) b); return buf; }
// flat lane l in memory order
static Sc& at(Sc& x, int) { return x; }
static const Sc& at(const Sc& x, int) { return x; }
template<class T, std::size_t N, std::size_t A> static Sc& at(LoopSIMD<T,N,A>& v, int l) { constexpr int inner = (int) Simd::lanes<T>(); return at(v[l / inner], l % inner); }
template<class T, std::size_t N, std::size_t A> static const Sc& at(const LoopSIMD<T,N,A>& v, int l) { constexpr int inner = (int) Simd::lanes<T>(); return at(v[l / inner], l % inner); }
static std::string hexv(const V& v) { std::string r; for (int l = 0; l < S; ++l) { if (l) r += " "; r += hex(at(v, l)); } return r; }

template<class MV, class MS, class XV, class XS>
static std::string go(const std::string& kind, int n, bool piv, const Tok& t, MV& A, MS& As, XV& b, XV& x, XS& bs, XS& xs)
{
  std::size_t pos = 5;
  for (int r = 0; r < n; ++r) for (int c = 0; c < n; ++c) for (int l = 0; l < S; ++l) at(A[r][c], l) = (Sc) unhex(t.at(pos++));
  if (kind == "solve" || kind == "mv" || kind == "prods" || kind == "solvealias")
    for (int r = 0; r < n; ++r) for (int l = 0; l < S; ++l) at(b[r], l) = (Sc) unhex(t.at(pos++));
  const MV A0 = A; const XV b0 = b;
  std::string out, tail;
  auto inputs_unchanged = [&]() {
    for (int r = 0; r < n; ++r) { for (int c = 0; c < n; ++c) if (hexv(A[r][c]) != hexv(A0[r][c])) return false; if (hexv(b[r]) != hexv(b0[r])) return false; }
    return true; };
  auto vec = [&](const XV& y) { std::string o; for (int r = 0; r < n; ++r) { if (r) o += " "; o += hexv(y[r]); } return o.empty() ? std::string("-") : o; };
  auto svec = [&](const XS& y) { std::string o; for (int r = 0; r < n; ++r) { if (r) o += " "; o += hex(y[r]); } return o.empty() ? std::string("-") : o; };
  auto mat = [&](const MV& B) { std::string o; for (int r = 0; r < n; ++r) for (int c = 0; c < n; ++c) { if (r || c) o += " "; o += hexv(B[r][c]); } return o.empty() ? std::string("-") : o; };
  auto smat = [&](const MS& B) { std::string o; for (int r = 0; r < n; ++r) for (int c = 0; c < n; ++c) { if (r || c) o += " "; o += hex(B[r][c]); } return o.empty() ? std::string("-") : o; };
  // ---- the S-lane call
  try {
    if (kind == "solve") {
      A.solve(x, b, piv); out = vec(x); if (!inputs_unchanged()) out += " (operand modified)";
      // object histories / defaults: a second call into the same x, and the defaulted doPivoting (= true)
      A.solve(x, b, piv); if (vec(x) != out.substr(0, vec(x).size())) out += " (second call differs)";
      if (piv) { XV x3 = x; for (int r = 0; r < n; ++r) x3[r] = V(Sc(0)); A.solve(x3, b); if (vec(x3) != vec(x)) out += " (default argument differs)"; }
    }
    else if (kind == "solvealias") { x = b; A.solve(x, x, piv); out = vec(x); }                 // x and b the same object
    else if (kind == "invert") {
      MV B = A;
      try { B.invert(piv); } catch (FMatrixError&) { if (mat(B) != mat(A0)) throw std::runtime_error("matrix modified by the throwing invert()"); throw; }
      out = mat(B);
      if (piv) { MV B2 = A; B2.invert(); if (mat(B2) != out) out += " (default argument differs)"; }
      MV B3(B); MV B4 = A; B4 = B; if (mat(B3) != out || mat(B4) != out) out += " (copy of the result differs)";
    }
    else if (kind == "det") {
      V d = A.determinant(piv); out = hexv(d); if (!inputs_unchanged()) out += " (operand modified)";
      V d2 = A.determinant(piv); if (hexv(d2) != hexv(d)) out += " (second call differs)";
      if (piv) { V d3 = A.determinant(); if (hexv(d3) != hexv(d)) out += " (default argument differs)"; }
      try { XV y = b; A.solve(y, b, piv); } catch (FMatrixError&) {}                              // a throwing call in between must leave A usable
      V d4 = A.determinant(piv); if (hexv(d4) != hexv(d)) out += " (differs after an intermediate solve)";
    }
    else if (kind == "mv") { A.mv(b, x); out = vec(x); }
    else if (kind == "prods") {
      XV y1 = b, y2 = b, y3 = b, y4 = b; A.mtv(b, y1); A.umv(b, y2); A.mmv(b, y3); A.usmv(V(Sc(0.5)), b, y4);
      V d = b * b; out = vec(y1) + " " + vec(y2) + " " + vec(y3) + " " + vec(y4) + " " + hexv(d); if (!inputs_unchanged()) out += " (operand modified)"; }
    else if (kind == "norms") {
      V m1 = A.frobenius_norm2(), m2 = A.frobenius_norm(), m3 = A.infinity_norm(), m4 = A.infinity_norm_real();
      V v1 = A[0].one_norm(), v2 = A[0].one_norm_real(), v3 = A[0].two_norm2(), v4 = A[0].two_norm(), v5 = A[0].infinity_norm(), v6 = A[0].infinity_norm_real();
      V w5 = A[n-1].infinity_norm(), w6 = A[n-1].infinity_norm_real();
      out = hexv(m1) + " " + hexv(m2) + " " + hexv(m3) + " " + hexv(m4) + " " + hexv(v1) + " " + hexv(v2) + " " + hexv(v3) + " " + hexv(v4) + " " + hexv(v5) + " " + hexv(v6)
          + " " + hexv(w5) + " " + hexv(w6); }
    else return "UNKNOWN-KIND";
  } catch (FMatrixError&) { out = "EXC FMatrixError"; }
  catch (Dune::Exception& e) { out = "EXC Exception"; }
  catch (std::runtime_error& e) { out = std::string("INCONSISTENT (") + e.what() + ")"; }
  // ---- the scalar call on every lane
  for (int l = 0; l < S; ++l) {
    for (int r = 0; r < n; ++r) { for (int c = 0; c < n; ++c) As[r][c] = at(A0[r][c], l); bs[r] = at(b0[r], l); }
    std::string o;
    try {
      if (kind == "solve") { As.solve(xs, bs, piv); o = svec(xs); }
      else if (kind == "solvealias") { xs = bs; As.solve(xs, xs, piv); o = svec(xs); }
      else if (kind == "invert") { As.invert(piv); o = smat(As); }
      else if (kind == "det") { o = hex(As.determinant(piv)); }
      else if (kind == "mv") { As.mv(bs, xs); o = svec(xs); }
      else if (kind == "prods") {
        XS y1 = bs, y2 = bs, y3 = bs, y4 = bs; As.mtv(bs, y1); As.umv(bs, y2); As.mmv(bs, y3); As.usmv(Sc(0.5), bs, y4);
        Sc d = bs * bs; o = svec(y1) + " " + svec(y2) + " " + svec(y3) + " " + svec(y4) + " " + hex(d); }
      else if (kind == "norms") {
        o = hex(As.frobenius_norm2()) + " " + hex(As.frobenius_norm()) + " " + hex(As.infinity_norm()) + " " + hex(As.infinity_norm_real())
          + " " + hex(As[0].one_norm()) + " " + hex(As[0].one_norm_real()) + " " + hex(As[0].two_norm2()) + " " + hex(As[0].two_norm())
          + " " + hex(As[0].infinity_norm()) + " " + hex(As[0].infinity_norm_real()) + " " + hex(As[n-1].infinity_norm()) + " " + hex(As[n-1].infinity_norm_real()); }
    } catch (FMatrixError&) { o = "EXC FMatrixError"; }
    catch (Dune::Exception& e) { o = "EXC Exception"; }
    tail += (l ? " ; " : "") + o;
  }
  return out + " | " + tail;
}

template<int n> static std::string fixed(const std::string& kind, bool piv, const Tok& t)
{
  FieldMatrix<V,n,n> A(V(Sc(0))); FieldMatrix<Sc,n,n> As(Sc(0));
  FieldVector<V,n> b(V(Sc(0))), x(V(Sc(0))); FieldVector<Sc,n> bs(Sc(0)), xs(Sc(0));
  return go(kind, n, piv, t, A, As, b, x, bs, xs);
}
static std::string dynamic(const std::string& kind, int n, bool piv, const Tok& t)
{
  DynamicMatrix<V> A(n, n, V(Sc(0))); DynamicMatrix<Sc> As(n, n, Sc(0));
  DynamicVector<V> b(n, V(Sc(0))), x(n, V(Sc(0))); DynamicVector<Sc> bs(n, Sc(0)), xs(n, Sc(0));
  return go(kind, n, piv, t, A, As, b, x, bs, xs);
}

int main(int argc, char** argv)
{
  std::ifstream in(argv[1]);
  std::string line;
  while (std::getline(in, line)) {
    std::istringstream is(line); Tok t; std::string w;
    while (is >> w) t.push_back(w);
    std::string r = "UNSUPPORTED";
    try {
      // first word: lu | dlu, optionally followed by :<type tag>
      std::string head = t.empty() ? "" : t[0], tag;
      auto c = head.find(':'); if (c != std::string::npos) { tag = head.substr(c + 1); head = head.substr(0, c); }
      if (t.size() >= 5 && (head == "lu" || head == "dlu") && tag == TAG && std::stoi(t[3]) == S) {
        int n = std::stoi(t[2]); bool piv = t[4] == "1";
        if (t[1] == "traits") r = c09_traits_line<V>() + " | fm_hasnan=" + (HasNaN<typename FieldMatrix<V,2,2>::value_type>::value ? "1" : "0");
        else if (head == "dlu") r = dynamic(t[1], n, piv, t);
        else switch (n) {
          case 1: r = fixed<1>(t[1], piv, t); break;
          case 2: r = fixed<2>(t[1], piv, t); break;
          case 3: r = fixed<3>(t[1], piv, t); break;
          case 4: r = fixed<4>(t[1], piv, t); break;
          case 5: r = fixed<5>(t[1], piv, t); break;
#if C09_VKIND == 0
          case 6: r = fixed<6>(t[1], piv, t); break;
#endif
        }
      }
    } catch (std::exception& e) { r = std::string("HARNESS-ERROR ") + e.what(); }
    std::cout << r << "\n" << std::flush;
  }
  return 0;
}
