// C09 impl driver, dense-matrix part: FieldMatrix<LoopSIMD<double,S>,n,n> (and DynamicMatrix) solve / invert /
// determinant / mv / norms from the working tree versus the SAME member functions on the scalar
// FieldMatrix<double,n,n> filled with lane l, for every lane l.  One output line per case:
//   <S-lane result> | <scalar result of lane 0> ; <scalar result of lane 1> ; ...
// doubles as bit patterns (any NaN printed as "nan"), FMatrixError as "EXC FMatrixError".
// Compile with -DC09_LANES=<S>.
#include <config.h>
#include <cmath>
#include <cstdio>
#include <cstdint>
#include <cstring>
#include <fstream>
#include <iostream>
#include <sstream>
#include <string>
#include <vector>
#include <dune/common/simd/loop.hh>
#include <dune/common/simd/simd.hh>
#include <dune/common/fmatrix.hh>
#include <dune/common/fvector.hh>
#include <dune/common/dynmatrix.hh>
#include <dune/common/dynvector.hh>

using namespace Dune;
typedef std::vector<std::string> Tok;
#ifndef C09_LANES
#define C09_LANES 2
#endif
static const int S = C09_LANES;
typedef LoopSIMD<double, C09_LANES> V;

static double unhex(const std::string& s) { std::uint64_t b = std::stoull(s, nullptr, 16); double d; std::memcpy(&d, &b, 8); return d; }
static std::string hex(double d) { if (d != d) return "nan"; std::uint64_t b; std::memcpy(&b, &d, 8); char buf[32]; std::snprintf(buf, sizeof buf, "%016llx", (unsigned long long) b); return buf; }
static std::string hex(const V& v) { std::string r; for (int l = 0; l < S; ++l) { if (l) r += " "; r += hex(v[l]); } return r; }

template<class MV, class MS, class XV, class XS>
static std::string go(const std::string& kind, int n, bool piv, const Tok& t, MV& A, MS& As, XV& b, XV& x, XS& bs, XS& xs)
{
  std::size_t pos = 5;
  for (int r = 0; r < n; ++r) for (int c = 0; c < n; ++c) for (int l = 0; l < S; ++l) A[r][c][l] = unhex(t.at(pos++));
  if (kind == "solve" || kind == "mv")
    for (int r = 0; r < n; ++r) for (int l = 0; l < S; ++l) b[r][l] = unhex(t.at(pos++));
  const MV A0 = A; const XV b0 = b;
  std::string out, tail;
  auto samebits = [&](const V& p, const V& q) { for (int l = 0; l < S; ++l) if (hex(p[l]) != hex(q[l])) return false; return true; };
  auto inputs_unchanged = [&]() {
    for (int r = 0; r < n; ++r) { for (int c = 0; c < n; ++c) if (!samebits(A[r][c], A0[r][c])) return false; if (!samebits(b[r], b0[r])) return false; }
    return true; };
  // ---- the S-lane call
  try {
    if (kind == "solve") { A.solve(x, b, piv); for (int r = 0; r < n; ++r) { if (r) out += " "; out += hex(x[r]); } if (!inputs_unchanged()) out += " (operand modified)"; }
    else if (kind == "invert") { MV B = A; B.invert(piv); for (int r = 0; r < n; ++r) for (int c = 0; c < n; ++c) { if (r || c) out += " "; out += hex(B[r][c]); } }
    else if (kind == "det") { V d = A.determinant(piv); out = hex(d); if (!inputs_unchanged()) out += " (operand modified)"; }
    else if (kind == "mv") { A.mv(b, x); for (int r = 0; r < n; ++r) { if (r) out += " "; out += hex(x[r]); } }
    else if (kind == "norms") { V f = A.frobenius_norm2(); V i = A.infinity_norm(); V i2 = A.infinity_norm_real();
      V v1 = A[0].one_norm(); V v2 = A[0].two_norm2(); V v3 = A[0].infinity_norm(); V v4 = A[0].infinity_norm_real();
      out = hex(f) + " " + hex(i) + " " + hex(i2) + " " + hex(v1) + " " + hex(v2) + " " + hex(v3) + " " + hex(v4); }
    else return "UNKNOWN-KIND";
  } catch (FMatrixError&) { out = "EXC FMatrixError"; }
  catch (Dune::Exception& e) { out = "EXC Exception"; }
  // ---- the scalar call on every lane
  for (int l = 0; l < S; ++l) {
    for (int r = 0; r < n; ++r) { for (int c = 0; c < n; ++c) As[r][c] = A0[r][c][l]; bs[r] = b0[r][l]; }
    std::string o;
    try {
      if (kind == "solve") { As.solve(xs, bs, piv); for (int r = 0; r < n; ++r) { if (r) o += " "; o += hex(xs[r]); } }
      else if (kind == "invert") { As.invert(piv); for (int r = 0; r < n; ++r) for (int c = 0; c < n; ++c) { if (r || c) o += " "; o += hex(As[r][c]); } }
      else if (kind == "det") { o = hex(As.determinant(piv)); }
      else if (kind == "mv") { As.mv(bs, xs); for (int r = 0; r < n; ++r) { if (r) o += " "; o += hex(xs[r]); } }
      else if (kind == "norms") { o = hex(As.frobenius_norm2()) + " " + hex(As.infinity_norm()) + " " + hex(As.infinity_norm_real())
          + " " + hex(As[0].one_norm()) + " " + hex(As[0].two_norm2()) + " " + hex(As[0].infinity_norm()) + " " + hex(As[0].infinity_norm_real()); }
    } catch (FMatrixError&) { o = "EXC FMatrixError"; }
    catch (Dune::Exception& e) { o = "EXC Exception"; }
    tail += (l ? " ; " : "") + o;
  }
  return out + " | " + tail;
}

template<int n> static std::string fixed(const std::string& kind, bool piv, const Tok& t)
{
  FieldMatrix<V,n,n> A(V(0.0)); FieldMatrix<double,n,n> As(0.0);
  FieldVector<V,n> b(V(0.0)), x(V(0.0)); FieldVector<double,n> bs(0.0), xs(0.0);
  return go(kind, n, piv, t, A, As, b, x, bs, xs);
}
static std::string dynamic(const std::string& kind, int n, bool piv, const Tok& t)
{
  DynamicMatrix<V> A(n, n, V(0.0)); DynamicMatrix<double> As(n, n, 0.0);
  DynamicVector<V> b(n, V(0.0)), x(n, V(0.0)); DynamicVector<double> bs(n, 0.0), xs(n, 0.0);
  return go(kind, n, piv, t, A, As, b, x, bs, xs);
}

int main(int argc, char** argv)
{
  std::ifstream in(argv[1]);
  std::string line;
  while (std::getline(in, line)) {
    std::istringstream is(line); Tok t; std::string w;
    while (is >> w) t.push_back(w);
    std::string r = "UNSUPPORTED";
    try {
      if (t.size() >= 5 && (t[0] == "lu" || t[0] == "dlu") && std::stoi(t[3]) == S) {
        int n = std::stoi(t[2]); bool piv = t[4] == "1";
        if (t[0] == "dlu") r = dynamic(t[1], n, piv, t);
        else switch (n) {
          case 1: r = fixed<1>(t[1], piv, t); break;
          case 2: r = fixed<2>(t[1], piv, t); break;
          case 3: r = fixed<3>(t[1], piv, t); break;
          case 4: r = fixed<4>(t[1], piv, t); break;
          case 5: r = fixed<5>(t[1], piv, t); break;
          case 6: r = fixed<6>(t[1], piv, t); break;
        }
      }
    } catch (std::exception& e) { r = std::string("HARNESS-ERROR ") + e.what(); }
    std::cout << r << "\n" << std::flush;
  }
  return 0;
}
