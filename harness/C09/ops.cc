// C09 impl driver, operator table: executes the case file on Dune::LoopSIMD<T,S> (and nested / aligned
// variants) built from the working tree, and -- for S = 0 -- the SAME expression on the built-in scalar
// type T (the "scalar operation on that lane's operands" of the property).  One output line per case:
// output vectors separated by " ; ", lanes by blanks; integers in decimal, floating point as bit patterns
// (any NaN printed as "nan").  Operands are written/read through std::array::operator[] (memory order),
// not through the functions under test.
// Compile with -DC09_LANES=<S> (one translation unit per lane count; S=0 builds scalar mode, nested and aligned types).
#include <config.h>
#include <cmath>
#include <cstdio>
#include <cstdint>
#include <cstring>
#include <fstream>
#include <iostream>
#include <sstream>
#include <string>
#include <vector>
#include <type_traits>
#include <algorithm>
#include <complex>
#include <utility>
#include <dune/common/simd/loop.hh>
#include <dune/common/simd/simd.hh>
#include <dune/common/math.hh>
#include "traits.hh"

#ifndef C09_TYPEGROUP
#define C09_TYPEGROUP 0
#endif
#ifndef C09_NESTED_SV_LOGIC
#define C09_NESTED_SV_LOGIC 0
#endif

using namespace Dune;
typedef std::vector<std::string> Tok;

// ---------------------------------------------------------------- value <-> text
template<class T> static T parse1(const std::string& s)
{
  if constexpr (std::is_same_v<T,double>) { std::uint64_t b = std::stoull(s, nullptr, 16); double d; std::memcpy(&d, &b, 8); return d; }
  else if constexpr (std::is_same_v<T,float>) { std::uint32_t b = (std::uint32_t) std::stoul(s, nullptr, 16); float d; std::memcpy(&d, &b, 4); return d; }
  else if constexpr (std::is_same_v<T,std::complex<double>>) { auto c = s.find(','); return std::complex<double>(parse1<double>(s.substr(0, c)), parse1<double>(s.substr(c + 1))); }
  else if constexpr (std::is_same_v<T,bool>) return s == "1";
  else if constexpr (std::is_unsigned_v<T>) return (T) std::stoull(s);
  else return (T) std::stoll(s);
}
static std::string show(double d) { if (d != d) return "nan"; std::uint64_t b; std::memcpy(&b, &d, 8); char buf[32]; std::snprintf(buf, sizeof buf, "%016llx", (unsigned long long) b); return buf; }
static std::string show(float d) { if (d != d) return "nan"; std::uint32_t b; std::memcpy(&b, &d, 4); char buf[32]; std::snprintf(buf, sizeof buf, "%08x", (unsigned) b); return buf; }
static std::string show(bool b) { return b ? "1" : "0"; }
static std::string show(char x) { return std::to_string((int) x); }
static std::string show(short x) { return std::to_string((int) x); }
static std::string show(int x) { return std::to_string(x); }
static std::string show(unsigned x) { return std::to_string(x); }
static std::string show(long x) { return std::to_string(x); }
static std::string show(long long x) { return std::to_string(x); }
static std::string show(unsigned long x) { return std::to_string(x); }
static std::string show(unsigned long long x) { return std::to_string(x); }
static std::string show(unsigned short x) { return std::to_string((unsigned) x); }
static std::string show(unsigned char x) { return std::to_string((unsigned) x); }
static std::string show(signed char x) { return std::to_string((int) x); }
static std::string show(const std::complex<double>& z) { return show(z.real()) + "," + show(z.imag()); }
template<class T, std::size_t S, std::size_t A>
static std::string show(const LoopSIMD<T,S,A>& v)
{ std::string r; for (std::size_t i = 0; i < S; ++i) { if (i) r += " "; r += show(v[i]); } return r; }

template<class T> static void fill(T& x, const Tok& t, std::size_t& pos) { x = parse1<T>(t.at(pos++)); }
template<class T, std::size_t S, std::size_t A>
static void fill(LoopSIMD<T,S,A>& v, const Tok& t, std::size_t& pos) { for (std::size_t i = 0; i < S; ++i) fill(v[i], t, pos); }

// reference to flat lane k in memory order (std::array::operator[] only)
template<class X> static X& laneref(X& x, std::size_t) { return x; }
template<class T, std::size_t S, std::size_t A>
static auto& laneref(LoopSIMD<T,S,A>& v, std::size_t k) { constexpr std::size_t inner = Simd::lanes<T>(); return laneref(v[k / inner], k % inner); }

template<class V> struct IsLoop : std::false_type {};
template<class T, std::size_t S, std::size_t A> struct IsLoop<LoopSIMD<T,S,A>> : std::true_type {};

// ---------------------------------------------------------------- one case
// V: LoopSIMD<...> or, in scalar mode, the built-in type itself.  V2: a second simd type with the same
// scalar and lane count but a different implementation (source of implCast), or V.
template<class V, class V2 = V>
static std::string run(const Tok& t)
{
  using T = Simd::Scalar<V>;
  using M = Simd::Mask<V>;
  constexpr bool simd = IsLoop<V>::value;
  constexpr bool isint = std::is_integral_v<T> && !std::is_same_v<T,bool>;
  constexpr bool isfp = std::is_floating_point_v<T>;
  constexpr bool isbool = std::is_same_v<T,bool>;
  constexpr bool iscplx = std::is_same_v<T,std::complex<double>>;
  constexpr bool ordered = !iscplx;                  // < > <= >= && || ! ++ -- max min exist
  constexpr bool nested = []{ if constexpr (IsLoop<V>::value) return IsLoop<typename V::value_type>::value; else return false; }();
  std::string form = t.at(5); int k = 0;           // aliasing forms carry the aliased lane: avsk:<k> ...
  { auto c = form.find(':'); if (c != std::string::npos) { k = std::stoi(form.substr(c + 1)); form = form.substr(0, c); } }
  const std::string& name = t.at(6);
  std::size_t pos = 7;
  if (form == "traits") { if constexpr (simd) return c09_traits_line<V>(); else return "N/A"; }
  V a{}, b{}, c{}; T sa{}, sb{}; M m{}; int cnt = 0; bool sbool = false;
  const bool shift = (name == "shl" || name == "shr");
  if (form == "u" || form == "pre" || form == "post" || form == "hmax" || form == "hmin" || form == "lane" || form == "lanes"
      || form == "any" || form == "all" || form == "anyf" || form == "allf") fill(a, t, pos);
  else if (form == "icast") {
    V2 u{}; fill(u, t, pos); fill(a, t, (pos = 7));
    if constexpr (simd) { V r = Simd::implCast<V>(u); return show(r); } else return "N/A";
  }
  else if (form == "avsk" || form == "avsl" || form == "vsk" || form == "vsl" || form == "svk" || form == "vvself" || form == "avvself") fill(a, t, pos);
  else if (form == "condself" || form == "condsame") { fill(m, t, pos); fill(b, t, pos); fill(c, t, pos); }
  else if (form == "condmask") { fill(b, t, pos); fill(c, t, pos); }
  else if (form == "vv" || form == "avv" || form == "mor" || form == "mand") { fill(a, t, pos); fill(b, t, pos); }
  else if (form == "vs" || form == "avs") { fill(a, t, pos); if (shift) cnt = std::stoi(t.at(pos++)); else fill(sb, t, pos); }
  else if (form == "sv") { fill(sa, t, pos); fill(b, t, pos); }
  else if (form == "cond") { fill(m, t, pos); fill(b, t, pos); fill(c, t, pos); }
  else if (form == "condb") { sbool = t.at(pos++) == "1"; fill(b, t, pos); fill(c, t, pos); }
  else if (form == "bcast") fill(sa, t, pos);
  else if (form == "copy" || form == "conv" || form == "bcastk" || form == "vsi" || form == "vsu" || form == "morself" || form == "mandself") { fill(a, t, pos); if (form == "vsi" || form == "vsu") cnt = std::stoi(t.at(pos++)); }
  else if (form == "swap") { fill(a, t, pos); fill(b, t, pos); }
  else if (form == "cond2") { fill(m, t, pos); fill(b, t, pos); fill(c, t, pos); }
  else return "UNKNOWN-FORM";
  const V a0 = a, b0 = b;
  auto unchanged = [&](bool aToo) { return ((!aToo || std::memcmp(&a, &a0, sizeof a) == 0) && std::memcmp(&b, &b0, sizeof b) == 0) ? "" : " (operand modified)"; };

  // ---- interface functions
  if (form == "cond") { V r = Simd::cond(m, b, c); return show(r) + unchanged(true); }
  if (form == "condb") { V r = Simd::cond(sbool, b, c); return show(r) + unchanged(true); }
  // aliased arguments of cond
  if (form == "condself") { b = Simd::cond(m, b, c); return show(b); }
  if (form == "condsame") { V r = Simd::cond(m, b, b); return show(r) + unchanged(true); }
  if (form == "condmask") { if constexpr (isbool && simd) { b = Simd::cond(b, b, c); return show(b); } else return "N/A"; }
  // ---- special members and conversions (dimension 3): copy / move construction and assignment, self-assignment, swap, the explicit
  //      converting constructor between alignments in both directions; every copy must have the source's lanes, the source stays as it was
  if (form == "copy") {
    if constexpr (simd) {
      V c1(a); V tmp(a); V c2(std::move(tmp)); V c3{}; c3 = a; V tmp2(a); V c4{}; c4 = std::move(tmp2);
      V& self = a; a = self;                                  // self-assignment
      const V ca(a); V c5 = ca;                               // from a const object
      bool same = show(c1) == show(c2) && show(c2) == show(c3) && show(c3) == show(c4) && show(c4) == show(c5);
      return show(c1) + " ; " + show(a) + (same ? "" : " (copies differ)") + unchanged(true);
    } else return "N/A";
  }
  if (form == "conv") {
    if constexpr (simd && !std::is_same_v<V, V2>) {
      V2 u(a);                                                // LoopSIMD<T,S,OA>(const LoopSIMD<T,S,A>&)
      V back(u);                                              // and back
      V viaCast = Simd::implCast<V>(u);
      static_assert(std::is_same_v<Simd::Scalar<V2>, T> && Simd::lanes<V2>() == Simd::lanes<V>());
      return show(u) + " ; " + show(back) + (show(viaCast) != show(back) ? " (implCast differs)" : "") + unchanged(true);
    } else return "N/A";
  }
  if (form == "swap") { if constexpr (simd) { using std::swap; swap(a, b); return show(a) + " ; " + show(b); } else return "N/A"; }
  // v = v[k]: assignment from a scalar that is a reference to the vector's own lane
  if (form == "bcastk") { if constexpr (simd) { a = laneref(a, k); return show(a); } else return "N/A"; }
  // cond with a mask of a DIFFERENT mask type (same scalar bool, same lane count): goes through implCast<Mask<V>>
  if (form == "cond2") {
    if constexpr (simd && !std::is_same_v<V, V2>) {
      Simd::Mask<V2> m2{}; for (std::size_t l = 0; l < Simd::lanes<V>(); ++l) laneref(m2, l) = laneref(m, l);
      V r = Simd::cond(m2, b, c); return show(r) + unchanged(true);
    } else return "N/A";
  }
  // interface functions called with the SAME object in both argument positions
  if (form == "morself") { if constexpr (simd) { M r = Simd::maskOr(a, a); return show(r) + unchanged(true); } else return "N/A"; }
  if (form == "mandself") { if constexpr (simd) { M r = Simd::maskAnd(a, a); return show(r) + unchanged(true); } else return "N/A"; }
  if (form == "bcast") {
    if constexpr (simd) { V r = Simd::broadcast<V>(sa); V r2(sa); return show(r) + (std::memcmp(&r, &r2, sizeof(T) * Simd::lanes<V>()) ? " (ctor differs)" : ""); }
    else return show(sa);
  }
  if (form == "lanes") return std::to_string(Simd::lanes<V>()) + " " + std::to_string(Simd::lanes(a));
  if (form == "lane") {
    std::string r; const V& ca = a;
    for (std::size_t l = 0; l < Simd::lanes<V>(); ++l) {
      T x = Simd::lane(l, ca); T y = Simd::lane(l, a); T z = Simd::lane(l, V(a));
      if (l) r += " "; r += show(x);
      if (show(y) != show(x) || show(z) != show(x)) r += "(overloads differ)";
    }
    // writing through lane(): copy into a fresh vector lane by lane
    V w{}; for (std::size_t l = 0; l < Simd::lanes<V>(); ++l) Simd::lane(l, w) = Simd::lane(l, ca);
    if (show(w) != show(a)) r += " (write through lane() differs)";
    return r;
  }
  if constexpr (isbool) {
    if (form == "any") return show(Simd::anyTrue(a));
    if (form == "all") return show(Simd::allTrue(a));
    if (form == "anyf") return show(Simd::anyFalse(a));
    if (form == "allf") return show(Simd::allFalse(a));
  }
  if constexpr (!isbool && ordered) {
    if (form == "hmax") { T r = Simd::max(a); return show(r); }
    if (form == "hmin") { T r = Simd::min(a); return show(r); }
  }
  if (name == "nzmask" && form == "u") { if constexpr (simd) { M r = Simd::mask(a); return show(r); } else { bool r = (a != T(0)); return show(r); } }
  if (form == "mor") { M r = Simd::maskOr(a, b); return show(r) + unchanged(true); }
  if (form == "mand") { M r = Simd::maskAnd(a, b); return show(r) + unchanged(true); }

  // ---- operators
#define C09_UN(NAME, SYM, RES, COND) \
  if (name == NAME && form == "u") { if constexpr (COND) { RES r = SYM a; return show(r) + unchanged(true); } else return "N/A"; }
  C09_UN("pos", +, V, !isbool)
  C09_UN("neg", -, V, !isbool)
  C09_UN("bnot", ~, V, isint)
  C09_UN("lnot", !, M, ordered)
#undef C09_UN

#define C09_BIN(NAME, SYM, RES, COND) C09_BIN2(NAME, SYM, RES, COND, true)
#define C09_BIN2(NAME, SYM, RES, COND, SVOK) \
  if (name == NAME) { if constexpr (COND) { \
    if (form == "vv") { RES r = a SYM b; return show(r) + unchanged(true); } \
    if constexpr (simd) { \
      if (form == "vs") { RES r = a SYM sb; return show(r) + unchanged(true); } \
      if (form == "vsk") { RES r = a SYM laneref(a, k); return show(r) + unchanged(true); } \
      if (form == "vsl") { RES r = a SYM Simd::lane(k, a); return show(r) + unchanged(true); } \
      if (form == "vvself") { RES r = a SYM a; return show(r) + unchanged(true); } \
      if constexpr (SVOK) { if (form == "sv") { RES r = sa SYM b; return show(r) + unchanged(true); } \
                            if (form == "svk") { RES r = laneref(a, k) SYM a; return show(r) + unchanged(true); } } } \
  } else return "N/A"; }
  C09_BIN("add", +, V, !isbool)
  C09_BIN("sub", -, V, !isbool)
  C09_BIN("mul", *, V, !isbool)
  C09_BIN("div", /, V, !isbool)
  C09_BIN("mod", %, V, isint)
  C09_BIN("band", &, V, !isfp && !iscplx)
  C09_BIN("bor", |, V, !isfp && !iscplx)
  C09_BIN("bxor", ^, V, !isfp && !iscplx)
  C09_BIN("lt", <, M, ordered)
  C09_BIN("gt", >, M, ordered)
  C09_BIN("le", <=, M, ordered)
  C09_BIN("ge", >=, M, ordered)
  C09_BIN("eq", ==, M, true)
  C09_BIN("ne", !=, M, true)
  // `scalar && nested-vector` did not compile while loop.hh declared the scalar-first overload with Simd::Mask<T> (F-C09-4):
  // exercised only when the compile probe harness/C09/probe_nested_sv.cc succeeds (-DC09_NESTED_SV_LOGIC=1)
  C09_BIN2("land", &&, M, ordered, (!nested || C09_NESTED_SV_LOGIC))
  C09_BIN2("lor", ||, M, ordered, (!nested || C09_NESTED_SV_LOGIC))
#undef C09_BIN
#undef C09_BIN2

#define C09_SHIFT(NAME, SYM) \
  if (name == NAME) { if constexpr (isint) { \
    if (form == "vv") { V r = a SYM b; return show(r) + unchanged(true); } \
    if (form == "vs") { V r = a SYM cnt; return show(r) + unchanged(true); } \
    if (form == "avv") { V r = (a SYM##= b); return show(r) + " ; " + show(a) + unchanged(false); } \
    if constexpr (simd) { if (form == "avs") { V r = (a SYM##= T(cnt)); return show(r) + " ; " + show(a); } \
      if (form == "avsk") { V r = (a SYM##= laneref(a, k)); return show(r) + " ; " + show(a); } \
      if (form == "avsl") { V r = (a SYM##= Simd::lane(k, a)); return show(r) + " ; " + show(a); } \
      if (form == "vsk") { V r = a SYM laneref(a, k); return show(r) + unchanged(true); } \
      if (form == "vvself") { V r = a SYM a; return show(r) + unchanged(true); } \
      if (form == "avvself") { V r = (a SYM##= a); return show(r) + " ; " + show(a); } } \
  } else return "N/A"; }
  C09_SHIFT("shl", <<)
  C09_SHIFT("shr", >>)
#undef C09_SHIFT

#define C09_ASSIGN(NAME, SYM, COND) \
  if (name == NAME) { if constexpr (COND) { \
    if (form == "avv") { V r = (a SYM b); return show(r) + " ; " + show(a) + unchanged(false); } \
    if constexpr (simd) { if (form == "avs") { V r = (a SYM sb); return show(r) + " ; " + show(a); } \
      if (form == "avsk") { V r = (a SYM laneref(a, k)); return show(r) + " ; " + show(a); } \
      if (form == "avsl") { V r = (a SYM Simd::lane(k, a)); return show(r) + " ; " + show(a); } \
      if (form == "avvself") { V r = (a SYM a); return show(r) + " ; " + show(a); } } \
  } else return "N/A"; }
  C09_ASSIGN("add", +=, !isbool)
  C09_ASSIGN("sub", -=, !isbool)
  C09_ASSIGN("mul", *=, !isbool)
  C09_ASSIGN("div", /=, !isbool)
  C09_ASSIGN("mod", %=, isint)
  C09_ASSIGN("band", &=, !isfp && !iscplx)
  C09_ASSIGN("bor", |=, !isfp && !iscplx)
  C09_ASSIGN("bxor", ^=, !isfp && !iscplx)
#undef C09_ASSIGN

  if constexpr (simd && ordered && !isbool) {
    if (form == "vsi") {          // v @ int  (U = int although Scalar<V> is T)
      if (name == "lt") { M r = a < cnt; return show(r); }  if (name == "gt") { M r = a > cnt; return show(r); }
      if (name == "le") { M r = a <= cnt; return show(r); } if (name == "ge") { M r = a >= cnt; return show(r); }
      if (name == "eq") { M r = a == cnt; return show(r); } if (name == "ne") { M r = a != cnt; return show(r); }
    }
    if constexpr (isint && !nested) {
      if (form == "vsu") {        // shift counts of other types: unsigned char scalar, LoopSIMD<unsigned char,S,..> vector
        unsigned char uc = (unsigned char) cnt; LoopSIMD<unsigned char, Simd::lanes<V>()> w(uc);
        if (name == "shl") { V r = a << uc; V r2 = a << w; return show(r) + " ; " + show(r2); }
        if (name == "shr") { V r = a >> uc; V r2 = a >> w; return show(r) + " ; " + show(r2); }
      }
    }
  }
  if constexpr (isfp || iscplx) {
    if (name == "real" && form == "u") { using std::real; auto r = real(a); return show(r) + unchanged(true); }
    if (name == "imag" && form == "u") { using std::imag; auto r = imag(a); return show(r) + unchanged(true); }
  }
  if constexpr (!isbool && ordered) {
    if (name == "inc" && form == "u") { V r = a; ++r; return show(r); }        // scalar meaning of ++ (used by the plan)
    if (name == "dec" && form == "u") { V r = a; --r; return show(r); }
    if (name == "inc" && form == "pre") { V r = ++a; return show(r) + " ; " + show(a); }
    if (name == "dec" && form == "pre") { V r = --a; return show(r) + " ; " + show(a); }
    if (name == "inc" && form == "post") { V r = a++; return show(r) + " ; " + show(a); }
    if (name == "dec" && form == "post") { V r = a--; return show(r) + " ; " + show(a); }
    if constexpr (simd) {
      if (name == "max" && form == "vvself") { V r = Simd::max(a, a); return show(r) + unchanged(true); }
      if (name == "min" && form == "vvself") { V r = Simd::min(a, a); return show(r) + unchanged(true); }
    }
    if (name == "max" && form == "vv") { using std::max; V r = max(a, b); V r2 = Simd::max(a, b); return show(r) + (show(r2) != show(r) ? " (Simd::max differs)" : "") + unchanged(true); }
    if (name == "min" && form == "vv") { using std::min; V r = min(a, b); V r2 = Simd::min(a, b); return show(r) + (show(r2) != show(r) ? " (Simd::min differs)" : "") + unchanged(true); }
  }

  if constexpr (isfp) {
#define C09_MATH(F) if (name == #F && form == "u") { using std::F; V r = F(a); return show(r) + unchanged(true); }
    C09_MATH(cos) C09_MATH(sin) C09_MATH(tan) C09_MATH(acos) C09_MATH(asin) C09_MATH(atan)
    C09_MATH(cosh) C09_MATH(sinh) C09_MATH(tanh) C09_MATH(acosh) C09_MATH(asinh) C09_MATH(atanh)
    C09_MATH(exp) C09_MATH(log) C09_MATH(log10) C09_MATH(exp2) C09_MATH(expm1) C09_MATH(log1p) C09_MATH(log2) C09_MATH(logb)
    C09_MATH(sqrt) C09_MATH(cbrt) C09_MATH(erf) C09_MATH(erfc) C09_MATH(tgamma) C09_MATH(lgamma)
    C09_MATH(ceil) C09_MATH(floor) C09_MATH(trunc) C09_MATH(round) C09_MATH(rint) C09_MATH(nearbyint) C09_MATH(fabs) C09_MATH(abs)
#undef C09_MATH
#define C09_MATHR(F) if (name == #F && form == "u") { using std::F; auto r = F(a); return show(r) + unchanged(true); }
    if constexpr (!nested) {     // the *_WITH_RETURN overloads do not nest
      C09_MATHR(ilogb) C09_MATHR(lround) C09_MATHR(llround) C09_MATHR(lrint) C09_MATHR(llrint)
    }
#undef C09_MATHR
    if (name == "isnan" && form == "u") { M r = Dune::isNaN(a); return show(r) + unchanged(true); }
    if (name == "isinf" && form == "u") { M r = Dune::isInf(a); return show(r) + unchanged(true); }
    if (name == "isfinite" && form == "u") { M r = Dune::isFinite(a); return show(r) + unchanged(true); }
  }
  return "UNKNOWN-OP";
}

// type-level part of the interface: a mistake here is a compile error (reported as broken correspondence)
template<class T, std::size_t S> static void static_checks()
{
  using V = LoopSIMD<T,S>;
  static_assert(std::is_same_v<Simd::Scalar<V>, T>);
  static_assert(std::is_same_v<Simd::Mask<V>, LoopSIMD<bool,S>>);
  static_assert(std::is_same_v<Simd::Rebind<long, V>, LoopSIMD<long,S>>);
  static_assert(std::is_same_v<Simd::Rebind<T, V>, V>);
  static_assert(Simd::lanes<V>() == S);
  static_assert(std::is_same_v<Simd::Scalar<LoopSIMD<V,3>>, T>);
  static_assert(Simd::lanes<LoopSIMD<V,3>>() == 3 * S);
  static_assert(std::is_same_v<Simd::Mask<LoopSIMD<V,3>>, LoopSIMD<LoopSIMD<bool,S>,3>>);
  static_assert(std::is_same_v<Simd::Rebind<bool, LoopSIMD<T,S,32>>, LoopSIMD<bool,S,32>>);
  static_assert(Simd::lanes<T>() == 1 && std::is_same_v<Simd::Scalar<T>, T> && std::is_same_v<Simd::Mask<T>, bool>);
}

#ifndef C09_LANES
#define C09_LANES 0
#endif

template<class T> static std::string by_lanes(const Tok& t)
{
#if C09_LANES == 0
  return run<T>(t);
#else
  static_checks<T, C09_LANES>();
  return run<LoopSIMD<T, C09_LANES>, LoopSIMD<T, C09_LANES, 32>>(t);
#endif
}

int main(int argc, char** argv)
{
  std::ifstream in(argv[1]);
  std::string line;
  while (std::getline(in, line)) {
    std::istringstream is(line); Tok t; std::string w;
    while (is >> w) t.push_back(w);
    std::string r = "UNSUPPORTED";
    try {
      if (t.size() >= 7 && t[0] == "op") {
        const std::string& ty = t[1];
        int S = std::stoi(t[2]);
        if (S == C09_LANES && t[3] == "1") {
          // two translation units per lane count (compile time): -DC09_TYPEGROUP=0 the original eight types, =1 the further ones
#if C09_TYPEGROUP == 0
          if (ty == "int") r = by_lanes<int>(t);
          else if (ty == "unsigned") r = by_lanes<unsigned>(t);
          else if (ty == "long") r = by_lanes<long>(t);
          else if (ty == "short") r = by_lanes<short>(t);
          else if (ty == "char") r = by_lanes<char>(t);
          else if (ty == "bool") r = by_lanes<bool>(t);
          else if (ty == "float") r = by_lanes<float>(t);
          else if (ty == "double") r = by_lanes<double>(t);
#else
          if (ty == "ulong") r = by_lanes<unsigned long>(t);
          else if (ty == "llong") r = by_lanes<long long>(t);
          else if (ty == "ushort") r = by_lanes<unsigned short>(t);
          else if (ty == "uchar") r = by_lanes<unsigned char>(t);
          else if (ty == "schar") r = by_lanes<signed char>(t);
          else if (ty == "cdouble") r = by_lanes<std::complex<double>>(t);
#endif
        }
#if C09_LANES == 0 && C09_TYPEGROUP == 0
        // nested and aligned variants live in the scalar-mode binary (type group 0)
        else if (S == 3 && t[3] == "2" && ty == "double") r = run<LoopSIMD<LoopSIMD<double,2>,3>>(t);
        else if (S == 3 && t[3] == "2" && ty == "int") r = run<LoopSIMD<LoopSIMD<int,2>,3>>(t);
        else if (S == 3 && t[3] == "2" && ty == "bool") r = run<LoopSIMD<LoopSIMD<bool,2>,3>>(t);
        else if (S == 2 && t[3] == "4" && ty == "double") r = run<LoopSIMD<LoopSIMD<double,4,32>,2>>(t);
        else if (S == 4 && t[3] == "1" && ty == "adouble") r = run<LoopSIMD<double,4,32>, LoopSIMD<double,4>>(t);
#endif
      }
    } catch (std::exception& e) { r = std::string("HARNESS-ERROR ") + e.what(); }
    std::cout << r << "\n" << std::flush;
  }
  return 0;
}
