// C09 compile probe: `scalar && nested-LoopSIMD` / `scalar || nested-LoopSIMD` (simd/interface.hh: operators accept arbitrary
// combinations of V and its scalar type S).  loop.hh declared the scalar-first overload with Simd::Mask<T> instead of
// Simd::Scalar<T>; for a nested T the scalar was broadcast to a LoopSIMD<bool,..> and the body `s && v[i]` did not compile.
#include <config.h>
#include <dune/common/simd/loop.hh>
#include <dune/common/simd/simd.hh>
int main()
{
  using V = Dune::LoopSIMD<Dune::LoopSIMD<double,2>,3>;
  V v(1.0);
  auto m1 = 2.0 && v;
  auto m2 = 0.0 || v;
  auto m3 = v && 2.0;
  return (Dune::Simd::allTrue(m1) && Dune::Simd::allTrue(m2) && Dune::Simd::allTrue(m3)) ? 0 : 1;
}
