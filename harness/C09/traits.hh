// C09: the traits the dense-matrix algorithms and the SIMD layer dispatch on, for a simd type V with scalar type Sc,
// printed next to the values of the scalar type (one canonical line; compared with the Coq model c09_traits).
#ifndef C09_TRAITS_HH
#define C09_TRAITS_HH
#include <string>
#include <type_traits>
#include <dune/common/typetraits.hh>
#include <dune/common/simd/loop.hh>
#include <dune/common/simd/simd.hh>
template<class V>
static std::string c09_traits_line()
{
  using namespace Dune;
  using Sc = Simd::Scalar<V>;
  using M = Simd::Mask<V>;
  using RL = Simd::Rebind<long, V>;
  using RF = Simd::Rebind<float, V>;
  std::string r;
  auto b = [](bool x) { return std::string(x ? "1" : "0"); };
  r += "hasnan=" + b(HasNaN<V>::value) + "/" + b(HasNaN<Sc>::value);
  r += " isnumber=" + b(IsNumber<V>::value) + "/" + b(IsNumber<Sc>::value);
  r += " lanes=" + std::to_string(Simd::lanes<V>());
  r += " mask_lanes=" + std::to_string(Simd::lanes<M>()) + " mask_scalar_bool=" + b(std::is_same_v<Simd::Scalar<M>, bool>);
  r += " mask_hasnan=" + b(HasNaN<M>::value) + "/" + b(HasNaN<bool>::value);
  r += " rebind_same=" + b(std::is_same_v<Simd::Rebind<Sc, V>, V>);
  r += " rebind_long_lanes=" + std::to_string(Simd::lanes<RL>()) + " rebind_long_scalar=" + b(std::is_same_v<Simd::Scalar<RL>, long>);
  r += " rebind_long_hasnan=" + b(HasNaN<RL>::value) + "/" + b(HasNaN<long>::value);
  r += " rebind_float_hasnan=" + b(HasNaN<RF>::value) + "/" + b(HasNaN<float>::value);
  r += " rebind_float_isnumber=" + b(IsNumber<RF>::value) + "/" + b(IsNumber<float>::value);
  r += " rebind_back=" + b(std::is_same_v<Simd::Rebind<Sc, RF>, V>);
  r += " align_ok=" + b(alignof(V) >= alignof(Sc) && alignof(RF) >= 1);
  return r;
}
#endif
