// C10 impl driver: executes the case file on Dune::bigunsignedint<k> built from the working tree.
// One output line per case, same canonical form as ml/C10_driver.ml.
#include <config.h>
#include <cmath>
#include <cstdio>
#include <cstdint>
#include <fstream>
#include <iostream>
#include <sstream>
#include <string>
#include <vector>
#include <limits>
#include <locale>
#include <dune/common/bigunsignedint.hh>
#include <dune/common/hash.hh>
#include <cstring>
#include <stdexcept>
#include <type_traits>
#include <utility>
#include <csetjmp>
#include <csignal>
#include <sys/time.h>

// watchdog for operations the property requires to terminate ("never looping"): a compound division whose
// divisor aliases the dividend must return at once; if it does not, the case is reported as HANG and the
// driver goes on (siglongjmp out of the pure computation loop).  The timer counts the CPU time of this process
// (ITIMER_VIRTUAL), so a heavily loaded machine cannot make a terminating operation look like a hang.
static sigjmp_buf hang_env;
static void on_alarm(int) { siglongjmp(hang_env, 1); }
static void arm(long usec) { struct itimerval it = {{0, 0}, {usec / 1000000, usec % 1000000}}; setitimer(ITIMER_VIRTUAL, &it, nullptr); }
static void disarm() { struct itimerval it = {{0, 0}, {0, 0}}; setitimer(ITIMER_VIRTUAL, &it, nullptr); }

// Values are written/read through the object representation (an array of n uint16_t digits,
// little endian -- the same representation MPITraits<bigunsignedint<k>> communicates), so that
// building operands does not go through the operators under test.  If the representation ever
// changes size, fall back to the public operators.
template<int k>
static Dune::bigunsignedint<k> from_hex(const std::string& s)
{
  using B = Dune::bigunsignedint<k>;
  constexpr int n = B::n;
  B r(0u);
  if constexpr (sizeof(B) == n * sizeof(std::uint16_t)) {
    std::uint16_t d[n];
    for (int i = 0; i < n; ++i) d[n-1-i] = (std::uint16_t) std::stoul(s.substr(4*i, 4), nullptr, 16);
    std::memcpy((void*)&r, d, sizeof d);
  } else {
    for (int i = 0; i < n; ++i) r = (r << 16) | B(std::uintmax_t(std::stoul(s.substr(4*i, 4), nullptr, 16)));
  }
  return r;
}

template<int k>
static std::string to_hex(const Dune::bigunsignedint<k>& x)
{
  using B = Dune::bigunsignedint<k>;
  constexpr int n = B::n;
  if constexpr (sizeof(B) == n * sizeof(std::uint16_t)) {
    std::uint16_t d[n]; std::memcpy(d, (const void*)&x, sizeof d);
    std::string r; char buf[8];
    for (int i = n-1; i >= 0; --i) { std::snprintf(buf, sizeof buf, "%04x", (unsigned) d[i]); r += buf; }
    return r;
  } else { std::ostringstream os; os << x; return os.str(); }
}

static std::string canon_double(double v)
{
  if (v == 0) return "0 0";
  if (!std::isfinite(v)) return "nonfinite";
  int e; double m = std::frexp(v, &e);          // v = m 2^e, 0.5 <= m < 1
  long long mi = (long long) std::ldexp(m, 53); e -= 53;
  while ((mi & 1) == 0) { mi >>= 1; ++e; }
  char buf[64]; std::snprintf(buf, sizeof buf, "%lld %d", mi, e); return buf;
}

static std::vector<std::string> split(const std::string& s, char c)
{
  std::vector<std::string> r; std::string cur;
  for (char ch : s) { if (ch == c) { r.push_back(cur); cur.clear(); } else cur += ch; }
  r.push_back(cur); return r;
}

// compound operator with an operand of arbitrary type (another object -- possibly the receiver itself -- or a built-in)
template<class B, class Y>
static bool compound(const std::string& o, B& x, const Y& y)
{
  B* ret = nullptr;
  if (o == "add") ret = &(x += y); else if (o == "sub") ret = &(x -= y); else if (o == "mul") ret = &(x *= y);
  else if (o == "div") ret = &(x /= y); else if (o == "mod") ret = &(x %= y);
  else if (o == "and") ret = &(x &= y); else if (o == "or") ret = &(x |= y); else if (o == "xor") ret = &(x ^= y);
  return ret == &x;     // the compound operators return *this
}
template<class B, class X, class Y>
static B binary(const std::string& o, const X& x, const Y& y)
{
  if (o == "add") return x + y; if (o == "sub") return x - y; if (o == "mul") return x * y;
  if (o == "div") return x / y; if (o == "mod") return x % y;
  if constexpr (std::is_same<X, B>::value) { if (o == "and") return x & y; if (o == "or") return x | y; if (o == "xor") return x ^ y; }
  throw std::runtime_error("binary op");
}
template<class B, class X, class Y>
static bool compare(const std::string& c, const X& x, const Y& y)
{
  if (c == "lt") return x < y; if (c == "le") return x <= y; if (c == "gt") return x > y; if (c == "ge") return x >= y;
  if (c == "eq") return x == y; return x != y;
}

// a locale whose numpunct facet groups digits (group size g, separator ','): part of the stream state an integer insertion depends on
struct Grouping : std::numpunct<char> {
  int g;
  explicit Grouping(int g_) : g(g_) {}
  std::string do_grouping() const override { return std::string(1, char(g)); }
  char do_thousands_sep() const override { return ','; }
};

// object histories: k prog r0,r1,r2 tok,tok,...   (instruction set of coq/C10_Model.v c10_instr)
template<int k>
static std::string run_prog(const std::vector<std::string>& t)
{
  using B = Dune::bigunsignedint<k>;
  std::vector<B> r;
  for (auto& h : split(t[2], ',')) r.push_back(from_hex<k>(h));
  std::string ev, flaw;
  // every statement must return ("never looping"): a history that does not finish within 3 s is reported as HANG
  if (sigsetjmp(hang_env, 1)) return "HANG (history did not finish within 3 s) e=" + ev;
  std::signal(SIGVTALRM, on_alarm);
  arm(3000000);
  struct Disarm { ~Disarm() { disarm(); } } disarm_at_exit;
  for (auto& tok : split(t[3], ',')) {
    auto f = split(tok, ':');
    auto reg = [&](int i) -> B& { return r.at(std::stoi(f[i])); };
    const std::string& I = f[0];
    const std::vector<B> before = r;
    bool threw = false;
    try {
      if (I == "C") { if (!compound(f[1], reg(2), reg(3))) flaw += " (compound operator does not return *this)"; }
      else if (I == "B") reg(2) = binary<B>(f[1], reg(3), reg(4));
      else if (I == "I") { B& ret = ++reg(1); if (&ret != &reg(1)) flaw += " (++ does not return *this)"; }
      else if (I == "N") reg(1) = ~reg(2);
      else if (I == "L") reg(1) = reg(2) << std::stoi(f[3]);
      else if (I == "R") reg(1) = reg(2) >> std::stoi(f[3]);
      else if (I == "A") reg(1) = reg(2);                                        // copy assignment (also self)
      else if (I == "M") reg(1) = std::move(reg(2));                             // move assignment (also self)
      else if (I == "K") { const B& src = reg(2); B tmp(src); reg(1) = tmp; }    // copy construction
      else if (I == "X") { B tmp(std::move(reg(2))); reg(1) = tmp; }             // move construction
      else if (I == "S") { using std::swap; swap(reg(1), reg(2)); }
      else if (I == "U") {
        std::uintmax_t u = std::stoull(f[3], nullptr, 16);
        const std::string ty = f.size() > 4 ? f[4] : "ull";
        bool ok = true;
        if (ty == "uc") ok = compound(f[1], reg(2), (unsigned char) u); else if (ty == "us") ok = compound(f[1], reg(2), (unsigned short) u);
        else if (ty == "u") ok = compound(f[1], reg(2), (unsigned) u); else if (ty == "ul") ok = compound(f[1], reg(2), (unsigned long) u);
        else if (ty == "bool") ok = compound(f[1], reg(2), (bool) u); else ok = compound(f[1], reg(2), u);
        if (!ok) flaw += " (compound operator does not return *this)";
      }
      else if (I == "G") {
        long long y = std::stoll(f[3]);
        const std::string ty = f.size() > 4 ? f[4] : "ll";
        if (ty == "sc") compound(f[1], reg(2), (signed char) y); else if (ty == "s") compound(f[1], reg(2), (short) y);
        else if (ty == "i") compound(f[1], reg(2), (int) y); else if (ty == "l") compound(f[1], reg(2), (long) y);
        else compound(f[1], reg(2), y);
      }
      else if (I == "V") { std::uintmax_t u = std::stoull(f[3], nullptr, 16); reg(2) = binary<B>(f[1], u, reg(2)); }
      else if (I == "Q") { const B& a = reg(2); const B& b = reg(3); ev += compare<B>(f[1], a, b) ? '1' : '0'; }
      else if (I == "QU") { std::uintmax_t u = std::stoull(f[3], nullptr, 16); ev += compare<B>(f[1], reg(2), u) ? '1' : '0'; }
      else if (I == "QR") { std::uintmax_t u = std::stoull(f[3], nullptr, 16); const B& a = reg(2);
                            ev += (f[1] == "eq" ? (u == a) : (u != a)) ? '1' : '0'; }   // built-in on the left (rewritten candidate)
      else return "UNKNOWN-INSTR " + tok;
    } catch (Dune::MathError&) { ev += 'M'; threw = true; }
    catch (Dune::Exception&) { ev += 'X'; threw = true; }
    if (threw) for (std::size_t i = 0; i < r.size(); ++i) if (!(r[i] == before[i])) { flaw += " (object modified by a throwing operation)"; break; }
  }
  std::string out;
  for (std::size_t i = 0; i < r.size(); ++i) out += (i ? "," : "") + to_hex(r[i]);
  return out + " e=" + ev + flaw;
}

template<int k>
static std::string run(const std::vector<std::string>& t)
{
  using B = Dune::bigunsignedint<k>;
  const std::string& op = t[1];
  try {
    if (op == "assign") {
      std::uintmax_t x = std::stoull(t[2], nullptr, 16);
      const std::string ty = t.size() > 3 ? t[3] : "ull";     // the unsigned built-in types (the value fits the type)
      if (ty == "uc") return to_hex(B((unsigned char) x)); if (ty == "us") return to_hex(B((unsigned short) x));
      if (ty == "u") return to_hex(B((unsigned) x)); if (ty == "ul") return to_hex(B((unsigned long) x));
      if (ty == "bool") return to_hex(B((bool) x)); if (ty == "char16") return to_hex(B(char16_t(x)));
      if (ty == "implicit") { B b = x; return to_hex(b); }      // copy-initialisation through the converting constructor
      return to_hex(B(x));
    }
    if (op == "prog") return run_prog<k>(t);
    if (op == "layout") {
      std::ostringstream os;
      os << sizeof(B) << " " << std::is_trivially_copyable<B>::value << " " << std::is_standard_layout<B>::value;
      return os.str();
    }
    if (op == "signed") {
      long long x = std::stoll(t[2]);
      if (t.size() > 3 && t[3] == "ptr") return to_hex(B(x, nullptr));   // the defaulted enable_if argument given explicitly
      if (t.size() > 3 && t[3] == "int") return to_hex(B(int(x)));
      if (t.size() > 3 && t[3] == "short") return to_hex(B(short(x)));
      if (t.size() > 3 && t[3] == "schar") return to_hex(B((signed char)(x)));
      if (t.size() > 3 && t[3] == "long") return to_hex(B(long(x)));
      if (t.size() > 3 && t[3] == "cast") return to_hex(static_cast<B>(x));
      return to_hex(B(x));
    }
    if (op == "default") { B d; return to_hex(d); }
    if (op == "limits") {
      using L = std::numeric_limits<B>;
      std::ostringstream os;
      os << L::is_specialized << L::is_signed << L::is_integer << L::is_exact << L::has_infinity << L::has_quiet_NaN << L::has_signaling_NaN
         << L::has_denorm_loss << L::is_iec559 << L::is_bounded << L::is_modulo << L::traps << L::tinyness_before << " "
         << L::radix << "," << L::digits << "," << L::min_exponent << "," << L::min_exponent10 << "," << L::max_exponent << "," << L::max_exponent10
         << "," << (int(L::has_denorm) + 1) << "," << (int(L::round_style) + 1) << " "
         << to_hex(L::min()) << "," << to_hex(L::max()) << "," << to_hex(L::epsilon()) << "," << to_hex(L::round_error()) << "," << to_hex(L::infinity())
         << "," << to_hex(L::quiet_NaN()) << "," << to_hex(L::signaling_NaN()) << "," << to_hex(L::denorm_min());
      return os.str();
    }
    if (op == "consts") {
      // the compiled values of the constants the translator reads textually from the source, and the platform constants
      std::ostringstream os;
      os << B::bits << " " << B::n << " " << B::hexdigits << " " << B::bitmask << " " << (unsigned long)(std::uint32_t) B::compbitmask << " " << B::overflowmask
         << " " << std::numeric_limits<std::uintmax_t>::digits << " " << std::numeric_limits<double>::digits << " " << 8 * sizeof(std::size_t)
         << " " << std::numeric_limits<std::uint_least32_t>::digits;
      return os.str();
    }
    if (op == "mixsl" || op == "mixsr") {
      // mixed operations with a SIGNED built-in on either side: t[2] op, t[3] big, t[4] decimal, t[6] type (ll default, int)
      B a = from_hex<k>(t[3]); long long y = std::stoll(t[4]);
      const std::string& o = t[2];
      bool l = (op == "mixsl");
      bool asint = t.size() > 6 && t[6] == "int";
      auto go = [&](auto yy) -> std::string {
        if (o == "add") return to_hex(l ? a + yy : yy + a);
        if (o == "sub") return to_hex(l ? a - yy : yy - a);
        if (o == "mul") return to_hex(l ? a * yy : yy * a);
        if (o == "div") return to_hex(l ? a / yy : yy / a);
        if (o == "mod") return to_hex(l ? a % yy : yy % a);
        return "UNKNOWN-OP";
      };
      return asint ? go(int(y)) : go(y);
    }
    if (op == "self") {
      // compound operators with both operands the same object
      B x = from_hex<k>(t[3]);
      const std::string& o = t[2];
      if (sigsetjmp(hang_env, 1)) return "HANG (operator did not return within 0.25 s)";
      std::signal(SIGVTALRM, on_alarm);
      arm(250000);
      try {
        if (o == "add") x += x; else if (o == "sub") x -= x; else if (o == "mul") x *= x;
        else if (o == "div") x /= x; else if (o == "mod") x %= x;
        else if (o == "and") x &= x; else if (o == "or") x |= x; else if (o == "xor") x ^= x;
        else { disarm(); return "UNKNOWN-OP"; }
      } catch (...) { disarm(); throw; }
      disarm();
      return to_hex(x);
    }
    if (op == "hash") {
      B a = from_hex<k>(t[2]);
      std::size_t h1 = hash_value(a), h2 = Dune::hash<B>()(a), h3 = std::hash<B>()(a);
      char buf[40]; std::snprintf(buf, sizeof buf, "%llx", (unsigned long long) h1);
      std::string r = buf;
      if (h2 != h1 || h3 != h1) r += " (Dune::hash / std::hash differ from hash_value)";
      return r;
    }
    if (op == "mixl" || op == "mixr") {
      // mixed operations with a built-in unsigned on either side: t[2] op, t[3] big, t[4] hex value, t[5] fuel, t[6] built-in type
      B a = from_hex<k>(t[3]); std::uintmax_t u = std::stoull(t[4], nullptr, 16);
      const std::string& o = t[2];
      bool l = (op == "mixl");
      const std::string ty = t.size() > 6 ? t[6] : "ull";
      auto go = [&](auto v) -> std::string {
        using V = decltype(v);
        if (l) return to_hex(binary<B, B, V>(o, a, v));
        if (o == "and" || o == "or" || o == "xor") return "UNKNOWN-OP";
        return to_hex(binary<B, V, B>(o, v, a));
      };
      if (ty == "uc") return go((unsigned char) u); if (ty == "us") return go((unsigned short) u);
      if (ty == "u") return go((unsigned) u); if (ty == "ul") return go((unsigned long) u);
      if (ty == "bool") return go((bool) u);
      return go(u);
    }
    if (op == "stream") { B a = from_hex<k>(t[2]); std::ostringstream os; os << std::hex << a << "|" << 255 << "|" << a; return os.str(); }
    if (op == "streamsb") {
      // a stream with showbase set (and uppercase, which applies to the letters): the digits must still read back as the value
      B a = from_hex<k>(t[2]); std::ostringstream os; os << std::showbase << a << "|" << 255 << "|" << std::hex << 255; return os.str();
    }
    if (op == "printst" || op == "streamst") {
      // print / operator<< on a stream in a given formatting state: t[3] = <adj><base><sb><uc><sp><grp>, t[4] width, t[5] fill (hex code)
      B a = from_hex<k>(t[2]); const std::string& f = t[3];
      using F = std::ios_base;
      std::ostringstream os;
      if (f[5] != '0') os.imbue(std::locale(std::locale::classic(), new Grouping(f[5] - '0')));
      os.setf(f[0] == 'l' ? F::left : f[0] == 'r' ? F::right : f[0] == 'i' ? F::internal : f[0] == 'b' ? (F::left | F::right) : F::fmtflags(0), F::adjustfield);
      os.setf(f[1] == 'h' ? F::hex : f[1] == 'o' ? F::oct : f[1] == 'd' ? F::dec : F::fmtflags(0), F::basefield);
      if (f[2] == '1') os.setf(F::showbase); if (f[3] == '1') os.setf(F::uppercase); if (f[4] == '1') os.setf(F::showpos);
      os.fill(char(std::stoi(t[5], nullptr, 16)));
      os.width(std::stoi(t[4]));                 // a width set immediately before the insertion
      std::string flaw;
      if (op == "printst") a.print(os); else if (&(os << a) != &os) flaw = " (operator<< does not return the stream)";
      const F::fmtflags fl = os.flags(), adj = fl & F::adjustfield, base = fl & F::basefield;
      char buf[96];
      std::snprintf(buf, sizeof buf, "] w=%ld fill=%02x adj=%c base=%c sb=%d uc=%d sp=%d", (long) os.width(), (unsigned) (unsigned char) os.fill(),
                    adj == F::left ? 'l' : adj == F::right ? 'r' : adj == F::internal ? 'i' : adj == F::fmtflags(0) ? 'n' : 'b',
                    base == F::dec ? 'd' : base == F::hex ? 'h' : base == F::oct ? 'o' : 'n',
                    int((fl & F::showbase) != 0), int((fl & F::uppercase) != 0), int((fl & F::showpos) != 0));
      return "[" + os.str() + buf + (os.good() ? "" : " (stream not good)") + flaw;
    }
    if (op == "max") return to_hex(std::numeric_limits<B>::max());
    if (op == "min") return to_hex(std::numeric_limits<B>::min());
    if (op == "digits") return std::to_string(std::numeric_limits<B>::digits);
    B a = from_hex<k>(t[2]);
    if (op == "not") return to_hex(~a);
    if (op == "incr") { B c = a; ++c; return to_hex(c); }
    if (op == "shl") return to_hex(a << std::stoi(t[3]));
    if (op == "shr") return to_hex(a >> std::stoi(t[3]));
    if (op == "touint") return std::to_string((unsigned long) a.touint());
    if (op == "todouble") return canon_double(a.todouble());
    if (op == "print") { std::ostringstream os; a.print(os); return os.str(); }
    B b = from_hex<k>(t[3]);
    B a0 = a, b0 = b;
    std::string r;
    if (op == "add") { r = to_hex(a + b); B c = a; c += b; if (to_hex(c) != r) r += " (+= differs)"; }
    else if (op == "sub") { r = to_hex(a - b); B c = a; c -= b; if (to_hex(c) != r) r += " (-= differs)"; }
    else if (op == "mul") { r = to_hex(a * b); B c = a; c *= b; if (to_hex(c) != r) r += " (*= differs)"; }
    else if (op == "div") { r = to_hex(a / b); }
    else if (op == "mod") { r = to_hex(a % b); }
    else if (op == "and") { r = to_hex(a & b); }
    else if (op == "or") { r = to_hex(a | b); }
    else if (op == "xor") { r = to_hex(a ^ b); }
    else if (op == "lt") r = (a < b) ? "1" : "0";
    else if (op == "le") r = (a <= b) ? "1" : "0";
    else if (op == "gt") r = (a > b) ? "1" : "0";
    else if (op == "ge") r = (a >= b) ? "1" : "0";
    else if (op == "eq") r = (a == b) ? "1" : "0";
    else if (op == "ne") r = (a != b) ? "1" : "0";
    else if (op == "hasheq") { Dune::hash<B> h; r = (h(a) == h(b)) ? "1" : "0"; if (a == b && h(a) != h(b)) r = "equal-values-different-hash"; if (!(a==b)) r = "0"; }
    else return "UNKNOWN-OP";
    if (!(a == a0) || !(b == b0)) r += " (operand modified)";
    return r;
  } catch (Dune::MathError&) { return "EXC MathError"; }
  catch (Dune::Exception&) { return "EXC Exception"; }
}

#ifdef C10_SAN_SUBSET
// the ASan/UBSan build instantiates a subset of the widths (one digit, digit boundaries, n = 3, 4, 5, 8, 64): halves its compile time
#define KS X(1) X(8) X(16) X(17) X(33) X(64) X(65) X(128) X(1024)
#else
#define KS X(1) X(8) X(15) X(16) X(17) X(24) X(32) X(33) X(40) X(48) X(63) X(64) X(65) X(100) X(128) X(200) X(1024)
#endif

int main(int argc, char** argv)
{
  std::ifstream in(argv[1]);
  std::string line;
  while (std::getline(in, line)) {
    std::istringstream is(line); std::vector<std::string> t; std::string w;
    while (is >> w) t.push_back(w);
    if (t.size() < 2) { std::cout << "BAD-CASE\n"; continue; }
    int k = std::stoi(t[0]);
    std::string r = "UNSUPPORTED-K";
    switch (k) {
#define X(K) case K: r = run<K>(t); break;
      KS
#undef X
    }
    std::cout << r << "\n";
  }
  // signed construction rejects negatives
  return 0;
}
