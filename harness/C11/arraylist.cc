// C11 impl driver for Dune::ArrayList<int,N> (public interface only).
// ops: pb:v  er:k (begin()+k).eraseToHere()  pg purge  cl clear  set:i:v  hold:k (keep iterator begin()+k)
// observation per step: size()[elements by const iteration]<*held or ->   (+ "!flag" if a cross-check fails)
// With -DC11_DEEP -fno-access-control (OPTIONAL build: failure to compile only downgrades the evidence; g++'s flag is used instead of
// `#define private public`, which SLList's forward-declared private struct Element does not survive) the private members are read instead and the
// observation per step is  start_,size_,capacity_,<null pattern of chunks_>.
#include <config.h>
#include "c11_common.hh"
#include <array>
#include <cassert>
#include <memory>
#include <iterator>
#include <type_traits>
#include <utility>
#include <dune/common/arraylist.hh>


// All random-access paths of one iterator type over [b,e) must show the element sequence v (obtained by const_iterator
// dereference/increment): operator[] from begin() and from a middle position (both directions), the iterator's public elementAt,
// reverse walk with --, it+n / it-n / += / -=, distances and order comparisons, post-increment.  tag names the iterator type.
template<class It>
static void ra_checks(It b, It e, const std::vector<int>& v, std::string& flags, const char* tag)
{
  const std::ptrdiff_t n = (std::ptrdiff_t) v.size();
  auto fail = [&](const char* what) { std::string f = std::string("!") + tag + what; if (flags.find(f) == std::string::npos) flags += f; };
  if (e - b != n || b - e != -n) fail("dist");
  for (std::ptrdiff_t i = 0; i < n; ++i) {
    if ((int) b[i] != v[i]) fail("[]");                                  // operator[] from begin()
    if ((int) b.elementAt((std::size_t) i) != v[i]) fail("elementAt");
    if ((int) *(b + i) != v[i] || (int) *(e - (n - i)) != v[i]) fail("+n");
    It c = b; c += i; if ((int) *c != v[i] || c - b != i || e - c != n - i) fail("+=");
    It d = e; d -= (n - i); if (!(d == c) || d != c) fail("-=");
    if ((i > 0) != (b < c) || (c < b) || !(c < e) || !(b <= c) || !(c >= b) || (i > 0) != (c > b)) fail("<");
  }
  const std::ptrdiff_t m = n / 2;                                  // operator[] relative to a middle position, both directions
  It mid = b + m;
  for (std::ptrdiff_t i = 0; i < n; ++i) if ((int) mid[i - m] != v[i]) fail("mid[]");
  std::ptrdiff_t k = n;                                            // reverse walk
  for (It r = e; r != b; ) { --r; --k; if (k < 0 || (int) *r != v[k]) { fail("--"); break; } }
  if (k != 0 && n > 0) fail("--len");
  k = 0;                                                           // post-increment / post-decrement
  for (It f = b; f != e; ++k) { It old = f++; if (k >= n || (int) *old != v[k]) { fail("++post"); break; } }
  if (n > 0) { It l = e; It old = l--; if (!(old == e) || (int) *l != v[n - 1]) fail("--post"); }
}

template<class AL>
static void run_t(const std::vector<std::string>& ops)
{
  using T = typename AL::value_type;
  std::unique_ptr<AL> alp(new AL);
  typename AL::iterator held; bool has = false;
  for (const auto& o : ops) {
    AL& al = *alp;
    auto t = c11::split(o, ':');
    std::string flags;
    if (t[0] == "pb") al.push_back(T((int) c11::num(t[1])));
    else if (t[0] == "pba") al.push_back(al[(std::size_t) c11::num(t[1])]);          // ALIASING: the argument is an element of the list itself
    else if (t[0] == "seta") al[(std::size_t) c11::num(t[1])] = al[(std::size_t) c11::num(t[2])];
    else if (t[0] == "cpy") {                                                        // copy construction, source stays alive and must be unaffected
      AL c(al); const AL& cc = c;
      if (c.size() != al.size()) flags += "!cpysize";
      for (std::size_t i = 0; i < c.size() && i < al.size(); ++i) if ((int) cc[i] != (int) al[i]) { flags += "!cpy"; break; }
      if (c.size() > 0) c[0] = T(-1);
      c.push_back(T(-2)); c.push_back(T(-3));
      if (c.size() > 2) { typename AL::iterator ci = c.begin(); ci.eraseToHere(); c.purge(); }
      has = false;
    }
    else if (t[0] == "cpyd") { std::unique_ptr<AL> n(new AL(al)); alp.swap(n); has = false; }   // continue on the copy, source destroyed
    else if (t[0] == "cpya") { AL tmp; tmp.push_back(T(7)); tmp = al; AL& self = tmp; tmp = self;   // copy assignment incl. self-assignment
                               std::unique_ptr<AL> n(new AL); *n = tmp; alp.swap(n); has = false; }
    else if (t[0] == "asgo" || t[0] == "asgm") {                  // PRE-EXISTING STATE: copy (asgo) / move (asgm) assignment onto a list that holds OTHER
      // elements in another window: asgo:m:k:p = target gets m elements, (begin()+k).eraseToHere() if k >= 0, purge() if p; the history continues on the TARGET
      std::unique_ptr<AL> n(new AL);
      long m = c11::num(t[1]), k = c11::num(t[2]), p = c11::num(t[3]);
      for (long j = 0; j < m; ++j) n->push_back(T((int) (-100 - j)));
      if (k >= 0 && k < m) { typename AL::iterator it = n->begin(); it += k; it.eraseToHere(); }
      if (p) n->purge();
      if (t[0] == "asgo") *n = al; else { AL tmp(al); *n = std::move(tmp); }
      if (n->size() != al.size()) flags += "!asgsize";
      alp.swap(n); has = false;
    }
    else if (t[0] == "er") {
      long k = c11::num(t[1]);
      if (has && (held - al.begin()) <= k) has = false;          // documented: iterators at or before are invalidated
      typename AL::iterator it = al.begin(); it += k;
      it.eraseToHere();
      if (!(it == al.begin())) flags += "!it";                    // "positioned at the next unerased entry"
    }
    else if (t[0] == "pg") { al.purge(); has = false; }
    else if (t[0] == "cl") { al.clear(); has = false; }
    else if (t[0] == "set") al[(std::size_t) c11::num(t[1])] = T((int) c11::num(t[2]));
    else if (t[0] == "hold") { held = al.begin(); held += c11::num(t[1]); has = true; }
    else { c11::step_done("UNKNOWN-OP"); continue; }
    AL& al2 = *alp;
#define al al2
#ifdef C11_DEEP
    {
      std::string dp = std::to_string(al.start_) + "," + std::to_string(al.size_) + "," + std::to_string(al.capacity_) + ",";
      for (const auto& c : al.chunks_) dp += c ? '0' : '1';
      c11::step_done(dp);
      continue;
    }
#endif
    const AL& cal = al;
    std::string obs = std::to_string(cal.size()) + "[";
    std::vector<int> viter;
    for (typename AL::const_iterator i = cal.begin(), e = cal.end(); i != e; ++i) viter.push_back((int) *i);
    obs += c11::seq_str(viter.begin(), viter.end()) + "]";
    // cross-checks: operator[] and mutable iterators see the same elements; end()-begin() == size()
    if (viter.size() != cal.size()) flags += "!len";
    else {
      for (std::size_t i = 0; i < cal.size(); ++i) if ((int) cal[i] != viter[i] || (int) al[i] != viter[i]) { flags += "!idx"; break; }
      std::size_t j = 0; bool ok = true;
      for (typename AL::iterator i = al.begin(); i != al.end(); ++i, ++j) if (j >= viter.size() || (int) *i != viter[j]) { ok = false; break; }
      if (!ok || j != viter.size()) flags += "!mit";
    }
    if ((al.end() - al.begin()) != (std::ptrdiff_t) al.size()) flags += "!dist";
    if (viter.size() == cal.size()) {
      ra_checks<typename AL::const_iterator>(cal.begin(), cal.end(), viter, flags, "ci");     // const list, const_iterator
      ra_checks<typename AL::iterator>(al.begin(), al.end(), viter, flags, "mi");             // mutable iterator
      ra_checks<typename AL::const_iterator>(typename AL::const_iterator(al.begin()), typename AL::const_iterator(al.end()), viter, flags, "cmi");  // converted
      typename AL::iterator pb = al.begin(), pe = al.end();
      if (pe.position() - pb.position() != al.size()) flags += "!pos";
      typename AL::const_iterator cb = cal.begin(); typename AL::iterator mb = al.begin();
      if (!(mb == cb) || (cal.size() > 0 && mb == typename AL::const_iterator(al.end()))) flags += "!mix==";
    }
    obs += has ? std::to_string((int) *held) : std::string("-");
    c11::step_done(obs + flags);
#undef al
  }
  alp.reset();
  c11::leak_step();
}

template<int N> static void run(const std::vector<std::string>& ops) { run_t<Dune::ArrayList<int, N> >(ops); }

int main(int argc, char** argv)
{
  return c11::main_loop(argc, argv, "al", [](int n, const std::vector<std::string>& ops) {
    // the default template argument N (re-read from the source into Params_gen.v) is exercised through ArrayList<int> itself
    if (n == (int) Dune::ArrayList<int>::chunkSize_ && n > 16) { run_t<Dune::ArrayList<int> >(ops); return; }
    // element-type family: N + 1000 = the same chunk size with the instance-tracking element type
    if (n >= 1000) {
      switch (n - 1000) {
        case 0: run_t<Dune::ArrayList<c11::Tracked, -3> >(ops); return;     // N <= 0 acts as 1
        case 1: run_t<Dune::ArrayList<c11::Tracked, 1> >(ops); return;
        case 2: run_t<Dune::ArrayList<c11::Tracked, 2> >(ops); return;
        case 3: run_t<Dune::ArrayList<c11::Tracked, 3> >(ops); return;
        case 7: run_t<Dune::ArrayList<c11::Tracked, 7> >(ops); return;
        default: c11::step_done("UNKNOWN-N"); return;
      }
    }
    switch (n) {
      case 0: run<0>(ops); break;  case 1: run<1>(ops); break;  case 2: run<2>(ops); break;
      case 3: run<3>(ops); break;  case 4: run<4>(ops); break;  case 5: run<5>(ops); break;
      case 7: run<7>(ops); break;  case 10: run<10>(ops); break; case 16: run<16>(ops); break;
      case 100: run<100>(ops); break;
      default: c11::step_done("UNKNOWN-N");
    }
  });
}
