// C11 impl driver for Dune::BitSetVector<bs> (public interface only).
// ops: rsz:n:v cl sall uall set:i:j:v flip:i:j bset:i breset:i bflip:i abool:i:v abits:i:<bits> ablk:i:k
//      and|or|xor:i:<bits>   andb|orb|xorb:i:k   shl:i:k  shr:i:k       (<bits>: character j = bit j)
// observation per step: size()[block,block,...]c<count()> m<countmasked(0)>,<countmasked(1)>,... q<count any none all ==next ~bits per block>,...
#include <config.h>
#include <dune/common/bitsetvector.hh>
#include <dune/common/exceptions.hh>
#include <bitset>
#include "c11_common.hh"

template<int bs>
static std::bitset<bs> bits_of(const std::string& s)
{
  std::bitset<bs> b; for (int j = 0; j < bs && j < (int) s.size(); ++j) b.set(j, s[j] == '1'); return b;
}

template<int bs>
static void run(const std::vector<std::string>& ops)
{
  using BV = Dune::BitSetVector<bs>;
  using BS = std::bitset<bs>;
  BV v;
  for (const auto& o : ops) {
    auto t = c11::split(o, ':');
    std::string flags;
    auto N = [&](int k) { return (int) c11::num(t[k]); };
    if (t[0] == "rsz") v.resize(N(1), N(2) != 0);
    else if (t[0] == "rszd") v.resize(N(1));                         // DEFAULT ARGUMENT: resize(n) == resize(n, false)
    else if (t[0] == "set1") v[N(1)].set(N(2));                      // DEFAULT ARGUMENT: set(n) == set(n, 1)
    else if (t[0] == "setv") v[N(1)].set(N(2), N(3));                // MAGNITUDE: "sets bit n if val is nonzero" with val outside {0,1}
    else if (t[0] == "asgo") {                                       // PRE-EXISTING STATE: whole-vector assignment onto vectors of another size / other content
      BV w(N(1), N(2) != 0); w = v;
      if (w.size() != v.size() || w.count() != v.count()) flags += "!asgo";
      v = BV((int) v.size() + 2, true); v = w;
    }
    else if (t[0] == "xblk" || t[0] == "xblkc" || t[0] == "xand" || t[0] == "xior" || t[0] == "xxor") {
      // TWO PARTICIPANTS: the source block lives in ANOTHER BitSetVector with a different number of blocks (x..:i:<bits>:m:k = block k of an m-block vector)
      BV w(N(3), (N(4) % 2) != 0); w[N(4)] = bits_of<bs>(t[2]); const BV& cw = w;
      if (t[0] == "xblk") v[N(1)] = w[N(4)]; else if (t[0] == "xblkc") v[N(1)] = cw[N(4)];
      else if (t[0] == "xand") v[N(1)] &= cw[N(4)]; else if (t[0] == "xior") v[N(1)] |= w[N(4)]; else v[N(1)] ^= cw[N(4)];
      if (!(w[N(4)] == bits_of<bs>(t[2]))) flags += "!xsrc";          // the source block is unaffected
    }
    else if (t[0] == "shlb" || t[0] == "shrb") {                     // MAGNITUDE: shift counts at the 2^31 / 2^32 / 2^63 / SIZE_MAX boundaries
      static const std::size_t big[] = { (std::size_t) 1 << 31, ((std::size_t) 1 << 31) + 1, (std::size_t) 1 << 32, (std::size_t) 1 << 63, ~(std::size_t) 0 };
      std::size_t k = big[N(2) % 5];
      if (t[0] == "shlb") v[N(1)] <<= k; else v[N(1)] >>= k;
    }
    else if (t[0] == "cl") v.clear();
    else if (t[0] == "sall") v.setAll();
    else if (t[0] == "uall") v.unsetAll();
    else if (t[0] == "set") v[N(1)].set(N(2), N(3));
    else if (t[0] == "sidx") v[N(1)][N(2)] = (N(3) != 0);            // reference::operator[] (vector<bool>::reference) assignment
    else if (t[0] == "rbit") v[N(1)].reset(N(2));                    // reset(n)
    else if (t[0] == "ablkc") { const BV& cv = v; v[N(1)] = cv[N(2)]; }   // assignment from a const reference proxy
    else if (t[0] == "flip") v[N(1)].flip(N(2));
    else if (t[0] == "bset") v[N(1)].set();
    else if (t[0] == "breset") v[N(1)].reset();
    else if (t[0] == "bflip") v[N(1)].flip();
    else if (t[0] == "abool") v[N(1)] = (N(2) != 0);
    else if (t[0] == "abits") v[N(1)] = bits_of<bs>(t[2]);
    else if (t[0] == "ablk") v[N(1)] = v[N(2)];
    else if (t[0] == "and") v[N(1)] &= bits_of<bs>(t[2]);
    else if (t[0] == "or") v[N(1)] |= bits_of<bs>(t[2]);
    else if (t[0] == "xor") v[N(1)] ^= bits_of<bs>(t[2]);
    else if (t[0] == "andb") v[N(1)] &= v[N(2)];
    else if (t[0] == "orb") v[N(1)] |= v[N(2)];
    else if (t[0] == "xorb") v[N(1)] ^= v[N(2)];
    else if (t[0] == "shl") v[N(1)] <<= (std::size_t) N(2);
    else if (t[0] == "shr") v[N(1)] >>= (std::size_t) N(2);
    else { c11::step_done("UNKNOWN-OP"); continue; }
    const BV& cv = v;
    std::string s = std::to_string(cv.size()) + "[";
    std::size_t total = 0;
    for (std::size_t i = 0; i < cv.size(); ++i) {
      if (i) s += ",";
      BS ref; std::size_t cnt = 0;
      for (int j = 0; j < bs; ++j) { bool b = cv[(int) i].test(j); s += b ? '1' : '0'; ref.set(j, b); cnt += b; if (cv[(int) i][j] != b) flags += "!br"; }
      total += cnt;
      // the const std::bitset interface of the proxy agrees with std::bitset on the same bits
      auto r = cv[(int) i];
      if (r.count() != cnt || r.any() != ref.any() || r.none() != ref.none() || r.all() != ref.all() || r.size() != (std::size_t) bs) flags += "!q";
      if (BS(r) != ref || !(r == ref) || (r != ref)) flags += "!conv";
      if ((~r) != (~ref) || (r << 1) != (ref << 1) || (r >> 1) != (ref >> 1)) flags += "!cop";
      if (!(r == cv[(int) i]) || (i + 1 < cv.size() && ((r == cv[(int) i + 1]) != (ref == BS(cv[(int) i + 1]))))) flags += "!req";
    }
    s += "]c" + std::to_string(cv.count()) + " m";
    if (cv.count() != total) flags += "!cnt";
    for (int j = 0; j < bs; ++j) { if (j) s += ","; s += std::to_string(cv.countmasked(j)); }
    s += " q";                                                       // per block: count() any() none() all() of the const proxy
    for (std::size_t i = 0; i < cv.size(); ++i) {
      auto r = cv[(int) i];
      if (i) s += ",";
      s += std::to_string(r.count()) + (r.any() ? "1" : "0") + (r.none() ? "1" : "0") + (r.all() ? "1" : "0");
      s += (r == cv[(int) ((i + 1) % cv.size())]) ? "1" : "0";      // reference == reference (cyclically next block)
      BS inv = ~r; s += "~"; for (int j = 0; j < bs; ++j) s += inv.test(j) ? '1' : '0';
    }
    // the mutable proxy / mutable iterator / mutable back() read the same bits; constructors reproduce the same vector
    {
      std::size_t bi = 0; std::vector<bool> flat;
      for (typename BV::iterator it = v.begin(); it != v.end(); ++it, ++bi) {
        if (bi >= cv.size()) { flags += "!mitlen"; break; }
        for (int j = 0; j < bs; ++j) {
          bool b = cv[(int) bi].test(j); flat.push_back(b);
          if ((*it).test(j) != b || v[(int) bi].test(j) != b || bool(v[(int) bi][j]) != b || bool((*it)[j]) != b) flags += "!mref";
        }
        if (v[(int) bi].count() != cv[(int) bi].count() || v[(int) bi].any() != cv[(int) bi].any() || v[(int) bi].all() != cv[(int) bi].all()
            || v[(int) bi].none() != cv[(int) bi].none() || !(v[(int) bi] == cv[(int) bi]) || (v[(int) bi] != cv[(int) bi])) flags += "!mq";
      }
      if (bi != cv.size()) flags += "!mitlen";
      if (cv.size() > 0 && !(v.back() == cv.back())) flags += "!mback";
      { BV c(v); BV a; a = v;                                         // copy construction / assignment; the source is unaffected
        if (c.size() != cv.size() || a.size() != cv.size() || c.count() != cv.count() || a.count() != cv.count()) flags += "!cpy";
        std::size_t before = cv.count(); c.setAll(); a.resize(0); if (cv.count() != before) flags += "!cpysrc"; }
      BV fromflat(flat); BV sized((int) cv.size()); BV filled((int) cv.size(), true);
      if (fromflat.size() != cv.size() || sized.size() != cv.size() || filled.size() != cv.size()) flags += "!ctor";
      else for (std::size_t i = 0; i < cv.size(); ++i)
        if (!(fromflat[(int) i] == cv[(int) i]) || sized[(int) i].any() || !filled[(int) i].all()) { flags += "!ctor"; break; }
      if (sized.count() != 0 || filled.count() != cv.size() * bs) flags += "!ctorcnt";
      if (bs > 1) {                                                  // documented rejection: size no multiple of the block size
        std::vector<bool> odd(flat); odd.push_back(true); bool thrown = false;
        try { BV bad(odd); } catch (Dune::RangeError&) { thrown = true; }
        if (!thrown) flags += "!ctorthrow";
      }
      std::ostringstream os; os << cv; std::string exp;
      for (std::size_t i = 0; i < cv.size(); ++i) { exp += "("; for (int j = 0; j < bs; ++j) exp += cv[(int) i].test(j) ? "1" : "0"; exp += ")  "; }
      if (os.str() != exp) flags += "!print";
      // STREAM STATE (audit 2, kind C): NOT checked.  operator<< of a block writes each bit as a bool (`s << v[i]`), so the output follows the
      // stream's basefield / showbase / boolalpha ("(0x10x1)" under hex + showbase, "(truefalse)" under boolalpha), unlike std::bitset's
      // operator<<.  Printing is outside the statement of C11; recorded in mutants/C11/API_COVERAGE.md, not judged.
    }
    // iteration and back()
    std::size_t k = 0;
    for (typename BV::const_iterator it = cv.begin(); it != cv.end(); ++it, ++k) if (k >= cv.size() || !(*it == cv[(int) k])) { flags += "!it"; break; }
    if (k != cv.size()) flags += "!itlen";
    if (cv.size() > 0 && !(cv.back() == cv[(int) cv.size() - 1])) flags += "!back";
    c11::step_done(s + flags);
  }
}

int main(int argc, char** argv)
{
  return c11::main_loop(argc, argv, "bv", [](int n, const std::vector<std::string>& ops) {
    switch (n) {
      case 1: run<1>(ops); break; case 2: run<2>(ops); break; case 3: run<3>(ops); break;
      case 5: run<5>(ops); break; case 8: run<8>(ops); break; case 9: run<9>(ops); break;
      case 64: run<64>(ops); break; case 65: run<65>(ops); break;   // word boundaries of std::bitset / vector<bool>
      default: c11::step_done("UNKNOWN-N");
    }
  });
}
