// C11 impl driver for Dune::BitSetVector<bs> (public interface only).
// ops: rsz:n:v cl sall uall set:i:j:v flip:i:j bset:i breset:i bflip:i abool:i:v abits:i:<bits> ablk:i:k
//      and|or|xor:i:<bits>   andb|orb|xorb:i:k   shl:i:k  shr:i:k       (<bits>: character j = bit j)
// observation per step: size()[block,block,...]c<count()> m<countmasked(0)>,<countmasked(1)>,...
#include <config.h>
#include <dune/common/bitsetvector.hh>
#include <bitset>
#include "c11_common.hh"

template<int bs>
static std::bitset<bs> bits_of(const std::string& s)
{
  std::bitset<bs> b; for (int j = 0; j < bs && j < (int) s.size(); ++j) b.set(j, s[j] == '1'); return b;
}

template<int bs>
static void run(const std::vector<std::string>& ops)
{
  using BV = Dune::BitSetVector<bs>;
  using BS = std::bitset<bs>;
  BV v;
  for (const auto& o : ops) {
    auto t = c11::split(o, ':');
    std::string flags;
    auto N = [&](int k) { return (int) c11::num(t[k]); };
    if (t[0] == "rsz") v.resize(N(1), N(2) != 0);
    else if (t[0] == "cl") v.clear();
    else if (t[0] == "sall") v.setAll();
    else if (t[0] == "uall") v.unsetAll();
    else if (t[0] == "set") v[N(1)].set(N(2), N(3));
    else if (t[0] == "flip") v[N(1)].flip(N(2));
    else if (t[0] == "bset") v[N(1)].set();
    else if (t[0] == "breset") v[N(1)].reset();
    else if (t[0] == "bflip") v[N(1)].flip();
    else if (t[0] == "abool") v[N(1)] = (N(2) != 0);
    else if (t[0] == "abits") v[N(1)] = bits_of<bs>(t[2]);
    else if (t[0] == "ablk") v[N(1)] = v[N(2)];
    else if (t[0] == "and") v[N(1)] &= bits_of<bs>(t[2]);
    else if (t[0] == "or") v[N(1)] |= bits_of<bs>(t[2]);
    else if (t[0] == "xor") v[N(1)] ^= bits_of<bs>(t[2]);
    else if (t[0] == "andb") v[N(1)] &= v[N(2)];
    else if (t[0] == "orb") v[N(1)] |= v[N(2)];
    else if (t[0] == "xorb") v[N(1)] ^= v[N(2)];
    else if (t[0] == "shl") v[N(1)] <<= (std::size_t) N(2);
    else if (t[0] == "shr") v[N(1)] >>= (std::size_t) N(2);
    else { c11::step_done("UNKNOWN-OP"); continue; }
    const BV& cv = v;
    std::string s = std::to_string(cv.size()) + "[";
    std::size_t total = 0;
    for (std::size_t i = 0; i < cv.size(); ++i) {
      if (i) s += ",";
      BS ref; std::size_t cnt = 0;
      for (int j = 0; j < bs; ++j) { bool b = cv[(int) i].test(j); s += b ? '1' : '0'; ref.set(j, b); cnt += b; if (cv[(int) i][j] != b) flags += "!br"; }
      total += cnt;
      // the const std::bitset interface of the proxy agrees with std::bitset on the same bits
      auto r = cv[(int) i];
      if (r.count() != cnt || r.any() != ref.any() || r.none() != ref.none() || r.all() != ref.all() || r.size() != (std::size_t) bs) flags += "!q";
      if (BS(r) != ref || !(r == ref) || (r != ref)) flags += "!conv";
      if ((~r) != (~ref) || (r << 1) != (ref << 1) || (r >> 1) != (ref >> 1)) flags += "!cop";
      if (!(r == cv[(int) i]) || (i + 1 < cv.size() && ((r == cv[(int) i + 1]) != (ref == BS(cv[(int) i + 1]))))) flags += "!req";
    }
    s += "]c" + std::to_string(cv.count()) + " m";
    if (cv.count() != total) flags += "!cnt";
    for (int j = 0; j < bs; ++j) { if (j) s += ","; s += std::to_string(cv.countmasked(j)); }
    // iteration and back()
    std::size_t k = 0;
    for (typename BV::const_iterator it = cv.begin(); it != cv.end(); ++it, ++k) if (k >= cv.size() || !(*it == cv[(int) k])) { flags += "!it"; break; }
    if (k != cv.size()) flags += "!itlen";
    if (cv.size() > 0 && !(cv.back() == cv[(int) cv.size() - 1])) flags += "!back";
    c11::step_done(s + flags);
  }
}

int main(int argc, char** argv)
{
  return c11::main_loop(argc, argv, "bv", [](int n, const std::vector<std::string>& ops) {
    switch (n) {
      case 1: run<1>(ops); break; case 2: run<2>(ops); break; case 3: run<3>(ops); break;
      case 5: run<5>(ops); break; case 8: run<8>(ops); break; case 9: run<9>(ops); break;
      default: c11::step_done("UNKNOWN-N");
    }
  });
}
