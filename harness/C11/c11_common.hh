// C11 impl drivers: shared runner.  Reads the case file (argv[1]); every case is a history
//   <container> <param> <op> <op> ...
// executed step by step on the real container; after every op the public observation is written
// (joined by ';').  Cases run in forked children (batches), so that a crash / sanitizer abort / hang
// inside a history is an observation of that history ("...;UB") and the run continues with the next case.
#ifndef C11_COMMON_HH
#define C11_COMMON_HH
#include <cstdio>
#include <cstdlib>
#include <cstring>
#include <string>
#include <vector>
#include <sstream>
#include <fstream>
#include <iostream>
#include <functional>
#include <unistd.h>
#include <signal.h>
#include <sys/wait.h>

namespace c11 {

static int out_fd = 1;
static std::string pending;
inline void emit(const std::string& s) { pending += s; }
inline void flush_step() { if (!pending.empty()) { (void)!write(out_fd, pending.data(), pending.size()); pending.clear(); } }

inline std::vector<std::string> split(const std::string& s, char c)
{
  std::vector<std::string> r; std::string cur;
  for (char ch : s) { if (ch == c) { r.push_back(cur); cur.clear(); } else cur += ch; }
  r.push_back(cur); return r;
}
inline std::vector<std::string> words(const std::string& s)
{
  std::vector<std::string> r; std::istringstream is(s); std::string w;
  while (is >> w) r.push_back(w);
  return r;
}
inline long num(const std::string& s) { return std::stol(s); }

// run(param, ops) must call step_done() after every op (writes the observation)
using RunFn = std::function<void(int, const std::vector<std::string>&)>;
static bool first_step = true;
inline void step_done(const std::string& obs) { if (!first_step) emit(";"); first_step = false; emit(obs); flush_step(); }

inline int main_loop(int argc, char** argv, const char* container, RunFn run)
{
  if (argc < 2) { std::fprintf(stderr, "usage: %s cases\n", argv[0]); return 2; }
  std::ifstream in(argv[1]); std::vector<std::string> cases; std::string line;
  while (std::getline(in, line)) cases.push_back(line);
  const size_t B = 256;
  size_t i = 0;
  while (i < cases.size()) {
    int fds[2]; if (pipe(fds) != 0) return 3;
    std::fflush(stdout);
    pid_t pid = fork();
    if (pid == 0) {
      close(fds[0]); out_fd = fds[1]; alarm(30);
      for (size_t j = i; j < std::min(cases.size(), i + B); ++j) {
        auto t = words(cases[j]);
        first_step = true;
        if (t.size() < 2 || t[0] != container) { emit("UNKNOWN"); }
        else { std::vector<std::string> ops(t.begin() + 2, t.end()); run((int) num(t[1]), ops); }
        emit("\n"); flush_step();
      }
      _exit(0);
    }
    close(fds[1]);
    std::string buf; char tmp[65536]; ssize_t n;
    while ((n = read(fds[0], tmp, sizeof tmp)) > 0) buf.append(tmp, (size_t) n);
    close(fds[0]);
    int st = 0; waitpid(pid, &st, 0);
    size_t done = 0, pos = 0, nl;
    while ((nl = buf.find('\n', pos)) != std::string::npos) { std::fwrite(buf.data() + pos, 1, nl - pos + 1, stdout); pos = nl + 1; ++done; }
    size_t want = std::min(cases.size(), i + B) - i;
    if (done < want) {
      std::string part = buf.substr(pos);
      bool hang = WIFSIGNALED(st) && WTERMSIG(st) == SIGALRM;
      std::fprintf(stderr, "[c11 harness] case %zu died (status 0x%x): %s\n", i + done, st, cases[i + done].c_str());
      std::printf("%s%s%s\n", part.c_str(), part.empty() ? "" : ";", hang ? "HANG" : "UB");
      ++done;
    }
    std::fflush(stdout);
    i += done;
  }
  return 0;
}

// Element type with an owned heap cell and a live-instance counter: wrong construction / destruction / aliasing inside a container
// shows up as an ASan report or as a non-zero count after the container is gone.  Converts to int for printing and comparison.
struct Tracked {
  static long& live() { static long n = 0; return n; }
  int* p;
  Tracked() : p(new int(0)) { ++live(); }
  Tracked(int v) : p(new int(v)) { ++live(); }
  Tracked(const Tracked& o) : p(new int(*o.p)) { ++live(); }
  Tracked& operator=(const Tracked& o) { int v = *o.p; *p = v; return *this; }
  ~Tracked() { --live(); delete p; p = nullptr; }
  operator int() const { return *p; }
};
// to be called when all containers of a case are destroyed
inline void leak_step() { if (Tracked::live() != 0) { step_done("LEAK(" + std::to_string(Tracked::live()) + ")"); Tracked::live() = 0; } }

template<class It> std::string seq_str(It b, It e)
{
  std::string r; bool f = true;
  for (; b != e; ++b) { if (!f) r += ' '; f = false; r += std::to_string((int) *b); }
  return r;
}
} // namespace c11
#endif
