// C11 impl driver for Dune::lru<int,int> (public interface only).
// ops: ins:k:v insert(k,v)  touch:k  popf  popb  rsz:n  cl
// observation per step: <ret> size() front(),back() find(0)|find(1)|...   ret = v<returned reference> | RE (RangeError) | _
#include <config.h>
#ifndef C11_LRU_SELF_CONTAINED
#include <cassert>                      // lru.hh of the snapshot uses assert without including <cassert> (see probe_lru.cc)
#endif
#include <dune/common/lru.hh>
#include <dune/common/exceptions.hh>
#include "c11_common.hh"

static void run(int nkeys, const std::vector<std::string>& ops)
{
  Dune::lru<int, int> c;
  for (const auto& o : ops) {
    auto t = c11::split(o, ':');
    std::string ret = "_";
    if (t[0] == "ins") { int& r = c.insert((int) c11::num(t[1]), (int) c11::num(t[2])); ret = "v" + std::to_string(r); }
    else if (t[0] == "ins1") {                                     // insert(key): documented as touch(key)
      try { int& r = c.insert((int) c11::num(t[1])); ret = "v" + std::to_string(r); }
      catch (Dune::RangeError&) { ret = "RE"; }
    }
    else if (t[0] == "touch") {
      try { int& r = c.touch((int) c11::num(t[1])); ret = "v" + std::to_string(r); }
      catch (Dune::RangeError&) { ret = "RE"; }
    }
    else if (t[0] == "popf") c.pop_front();
    else if (t[0] == "popb") c.pop_back();
    else if (t[0] == "rsz") c.resize((std::size_t) c11::num(t[1]));
    else if (t[0] == "cl") c.clear();
    else { c11::step_done("UNKNOWN-OP"); continue; }
    std::string obs = ret + " " + std::to_string(c.size()) + " ";
    if (c.size() > 0) obs += std::to_string(c.front()) + "," + std::to_string(c.back()); else obs += "-";
    obs += " ";
    auto end = c.find(-987654);                       // a key that is never inserted: find() returns end()
    for (int k = 0; k < nkeys; ++k) {
      auto it = c.find(k);
      if (k) obs += "|";
      if (it == end) obs += "-"; else obs += std::to_string(it->first) + "=" + std::to_string(it->second);
    }
    // const access paths agree with the non-const ones
    {
      const Dune::lru<int, int>& cc = c;
      std::string flags;
      if (cc.size() != c.size()) flags += "!csize";
      if (c.size() > 0 && cc.front() != c.front()) flags += "!cfront";
#ifdef C11_LRU_CONST_BACK
      if (c.size() > 0 && cc.back() != c.back()) flags += "!cback";
#else
      if (c.size() > 0 && cc.back(0) != c.back()) flags += "!cback";     // the snapshot's const back takes a stray int
#endif
#ifdef C11_LRU_CONST_FIND
      auto cend = cc.find(-987654);
      for (int k = 0; k < nkeys; ++k) {
        auto a = c.find(k); auto b = cc.find(k);
        if ((a == end) != (b == cend) || (a != end && (a->first != b->first || a->second != b->second))) flags += "!cfind";
      }
#endif
      obs += flags;
    }
    c11::step_done(obs);
  }
}

int main(int argc, char** argv)
{
  return c11::main_loop(argc, argv, "lru", [](int nk, const std::vector<std::string>& ops) { run(nk, ops); });
}
