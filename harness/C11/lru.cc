// C11 impl driver for Dune::lru<int,int> (public interface only).
// ops: ins:k:v insert(k,v)  touch:k  popf  popb  rsz:n  cl
// observation per step: <ret> size() front(),back() find(0)|find(1)|...   ret = v<returned reference> | RE (RangeError) | _
#include <config.h>
#ifndef C11_LRU_SELF_CONTAINED
#include <cassert>                      // lru.hh of the snapshot uses assert without including <cassert> (see probe_lru.cc)
#endif
#include <dune/common/lru.hh>
#include <dune/common/exceptions.hh>
#include "c11_common.hh"
#include <memory>

template<class V>
static void run_t(int nkeys, const std::vector<std::string>& ops)
{
  using LRU = Dune::lru<int, V>;
  std::unique_ptr<LRU> cp(new LRU);
  for (const auto& o : ops) {
    LRU& c = *cp;
    auto t = c11::split(o, ':');
    std::string ret = "_";
    if (t[0] == "ins") { V& r = c.insert((int) c11::num(t[1]), V((int) c11::num(t[2]))); ret = "v" + std::to_string((int) r); }
    else if (t[0] == "insa") {                                   // ALIASING: the data argument is a value stored in the cache itself
      V& r = c.insert((int) c11::num(t[1]), c.find((int) c11::num(t[2]))->second); ret = "v" + std::to_string((int) r); }
    else if (t[0] == "toucha") {                                 // ALIASING: the key argument is the key stored in the touched node
      V& r = c.touch(c.find((int) c11::num(t[1]))->first); ret = "v" + std::to_string((int) r); }
    else if (t[0] == "cpy") {                                    // copy construction; the source stays alive and must be unaffected by what happens to the copy
      LRU d(c);
      if (d.size() != c.size()) ret = "!cpysize";
      if (d.size() > 0) { d.insert(0, V(-1)); d.insert(1, V(-2)); d.touch(0); d.pop_back(); d.insert(2, V(-3)); }
      else d.insert(0, V(-1));
    }
    else if (t[0] == "cpyd") { std::unique_ptr<LRU> n(new LRU(c)); cp.swap(n); }                 // continue on the copy, source destroyed
    else if (t[0] == "cpya") { LRU tmp; tmp.insert(3, V(9)); tmp = c; LRU& self = tmp; tmp = self;
                               std::unique_ptr<LRU> n(new LRU); *n = tmp; cp.swap(n); }          // copy assignment incl. self-assignment
    else if (t[0] == "asgo") {                                   // PRE-EXISTING STATE: copy assignment onto a cache that already holds OTHER entries
      // (asgo:k=v,k=v,..[:tK] fills the target in that order, optionally touches key K); the history continues on the TARGET, the source is destroyed
      std::unique_ptr<LRU> n(new LRU);
      if (t.size() > 1 && !t[1].empty()) for (auto& kv : c11::split(t[1], ',')) { auto e = c11::split(kv, '='); n->insert((int) c11::num(e[0]), V((int) c11::num(e[1]))); }
      if (t.size() > 2 && t[2].size() > 1) { try { n->touch((int) c11::num(t[2].substr(1))); } catch (Dune::RangeError&) {} }
      *n = c;
      if (n->size() != c.size()) ret = "!asgsize";
      cp.swap(n);
    }
    else if (t[0] == "ins1") {                                     // insert(key): documented as touch(key)
      try { V& r = c.insert((int) c11::num(t[1])); ret = "v" + std::to_string((int) r); }
      catch (Dune::RangeError&) { ret = "RE"; }
    }
    else if (t[0] == "touch") {
      try { V& r = c.touch((int) c11::num(t[1])); ret = "v" + std::to_string((int) r); }
      catch (Dune::RangeError&) { ret = "RE"; }
    }
    else if (t[0] == "popf") c.pop_front();
    else if (t[0] == "popb") c.pop_back();
    else if (t[0] == "rsz") c.resize((std::size_t) c11::num(t[1]));
    else if (t[0] == "cl") c.clear();
    else { c11::step_done("UNKNOWN-OP"); continue; }
    LRU& c2 = *cp;
#define c c2
    std::string obs = ret + " " + std::to_string(c.size()) + " ";
    if (c.size() > 0) obs += std::to_string((int) c.front()) + "," + std::to_string((int) c.back()); else obs += "-";
    obs += " ";
    auto end = c.find(-987654);                       // a key that is never inserted: find() returns end()
    for (int k = 0; k < nkeys; ++k) {
      auto it = c.find(k);
      if (k) obs += "|";
      if (it == end) obs += "-"; else obs += std::to_string(it->first) + "=" + std::to_string((int) it->second);
    }
    // const access paths agree with the non-const ones
    {
      const LRU& cc = c;
      std::string flags;
      if (cc.size() != c.size()) flags += "!csize";
      if (c.size() > 0 && (int) cc.front() != (int) c.front()) flags += "!cfront";
#ifdef C11_LRU_CONST_BACK
      if (c.size() > 0 && (int) cc.back() != (int) c.back()) flags += "!cback";
#else
      if (c.size() > 0 && (int) cc.back(0) != (int) c.back()) flags += "!cback";     // the snapshot's const back takes a stray int
#endif
#ifdef C11_LRU_CONST_FIND
      auto cend = cc.find(-987654);
      for (int k = 0; k < nkeys; ++k) {
        auto a = c.find(k); auto b = cc.find(k);
        if ((a == end) != (b == cend) || (a != end && (a->first != b->first || (int) a->second != (int) b->second))) flags += "!cfind";
      }
#endif
      obs += flags;
    }
    c11::step_done(obs);
#undef c
  }
  cp.reset();
  c11::leak_step();
}

int main(int argc, char** argv)
{
  // value-type family: nkeys + 1000 = the same with the instance-tracking value type
  return c11::main_loop(argc, argv, "lru", [](int nk, const std::vector<std::string>& ops) {
    if (nk >= 1000) run_t<c11::Tracked>(nk - 1000, ops); else run_t<int>(nk, ops); });
}
