// compile probe: lru.hh must be self-contained for every member (resize uses assert)
#include <config.h>
#include <dune/common/lru.hh>
int main() { Dune::lru<int,int> c; c.insert(1, 2); c.resize(1); c.resize(0); return (int) c.size(); }
