// compile probe: a const lru must offer back() like front()
#include <config.h>
#include <cassert>
#include <dune/common/lru.hh>
int main() { Dune::lru<int,int> c; c.insert(1, 2); const Dune::lru<int,int>& cc = c; return cc.back() == cc.front() ? 0 : 1; }
