// compile probe: lru::find(key) const must be instantiable
#include <config.h>
#include <cassert>
#include <dune/common/lru.hh>
int main() { Dune::lru<int,int> c; c.insert(1, 2); const Dune::lru<int,int>& cc = c; auto it = cc.find(1); return it->second == 2 ? 0 : 1; }
