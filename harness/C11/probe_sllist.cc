// compile probe: SLList with its default allocator must offer its whole public interface under the project's C++ standard
#include <config.h>
#include <dune/common/sllist.hh>
int main() { Dune::SLList<int> l; l.push_back(1); l.push_front(2); l.pop_front(); return l.size() == 1 ? 0 : 1; }
