// C11 impl driver for Dune::ReservedVector<int,n> (two vectors A (0), B (1); public interface only).
// ops: pb:i:v pop:i rsz:i:k cl:i set:i:j:v fill:i:v mk:i:c:v (= ReservedVector(c,v)) from:i:v1,v2,.. (iterator-range ctor)
//      swap  asg:i (V_i = V_{1-i})  at:i:j
// observation per step: size[elements]front,back for A and B, then (A==B)(A<B)(B<A), then result of at (_ / OOR / value), then (A!=B)(A>B)(A<=B)(A>=B)
#include <config.h>
#include <dune/common/reservedvector.hh>
#include <stdexcept>
#include "c11_common.hh"

template<class T, int n>
static std::string obs1(const Dune::ReservedVector<T, n>& v, std::string& flags)
{
  std::vector<int> a(v.begin(), v.end()), r(v.rbegin(), v.rend());
  std::vector<int> rr(r.rbegin(), r.rend());
  if (a != rr) flags += "!rev";
  if (a.size() != v.size() || v.empty() != (v.size() == 0)) flags += "!len";
  for (std::size_t i = 0; i < a.size(); ++i) if ((int) v[i] != a[i] || (int) v.at(i) != a[i] || (int) v.data()[i] != a[i]) { flags += "!idx"; break; }
  if (v.capacity() != (std::size_t) n || v.max_size() != (std::size_t) n) flags += "!cap";
  std::string s = std::to_string(v.size()) + "[" + c11::seq_str(a.begin(), a.end()) + "]";
  if (v.size() > 0) s += std::to_string((int) v.front()) + "," + std::to_string((int) v.back()); else s += "-";
  return s;
}

// the non-const access paths (and the c-prefixed iterator getters) show the same elements as the const ones
template<class T, int n>
static void mutable_checks(Dune::ReservedVector<T, n>& v, std::string& flags)
{
  const Dune::ReservedVector<T, n>& c = v;
  std::vector<int> a(c.begin(), c.end());
  if (std::vector<int>(v.begin(), v.end()) != a || std::vector<int>(v.cbegin(), v.cend()) != a || std::vector<int>(c.cbegin(), c.cend()) != a) flags += "!mbegin";
  std::vector<int> r(a.rbegin(), a.rend());
  if (std::vector<int>(v.rbegin(), v.rend()) != r || std::vector<int>(v.crbegin(), v.crend()) != r || std::vector<int>(c.crbegin(), c.crend()) != r) flags += "!mrbegin";
  for (std::size_t i = 0; i < a.size(); ++i) if ((int) v[i] != a[i] || (int) v.at(i) != a[i] || (int) v.data()[i] != a[i]) { flags += "!midx"; break; }
  if (!a.empty() && ((int) v.front() != a.front() || (int) v.back() != a.back() || (int) c.front() != a.front() || (int) c.back() != a.back())) flags += "!mfb";
  if (v.end() - v.begin() != (std::ptrdiff_t) a.size() || c.end() - c.begin() != (std::ptrdiff_t) a.size()) flags += "!mdist";
  bool t1 = false, t2 = false;
  try { (void) v.at(a.size()); } catch (std::out_of_range&) { t1 = true; }
  try { (void) c.at(a.size()); } catch (std::out_of_range&) { t2 = true; }
  if (!t1 || !t2) flags += "!at";
  std::ostringstream os; os << c; std::string exp; for (int x : a) exp += std::to_string(x) + "  ";
  if (os.str() != exp) flags += "!print";
  // STREAM STATE: every element is formatted the way the stream formats an element (basefield, showbase, uppercase, showpos)
  std::ostringstream os2; os2 << std::hex << std::showbase << std::uppercase << std::showpos << c; std::string exp2;
  for (int x : a) { std::ostringstream e; e << std::hex << std::showbase << std::uppercase << std::showpos << x; exp2 += e.str() + "  "; }
  if (os2.str() != exp2) flags += "!printfmt";
}

template<class T, int n>
static void run_t(const std::vector<std::string>& ops)
{
  using RV = Dune::ReservedVector<T, n>;
  {
  RV V[2];
  for (const auto& o : ops) {
    auto t = c11::split(o, ':');
    std::string flags, at = "_";
    int i = t.size() > 1 ? (int) c11::num(t[1]) : 0;
    RV& v = V[i];
    if (t[0] == "pb") { const T x((int) c11::num(t[2])); v.push_back(x); }          // push_back(const T&)
    else if (t[0] == "pbm") v.push_back(T((int) c11::num(t[2])));                          // push_back(T&&)
    else if (t[0] == "eb") { T& r = v.emplace_back((int) c11::num(t[2])); if (&r != &v.back()) flags += "!eb"; }
    else if (t[0] == "mkd") v = RV((std::size_t) c11::num(t[2]));                       // ReservedVector(count): value-initialised storage
    else if (t[0] == "il") { long k = c11::num(t[2]); v = k == 0 ? RV{} : k == 1 ? RV{1} : k == 2 ? RV{1, 2} : RV{1, 2, 3}; }
    else if (t[0] == "pop") v.pop_back();
    else if (t[0] == "rsz") v.resize((std::size_t) c11::num(t[2]));
    else if (t[0] == "cl") v.clear();
    else if (t[0] == "set") v[(std::size_t) c11::num(t[2])] = T((int) c11::num(t[3]));
    else if (t[0] == "fill") v.fill(T((int) c11::num(t[2])));
    else if (t[0] == "mk") v = RV((std::size_t) c11::num(t[2]), T((int) c11::num(t[3])));
    else if (t[0] == "from") {
      std::vector<T> src; if (t.size() > 2 && !t[2].empty()) for (auto& x : c11::split(t[2], ',')) src.push_back(T((int) c11::num(x)));
      v = RV(src.begin(), src.end());
    }
    else if (t[0] == "pbe") v.push_back(v[(std::size_t) c11::num(t[2])]);          // ALIASING: the argument is an element of the vector itself
    else if (t[0] == "ebe") v.emplace_back(v[(std::size_t) c11::num(t[2])]);
    else if (t[0] == "fille") v.fill(v[(std::size_t) c11::num(t[2])]);
    else if (t[0] == "swapr") V[i].swap(V[1 - i]);                                   // ROLES: either vector as the receiver of swap
    else if (t[0] == "swaps") { RV& self = V[i]; V[i].swap(self); }                 // self-swap
    else if (t[0] == "asgs") { RV& self = V[i]; V[i] = self; }                      // self-assignment
    else if (t[0] == "cpyc") {                                                      // copy / move construction; the source is unaffected
      RV c(v); if (!(c == v)) flags += "!cpy";
      RV m(std::move(c)); if (!(m == v)) flags += "!mv";
      std::vector<int> before(v.begin(), v.end());
      if (m.size() > 0) { m[0] = T(-1); m.pop_back(); } m.clear();
      if (std::vector<int>(v.begin(), v.end()) != before) flags += "!cpysrc";
      RV a2; a2 = v; if (!(a2 == v)) flags += "!cpyasg";
    }
    else if (t[0] == "swap") V[0].swap(V[1]);
    else if (t[0] == "asg") v = V[1 - i];
    else if (t[0] == "at") {
      try { at = std::to_string((int) v.at((std::size_t) c11::num(t[2]))); } catch (std::out_of_range&) { at = "OOR"; }
    }
    else if (t[0] == "atbig") {                                                     // SIGNEDNESS / MAGNITUDE: indices at the 2^31, 2^32, 2^63, SIZE_MAX boundaries
      static const std::size_t big[] = { (std::size_t) 1 << 31, (std::size_t) 1 << 32, (std::size_t) 1 << 63, ~(std::size_t) 0, ~(std::size_t) 0 - 1, ((std::size_t) 1 << 63) + 1 };
      std::size_t j = big[c11::num(t[2]) % 6]; const RV& cv = v; bool c1 = false;
      try { at = std::to_string((int) v.at(j)); } catch (std::out_of_range&) { at = "OOR"; }
      try { (void) cv.at(j); } catch (std::out_of_range&) { c1 = true; }
      if (!c1) flags += "!catbig";
    }
    else { c11::step_done("UNKNOWN-OP"); continue; }
    mutable_checks<T, n>(V[0], flags); mutable_checks<T, n>(V[1], flags);
    const RV& A = V[0]; const RV& B = V[1];
    if constexpr (std::is_same_v<T, int>) { if (A == B && (hash_value(A) != hash_value(B) || std::hash<RV>()(A) != std::hash<RV>()(B))) flags += "!hash"; }
    bool e = (A == B), l1 = (A < B), l2 = (B < A);
    // ROLES / self arguments: B as the receiver of every comparison, and each vector compared with itself
    if ((B == A) != e || (B != A) == e || (B > A) != l1 || (B <= A) != !l1 || (B >= A) != !l2) flags += "!cmproles";
    if (!(A == A) || (A != A) || (A < A) || (A > A) || !(A <= A) || !(A >= A) || !(B == B) || (B < B)) flags += "!cmpself";
    if ((A != B) == e || (A > B) != l2 || (A <= B) != !l2 || (A >= B) != !l1) flags += "!cmp";
    std::string s = obs1<T, n>(A, flags) + " " + obs1<T, n>(B, flags) + " " + (e ? "1" : "0") + (l1 ? "1" : "0") + (l2 ? "1" : "0") + " " + at
                    + " " + ((A != B) ? "1" : "0") + ((A > B) ? "1" : "0") + ((A <= B) ? "1" : "0") + ((A >= B) ? "1" : "0");
    c11::step_done(s + flags);
  }
}
  c11::leak_step();
}

template<int n> static void run(const std::vector<std::string>& ops) { run_t<int, n>(ops); }

int main(int argc, char** argv)
{
  return c11::main_loop(argc, argv, "rv", [](int n, const std::vector<std::string>& ops) {
    switch (n) {
      case 0: run<0>(ops); break;
      case 1: run<1>(ops); break; case 2: run<2>(ops); break; case 3: run<3>(ops); break;
      case 4: run<4>(ops); break; case 5: run<5>(ops); break; case 8: run<8>(ops); break;
      // element-type family: n + 1000 = the same capacity with the instance-tracking element type
      case 1001: run_t<c11::Tracked, 1>(ops); break; case 1002: run_t<c11::Tracked, 2>(ops); break;
      case 1003: run_t<c11::Tracked, 3>(ops); break; case 1005: run_t<c11::Tracked, 5>(ops); break;
      default: c11::step_done("UNKNOWN-N");
    }
  });
}
