// C11 impl driver for Dune::ReservedVector<int,n> (two vectors A (0), B (1); public interface only).
// ops: pb:i:v pop:i rsz:i:k cl:i set:i:j:v fill:i:v mk:i:c:v (= ReservedVector(c,v)) from:i:v1,v2,.. (iterator-range ctor)
//      swap  asg:i (V_i = V_{1-i})  at:i:j
// observation per step: size[elements]front,back for A and B, then (A==B)(A<B)(B<A), then result of at (_ / OOR / value), then (A!=B)(A>B)(A<=B)(A>=B)
#include <config.h>
#include <dune/common/reservedvector.hh>
#include <stdexcept>
#include "c11_common.hh"

template<int n>
static std::string obs1(const Dune::ReservedVector<int, n>& v, std::string& flags)
{
  std::vector<int> a(v.begin(), v.end()), r(v.rbegin(), v.rend());
  std::vector<int> rr(r.rbegin(), r.rend());
  if (a != rr) flags += "!rev";
  if (a.size() != v.size() || v.empty() != (v.size() == 0)) flags += "!len";
  for (std::size_t i = 0; i < a.size(); ++i) if (v[i] != a[i] || v.at(i) != a[i] || v.data()[i] != a[i]) { flags += "!idx"; break; }
  if (v.capacity() != (std::size_t) n || v.max_size() != (std::size_t) n) flags += "!cap";
  std::string s = std::to_string(v.size()) + "[" + c11::seq_str(a.begin(), a.end()) + "]";
  if (v.size() > 0) s += std::to_string(v.front()) + "," + std::to_string(v.back()); else s += "-";
  return s;
}

// the non-const access paths (and the c-prefixed iterator getters) show the same elements as the const ones
template<int n>
static void mutable_checks(Dune::ReservedVector<int, n>& v, std::string& flags)
{
  const Dune::ReservedVector<int, n>& c = v;
  std::vector<int> a(c.begin(), c.end());
  if (std::vector<int>(v.begin(), v.end()) != a || std::vector<int>(v.cbegin(), v.cend()) != a || std::vector<int>(c.cbegin(), c.cend()) != a) flags += "!mbegin";
  std::vector<int> r(a.rbegin(), a.rend());
  if (std::vector<int>(v.rbegin(), v.rend()) != r || std::vector<int>(v.crbegin(), v.crend()) != r || std::vector<int>(c.crbegin(), c.crend()) != r) flags += "!mrbegin";
  for (std::size_t i = 0; i < a.size(); ++i) if (v[i] != a[i] || v.at(i) != a[i] || v.data()[i] != a[i]) { flags += "!midx"; break; }
  if (!a.empty() && (v.front() != a.front() || v.back() != a.back() || c.front() != a.front() || c.back() != a.back())) flags += "!mfb";
  if (v.end() - v.begin() != (std::ptrdiff_t) a.size() || c.end() - c.begin() != (std::ptrdiff_t) a.size()) flags += "!mdist";
  bool t1 = false, t2 = false;
  try { (void) v.at(a.size()); } catch (std::out_of_range&) { t1 = true; }
  try { (void) c.at(a.size()); } catch (std::out_of_range&) { t2 = true; }
  if (!t1 || !t2) flags += "!at";
  std::ostringstream os; os << c; std::string exp; for (int x : a) exp += std::to_string(x) + "  ";
  if (os.str() != exp) flags += "!print";
}

template<int n>
static void run(const std::vector<std::string>& ops)
{
  using RV = Dune::ReservedVector<int, n>;
  RV V[2];
  for (const auto& o : ops) {
    auto t = c11::split(o, ':');
    std::string flags, at = "_";
    int i = t.size() > 1 ? (int) c11::num(t[1]) : 0;
    RV& v = V[i];
    if (t[0] == "pb") { const int x = (int) c11::num(t[2]); v.push_back(x); }          // push_back(const T&)
    else if (t[0] == "pbm") v.push_back((int) c11::num(t[2]));                          // push_back(T&&)
    else if (t[0] == "eb") { int& r = v.emplace_back((int) c11::num(t[2])); if (&r != &v.back()) flags += "!eb"; }
    else if (t[0] == "mkd") v = RV((std::size_t) c11::num(t[2]));                       // ReservedVector(count): value-initialised storage
    else if (t[0] == "il") { long k = c11::num(t[2]); v = k == 0 ? RV{} : k == 1 ? RV{1} : k == 2 ? RV{1, 2} : RV{1, 2, 3}; }
    else if (t[0] == "pop") v.pop_back();
    else if (t[0] == "rsz") v.resize((std::size_t) c11::num(t[2]));
    else if (t[0] == "cl") v.clear();
    else if (t[0] == "set") v[(std::size_t) c11::num(t[2])] = (int) c11::num(t[3]);
    else if (t[0] == "fill") v.fill((int) c11::num(t[2]));
    else if (t[0] == "mk") v = RV((std::size_t) c11::num(t[2]), (int) c11::num(t[3]));
    else if (t[0] == "from") {
      std::vector<int> src; if (t.size() > 2 && !t[2].empty()) for (auto& x : c11::split(t[2], ',')) src.push_back((int) c11::num(x));
      v = RV(src.begin(), src.end());
    }
    else if (t[0] == "swap") V[0].swap(V[1]);
    else if (t[0] == "asg") v = V[1 - i];
    else if (t[0] == "at") {
      try { at = std::to_string(v.at((std::size_t) c11::num(t[2]))); } catch (std::out_of_range&) { at = "OOR"; }
    }
    else { c11::step_done("UNKNOWN-OP"); continue; }
    mutable_checks<n>(V[0], flags); mutable_checks<n>(V[1], flags);
    const RV& A = V[0]; const RV& B = V[1];
    if (A == B && (hash_value(A) != hash_value(B) || std::hash<RV>()(A) != std::hash<RV>()(B))) flags += "!hash";
    bool e = (A == B), l1 = (A < B), l2 = (B < A);
    if ((A != B) == e || (A > B) != l2 || (A <= B) != !l2 || (A >= B) != !l1) flags += "!cmp";
    std::string s = obs1<n>(A, flags) + " " + obs1<n>(B, flags) + " " + (e ? "1" : "0") + (l1 ? "1" : "0") + (l2 ? "1" : "0") + " " + at
                    + " " + ((A != B) ? "1" : "0") + ((A > B) ? "1" : "0") + ((A <= B) ? "1" : "0") + ((A >= B) ? "1" : "0");
    c11::step_done(s + flags);
  }
}

int main(int argc, char** argv)
{
  return c11::main_loop(argc, argv, "rv", [](int n, const std::vector<std::string>& ops) {
    switch (n) {
      case 1: run<1>(ops); break; case 2: run<2>(ops); break; case 3: run<3>(ops); break;
      case 4: run<4>(ops); break; case 5: run<5>(ops); break; case 8: run<8>(ops); break;
      default: c11::step_done("UNKNOWN-N");
    }
  });
}
