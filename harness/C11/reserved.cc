// C11 impl driver for Dune::ReservedVector<int,n> (two vectors A (0), B (1); public interface only).
// ops: pb:i:v pop:i rsz:i:k cl:i set:i:j:v fill:i:v mk:i:c:v (= ReservedVector(c,v)) from:i:v1,v2,.. (iterator-range ctor)
//      swap  asg:i (V_i = V_{1-i})  at:i:j
// observation per step: size[elements]front,back for A and B, then (A==B)(A<B)(B<A), then result of at (_ / OOR / value)
#include <config.h>
#include <dune/common/reservedvector.hh>
#include <stdexcept>
#include "c11_common.hh"

template<int n>
static std::string obs1(const Dune::ReservedVector<int, n>& v, std::string& flags)
{
  std::vector<int> a(v.begin(), v.end()), r(v.rbegin(), v.rend());
  std::vector<int> rr(r.rbegin(), r.rend());
  if (a != rr) flags += "!rev";
  if (a.size() != v.size() || v.empty() != (v.size() == 0)) flags += "!len";
  for (std::size_t i = 0; i < a.size(); ++i) if (v[i] != a[i] || v.at(i) != a[i] || v.data()[i] != a[i]) { flags += "!idx"; break; }
  if (v.capacity() != (std::size_t) n || v.max_size() != (std::size_t) n) flags += "!cap";
  std::string s = std::to_string(v.size()) + "[" + c11::seq_str(a.begin(), a.end()) + "]";
  if (v.size() > 0) s += std::to_string(v.front()) + "," + std::to_string(v.back()); else s += "-";
  return s;
}

template<int n>
static void run(const std::vector<std::string>& ops)
{
  using RV = Dune::ReservedVector<int, n>;
  RV V[2];
  for (const auto& o : ops) {
    auto t = c11::split(o, ':');
    std::string flags, at = "_";
    int i = t.size() > 1 ? (int) c11::num(t[1]) : 0;
    RV& v = V[i];
    if (t[0] == "pb") v.push_back((int) c11::num(t[2]));
    else if (t[0] == "pop") v.pop_back();
    else if (t[0] == "rsz") v.resize((std::size_t) c11::num(t[2]));
    else if (t[0] == "cl") v.clear();
    else if (t[0] == "set") v[(std::size_t) c11::num(t[2])] = (int) c11::num(t[3]);
    else if (t[0] == "fill") v.fill((int) c11::num(t[2]));
    else if (t[0] == "mk") v = RV((std::size_t) c11::num(t[2]), (int) c11::num(t[3]));
    else if (t[0] == "from") {
      std::vector<int> src; if (t.size() > 2 && !t[2].empty()) for (auto& x : c11::split(t[2], ',')) src.push_back((int) c11::num(x));
      v = RV(src.begin(), src.end());
    }
    else if (t[0] == "swap") V[0].swap(V[1]);
    else if (t[0] == "asg") v = V[1 - i];
    else if (t[0] == "at") {
      try { at = std::to_string(v.at((std::size_t) c11::num(t[2]))); } catch (std::out_of_range&) { at = "OOR"; }
    }
    else { c11::step_done("UNKNOWN-OP"); continue; }
    const RV& A = V[0]; const RV& B = V[1];
    bool e = (A == B), l1 = (A < B), l2 = (B < A);
    if ((A != B) == e || (A > B) != l2 || (A <= B) != !l2 || (A >= B) != !l1) flags += "!cmp";
    std::string s = obs1<n>(A, flags) + " " + obs1<n>(B, flags) + " " + (e ? "1" : "0") + (l1 ? "1" : "0") + (l2 ? "1" : "0") + " " + at;
    c11::step_done(s + flags);
  }
}

int main(int argc, char** argv)
{
  return c11::main_loop(argc, argv, "rv", [](int n, const std::vector<std::string>& ops) {
    switch (n) {
      case 1: run<1>(ops); break; case 2: run<2>(ops); break; case 3: run<3>(ops); break;
      case 4: run<4>(ops); break; case 5: run<5>(ops); break; case 8: run<8>(ops); break;
      default: c11::step_done("UNKNOWN-N");
    }
  });
}
