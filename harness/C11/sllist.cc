// C11 impl driver for Dune::SLList<int> (two lists L0, L1; public interface only).
// ops (i = list number): pb:i:v pf:i:v pop:i cl:i  mins:i:k:v / mrem:i:k (beginModify(), k increments, insert/remove)
//   mend:i:v endModify().insert(v)   iaft:i:k:v / idel:i:k (iterator at element k: insertAfter / deleteNext)
//   asg:i  L_i = L_{1-i}   self:i  L_i = L_i   cpy:i  L_{1-i} = SLList(L_i)
// observation per step: size,empty[elements] for both lists, then (L0==L1)(L0!=L1), then it=<where the ModifyIterator stands>
// With -DC11_DEEP -fno-access-control (OPTIONAL build; see arraylist.cc) the private members are read instead; observation per step, for both lists:
//   (tail_ is the last node reachable from beforeHead_)(size_ == number of reachable nodes)
#include <config.h>
#include "c11_common.hh"
#include <memory>
#include <cassert>
#include <ostream>
#include <iterator>
#include <type_traits>
#include <utility>
#include <dune/common/sllist.hh>

#ifdef C11_SL_DEFAULT_ALLOC
using SL0 = Dune::SLList<int>;                 // default allocator: needs push_front to compile (see probe_sllist.cc)
#else
// std::allocator lost allocate(n, hint) in C++20, which SLList::push_front of the snapshot still calls;
// this allocator only adds that overload so that the remaining interface can be exercised on such a tree.
template<class T> struct C11Alloc : std::allocator<T> {
  C11Alloc() = default;
  template<class U> C11Alloc(const C11Alloc<U>&) {}
  T* allocate(std::size_t n) { return std::allocator<T>::allocate(n); }
  T* allocate(std::size_t n, const void*) { return std::allocator<T>::allocate(n); }
};
using SL0 = Dune::SLList<int, C11Alloc<int> >;
#endif

template<class SL>
static std::string obs1(const SL& l)
{
  std::vector<int> v;
  for (typename SL::const_iterator i = l.begin(), e = l.end(); i != e; ++i) v.push_back((int) *i);
  return std::to_string(l.size()) + "," + (l.empty() ? "1" : "0") + "[" + c11::seq_str(v.begin(), v.end()) + "]";
}

template<class SL>
static void run_t(const std::vector<std::string>& ops)
{
  using T = typename SL::MemberType;
  {
  SL L[2];
  for (const auto& o : ops) {
    auto t = c11::split(o, ':');
    std::string flags, itpos = "_";                 // where the ModifyIterator stands afterwards: _ none used, - endModify(), else *it
    int i = t.size() > 1 ? (int) c11::num(t[1]) : 0;
    SL& l = L[i];
    auto elem = [&](long k) -> const T& { typename SL::const_iterator c = static_cast<const SL&>(l).begin(); for (; k > 0; --k) ++c; return *c; };
    if (t[0] == "pb") l.push_back(T((int) c11::num(t[2])));
    else if (t[0] == "pf") l.push_front(T((int) c11::num(t[2])));
    else if (t[0] == "pbe") l.push_back(elem(c11::num(t[2])));                    // ALIASING: the argument is an element of the list itself
    else if (t[0] == "pfe") l.push_front(elem(c11::num(t[2])));
    else if (t[0] == "minse") {                                                   // ModifyIterator::insert of an element of the same list
      typename SL::ModifyIterator it = l.beginModify();
      for (long k = c11::num(t[2]); k > 0; --k) ++it;
      it.insert(elem(c11::num(t[3])));
      itpos = (it == l.endModify()) ? std::string("-") : std::to_string((int) *it);
    }
    else if (t[0] == "pop") l.pop_front();
    else if (t[0] == "cl") l.clear();
    else if (t[0] == "mins") {
      typename SL::ModifyIterator it = l.beginModify();
      for (long k = c11::num(t[2]); k > 0; --k) ++it;
      bool atend = (it == l.endModify()); int before = atend ? 0 : (int) *it;
      it.insert(T((int) c11::num(t[3])));
      if (atend ? !(it == l.endModify()) : ((int) *it != before)) flags += "!mins";   // "will point to the same element as before"
      itpos = (it == l.endModify()) ? std::string("-") : std::to_string((int) *it);
    }
    else if (t[0] == "mrem") {
      typename SL::ModifyIterator it = l.beginModify();
      long k = c11::num(t[2]);
      for (long j = k; j > 0; --j) ++it;
      it.remove();
      // "positioned at the next position after the deletion"
      typename SL::const_iterator c = static_cast<const SL&>(l).begin(); for (long j = k; j > 0; --j) ++c;
      if (c == static_cast<const SL&>(l).end() ? !(it == l.endModify()) : (it == l.endModify() || (int) *it != (int) *c)) flags += "!mrem";
      itpos = (it == l.endModify()) ? std::string("-") : std::to_string((int) *it);
    }
    else if (t[0] == "mend") {
      typename SL::ModifyIterator it = l.endModify(); it.insert(T((int) c11::num(t[2])));
      itpos = (it == l.endModify()) ? std::string("-") : std::to_string((int) *it);
    }
    else if (t[0] == "iaft") { typename SL::iterator it = l.begin(); for (long k = c11::num(t[2]); k > 0; --k) ++it; it.insertAfter(T((int) c11::num(t[3]))); }
    else if (t[0] == "idel") { typename SL::iterator it = l.begin(); for (long k = c11::num(t[2]); k > 0; --k) ++it; it.deleteNext(); }
    else if (t[0] == "asg") l = L[1 - i];
    else if (t[0] == "self") { SL& alias = L[i]; l = alias; }
    else if (t[0] == "cpy") {
      SL tmp(l); if (!(tmp == l) || tmp != l) flags += "!cpy"; L[1 - i] = tmp;
      std::vector<int> before; for (typename SL::const_iterator x = static_cast<const SL&>(l).begin(); x != static_cast<const SL&>(l).end(); ++x) before.push_back((int) *x);
      tmp.push_back(T(-1)); tmp.push_front(T(-2)); tmp.pop_front(); if (!tmp.empty()) tmp.beginModify().remove();   // the source is unaffected
      std::vector<int> after; for (typename SL::const_iterator x = static_cast<const SL&>(l).begin(); x != static_cast<const SL&>(l).end(); ++x) after.push_back((int) *x);
      if (before != after) flags += "!cpysrc";
    }
    else { c11::step_done("UNKNOWN-OP"); continue; }
#ifdef C11_DEEP
    {
      std::string dp;
      for (int q = 0; q < 2; ++q) {
        auto* e = &L[q].beforeHead_; int n = 0;
        while (e->next_) { e = e->next_; ++n; }
        if (q) dp += " ";
        dp += (e == L[q].tail_) ? "1" : "0";
        dp += (n == L[q].size_) ? "1" : "0";
      }
      c11::step_done(dp);
      continue;
    }
#endif
    // secondary access paths: iterator, const_iterator and ModifyIterator walked in lockstep (all equals() overloads, conversions,
    // post-increment), and operator<<
    for (int q = 0; q < 2; ++q) {
      SL& m = L[q]; const SL& c = L[q];
      typename SL::iterator it = m.begin(); typename SL::const_iterator cit = c.begin(); typename SL::ModifyIterator mit = m.beginModify();
      int cnt = 0; bool ok = true;
      while (cit != c.end()) {
        if (it == m.end() || mit == m.endModify()) { ok = false; break; }
        if (!(it == cit) || !(it == mit) || !(mit == it) || !(mit == cit) || !(mit == mit) || !(cit == typename SL::const_iterator(it))) ok = false;
        if ((int) *it != (int) *cit || (int) *mit != (int) *cit || (int) *typename SL::const_iterator(mit) != (int) *cit || (int) *typename SL::iterator(mit) != (int) *cit) ok = false;
        typename SL::iterator oit = it++; typename SL::const_iterator ocit = cit++; typename SL::ModifyIterator omit = mit++;
        if (!(oit == ocit) || !(omit == ocit) || (it != m.end() && oit == it)) ok = false;
        ++cnt;
      }
      if (!ok || !(it == m.end()) || !(mit == m.endModify()) || cnt != c.size()) flags += "!walk";
      std::ostringstream os; os << c; std::vector<int> pv; std::string tok; std::istringstream is(os.str());
      while (is >> tok) { bool num = !tok.empty(); for (char ch : tok) if (!(ch >= '0' && ch <= '9') && ch != '-') num = false; if (num) pv.push_back(std::stoi(tok)); }
      std::vector<int> cv; for (typename SL::const_iterator x = c.begin(); x != c.end(); ++x) cv.push_back((int) *x);
      if (pv != cv) flags += "!print";
    }
    // mutable iteration sees the same as const iteration
    for (int q = 0; q < 2; ++q) {
      std::vector<int> a, b;
      for (typename SL::iterator x = L[q].begin(); x != L[q].end(); ++x) a.push_back((int) *x);
      const SL& c = L[q];
      for (typename SL::const_iterator x = c.begin(); x != c.end(); ++x) b.push_back((int) *x);
      if (a != b) flags += "!iter";
    }
    // ROLES / self arguments: every list as receiver and as argument of the comparisons, and compared with itself
    if ((L[1] == L[0]) != (L[0] == L[1]) || (L[1] != L[0]) != (L[0] != L[1]) || !(L[0] == L[0]) || (L[1] != L[1])) flags += "!cmproles";
    c11::step_done(obs1(L[0]) + " " + obs1(L[1]) + " " + (L[0] == L[1] ? "1" : "0") + (L[0] != L[1] ? "1" : "0") + " it=" + itpos + flags);
  }
}
  c11::leak_step();
}

int main(int argc, char** argv)
{
  // element-type family: param 0 = int, 2 = instance-tracking element type
  return c11::main_loop(argc, argv, "sl", [](int k, const std::vector<std::string>& ops) {
    if (k == 2) run_t<Dune::SLList<c11::Tracked> >(ops); else run_t<SL0>(ops); });
}
