// C11 impl driver for Dune::SLList<int> (two lists L0, L1; public interface only).
// ops (i = list number): pb:i:v pf:i:v pop:i cl:i  mins:i:k:v / mrem:i:k (beginModify(), k increments, insert/remove)
//   mend:i:v endModify().insert(v)   iaft:i:k:v / idel:i:k (iterator at element k: insertAfter / deleteNext)
//   asg:i  L_i = L_{1-i}   self:i  L_i = L_i   cpy:i  L_{1-i} = SLList(L_i)
// observation per step: size,empty[elements] for both lists, then (L0==L1)(L0!=L1), then it=<where the ModifyIterator stands>
// With -DC11_DEEP -fno-access-control (OPTIONAL build; see arraylist.cc) the private members are read instead; observation per step, for both lists:
//   (tail_ is the last node reachable from beforeHead_)(size_ == number of reachable nodes)
#include <config.h>
#include "c11_common.hh"
#include <memory>
#include <cassert>
#include <ostream>
#include <iterator>
#include <type_traits>
#include <utility>
#include <dune/common/sllist.hh>

#ifdef C11_SL_DEFAULT_ALLOC
using SL = Dune::SLList<int>;                 // default allocator: needs push_front to compile (see probe_sllist.cc)
#else
// std::allocator lost allocate(n, hint) in C++20, which SLList::push_front of the snapshot still calls;
// this allocator only adds that overload so that the remaining interface can be exercised on such a tree.
template<class T> struct C11Alloc : std::allocator<T> {
  C11Alloc() = default;
  template<class U> C11Alloc(const C11Alloc<U>&) {}
  T* allocate(std::size_t n) { return std::allocator<T>::allocate(n); }
  T* allocate(std::size_t n, const void*) { return std::allocator<T>::allocate(n); }
};
using SL = Dune::SLList<int, C11Alloc<int> >;
#endif

static std::string obs1(const SL& l)
{
  std::vector<int> v;
  for (SL::const_iterator i = l.begin(), e = l.end(); i != e; ++i) v.push_back(*i);
  return std::to_string(l.size()) + "," + (l.empty() ? "1" : "0") + "[" + c11::seq_str(v.begin(), v.end()) + "]";
}

static void run(const std::vector<std::string>& ops)
{
  SL L[2];
  for (const auto& o : ops) {
    auto t = c11::split(o, ':');
    std::string flags, itpos = "_";                 // where the ModifyIterator stands afterwards: _ none used, - endModify(), else *it
    int i = t.size() > 1 ? (int) c11::num(t[1]) : 0;
    SL& l = L[i];
    if (t[0] == "pb") l.push_back((int) c11::num(t[2]));
    else if (t[0] == "pf") l.push_front((int) c11::num(t[2]));
    else if (t[0] == "pop") l.pop_front();
    else if (t[0] == "cl") l.clear();
    else if (t[0] == "mins") {
      SL::ModifyIterator it = l.beginModify();
      for (long k = c11::num(t[2]); k > 0; --k) ++it;
      bool atend = (it == l.endModify()); int before = atend ? 0 : *it;
      it.insert((int) c11::num(t[3]));
      if (atend ? !(it == l.endModify()) : (*it != before)) flags += "!mins";   // "will point to the same element as before"
      itpos = (it == l.endModify()) ? std::string("-") : std::to_string(*it);
    }
    else if (t[0] == "mrem") {
      SL::ModifyIterator it = l.beginModify();
      long k = c11::num(t[2]);
      for (long j = k; j > 0; --j) ++it;
      it.remove();
      // "positioned at the next position after the deletion"
      SL::const_iterator c = static_cast<const SL&>(l).begin(); for (long j = k; j > 0; --j) ++c;
      if (c == static_cast<const SL&>(l).end() ? !(it == l.endModify()) : (it == l.endModify() || *it != *c)) flags += "!mrem";
      itpos = (it == l.endModify()) ? std::string("-") : std::to_string(*it);
    }
    else if (t[0] == "mend") {
      SL::ModifyIterator it = l.endModify(); it.insert((int) c11::num(t[2]));
      itpos = (it == l.endModify()) ? std::string("-") : std::to_string(*it);
    }
    else if (t[0] == "iaft") { SL::iterator it = l.begin(); for (long k = c11::num(t[2]); k > 0; --k) ++it; it.insertAfter((int) c11::num(t[3])); }
    else if (t[0] == "idel") { SL::iterator it = l.begin(); for (long k = c11::num(t[2]); k > 0; --k) ++it; it.deleteNext(); }
    else if (t[0] == "asg") l = L[1 - i];
    else if (t[0] == "self") { SL& alias = L[i]; l = alias; }
    else if (t[0] == "cpy") { SL tmp(l); if (!(tmp == l) || tmp != l) flags += "!cpy"; L[1 - i] = tmp; }
    else { c11::step_done("UNKNOWN-OP"); continue; }
#ifdef C11_DEEP
    {
      std::string dp;
      for (int q = 0; q < 2; ++q) {
        auto* e = &L[q].beforeHead_; int n = 0;
        while (e->next_) { e = e->next_; ++n; }
        if (q) dp += " ";
        dp += (e == L[q].tail_) ? "1" : "0";
        dp += (n == L[q].size_) ? "1" : "0";
      }
      c11::step_done(dp);
      continue;
    }
#endif
    // secondary access paths: iterator, const_iterator and ModifyIterator walked in lockstep (all equals() overloads, conversions,
    // post-increment), and operator<<
    for (int q = 0; q < 2; ++q) {
      SL& m = L[q]; const SL& c = L[q];
      SL::iterator it = m.begin(); SL::const_iterator cit = c.begin(); SL::ModifyIterator mit = m.beginModify();
      int cnt = 0; bool ok = true;
      while (cit != c.end()) {
        if (it == m.end() || mit == m.endModify()) { ok = false; break; }
        if (!(it == cit) || !(it == mit) || !(mit == it) || !(mit == cit) || !(mit == mit) || !(cit == SL::const_iterator(it))) ok = false;
        if (*it != *cit || *mit != *cit || *SL::const_iterator(mit) != *cit || *SL::iterator(mit) != *cit) ok = false;
        SL::iterator oit = it++; SL::const_iterator ocit = cit++; SL::ModifyIterator omit = mit++;
        if (!(oit == ocit) || !(omit == ocit) || (it != m.end() && oit == it)) ok = false;
        ++cnt;
      }
      if (!ok || !(it == m.end()) || !(mit == m.endModify()) || cnt != c.size()) flags += "!walk";
      std::ostringstream os; os << c; std::vector<int> pv; std::string tok; std::istringstream is(os.str());
      while (is >> tok) { bool num = !tok.empty(); for (char ch : tok) if (!(ch >= '0' && ch <= '9') && ch != '-') num = false; if (num) pv.push_back(std::stoi(tok)); }
      std::vector<int> cv; for (SL::const_iterator x = c.begin(); x != c.end(); ++x) cv.push_back(*x);
      if (pv != cv) flags += "!print";
    }
    // mutable iteration sees the same as const iteration
    for (int q = 0; q < 2; ++q) {
      std::vector<int> a, b;
      for (SL::iterator x = L[q].begin(); x != L[q].end(); ++x) a.push_back(*x);
      const SL& c = L[q];
      for (SL::const_iterator x = c.begin(); x != c.end(); ++x) b.push_back(*x);
      if (a != b) flags += "!iter";
    }
    c11::step_done(obs1(L[0]) + " " + obs1(L[1]) + " " + (L[0] == L[1] ? "1" : "0") + (L[0] != L[1] ? "1" : "0") + " it=" + itpos + flags);
  }
}

int main(int argc, char** argv)
{
  return c11::main_loop(argc, argv, "sl", [](int, const std::vector<std::string>& ops) { run(ops); });
}
