// C12 impl driver: executes the case file on Dune::ParameterTree / Dune::ParameterTreeParser built
// from the working tree.  One flushed output line per case, same canonical form as ml/C12_driver.ml.
// Only the public interface is used.
#include <config.h>
#include <array>
#include <bitset>
#include <cstdio>
#include <cstring>
#include <cstdint>
#include <unistd.h>
#include <sys/wait.h>
#include <sys/mman.h>
#include <iomanip>
#include <fstream>
#include <iostream>
#include <locale>
#include <sstream>
#include <string>
#include <vector>
#include <dune/common/exceptions.hh>
#include <dune/common/fvector.hh>
#include <dune/common/parametertree.hh>
#include <dune/common/parametertreeparser.hh>

using Dune::ParameterTree;
using Dune::ParameterTreeParser;

static std::string hex(const std::string& s)
{
  static const char* d = "0123456789abcdef";
  std::string r;
  for (unsigned char c : s) { r += d[c >> 4]; r += d[c & 15]; }
  return r;
}
static std::string unhex(const std::string& s)   // without the leading x
{
  std::string r;
  for (std::size_t i = 0; i + 1 < s.size(); i += 2) r += (char) std::stoi(s.substr(i, 2), nullptr, 16);
  return r;
}
static std::string strField(const std::string& f) { return unhex(f.substr(1)); }
static std::vector<std::string> listField(const std::string& f)
{
  std::vector<std::string> r;
  if (f == "-") return r;
  std::size_t a = 0;
  while (true) {
    std::size_t b = f.find(',', a);
    r.push_back(strField(f.substr(a, b == std::string::npos ? b : b - a)));
    if (b == std::string::npos) break;
    a = b + 1;
  }
  return r;
}
static std::vector<std::string> fields(const std::string& line)
{
  std::vector<std::string> r; std::istringstream is(line); std::string t;
  while (is >> t) r.push_back(t);
  return r;
}

template<class F>
static std::string guarded(F&& f)   // status of a parser call
{
  try { f(); return "ok"; }
  catch (const Dune::ParameterTreeParserError&) { return "ParameterTreeParserError"; }
  catch (const Dune::HelpRequest&) { return "HelpRequest"; }
  catch (const Dune::RangeError&) { return "RangeError"; }
  catch (const Dune::Exception&) { return "Dune::Exception"; }
  catch (const std::exception& e) { return std::string("std::exception:") + e.what(); }
}

static std::string dump(const ParameterTree& t)
{
  std::string r = "{";
  for (const auto& k : t.getValueKeys()) {
    r += hex(k) + "=";
    try { r += hex(t[k]); } catch (const Dune::RangeError&) { r += "!"; }
    r += ";";
  }
  r += "|";
  for (const auto& k : t.getSubKeys()) {
    r += hex(k);
    try { const ParameterTree& s = t.sub(k); r += dump(s); } catch (const Dune::RangeError&) { r += "!"; }
  }
  return r + "}";
}

static std::string query(const ParameterTree& t, const std::string& k)
{
  std::string r = "h";
  try { r += t.hasKey(k) ? "1" : "0"; } catch (const Dune::RangeError&) { r += "E"; }
  r += "s";
  try { r += t.hasSub(k) ? "1" : "0"; } catch (const Dune::RangeError&) { r += "E"; }
  r += "g";
  try { r += "x" + hex(t.get(k, std::string("DFLT"))); } catch (const Dune::RangeError&) { r += "E"; }
  return r;
}

static std::string tmpFile()
{
  static std::string name = "/tmp/c12_harness_" + std::to_string((long) getpid()) + ".ini";
  return name;
}

// the remaining public members on the tree obtained for a case (op "inif")
static std::string fullApi(const ParameterTree& pt, const std::vector<std::string>& qs)
{
  std::string out;
  const std::string before = "";
  std::size_t n = 0;
  for (const auto& k : qs) {
    if (n++ >= 3) break;
    out += " c";
    try { out += "x" + hex(pt.get(k, "DFLT")); } catch (const Dune::RangeError&) { out += "E"; }
    out += "o";   // const operator[] directly (get() tests hasKey first)
    try { out += "x" + hex(pt[k]); } catch (const Dune::RangeError&) { out += "E"; }
    out += "T";
    try { out += [&]{ const ParameterTree& s = pt.sub(k, true); return std::string("{") + std::to_string(s.getValueKeys().size()) + "," + std::to_string(s.getSubKeys().size()) + "}"; }(); }
    catch (const Dune::RangeError&) { out += "E"; }
    out += "F";
    try { const ParameterTree& s = pt.sub(k, false); out += "{" + std::to_string(s.getValueKeys().size()) + "," + std::to_string(s.getSubKeys().size()) + "}"; }
    catch (const Dune::RangeError&) { out += "E"; }
    // non-const sub() on a copy: creates the path (possibly partially before a RangeError)
    ParameterTree cp(pt);
    out += "M";
    try { ParameterTree& s = cp.sub(k); out += std::to_string(s.getValueKeys().size()); } catch (const Dune::RangeError&) { out += "E"; }
    std::string d; try { d = std::string(cp.hasSub(k) ? "1" : "0"); } catch (const Dune::RangeError&) { d = "E"; }
    out += d + "#" + std::to_string(cp.getSubKeys().size());
  }
  // report of the tree, and of a subtree (const sub of the first query)
  { std::ostringstream os; pt.report(os, "P:"); out += " R=" + hex(os.str()); }
  if (!qs.empty()) {
    try { std::ostringstream os; pt.sub(qs[0]).report(os); out += " r=" + hex(os.str()); } catch (const Dune::RangeError&) { out += " r=E"; }
  }
  // ALIASING: the source of an assignment is a subtree of the target (t = t.sub(k)) or contains the target
  // (t.sub(k) = t); value semantics: the source is read before the target is written.  Run in a child process: with
  // the implicitly generated operator= this is undefined behaviour (F-C12-4) and may corrupt the heap.
  if (!qs.empty()) {
    std::string want = "E";
    try { want = dump(pt.sub(qs[0])); } catch (const Dune::RangeError&) {}
    std::string verdict = "ok";
#if defined(__SANITIZE_ADDRESS__)
    const unsigned stride = 16;      // fork() is expensive under ASan
#else
    const unsigned stride = 3;
#endif
    static unsigned counter = 0;
    if (want != "E" && (counter++ % stride == 0)) {
      std::cout.flush();
      int fd[2]; if (pipe(fd) != 0) return out + " AL=pipe-error";
      pid_t pid = fork();
      if (pid == 0) {
        close(fd[0]);
        alarm(5);                    // undefined behaviour may also loop for ever
        char r = 'o';
        try {
          std::string d0 = dump(pt);
          { ParameterTree al(pt); const ParameterTree& cal = al; al = cal.sub(qs[0]); if (dump(al) != want) r = 's'; }
          if (r == 'o' && pt.hasSub(qs[0])) { ParameterTree al(pt); al.sub(qs[0]) = al; const ParameterTree& cal = al; if (dump(cal.sub(qs[0])) != d0) r = 'c'; }
        } catch (...) { r = 'x'; }
        (void) !write(fd[1], &r, 1);
        _exit(0);
      }
      close(fd[1]);
      char r = 0; ssize_t n = read(fd[0], &r, 1); close(fd[0]);
      int status = 0; waitpid(pid, &status, 0);
      if (n != 1) verdict = "crash-or-hang";
      else if (r == 's') verdict = "subtree-into-tree-wrong";
      else if (r == 'c') verdict = "tree-into-its-subtree-wrong";
      else if (r == 'x') verdict = "exception";
    }
    out += " AL=" + verdict;
  }
  // a COPY of a subtree (it keeps the subtree's prefix; a copy of a missing subtree is the static empty tree with
  // prefix "<unknown>") as receiver of operator[] and source of report()
  if (!qs.empty()) {
    try { ParameterTree sc(pt.sub(qs[0])); sc["n.m"] = "1"; std::ostringstream os; sc.report(os); out += " rc=" + hex(os.str()); }
    catch (const Dune::RangeError&) { out += " rc=E"; }
  }
  // report() read back by readINITree into an empty tree (what the suite's testReport does for one tree)
  {
    std::stringstream os; pt.report(os);
    ParameterTree back;
    std::string st = guarded([&] { ParameterTreeParser::readINITree(os, back, true); });
    out += " rr=" + st + ":" + dump(back) + " rt=";
  }
  // copy construction, assignment, move: deep and independent of later changes of the source
  {
    std::string d0 = dump(pt);
    ParameterTree a(pt), b, src(pt);
    b["junk"] = "1";
    b = pt;
    try { src["zz.new"] = "1"; src.sub("zz2"); } catch (const Dune::RangeError&) {}
    ParameterTree m(std::move(a));
    ParameterTree m2; m2 = std::move(b);
    std::string c = (dump(m) == d0 ? "" : "move-ctor ") + std::string(dump(m2) == d0 ? "" : "move-assign ") + (dump(pt) == d0 ? "" : "source ");
    ParameterTree self(pt); self = *&self;
    if (dump(self) != d0) c += "self-assign ";
    { // swap; a moved-from tree must be assignable and usable again
      ParameterTree x(pt), y; y["s"] = "1";
      std::swap(x, y);
      if (dump(y) != d0 || dump(x) != "{73=31;|}") c += "swap ";
      ParameterTree z(std::move(y));
      y = pt; if (dump(y) != d0) c += "assign-to-moved-from ";
      ParameterTree w(std::move(y)); y["n"] = "2";
      try { if (!y.hasKey("n") || y.get<int>("n") != 2) c += "use-moved-from "; } catch (const Dune::Exception&) { c += "use-moved-from "; }
    }
    { // DIMENSION AUDIT 2 (A): assignment / move-assignment / swap / assignment through a subtree reference onto a
      // target that ALREADY HOLDS OTHER content (values, nested subtrees, its own key order, a prefix): the result
      // must be exactly what a fresh target gives -- in the key lists (dump) AND in the maps (report) -- and
      // nothing of the old content may be reachable any more
      auto state = [](const ParameterTree& t) { std::ostringstream os; t.report(os, "S:"); return dump(t) + "/" + os.str(); };
      auto old = [] { ParameterTree o; o["junk"] = "1"; o["old.deep.k"] = "2"; o["old.v"] = "3"; o["a"] = "old-a"; o["zz.new"] = "9"; o["b.c"] = "old-bc"; return o; };
      static const char* oldKeys[] = {"junk", "old.deep.k", "old.v", "a", "zz.new", "b.c", "old", "old.deep", "zz", "b"};
      auto probe = [&](const ParameterTree& t) {
        std::string r;
        for (const char* k : oldKeys) {
          try { r += t.hasKey(k) ? "1" : "0"; } catch (const Dune::RangeError&) { r += "E"; }
          try { r += t.hasSub(k) ? "1" : "0"; } catch (const Dune::RangeError&) { r += "E"; }
        }
        return r;
      };
      const ParameterTree fresh(pt);
      const std::string want = state(fresh) + probe(fresh), wantOld = state(old());
      { ParameterTree t1 = old(); t1 = pt; if (state(t1) + probe(t1) != want) c += "assign-onto-content "; }
      { ParameterTree t2 = old(); t2 = ParameterTree(pt); if (state(t2) + probe(t2) != want) c += "move-assign-onto-content "; }
      { ParameterTree t3 = old(); t3.sub("old") = pt; const ParameterTree& c3 = t3;
        if (state(c3.sub("old")) + probe(c3.sub("old")) != want || !c3.hasKey("junk") || c3.getSubKeys().size() != 3) c += "assign-onto-subtree "; }
      { ParameterTree x(pt), y = old(); std::swap(x, y);
        if (state(y) + probe(y) != want || state(x) != wantOld) c += "swap-with-content "; }
      { ParameterTree t5 = old(); ParameterTree e; t5 = e; if (state(t5) != "{|}/" || probe(t5) != std::string(20, '0')) c += "assign-empty-onto-content "; }
    }
    { // DIMENSION AUDIT 2 (C): report() into a stream with unusual formatting state (only strings are printed)
      std::ostringstream a1, a3; pt.report(a1, "");
      a3 << std::hex << std::showbase << std::uppercase << std::left << std::boolalpha << std::setprecision(2); a3.fill('*');
      pt.report(a3, "");
      if (a1.str() != a3.str()) c += "report-fmtflags ";
    }
    { // report() with its default arguments (std::cout, "") = report(os, "")
      std::ostringstream a1, a2; pt.report(a1, "");
      std::streambuf* old = std::cout.rdbuf(a2.rdbuf()); pt.report(); std::cout.rdbuf(old);
      if (a1.str() != a2.str()) c += "report-defaults ";
    }
    out += " C=" + (c.empty() ? std::string("ok") : c);
  }
  return out;
}

static void readDoc(const std::string& doc, ParameterTree& pt, bool ow)
{
  std::istringstream in(doc);
  ParameterTreeParser::readINITree(in, pt, ow);
}

template<class T> static std::string show(const T& v) { return std::to_string(v); }
static std::string show(const double& v)   // exact: the IEEE bit pattern
{
  std::uint64_t b; std::memcpy(&b, &v, sizeof b);
  char buf[32]; std::snprintf(buf, sizeof buf, "d:%016llx", (unsigned long long) b); return buf;
}
static std::string show(const float& v)
{
  std::uint32_t b; std::memcpy(&b, &v, sizeof b);
  char buf[32]; std::snprintf(buf, sizeof buf, "f:%08x", (unsigned) b); return buf;
}
template<class T> static std::string show(const std::vector<T>& v);
static std::string show(const char& v) { return "x" + std::string(1, "0123456789abcdef"[(unsigned char) v >> 4]) + std::string(1, "0123456789abcdef"[v & 15]); }
static std::string show(const bool& v) { return v ? "1" : "0"; }
static std::string show(const std::string& v) { return "x" + hex(v); }
template<class T> static std::string showSeq(const T& v)
{
  std::string r = "["; bool first = true;
  for (const auto& x : v) { if (!first) r += ","; first = false; r += show(x); }
  return r + "]";
}
template<class T, std::size_t n> static std::string show(const std::array<T, n>& v) { return showSeq(v); }
template<class T> static std::string show(const std::vector<T>& v) { return showSeq(v); }
template<class T, int n> static std::string show(const Dune::FieldVector<T, n>& v) { return showSeq(v); }
static std::string show(const std::vector<bool>& v)
{
  std::string r = "["; for (std::size_t i = 0; i < v.size(); ++i) { if (i) r += ","; r += v[i] ? "1" : "0"; } return r + "]";
}
template<std::size_t n> static std::string show(const std::bitset<n>& v)
{
  std::string r; for (std::size_t i = 0; i < n; ++i) r += v[i] ? "1" : "0"; return r;
}

template<class T>
static std::string getAs(const std::string& value)
{
  ParameterTree pt;
  pt["k"] = value;
  try { return "OK " + show(pt.get<T>("k")); }
  catch (const Dune::RangeError&) { return "EXC RangeError"; }
  catch (const Dune::Exception&) { return "EXC Dune::Exception"; }
  catch (const std::exception& e) { return std::string("EXC std::exception:") + e.what(); }
}

template<class T>
static std::string getAsChar(const std::string& value)   // the character types are extracted as characters
{
  ParameterTree pt; pt["k"] = value;
  try { return "OK " + show((char) pt.get<T>("k")); }
  catch (const Dune::RangeError&) { return "EXC RangeError"; }
}

static std::string getCase(const std::string& ty, const std::string& v)
{
  if (ty == "int") return getAs<int>(v);
  if (ty == "long") return getAs<long>(v);
  if (ty == "uint") return getAs<unsigned int>(v);
  if (ty == "ulong") return getAs<unsigned long>(v);
  if (ty == "bool") return getAs<bool>(v);
  if (ty == "string") return getAs<std::string>(v);
  if (ty == "arr3") return getAs<std::array<int, 3>>(v);
  if (ty == "arr1") return getAs<std::array<int, 1>>(v);
  if (ty == "arr2l") return getAs<std::array<long, 2>>(v);
  if (ty == "arr2u") return getAs<std::array<unsigned int, 2>>(v);
  if (ty == "vec") return getAs<std::vector<int>>(v);
  if (ty == "vecs") return getAs<std::vector<std::string>>(v);
  if (ty == "bits4") return getAs<std::bitset<4>>(v);
  if (ty == "bits1") return getAs<std::bitset<1>>(v);
  if (ty == "bits8") return getAs<std::bitset<8>>(v);
  if (ty == "bits0") return getAs<std::bitset<0>>(v);
  if (ty == "llong") return getAs<long long>(v);
  if (ty == "ullong") return getAs<unsigned long long>(v);
  if (ty == "uchar") return getAsChar<unsigned char>(v);
  if (ty == "schar") return getAsChar<signed char>(v);
  if (ty == "flt") return getAs<float>(v);
  if (ty == "vecf") return getAs<std::vector<float>>(v);
  if (ty == "arr2d") return getAs<std::array<double, 2>>(v);
  if (ty == "vecvec") return getAs<std::vector<std::vector<int>>>(v);
  if (ty == "short") return getAs<short>(v);
  if (ty == "ushort") return getAs<unsigned short>(v);
  if (ty == "char") return getAs<char>(v);
  if (ty == "dbl") return getAs<double>(v);
  if (ty == "arr0") return getAs<std::array<int, 0>>(v);
  if (ty == "arr2") return getAs<std::array<int, 2>>(v);
  if (ty == "arrs2") return getAs<std::array<std::string, 2>>(v);
  if (ty == "fv3") return getAs<Dune::FieldVector<int, 3>>(v);
  if (ty == "fv1l") return getAs<Dune::FieldVector<long, 1>>(v);
  if (ty == "fv2d") return getAs<Dune::FieldVector<double, 2>>(v);
  if (ty == "vecd") return getAs<std::vector<double>>(v);
  if (ty == "vecu") return getAs<std::vector<unsigned int>>(v);
  if (ty == "vecl") return getAs<std::vector<long>>(v);
  if (ty == "vecb") return getAs<std::vector<bool>>(v);
  // get(key, default) overloads: template (bool, double), std::string, const char*
  if (ty.size() > 3 && ty.compare(ty.size() - 3, 2, "or") == 0) {
    ParameterTree pt;
    if (ty.back() == '1') pt["k"] = v;
    const ParameterTree& cpt = pt;
    std::string base = ty.substr(0, ty.size() - 3);
    try {
      if (base == "bool") return "OK " + show(cpt.get("k", true));
      if (base == "long") return "OK " + show(cpt.get("k", 77L));
      if (base == "str") return "OK " + show(cpt.get("k", std::string("DFLT")));
      if (base == "cstr") return "OK " + show(cpt.get("k", "DFLT"));
      if (base == "vec") return "OK " + show(cpt.get("k", std::vector<int>{7, 8}));
    }
    catch (const Dune::RangeError&) { return "EXC RangeError"; }
  }
  if (ty == "intor0" || ty == "intor1") {
    ParameterTree pt;
    if (ty == "intor1") pt["k"] = v;
    try { return "OK " + show(pt.get("k", 77)); }
    catch (const Dune::RangeError&) { return "EXC RangeError"; }
  }
  return "UNKNOWN-TYPE";
}

// A global C++ locale whose numeric punctuation differs from "C" (decimal comma, grouping):
// ParameterTree must convert independently of it (it imbues the classic locale).
struct CommaPunct : std::numpunct<char>
{
  char do_decimal_point() const override { return ','; }
  char do_thousands_sep() const override { return '.'; }
  std::string do_grouping() const override { return "\3"; }
};

// DIMENSION AUDIT 2 (C): an argument vector in READ-ONLY memory (a write into argv is a crash) whose pointer array
// goes on behind argc with `extra` further non-NULL entries before the terminating NULL ("capacity exceeds size").
struct RoArgv
{
  void* base = nullptr; std::size_t len = 0; char** av = nullptr; int argc = 0;
  RoArgv(const std::vector<std::string>& counted, const std::vector<std::string>& extra)
  {
    std::size_t n = counted.size() + extra.size(), bytes = (n + 1) * sizeof(char*);
    for (const auto& a : counted) bytes += a.size() + 1;
    for (const auto& a : extra) bytes += a.size() + 1;
    len = (bytes / 4096 + 1) * 4096;
    base = mmap(nullptr, len, PROT_READ | PROT_WRITE, MAP_PRIVATE | MAP_ANONYMOUS, -1, 0);
    if (base == MAP_FAILED) { base = nullptr; return; }
    av = static_cast<char**>(base);
    char* p = static_cast<char*>(base) + (n + 1) * sizeof(char*);
    std::size_t i = 0;
    for (const auto* v : {&counted, &extra})
      for (const auto& a : *v) { std::memcpy(p, a.c_str(), a.size() + 1); av[i++] = p; p += a.size() + 1; }
    av[i] = nullptr;
    argc = (int) counted.size();
    mprotect(base, len, PROT_READ);
  }
  ~RoArgv() { if (base) munmap(base, len); }
  RoArgv(const RoArgv&) = delete;
};

int main(int argc, char** argv)
{
  if (argc > 2 && std::string(argv[2]) == "comma-locale")
    std::locale::global(std::locale(std::locale::classic(), new CommaPunct));
  std::ifstream in(argv[1]);
  std::string line;
  while (std::getline(in, line)) {
    std::vector<std::string> t = fields(line);
    std::string out;
    if (t.empty()) out = "UNKNOWN-OP";
    else if (t[0] == "ini" || t[0] == "inif") {
      bool ow = t[1] == "1";
      ParameterTree pt;
      guarded([&] { readDoc(strField(t[2]), pt, true); });
      ParameterTree pre(pt);
      std::string st = guarded([&] { readDoc(strField(t[3]), pt, ow); });
      std::string obs = st + " " + dump(pt);
      out = obs + " Q:";
      bool first = true;
      std::vector<std::string> qs = listField(t[4]);
      for (const auto& k : qs) { if (!first) out += ","; first = false; out += query(pt, k); }
      if (t[0] == "inif") {
        out += fullApi(pt, qs);
        // the other readINITree overloads must do the same as the one above
        std::string doc = strField(t[3]), ov;
        { std::ofstream f(tmpFile(), std::ios::binary); f.write(doc.data(), (std::streamsize) doc.size()); }
        { ParameterTree p2(pre); std::string s2 = guarded([&] { ParameterTreeParser::readINITree(tmpFile(), p2, ow); });
          if (s2 + " " + dump(p2) != obs) ov += "file+tree "; }
        { ParameterTree p2(pre); std::istringstream in(doc);
          std::string s2 = guarded([&] { ParameterTreeParser::readINITree(in, p2, "a source name", ow); });
          if (s2 + " " + dump(p2) != obs) ov += "stream+srcname "; }
        { // the overloads that return a tree start from an empty one and overwrite
          ParameterTree e; std::string s0 = guarded([&] { readDoc(doc, e, true); }); std::string o0 = s0 + " " + dump(e);
          // (audit 2, A) the receiving trees already hold other content
          ParameterTree r1, r2;
          r1["junk"] = "1"; r1["old.deep.k"] = "2"; r2["a"] = "old"; r2["a2.b"] = "old";
          std::string s1 = guarded([&] { std::istringstream in(doc); r1 = ParameterTreeParser::readINITree(in); });
          std::string s2 = guarded([&] { r2 = ParameterTreeParser::readINITree(tmpFile()); });
          auto rep = [](const ParameterTree& t) { std::ostringstream os; t.report(os); return os.str(); };
          if (s1 != s0 || (s0 == "ok" && (s1 + " " + dump(r1) != o0 || rep(r1) != rep(e)))) ov += "stream-returning ";
          if (s2 != s0 || (s0 == "ok" && (s2 + " " + dump(r2) != o0 || rep(r2) != rep(e)))) ov += "file-returning ";
        }
        { // (audit 2, C/A) attributes and earlier use of the input stream: a stream that has been read in part, a
          // stream without skipws, a stream that was read to its end before and rewound
          { ParameterTree p2(pre); std::istringstream in("skipped = line\n" + doc); std::string l; std::getline(in, l);
            std::string s2 = guarded([&] { ParameterTreeParser::readINITree(in, p2, ow); });
            if (s2 + " " + dump(p2) != obs) ov += "stream-preconsumed "; }
          { ParameterTree p2(pre); std::istringstream in(doc); in >> std::noskipws >> std::hex; in.width(3);
            std::string s2 = guarded([&] { ParameterTreeParser::readINITree(in, p2, ow); });
            if (s2 + " " + dump(p2) != obs) ov += "stream-noskipws "; }
          { ParameterTree scratch, p2(pre); std::istringstream in(doc);
            guarded([&] { ParameterTreeParser::readINITree(in, scratch, true); });
            in.clear(); in.seekg(0);
            std::string s2 = guarded([&] { ParameterTreeParser::readINITree(in, p2, ow); });
            if (s2 + " " + dump(p2) != obs) ov += "stream-rewound "; }
        }
        if (ow) { // default arguments: readINITree(in, pt) and readINITree(file, pt) overwrite
          { ParameterTree p2(pre); std::istringstream in(doc); std::string s2 = guarded([&] { ParameterTreeParser::readINITree(in, p2); });
            if (s2 + " " + dump(p2) != obs) ov += "stream-defaults "; }
          { ParameterTree p2(pre); std::string s2 = guarded([&] { ParameterTreeParser::readINITree(tmpFile(), p2); });
            if (s2 + " " + dump(p2) != obs) ov += "file-defaults "; }
        }
        std::remove(tmpFile().c_str());     // nothing is left behind even if a later case kills the process
        out += " ov=" + (ov.empty() ? std::string("ok") : ov);
      }
    }
    else if (t[0] == "seq") {
      // an object history: several sources / command lines read one after the other into the same tree -- or into
      // a subtree of it (t[1], "-" = the tree itself) -- going on after every exception
      ParameterTree root;
      out = "";
      for (std::size_t i = 2; i + 1 < t.size(); i += 2) {
        std::string st;
        try {
          ParameterTree& target = (t[1] == "-") ? root : root.sub(strField(t[1]));
          if (t[i][0] == 'I') st = guarded([&] { readDoc(strField(t[i+1]), target, t[i][1] == '1'); });
          else {
            std::vector<std::string> args = listField(t[i+1]);
            std::vector<std::vector<char>> store; store.emplace_back(std::vector<char>{'p', 0});
            for (const auto& a : args) { store.emplace_back(a.begin(), a.end()); store.back().push_back(0); }
            std::vector<char*> av; for (auto& x : store) av.push_back(x.data()); av.push_back(nullptr);
            st = guarded([&] { ParameterTreeParser::readOptions((int) store.size(), av.data(), target); });
          }
        } catch (const Dune::RangeError&) { st = "RangeError"; }
        out += st + ",";
      }
      out += " " + dump(root);
    }
    else if (t[0] == "nofile") {
      std::string name = "/nonexistent/c12/" + strField(t[1]);
      ParameterTree pt;
      std::string a, b;
      try { ParameterTreeParser::readINITree(name, pt, true); a = "ok"; } catch (const Dune::IOError&) { a = "IOError"; } catch (const Dune::Exception&) { a = "Dune::Exception"; }
      try { ParameterTree r = ParameterTreeParser::readINITree(name); b = "ok"; } catch (const Dune::IOError&) { b = "IOError"; } catch (const Dune::Exception&) { b = "Dune::Exception"; }
      out = a + " " + b + " " + dump(pt);
    }
    else if (t[0] == "get") out = getCase(t[1], strField(t[2]));
    else if (t[0] == "opt" || t[0] == "nopt") {
      std::vector<std::string> args = listField(t[0] == "opt" ? t[1] : t[5]);
      std::vector<std::vector<char>> store;
      store.emplace_back(std::vector<char>{'p', 'r', 'o', 'g', 0});
      for (const auto& a : args) { store.emplace_back(a.begin(), a.end()); store.back().push_back(0); }
      std::vector<char*> av;
      for (auto& s : store) av.push_back(s.data());
      av.push_back(nullptr);
      ParameterTree pt;
      std::string st;
      if (t[0] == "opt")
        st = guarded([&] { ParameterTreeParser::readOptions((int) store.size(), av.data(), pt); });
      else {
        guarded([&] { readDoc(strField(t[6]), pt, true); });
        std::vector<std::string> kw = listField(t[4]);
        unsigned req = (unsigned) std::stoul(t[1]);
        // help strings (only used for messages): a vector shorter, equal or longer than the keyword list
        std::vector<std::string> help;
        for (unsigned i = 0; i < req % 5; ++i) help.push_back(i % 2 ? "" : "help text");
        if (req == 4294967295u && t[2] == "1" && t[3] == "1")       // every default argument
          st = guarded([&] { ParameterTreeParser::readNamedOptions((int) store.size(), av.data(), pt, kw); });
        else if (req % 5 == 0 && t[2] == "1" && t[3] == "1")        // allow_more, overwrite, help defaulted
          st = guarded([&] { ParameterTreeParser::readNamedOptions((int) store.size(), av.data(), pt, kw, req); });
        else if (req % 5 == 0 && t[3] == "1")                       // overwrite, help defaulted
          st = guarded([&] { ParameterTreeParser::readNamedOptions((int) store.size(), av.data(), pt, kw, req, t[2] == "1"); });
        else if (req % 5 == 0)
          st = guarded([&] { ParameterTreeParser::readNamedOptions((int) store.size(), av.data(), pt, kw, req, t[2] == "1", t[3] == "1"); });
        else
          st = guarded([&] { ParameterTreeParser::readNamedOptions((int) store.size(), av.data(), pt, kw, req, t[2] == "1", t[3] == "1", help); });
      }
      out = st + " " + dump(pt);
      { // (audit 2, C) the same call on a read-only argument vector whose array is longer than argc, and the
        // arguments must not have been modified by the first call.  readOptions looks at argv[argc] when the last
        // counted argument is an option (its missing-value test is argv[i+1] == NULL): no extra entries then.
        std::string av_verdict = "ok";
        { std::size_t i = 1; for (const auto& a : args) { if (std::string(store[i].data()) != a || store[i].size() != a.size() + 1) av_verdict = "argv-modified"; ++i; } }
        std::vector<std::string> counted{"prog"}; counted.insert(counted.end(), args.begin(), args.end());
        std::vector<std::string> extra{"-zz", "EXTRA", "--x=1", "-h"};
        if (t[0] == "opt" && st != "ok") extra.clear();
        RoArgv ro(counted, extra);
        if (ro.base) {
          ParameterTree p2; std::string s2;
          if (t[0] == "opt") s2 = guarded([&] { ParameterTreeParser::readOptions(ro.argc, ro.av, p2); });
          else {
            guarded([&] { readDoc(strField(t[6]), p2, true); });
            std::vector<std::string> kw = listField(t[4]);
            unsigned req = (unsigned) std::stoul(t[1]);
            const std::vector<std::string> ckw(kw);      // a const keyword list, passed as a temporary copy
            s2 = guarded([&] { ParameterTreeParser::readNamedOptions(ro.argc, ro.av, p2, std::vector<std::string>(ckw), req, t[2] == "1", t[3] == "1"); });
          }
          if (s2 + " " + dump(p2) != out && av_verdict == "ok") av_verdict = "readonly-oversized-argv-differs:" + s2 + ":" + dump(p2);
        }
        out += " AV=" + av_verdict;
      }
    }
    else if (t[0] == "optn") {
      // readOptions(argc, argv, pt) with argc - 1 = t[1] counted arguments and an array that holds ALL of t[2]
      // (the rest lies behind the count), NULL-terminated, read-only
      std::size_t n = (std::size_t) std::stoul(t[1]);
      std::vector<std::string> all = listField(t[2]);
      if (n > all.size()) n = all.size();
      std::vector<std::string> counted{"prog"}; counted.insert(counted.end(), all.begin(), all.begin() + n);
      std::vector<std::string> extra(all.begin() + n, all.end());
      RoArgv ro(counted, extra);
      ParameterTree pt;
      std::string st = guarded([&] { ParameterTreeParser::readOptions(ro.argc, ro.av, pt); });
      out = st + " " + dump(pt);
    }
    else out = "UNKNOWN-OP";
    std::cout << out << std::endl;
  }
  std::remove(tmpFile().c_str());
  return 0;
}
