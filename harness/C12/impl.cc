// C12 impl driver: executes the case file on Dune::ParameterTree / Dune::ParameterTreeParser built
// from the working tree.  One flushed output line per case, same canonical form as ml/C12_driver.ml.
// Only the public interface is used.
#include <config.h>
#include <array>
#include <bitset>
#include <cstdio>
#include <cstring>
#include <fstream>
#include <iostream>
#include <locale>
#include <sstream>
#include <string>
#include <vector>
#include <dune/common/exceptions.hh>
#include <dune/common/fvector.hh>
#include <dune/common/parametertree.hh>
#include <dune/common/parametertreeparser.hh>

using Dune::ParameterTree;
using Dune::ParameterTreeParser;

static std::string hex(const std::string& s)
{
  static const char* d = "0123456789abcdef";
  std::string r;
  for (unsigned char c : s) { r += d[c >> 4]; r += d[c & 15]; }
  return r;
}
static std::string unhex(const std::string& s)   // without the leading x
{
  std::string r;
  for (std::size_t i = 0; i + 1 < s.size(); i += 2) r += (char) std::stoi(s.substr(i, 2), nullptr, 16);
  return r;
}
static std::string strField(const std::string& f) { return unhex(f.substr(1)); }
static std::vector<std::string> listField(const std::string& f)
{
  std::vector<std::string> r;
  if (f == "-") return r;
  std::size_t a = 0;
  while (true) {
    std::size_t b = f.find(',', a);
    r.push_back(strField(f.substr(a, b == std::string::npos ? b : b - a)));
    if (b == std::string::npos) break;
    a = b + 1;
  }
  return r;
}
static std::vector<std::string> fields(const std::string& line)
{
  std::vector<std::string> r; std::istringstream is(line); std::string t;
  while (is >> t) r.push_back(t);
  return r;
}

template<class F>
static std::string guarded(F&& f)   // status of a parser call
{
  try { f(); return "ok"; }
  catch (const Dune::ParameterTreeParserError&) { return "ParameterTreeParserError"; }
  catch (const Dune::HelpRequest&) { return "HelpRequest"; }
  catch (const Dune::RangeError&) { return "RangeError"; }
  catch (const Dune::Exception&) { return "Dune::Exception"; }
  catch (const std::exception& e) { return std::string("std::exception:") + e.what(); }
}

static std::string dump(const ParameterTree& t)
{
  std::string r = "{";
  for (const auto& k : t.getValueKeys()) {
    r += hex(k) + "=";
    try { r += hex(t[k]); } catch (const Dune::RangeError&) { r += "!"; }
    r += ";";
  }
  r += "|";
  for (const auto& k : t.getSubKeys()) {
    r += hex(k);
    try { const ParameterTree& s = t.sub(k); r += dump(s); } catch (const Dune::RangeError&) { r += "!"; }
  }
  return r + "}";
}

static std::string query(const ParameterTree& t, const std::string& k)
{
  std::string r = "h";
  try { r += t.hasKey(k) ? "1" : "0"; } catch (const Dune::RangeError&) { r += "E"; }
  r += "s";
  try { r += t.hasSub(k) ? "1" : "0"; } catch (const Dune::RangeError&) { r += "E"; }
  r += "g";
  try { r += "x" + hex(t.get(k, std::string("DFLT"))); } catch (const Dune::RangeError&) { r += "E"; }
  return r;
}

static void readDoc(const std::string& doc, ParameterTree& pt, bool ow)
{
  std::istringstream in(doc);
  ParameterTreeParser::readINITree(in, pt, ow);
}

template<class T> static std::string show(const T& v) { return std::to_string(v); }
static std::string show(const bool& v) { return v ? "1" : "0"; }
static std::string show(const std::string& v) { return "x" + hex(v); }
template<class T> static std::string showSeq(const T& v)
{
  std::string r = "["; bool first = true;
  for (const auto& x : v) { if (!first) r += ","; first = false; r += show(x); }
  return r + "]";
}
template<class T, std::size_t n> static std::string show(const std::array<T, n>& v) { return showSeq(v); }
template<class T> static std::string show(const std::vector<T>& v) { return showSeq(v); }
template<std::size_t n> static std::string show(const std::bitset<n>& v)
{
  std::string r; for (std::size_t i = 0; i < n; ++i) r += v[i] ? "1" : "0"; return r;
}

template<class T>
static std::string getAs(const std::string& value)
{
  ParameterTree pt;
  pt["k"] = value;
  try { return "OK " + show(pt.get<T>("k")); }
  catch (const Dune::RangeError&) { return "EXC RangeError"; }
  catch (const Dune::Exception&) { return "EXC Dune::Exception"; }
  catch (const std::exception& e) { return std::string("EXC std::exception:") + e.what(); }
}

static std::string getCase(const std::string& ty, const std::string& v)
{
  if (ty == "int") return getAs<int>(v);
  if (ty == "long") return getAs<long>(v);
  if (ty == "uint") return getAs<unsigned int>(v);
  if (ty == "ulong") return getAs<unsigned long>(v);
  if (ty == "bool") return getAs<bool>(v);
  if (ty == "string") return getAs<std::string>(v);
  if (ty == "arr3") return getAs<std::array<int, 3>>(v);
  if (ty == "arr1") return getAs<std::array<int, 1>>(v);
  if (ty == "arr2l") return getAs<std::array<long, 2>>(v);
  if (ty == "arr2u") return getAs<std::array<unsigned int, 2>>(v);
  if (ty == "vec") return getAs<std::vector<int>>(v);
  if (ty == "vecs") return getAs<std::vector<std::string>>(v);
  if (ty == "bits4") return getAs<std::bitset<4>>(v);
  if (ty == "intor0" || ty == "intor1") {
    ParameterTree pt;
    if (ty == "intor1") pt["k"] = v;
    try { return "OK " + show(pt.get("k", 77)); }
    catch (const Dune::RangeError&) { return "EXC RangeError"; }
  }
  return "UNKNOWN-TYPE";
}

// A global C++ locale whose numeric punctuation differs from "C" (decimal comma, grouping):
// ParameterTree must convert independently of it (it imbues the classic locale).
struct CommaPunct : std::numpunct<char>
{
  char do_decimal_point() const override { return ','; }
  char do_thousands_sep() const override { return '.'; }
  std::string do_grouping() const override { return "\3"; }
};

int main(int argc, char** argv)
{
  if (argc > 2 && std::string(argv[2]) == "comma-locale")
    std::locale::global(std::locale(std::locale::classic(), new CommaPunct));
  std::ifstream in(argv[1]);
  std::string line;
  while (std::getline(in, line)) {
    std::vector<std::string> t = fields(line);
    std::string out;
    if (t.empty()) out = "UNKNOWN-OP";
    else if (t[0] == "ini") {
      bool ow = t[1] == "1";
      ParameterTree pt;
      guarded([&] { readDoc(strField(t[2]), pt, true); });
      std::string st = guarded([&] { readDoc(strField(t[3]), pt, ow); });
      out = st + " " + dump(pt) + " Q:";
      bool first = true;
      for (const auto& k : listField(t[4])) { if (!first) out += ","; first = false; out += query(pt, k); }
    }
    else if (t[0] == "get") out = getCase(t[1], strField(t[2]));
    else if (t[0] == "opt" || t[0] == "nopt") {
      std::vector<std::string> args = listField(t[0] == "opt" ? t[1] : t[5]);
      std::vector<std::vector<char>> store;
      store.emplace_back(std::vector<char>{'p', 'r', 'o', 'g', 0});
      for (const auto& a : args) { store.emplace_back(a.begin(), a.end()); store.back().push_back(0); }
      std::vector<char*> av;
      for (auto& s : store) av.push_back(s.data());
      av.push_back(nullptr);
      ParameterTree pt;
      std::string st;
      if (t[0] == "opt")
        st = guarded([&] { ParameterTreeParser::readOptions((int) store.size(), av.data(), pt); });
      else {
        guarded([&] { readDoc(strField(t[6]), pt, true); });
        std::vector<std::string> kw = listField(t[4]);
        unsigned req = (unsigned) std::stoul(t[1]);
        st = guarded([&] { ParameterTreeParser::readNamedOptions((int) store.size(), av.data(), pt, kw, req, t[2] == "1", t[3] == "1"); });
      }
      out = st + " " + dump(pt);
    }
    else out = "UNKNOWN-OP";
    std::cout << out << std::endl;
  }
  return 0;
}
