// C13 impl driver: runs Dune::IndicesSyncer (current tree) on the decompositions of a case file.
// Launch:  mpirun -np NP impl cases.txt     (a case with P <= NP ranks runs on the first P ranks of a split communicator)
// Case line (space separated):
//   P fixed num del seed   { n  g a pub l ... (n quadruples) } x P    { m g ... (m globals to delete) } x P
//     fixed : 0/1  useFixedOrder argument of sync(numberer, useFixedOrder)
//     num   : 0 = sync() with the default numberer, 1 = recording numberer returning the local number the index had
//             before the deletion (1000+g when it never had one), 2 = recording numberer returning 1000+g
//     del   : F = remove remote entries through RemoteIndexListModifier<..,false> inside the resize, then
//                 storeGlobalIndicesOfRemoteIndices / repairLocalIndexPointers (the free functions of indicessyncer.hh)
//             M = RemoteIndexListModifier<..,true>::remove + its own repairLocalIndexPointers()
//             m = as M, but sync is not run (the case only observes the state after the deletion)
//     seed  : schedule seed for harness/common/pmpi_sched.c (0 = off)
//     g a pub l : global index, attribute (1 owner, 2 overlap, 3 copy), public flag, local number
//   optionally followed by  nf  { p r } x nf : pairs of ranks that "forget" each other: after the rebuild a second
//     RemoteIndices object is filled through getModifier<false,true>() with every list except those between p and r, and
//     the case continues on it (partial knowledge: sync discovers the forgotten neighbours again through third parties)
// Output: ONE line per case, printed by rank 0:
//   B <world> # D <world> # S <world>
//   world  = rank dumps joined by " / ";  rank dump = "I g.a.l.p ... R q:g.la.ra.k,... q:... Y s N g,g,.."
//   I: index set in iteration order;  R: per neighbour (ascending rank) the remote list in list order, k = position of
//   the pair the entry points to in the index set (-1: pointer refers to no pair of the set; then g.la are printed as !)
//   Y: isSynced();  N: globals the numberer was called with, in call order (S dump only)
// Failing assertions / sanitizer reports / crashes end the process; vcheck.run_cases attributes them to the case.
#include <config.h>
#include <mpi.h>
#include <csignal>
#include <cstdio>
#include <cstdlib>
#include <cstring>
#include <fstream>
#include <iostream>
#include <limits>
#include <map>
#include <set>
#include <sstream>
#include <string>
#include <vector>
#include <unistd.h>
#include <dune/common/parallel/indexset.hh>
#include <dune/common/parallel/plocalindex.hh>
#include <dune/common/parallel/remoteindices.hh>
#include <dune/common/parallel/indicessyncer.hh>

#ifndef C13_NO_SHIM
extern "C" { void pmpi_sched_reseed(unsigned long long seed); }
#else
static void pmpi_sched_reseed(unsigned long long) {}
#endif

enum Flag { none_ = 0, owner = 1, overlap = 2, copy_ = 3 };
typedef Dune::ParallelLocalIndex<Flag> LI;
typedef Dune::ParallelIndexSet<int, LI, 4> PIS;      // chunk size 4: re-sorting crosses chunk boundaries often
typedef Dune::RemoteIndices<PIS> RI;
typedef Dune::IndicesSyncer<PIS> Syncer;

static int g_rank = 0;
static volatile long g_case = 0;
static void on_alarm(int)
{
  char b[128];
  int n = std::snprintf(b, sizeof b, "ERROR C13-HANG case=%ld rank=%d did not return\n", (long) g_case, g_rank);
  if (write(2, b, n) < 0) {}
  _exit(86);
}

struct Quad { int g, a, pub; long l; };
struct Case { int P, fixed, num; char del; unsigned long long seed; std::vector<std::vector<Quad> > I; std::vector<std::vector<int> > D;
              std::vector<std::pair<int,int> > forget; };

static bool parse(const std::string& line, Case& c)
{
  std::istringstream is(line);
  std::string del;
  if (!(is >> c.P >> c.fixed >> c.num >> del >> c.seed)) return false;
  c.del = del[0];
  c.I.assign(c.P, {}); c.D.assign(c.P, {});
  for (int p = 0; p < c.P; ++p) {
    int n; if (!(is >> n)) return false;
    for (int i = 0; i < n; ++i) { Quad q; if (!(is >> q.g >> q.a >> q.pub >> q.l)) return false; c.I[p].push_back(q); }
  }
  for (int p = 0; p < c.P; ++p) {
    int m; if (!(is >> m)) return false;
    for (int i = 0; i < m; ++i) { int g; if (!(is >> g)) return false; c.D[p].push_back(g); }
  }
  int nf = 0;
  if (is >> nf) for (int i = 0; i < nf; ++i) { int a, b; if (!(is >> a >> b)) return false; c.forget.push_back(std::make_pair(a, b)); }
  return true;
}

struct RecNumberer
{
  std::map<int, long> old; int mode; std::vector<int> calls;
  std::size_t operator()(const int& g)
  {
    calls.push_back(g);
    if (mode == 1) { auto f = old.find(g); if (f != old.end()) return (std::size_t) f->second; }
    return (std::size_t) (1000 + g);
  }
};

static std::string lstr(std::size_t l)
{
  if (l == std::numeric_limits<std::size_t>::max()) return "max";
  return std::to_string((unsigned long long) l);
}

static std::string dump(const PIS& is, const RI& ri, const std::vector<int>* calls)
{
  std::ostringstream os;
  std::vector<const PIS::IndexPair*> addr;
  os << "I";
  for (auto it = is.begin(); it != is.end(); ++it) {
    addr.push_back(&(*it));
    os << " " << it->global() << "." << (int) it->local().attribute() << "." << lstr(it->local().local()) << "." << (it->local().isPublic() ? 1 : 0);
  }
  os << " R";
  for (auto r = ri.begin(); r != ri.end(); ++r) {
    os << " " << r->first << ":";
    bool first = true;
    for (auto e = r->second.first->begin(); e != r->second.first->end(); ++e) {
      const PIS::IndexPair* p = &e->localIndexPair();
      long k = -1;
      for (std::size_t j = 0; j < addr.size(); ++j) if (addr[j] == p) { k = (long) j; break; }
      if (!first) os << ",";
      first = false;
      if (k >= 0) os << p->global() << "." << (int) p->local().attribute();
      else os << "!.!";
      os << "." << (int) e->attribute() << "." << k;
    }
    if (r->second.first != r->second.second) os << "|TWO-LISTS";
  }
  os << " Y " << (ri.isSynced() ? 1 : 0);
  if (calls) {
    os << " N ";
    for (std::size_t i = 0; i < calls->size(); ++i) os << (i ? "," : "") << (*calls)[i];
  }
  return os.str();
}

// gather the rank dumps on rank 0 of comm, joined by " / "
static std::string gather(const std::string& mine, MPI_Comm comm, int P, int rank)
{
  int len = (int) mine.size();
  std::vector<int> lens(P), disp(P);
  MPI_Gather(&len, 1, MPI_INT, lens.data(), 1, MPI_INT, 0, comm);
  int tot = 0;
  if (rank == 0) for (int p = 0; p < P; ++p) { disp[p] = tot; tot += lens[p]; }
  std::vector<char> buf(tot + 1);
  MPI_Gatherv(const_cast<char*>(mine.data()), len, MPI_CHAR, buf.data(), lens.data(), disp.data(), MPI_CHAR, 0, comm);
  std::string res;
  if (rank == 0) for (int p = 0; p < P; ++p) { if (p) res += " / "; res += std::string(buf.data() + disp[p], lens[p]); }
  return res;
}

static std::string run_case(const Case& c, MPI_Comm comm, int rank)
{
  PIS is;
  is.beginResize();
  for (const Quad& q : c.I[rank]) is.add(q.g, LI((std::size_t) q.l, (Flag) q.a, q.pub != 0));
  is.endResize();
  RI ri0(is, is, comm);
  ri0.rebuild<false>();
  std::string B = gather(dump(is, ri0, 0), comm, c.P, rank);
  RI ri1(is, is, comm);
  if (!c.forget.empty()) {
    typedef Dune::RemoteIndexListModifier<PIS, RI::Allocator, false> Mod0;
    for (auto r = ri0.begin(); r != ri0.end(); ++r) {
      bool drop = false;
      for (auto& f : c.forget) if ((f.first == rank && f.second == r->first) || (f.second == rank && f.first == r->first)) drop = true;
      if (drop) continue;
      Mod0 mod = ri1.getModifier<false, true>(r->first);
      for (auto e = r->second.first->begin(); e != r->second.first->end(); ++e)
        mod.insert(Dune::RemoteIndex<int, Flag>(e->attribute(), &e->localIndexPair()));
    }
  }
  RI& ri = c.forget.empty() ? ri0 : ri1;

  RecNumberer numb; numb.mode = c.num;
  for (auto it = is.begin(); it != is.end(); ++it) numb.old[it->global()] = (long) it->local().local();

  // ---- deletion of the chosen copies together with their remote entries
  std::set<int> del(c.D[rank].begin(), c.D[rank].end());
  if (!del.empty()) {
    std::vector<int> nb;
    for (auto r = ri.begin(); r != ri.end(); ++r) nb.push_back(r->first);
    if (c.del == 'M' || c.del == 'm') {
      typedef Dune::RemoteIndexListModifier<PIS, RI::Allocator, true> Mod;
      std::vector<Mod*> mods;      // the modifier's copy constructor leaves giter_ pointing into the source: never copy
      std::vector<std::vector<int> > has(nb.size());
      for (std::size_t i = 0; i < nb.size(); ++i) {
        for (auto e = ri.find(nb[i])->second.first->begin(); e != ri.find(nb[i])->second.first->end(); ++e)
          has[i].push_back(e->localIndexPair().global());
        mods.push_back(new Mod(ri.getModifier<true, true>(nb[i])));
      }
      is.beginResize();
      for (auto it = is.begin(); it != is.end(); ++it) if (del.count(it->global())) is.markAsDeleted(it);
      for (std::size_t i = 0; i < nb.size(); ++i)
        for (int g : has[i]) if (del.count(g)) mods[i]->remove(g);
      is.endResize();
      for (std::size_t i = 0; i < nb.size(); ++i) { mods[i]->repairLocalIndexPointers(); delete mods[i]; }
    } else {
      typedef Dune::RemoteIndexListModifier<PIS, RI::Allocator, false> Mod;
      is.beginResize();
      for (auto it = is.begin(); it != is.end(); ++it) if (del.count(it->global())) is.markAsDeleted(it);
      for (std::size_t i = 0; i < nb.size(); ++i) {
        std::vector<int> has;
        for (auto e = ri.find(nb[i])->second.first->begin(); e != ri.find(nb[i])->second.first->end(); ++e)
          has.push_back(e->localIndexPair().global());
        Mod mod = ri.getModifier<false, true>(nb[i]);
        for (int g : has) if (del.count(g)) mod.remove(g);
      }
      std::map<int, Dune::SLList<std::pair<int, Flag>, RI::Allocator> > gmap;
      Dune::storeGlobalIndicesOfRemoteIndices(gmap, ri);
      is.endResize();
      Dune::repairLocalIndexPointers(gmap, ri, is);
    }
  }
  std::string D = gather(dump(is, ri, 0), comm, c.P, rank);
  // If the deletion step itself left remote entries that do not point to a pair of the set (a defect of the
  // modifier's repair, reported from the D dump), sync would start from garbage: skip it on all ranks.
  {
    int bad = 0;
    std::set<const PIS::IndexPair*> addr;
    for (auto it = is.begin(); it != is.end(); ++it) addr.insert(&(*it));
    for (auto r = ri.begin(); r != ri.end(); ++r) {
      int last = std::numeric_limits<int>::min();
      for (auto e = r->second.first->begin(); e != r->second.first->end(); ++e) {
        if (!addr.count(&e->localIndexPair())) { bad = 1; break; }
        if (e->localIndexPair().global() <= last) bad = 1;
        last = e->localIndexPair().global();
      }
    }
    int anybad = 0;
    MPI_Allreduce(&bad, &anybad, 1, MPI_INT, MPI_MAX, comm);
    if (anybad) return "B " + B + " # D " + D + " # S SKIPPED";
    if (c.del == 'm') return "B " + B + " # D " + D + " # S SKIPPED-NOSYNC";
  }

  // ---- sync
  pmpi_sched_reseed(c.seed);
  {
    Syncer syncer(is, ri);
    if (c.num == 0) syncer.sync();
    else syncer.sync(numb, c.fixed != 0);
  }
  pmpi_sched_reseed(0);
  std::string S = gather(dump(is, ri, &numb.calls), comm, c.P, rank);
  return "B " + B + " # D " + D + " # S " + S;
}

int main(int argc, char** argv)
{
  MPI_Init(&argc, &argv);
  int NP, wrank;
  MPI_Comm_size(MPI_COMM_WORLD, &NP);
  MPI_Comm_rank(MPI_COMM_WORLD, &wrank);
  g_rank = wrank;
  if (argc < 2) { if (!wrank) std::fprintf(stderr, "usage: impl cases.txt\n"); MPI_Finalize(); return 2; }
  std::map<int, MPI_Comm> comms;
  for (int P = 1; P <= NP; ++P) {
    MPI_Comm cm; MPI_Comm_split(MPI_COMM_WORLD, wrank < P ? 0 : MPI_UNDEFINED, wrank, &cm); comms[P] = cm;
  }
  int tmo = std::getenv("C13_CASE_TIMEOUT") ? std::atoi(std::getenv("C13_CASE_TIMEOUT")) : 30;
  std::signal(SIGALRM, on_alarm);
  std::ifstream in(argv[1]);
  std::string line;
  long n = 0;
  while (std::getline(in, line)) {
    if (line.empty()) continue;
    g_case = n++;
    Case c;
    bool ok = parse(line, c) && c.P >= 1 && c.P <= NP;
    if (!ok) { if (!wrank) { std::cout << "BADCASE" << std::endl; } continue; }
    std::string out;
    if (wrank < c.P) {
      alarm(tmo);
      out = run_case(c, comms[c.P], wrank);
      alarm(0);
    }
    MPI_Barrier(MPI_COMM_WORLD);
    if (!wrank) { std::cout << out << std::endl; }
  }
  MPI_Finalize();
  return 0;
}
