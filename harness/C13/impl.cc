// C13 impl driver: runs Dune::IndicesSyncer (current tree) on the decompositions of a case file.
// Launch:  mpirun -np NP impl cases.txt     (a case with P <= NP ranks runs on the first P ranks of a split communicator)
// Case line (space separated):
//   P fixed num del seed   { n  g a pub l ... (n quadruples) } x P    { m g ... (m globals to delete) } x P
//     fixed : 0/1  useFixedOrder argument of sync(numberer, useFixedOrder)
//     num   : 0 = sync() with the default numberer, 1 = recording numberer returning the local number the index had
//             before the deletion (1000+g when it never had one), 2 = recording numberer returning 1000+g
//     del   : F = remove remote entries through RemoteIndexListModifier<..,false> inside the resize, then
//                 storeGlobalIndicesOfRemoteIndices / repairLocalIndexPointers (the free functions of indicessyncer.hh)
//             M = RemoteIndexListModifier<..,true>::remove + its own repairLocalIndexPointers()
//             m = as M, but sync is not run (the case only observes the state after the deletion)
//     seed  : schedule seed for harness/common/pmpi_sched.c (0 = off)
//     g a pub l : global index, attribute (1 owner, 2 overlap, 3 copy), public flag, local number
//   optionally followed by  nf  { p r } x nf : pairs of ranks that "forget" each other: after the rebuild a second
//     RemoteIndices object is filled through getModifier<false,true>() with every list except those between p and r, and
//     the case continues on it (partial knowledge: sync discovers the forgotten neighbours again through third parties)
//   optionally followed by key=value options (any order):
//     nb=1|2   rebuild with neighbour hints given to the RemoteIndices constructor (1) / through setNeighbours() (2);
//              the hints are h<p>=q,q,...  (one token per rank p; missing = none); forgotten pairs are then simply not hinted
//     self=1   setIncludeSelf(true) before the rebuild;   ign=1  rebuild<true>() (non-public copies take part)
//     gt=1     second instantiation: GlobalIndex = long (globals shifted by 2^40 inside the driver), default chunk size 100,
//              the syncer reaches the index set through a const/non-const mix as in gt=0
//     grow=p:g:a:l:q.ra+q.ra;...   after the deletion rank p adds the new pair (g, a, local l, public) in a resize and inserts a
//              remote entry (g, remote attribute ra) under every listed q through
//              RemoteIndexListModifier<..,true>::insert(RemoteIndex, global) + repairLocalIndexPointers()
//     twice=1|2  after the S dump sync() is run once more with a fresh IndicesSyncer (1) / with the SAME object (2) and a
//              fresh recording numberer; the line gets a fourth section  # T <world>  (N = calls of the second numberer)
//     nobar=1  no MPI_Barrier between the two syncs (default: barrier).  Without it a fast rank's message of the second round can be
//              taken by a slower rank's MPI_Probe(MPI_ANY_SOURCE) of the first round (arrival-order processing)
//     cm=w0,w1,...  the case runs on a communicator made by MPI_Comm_split of MPI_COMM_WORLD in which communicator rank i is
//              WORLD rank w_i (P distinct world ranks: a subset, reversed, rotated ...); every rank number in the case line
//              and in the dumps is a COMMUNICATOR rank; the other world ranks idle.  Default: world ranks 0..P-1 in order.
//     mc=1   deletion path M/m works through COPIES of the modifiers (RemoteIndexListModifier copy constructor), the originals idle
//     sf=1   deletion path F takes the modifier of the receive side, getModifier<false,false> (one index set: the same list)
//     da=1   default / explicit arguments the other way round: sync(numberer) without useFixedOrder (only when fixed=0),
//            includeSelf passed as fifth constructor argument instead of setIncludeSelf (only with nb=1)
//     ck=1   the case runs on an MPI_Comm_dup of its communicator; ck=2 (P=1 only) on MPI_COMM_SELF
//     twice=3  second sync through a COPY of the first IndicesSyncer object (copy constructor)
//     gt=2   third instantiation: GlobalIndex = Dune::bigunsignedint<96> (globals shifted by 2^90 (top digit of the 6 in use)), chunk size 7
//     hist=1 object history after the last sync: rebuild() on the synced RemoteIndices (must be a no-op), then an empty resize
//            (seqNo++, isSynced() false), rebuild() again (free() of the lists the syncer allocated + full rebuild);
//            the line gets a section  # H <world after the no-op rebuild> ## <world after the real rebuild>
//   --- dimension audit 2 ---
//     fx=b,b,..  per-rank useFixedOrder (overrides `fixed` on every rank): ranks of ONE collective sync use different modes
//     nm=n,n,..  per-rank numberer mode (overrides `num`): sync() on some ranks, sync(numberer[, fixed]) on others
//     gs=1|2|3   where the global indices of the case sit in the value range of GlobalIndex (order preserving shift, the dumps
//                shift back): 1 = around the sign boundary (int/long: from -7, i.e. negative and positive; bigunsignedint<96>:
//                from 2^95-7, across the top bit), 2 = from the minimum of the type, 3 = the largest global of the case ON its maximum (2: the smallest ON the minimum)
//     ao=1|2     the pairs are add()ed to the index set in descending (1) / scrambled (2) order instead of ascending, and the
//                neighbour hints are passed descending with every rank listed twice (neither interface asks for an order)
//     st2=k:g.g:g::..  SECOND STAGE on the state the first sync left (one ':' field per rank, globals '.'-separated): every rank
//                deletes the listed copies again (same deletion path) and the world is synced again with a fresh IndicesSyncer (k=1),
//                with the SAME object that ran the first sync (k=2: its addedIndices_/globalMap_/oldMap_/infoSend_/iteratorsMap_
//                have been used) or with a copy of it (k=3); numberer as in the first stage (old numbers = those before THIS
//                deletion).  The line gets a section  # U <world after the 2nd deletion> ## <world after the 2nd sync>
// Output: ONE line per case, printed by rank 0:
//   B <world> # D <world> # S <world>
//   world  = rank dumps joined by " / ";  rank dump = "I g.a.l.p ... R q:g.la.ra.k,... q:... Y s N g,g,.."
//   I: index set in iteration order;  R: per neighbour (ascending rank) the remote list in list order, k = position of
//   the pair the entry points to in the index set (-1: pointer refers to no pair of the set; then g.la are printed as !)
//   Y: isSynced();  N: globals the numberer was called with, in call order (S dump only)
// Failing assertions / sanitizer reports / crashes end the process; vcheck.run_cases attributes them to the case.
#include <config.h>
#include <mpi.h>
#include <algorithm>
#include <csignal>
#include <cstdio>
#include <cstdlib>
#include <cstring>
#include <fstream>
#include <iostream>
#include <limits>
#include <map>
#include <set>
#include <sstream>
#include <string>
#include <vector>
#include <unistd.h>
#include <dune/common/bigunsignedint.hh>
#include <dune/common/parallel/indexset.hh>
#include <dune/common/parallel/plocalindex.hh>
#include <dune/common/parallel/remoteindices.hh>
#include <dune/common/parallel/indicessyncer.hh>

#ifndef C13_NO_SHIM
extern "C" { void pmpi_sched_reseed(unsigned long long seed); }
#else
static void pmpi_sched_reseed(unsigned long long) {}
#endif

enum Flag { none_ = 0, owner = 1, overlap = 2, copy_ = 3 };
typedef Dune::ParallelLocalIndex<Flag> LI;
static const long GSHIFT = 1L << 40;
static int g_gs = 0;       // gs= option of the current case
static long g_gmin = 0, g_gmax = 0;   // smallest / largest global of the case: gs=2 puts g_gmin ON the minimum of the type, gs=3 g_gmax ON its maximum
typedef Dune::bigunsignedint<96> Big;
template<class G> struct Shift {       // int
  static long base() { return g_gs == 1 ? -7L : g_gs == 2 ? (long) std::numeric_limits<int>::min() - g_gmin : g_gs == 3 ? (long) std::numeric_limits<int>::max() - g_gmax : 0L; }
  static G to(int g) { return (G) (base() + g); } static long back(G g) { return (long) g - base(); } };
template<> struct Shift<Big> {
  static Big base() { Big top = Big(1u) << 95;
                      return g_gs == 1 ? top - Big(7u) : g_gs == 2 ? Big(0u) : g_gs == 3 ? (top + (top - Big(1u))) - Big((unsigned) g_gmax) : (Big(1u) << 90); }
  static long lo() { return g_gs == 2 ? g_gmin : 0; }
  static Big to(int g) { return base() + Big((unsigned) (g - lo())); } static long back(const Big& g) { return (long) (g - base()).touint() + lo(); } };
template<> struct Shift<long> {     // to(g) = base + (g - lo): no intermediate leaves the range of long
  static long base() { return g_gs == 1 ? -7L : g_gs == 2 ? std::numeric_limits<long>::min() : g_gs == 3 ? std::numeric_limits<long>::max() : GSHIFT; }
  static long lo() { return g_gs == 2 ? g_gmin : g_gs == 3 ? g_gmax : 0; }
  static long to(int g) { return base() + (g - lo()); } static long back(long g) { return (g - base()) + lo(); } };

static int g_rank = 0;
static volatile long g_case = 0;
static void on_alarm(int)
{
  char b[128];
  int n = std::snprintf(b, sizeof b, "ERROR C13-HANG case=%ld rank=%d did not return\n", (long) g_case, g_rank);
  if (write(2, b, n) < 0) {}
  _exit(86);
}

struct Quad { int g, a, pub; long l; };
struct Case { int P, fixed, num; char del; unsigned long long seed; std::vector<std::vector<Quad> > I; std::vector<std::vector<int> > D;
              std::vector<std::pair<int,int> > forget;
              int nb = 0, self = 0, ign = 0, gt = 0, twice = 0, nobar = 0, mc = 0, sf = 0, da = 0, ck = 0, hist = 0;
              std::vector<int> cm, fx, nm;
              int gs = 0, ao = 0, st2 = 0;
              std::vector<std::vector<int> > D2;
              std::vector<std::vector<int> > hints;
              struct Grow { int p, g, a; long l; std::vector<std::pair<int,int> > to; };
              std::vector<Grow> grow; };

static bool parse(const std::string& line, Case& c)
{
  std::istringstream is(line);
  std::string del;
  if (!(is >> c.P >> c.fixed >> c.num >> del >> c.seed)) return false;
  c.del = del[0];
  c.I.assign(c.P, {}); c.D.assign(c.P, {});
  for (int p = 0; p < c.P; ++p) {
    int n; if (!(is >> n)) return false;
    for (int i = 0; i < n; ++i) { Quad q; if (!(is >> q.g >> q.a >> q.pub >> q.l)) return false; c.I[p].push_back(q); }
  }
  for (int p = 0; p < c.P; ++p) {
    int m; if (!(is >> m)) return false;
    for (int i = 0; i < m; ++i) { int g; if (!(is >> g)) return false; c.D[p].push_back(g); }
  }
  c.hints.assign(c.P, {});
  std::string tok;
  bool first = true;
  while (is >> tok) {
    std::size_t eq = tok.find('=');
    if (eq == std::string::npos) {
      if (!first) return false;
      int nf = std::atoi(tok.c_str());
      for (int i = 0; i < nf; ++i) { int a, b; if (!(is >> a >> b)) return false; c.forget.push_back(std::make_pair(a, b)); }
      first = false; continue;
    }
    first = false;
    std::string k = tok.substr(0, eq), v = tok.substr(eq + 1);
    if (k == "nb") c.nb = std::atoi(v.c_str());
    else if (k == "self") c.self = std::atoi(v.c_str());
    else if (k == "ign") c.ign = std::atoi(v.c_str());
    else if (k == "gt") c.gt = std::atoi(v.c_str());
    else if (k == "twice") c.twice = std::atoi(v.c_str());
    else if (k == "nobar") c.nobar = std::atoi(v.c_str());
    else if (k == "mc") c.mc = std::atoi(v.c_str());
    else if (k == "sf") c.sf = std::atoi(v.c_str());
    else if (k == "da") c.da = std::atoi(v.c_str());
    else if (k == "ck") c.ck = std::atoi(v.c_str());
    else if (k == "hist") c.hist = std::atoi(v.c_str());
    else if (k == "cm") { std::istringstream ms(v); std::string q; while (std::getline(ms, q, ',')) if (!q.empty()) c.cm.push_back(std::atoi(q.c_str())); }
    else if (k == "gs") c.gs = std::atoi(v.c_str());
    else if (k == "ao") c.ao = std::atoi(v.c_str());
    else if (k == "fx" || k == "nm") { std::istringstream ms(v); std::string q; while (std::getline(ms, q, ',')) if (!q.empty()) (k == "fx" ? c.fx : c.nm).push_back(std::atoi(q.c_str())); }
    else if (k == "st2") {
      std::size_t c0 = v.find(':'); if (c0 == std::string::npos) return false;
      c.st2 = std::atoi(v.substr(0, c0).c_str());
      std::string rest = v.substr(c0 + 1); c.D2.clear(); c.D2.push_back({});
      std::string cur;
      for (char ch : rest + ":") {
        if (ch == '.' || ch == ':') { if (!cur.empty()) c.D2.back().push_back(std::atoi(cur.c_str())); cur.clear(); if (ch == ':') c.D2.push_back({}); }
        else cur += ch;
      }
      c.D2.pop_back();
      if ((int) c.D2.size() != c.P) return false;
    }
    else if (k[0] == 'h') {
      int p = std::atoi(k.c_str() + 1); if (p < 0 || p >= c.P) return false;
      std::istringstream hs(v); std::string q;
      while (std::getline(hs, q, ',')) if (!q.empty()) c.hints[p].push_back(std::atoi(q.c_str()));
    }
    else if (k == "grow") {
      std::istringstream gs(v); std::string one;
      while (std::getline(gs, one, ';')) {
        if (one.empty()) continue;
        Case::Grow gr; char ch; std::istringstream os(one); std::string rest;
        if (!(os >> gr.p >> ch >> gr.g >> ch >> gr.a >> ch >> gr.l >> ch)) return false;
        std::getline(os, rest);
        std::istringstream ts(rest); std::string t;
        while (std::getline(ts, t, '+')) { int q, ra; char d; std::istringstream qs(t); if (!(qs >> q >> d >> ra)) return false; gr.to.push_back(std::make_pair(q, ra)); }
        c.grow.push_back(gr);
      }
    }
    else return false;
  }
  return true;
}

template<class G>
struct RecNumberer
{
  std::map<long, long> old; int mode; std::vector<long> calls;
  std::size_t operator()(const G& gg)
  {
    long g = Shift<G>::back(gg);
    calls.push_back(g);
    if (mode == 1) { auto f = old.find(g); if (f != old.end()) return (std::size_t) f->second; }
    return (std::size_t) (1000 + g);
  }
};

static std::string lstr(std::size_t l)
{
  if (l == std::numeric_limits<std::size_t>::max()) return "max";
  return std::to_string((unsigned long long) l);
}

template<class PIS, class RI>
static std::string dump(const PIS& is, const RI& ri, const std::vector<long>* calls)
{
  typedef typename PIS::GlobalIndex G;
  std::ostringstream os;
  std::vector<const typename PIS::IndexPair*> addr;
  os << "I";
  for (auto it = is.begin(); it != is.end(); ++it) {
    addr.push_back(&(*it));
    os << " " << Shift<G>::back(it->global()) << "." << (int) it->local().attribute() << "." << lstr(it->local().local()) << "." << (it->local().isPublic() ? 1 : 0);
  }
  os << " R";
  for (auto r = ri.begin(); r != ri.end(); ++r) {
    os << " " << r->first << ":";
    bool first = true;
    for (auto e = r->second.first->begin(); e != r->second.first->end(); ++e) {
      const typename PIS::IndexPair* p = &e->localIndexPair();
      long k = -1;
      for (std::size_t j = 0; j < addr.size(); ++j) if (addr[j] == p) { k = (long) j; break; }
      if (!first) os << ",";
      first = false;
      if (k >= 0) os << Shift<G>::back(p->global()) << "." << (int) p->local().attribute();
      else os << "!.!";
      os << "." << (int) e->attribute() << "." << k;
    }
    if (r->second.first != r->second.second) os << "|TWO-LISTS";
  }
  os << " Y " << (ri.isSynced() ? 1 : 0);
  if (calls) {
    os << " N ";
    for (std::size_t i = 0; i < calls->size(); ++i) os << (i ? "," : "") << (*calls)[i];
  }
  return os.str();
}

// gather the rank dumps on rank 0 of comm, joined by " / "
static std::string gather(const std::string& mine, MPI_Comm comm, int P, int rank)
{
  int len = (int) mine.size();
  std::vector<int> lens(P), disp(P);
  MPI_Gather(&len, 1, MPI_INT, lens.data(), 1, MPI_INT, 0, comm);
  int tot = 0;
  if (rank == 0) for (int p = 0; p < P; ++p) { disp[p] = tot; tot += lens[p]; }
  std::vector<char> buf(tot + 1);
  MPI_Gatherv(const_cast<char*>(mine.data()), len, MPI_CHAR, buf.data(), lens.data(), disp.data(), MPI_CHAR, 0, comm);
  std::string res;
  if (rank == 0) for (int p = 0; p < P; ++p) { if (p) res += " / "; res += std::string(buf.data() + disp[p], lens[p]); }
  return res;
}

template<class G, int N>
static std::string run_case_t(const Case& c, MPI_Comm comm, int rank)
{
  typedef Dune::ParallelIndexSet<G, LI, N> PIS;
  typedef Dune::RemoteIndices<PIS> RI;
  typedef Dune::IndicesSyncer<PIS> Syncer;
  typedef typename RI::Allocator Alloc;
  typedef Dune::RemoteIndex<G, Flag> REntry;
  PIS is;
  g_gs = c.gs;
  {
    bool any = false; g_gmin = g_gmax = 0;
    auto see = [&](long g) { if (!any || g < g_gmin) g_gmin = g; if (!any || g > g_gmax) g_gmax = g; any = true; };
    for (auto& r : c.I) for (auto& q : r) see(q.g);
    for (auto& gr : c.grow) see(gr.g);
  }
  const int myfixed = c.fx.empty() ? c.fixed : c.fx[rank];
  const int mynum = c.nm.empty() ? c.num : c.nm[rank];
  is.beginResize();
  {
    std::vector<Quad> qs = c.I[rank];
    if (c.ao == 1) std::reverse(qs.begin(), qs.end());
    else if (c.ao == 2) std::sort(qs.begin(), qs.end(), [](const Quad& x, const Quad& y) { long a = (x.g * 7919L + 13) % 101, b = (y.g * 7919L + 13) % 101; return a < b || (a == b && x.g > y.g); });
    for (const Quad& q : qs) is.add(Shift<G>::to(q.g), LI((std::size_t) q.l, (Flag) q.a, q.pub != 0));
  }
  is.endResize();
  // ---- rebuild: ring, or neighbour hints through the constructor / setNeighbours; includeSelf; ignorePublic
  std::vector<int> hints = c.hints[rank];
  if (c.ao) { std::vector<int> h2(hints.rbegin(), hints.rend()); h2.insert(h2.end(), hints.begin(), hints.end()); hints = h2; hints.reserve(hints.size() + 37); }
  bool selfarg = c.da && c.self && c.nb == 1;
  RI ri0(is, is, comm, c.nb == 1 ? hints : std::vector<int>(), selfarg);
  if (c.nb == 2) ri0.setNeighbours(hints);
  if (c.self && !selfarg) ri0.setIncludeSelf(true);
  if (c.ign) ri0.template rebuild<true>(); else ri0.template rebuild<false>();
  std::string B = gather(dump(is, ri0, 0), comm, c.P, rank);
  RI ri1(is, is, comm);
  bool hand = !c.forget.empty() && c.nb == 0;
  if (hand) {
    typedef Dune::RemoteIndexListModifier<PIS, Alloc, false> Mod0;
    for (auto r = ri0.begin(); r != ri0.end(); ++r) {
      bool drop = false;
      for (auto& f : c.forget) if ((f.first == rank && f.second == r->first) || (f.second == rank && f.first == r->first)) drop = true;
      if (drop) continue;
      Mod0 mod = ri1.template getModifier<false, true>(r->first);
      for (auto e = r->second.first->begin(); e != r->second.first->end(); ++e)
        mod.insert(REntry(e->attribute(), &e->localIndexPair()));
    }
  }
  RI& ri = hand ? ri1 : ri0;

  RecNumberer<G> numb; numb.mode = mynum;
  for (auto it = is.begin(); it != is.end(); ++it) numb.old[Shift<G>::back(it->global())] = (long) it->local().local();

  // ---- deletion of the chosen copies together with their remote entries (a function: the second stage st2= uses it again)
  auto do_delete = [&](const std::set<G>& del) {
  if (!del.empty()) {
    std::vector<int> nb;
    for (auto r = ri.begin(); r != ri.end(); ++r) nb.push_back(r->first);
    if (c.del == 'M' || c.del == 'm') {
      typedef Dune::RemoteIndexListModifier<PIS, Alloc, true> Mod;
      std::vector<Mod*> mods, originals;
      std::vector<std::vector<G> > has(nb.size());
      for (std::size_t i = 0; i < nb.size(); ++i) {
        for (auto e = ri.find(nb[i])->second.first->begin(); e != ri.find(nb[i])->second.first->end(); ++e)
          has[i].push_back(e->localIndexPair().global());
        Mod* m = new Mod(ri.template getModifier<true, true>(nb[i]));
        if (c.mc) { originals.push_back(m); m = new Mod(*m); }      // work through a copy; the original stays alive and idle
        mods.push_back(m);
      }
      is.beginResize();
      for (auto it = is.begin(); it != is.end(); ++it) if (del.count(it->global())) is.markAsDeleted(it);
      for (std::size_t i = 0; i < nb.size(); ++i)
        for (G g : has[i]) if (del.count(g)) mods[i]->remove(g);
      is.endResize();
      for (std::size_t i = 0; i < nb.size(); ++i) { mods[i]->repairLocalIndexPointers(); delete mods[i]; }
      for (Mod* o : originals) delete o;
    } else {
      typedef Dune::RemoteIndexListModifier<PIS, Alloc, false> Mod;
      is.beginResize();
      for (auto it = is.begin(); it != is.end(); ++it) if (del.count(it->global())) is.markAsDeleted(it);
      for (std::size_t i = 0; i < nb.size(); ++i) {
        std::vector<G> has;
        for (auto e = ri.find(nb[i])->second.first->begin(); e != ri.find(nb[i])->second.first->end(); ++e)
          has.push_back(e->localIndexPair().global());
        Mod mod = c.sf ? ri.template getModifier<false, false>(nb[i]) : ri.template getModifier<false, true>(nb[i]);
        for (G g : has) if (del.count(g)) mod.remove(g);
      }
      std::map<int, Dune::SLList<std::pair<G, Flag>, Alloc> > gmap;
      Dune::storeGlobalIndicesOfRemoteIndices(gmap, ri);
      is.endResize();
      Dune::repairLocalIndexPointers(gmap, ri, is);
    }
  }
  };
  {
    std::set<G> del;
    for (int g : c.D[rank]) del.insert(Shift<G>::to(g));
    do_delete(del);
  }
  // ---- growth: new pairs with hand-inserted remote entries (RemoteIndexListModifier<..,true>::insert(index, global))
  {
    typedef Dune::RemoteIndexListModifier<PIS, Alloc, true> Mod;
    std::map<int, std::vector<std::pair<G, int> > > ins;     // neighbour -> (global, remote attribute), ascending
    std::vector<const Case::Grow*> mine;
    for (const auto& gr : c.grow) if (gr.p == rank) {
      mine.push_back(&gr);
      for (auto& t : gr.to) ins[t.first].push_back(std::make_pair(Shift<G>::to(gr.g), t.second));
    }
    if (!mine.empty()) {
      std::vector<Mod*> mods; std::vector<int> keys;
      // every list needs a modifier: the resize invalidates the pointers of ALL remote entries
      std::set<int> all;
      for (auto r = ri.begin(); r != ri.end(); ++r) all.insert(r->first);
      for (auto& kv : ins) all.insert(kv.first);
      for (int q : all) { keys.push_back(q); mods.push_back(new Mod(ri.template getModifier<true, true>(q))); }
      is.beginResize();
      for (auto* gr : mine) is.add(Shift<G>::to(gr->g), LI((std::size_t) gr->l, (Flag) gr->a, true));
      for (std::size_t i = 0; i < keys.size(); ++i) {
        if (!ins.count(keys[i])) continue;
        auto& v = ins[keys[i]];
        std::sort(v.begin(), v.end());
        for (auto& e : v) mods[i]->insert(REntry((Flag) e.second), e.first);
      }
      is.endResize();
      for (std::size_t i = 0; i < keys.size(); ++i) { mods[i]->repairLocalIndexPointers(); delete mods[i]; }
      for (auto* gr : mine) numb.old[gr->g] = gr->l;
    }
  }
  std::string D = gather(dump(is, ri, 0), comm, c.P, rank);
  // If the deletion step itself left remote entries that do not point to a pair of the set (a defect of the
  // modifier's repair, reported from the D dump), sync would start from garbage: skip it on all ranks.
  {
    int bad = 0;
    std::set<const typename PIS::IndexPair*> addr;
    for (auto it = is.begin(); it != is.end(); ++it) addr.insert(&(*it));
    for (auto r = ri.begin(); r != ri.end(); ++r) {
      bool have = false; G last = G();
      for (auto e = r->second.first->begin(); e != r->second.first->end(); ++e) {
        if (!addr.count(&e->localIndexPair())) { bad = 1; break; }
        if (have && e->localIndexPair().global() <= last) bad = 1;
        last = e->localIndexPair().global(); have = true;
      }
    }
    int anybad = 0;
    MPI_Allreduce(&bad, &anybad, 1, MPI_INT, MPI_MAX, comm);
    if (anybad) return "B " + B + " # D " + D + " # S SKIPPED";
    if (c.del == 'm') return "B " + B + " # D " + D + " # S SKIPPED-NOSYNC";
  }

  // ---- sync
  pmpi_sched_reseed(c.seed);
  Syncer syncer(is, ri);
  if (mynum == 0) syncer.sync();
  else if (c.da && !myfixed) syncer.sync(numb);               // useFixedOrder defaulted
  else syncer.sync(numb, myfixed != 0);
  pmpi_sched_reseed(0);
  std::string S = gather(dump(is, ri, &numb.calls), comm, c.P, rank);
  std::string res = "B " + B + " # D " + D + " # S " + S;
  if (c.twice) {
    // a second sync on the (now consistent) state must change nothing and must not ask the numberer for anything
    RecNumberer<G> numb2; numb2.mode = 2;
    if (!c.nobar) MPI_Barrier(comm);      // see nobar= in the header comment
    pmpi_sched_reseed(c.seed + 1);
    if (c.twice == 2) syncer.sync(numb2, myfixed != 0);
    else if (c.twice == 3) { Syncer copy(syncer); copy.sync(numb2, myfixed != 0); }
    else { Syncer syncer2(is, ri); syncer2.sync(numb2, myfixed != 0); }
    pmpi_sched_reseed(0);
    res += " # T " + gather(dump(is, ri, &numb2.calls), comm, c.P, rank);
  }
  if (c.st2 && !c.twice && !c.hist) {
    // ---- second stage on the state the first sync left: delete again, sync again (fresh / SAME / copied syncer object)
    RecNumberer<G> numb2; numb2.mode = mynum;
    for (auto it = is.begin(); it != is.end(); ++it) numb2.old[Shift<G>::back(it->global())] = (long) it->local().local();
    std::set<G> del2;
    for (int g : c.D2[rank]) del2.insert(Shift<G>::to(g));
    do_delete(del2);
    std::string D2 = gather(dump(is, ri, 0), comm, c.P, rank);
    int bad = 0, anybad = 0;
    {
      std::set<const typename PIS::IndexPair*> addr;
      for (auto it = is.begin(); it != is.end(); ++it) addr.insert(&(*it));
      for (auto r = ri.begin(); r != ri.end(); ++r)
        for (auto e = r->second.first->begin(); e != r->second.first->end(); ++e)
          if (!addr.count(&e->localIndexPair())) { bad = 1; break; }
    }
    MPI_Allreduce(&bad, &anybad, 1, MPI_INT, MPI_MAX, comm);
    if (anybad) return res + " # U " + D2 + " ## SKIPPED";
    MPI_Barrier(comm);                      // (rounds of consecutive arrival-order syncs must not overlap: known finding C13-6)
    pmpi_sched_reseed(c.seed + 2);
    auto run2 = [&](Syncer& sy) { if (mynum == 0) sy.sync(); else sy.sync(numb2, myfixed != 0); };
    if (c.st2 == 2) run2(syncer);
    else if (c.st2 == 3) { Syncer copy(syncer); run2(copy); }
    else { Syncer syncer2(is, ri); run2(syncer2); }
    pmpi_sched_reseed(0);
    res += " # U " + D2 + " ## " + gather(dump(is, ri, &numb2.calls), comm, c.P, rank);
  }
  if (c.hist == 1) {
    if (c.ign) ri.template rebuild<true>(); else ri.template rebuild<false>();          // synced: must not touch anything
    std::string H1 = gather(dump(is, ri, 0), comm, c.P, rank);
    is.beginResize(); is.endResize();                                                      // seqNo++: the lists are stale now
    int stale = ri.isSynced() ? 0 : 1, allstale = 0;
    MPI_Allreduce(&stale, &allstale, 1, MPI_INT, MPI_MIN, comm);
    if (c.ign) ri.template rebuild<true>(); else ri.template rebuild<false>();          // free() + buildRemote
    res += " # H " + H1 + " ## " + gather(dump(is, ri, 0), comm, c.P, rank) + " ## stale=" + std::to_string(allstale);
  }
  return res;
}

static std::string run_case(const Case& c, MPI_Comm comm, int rank)
{
  if (c.gt == 1) return run_case_t<long, 100>(c, comm, rank);
  if (c.gt == 2) return run_case_t<Big, 7>(c, comm, rank);
  return run_case_t<int, 4>(c, comm, rank);      // chunk size 4: re-sorting crosses chunk boundaries often
}

int main(int argc, char** argv)
{
  MPI_Init(&argc, &argv);
  int NP, wrank;
  MPI_Comm_size(MPI_COMM_WORLD, &NP);
  MPI_Comm_rank(MPI_COMM_WORLD, &wrank);
  g_rank = wrank;
  if (argc < 2) { if (!wrank) std::fprintf(stderr, "usage: impl cases.txt\n"); MPI_Finalize(); return 2; }
  std::map<int, MPI_Comm> comms;
  for (int P = 1; P <= NP; ++P) {
    MPI_Comm cm; MPI_Comm_split(MPI_COMM_WORLD, wrank < P ? 0 : MPI_UNDEFINED, wrank, &cm); comms[P] = cm;
  }
  int tmo = std::getenv("C13_CASE_TIMEOUT") ? std::atoi(std::getenv("C13_CASE_TIMEOUT")) : 30;
  std::signal(SIGALRM, on_alarm);
  std::ifstream in(argv[1]);
  std::string line;
  long n = 0;
  while (std::getline(in, line)) {
    if (line.empty()) continue;
    g_case = n++;
    Case c;
    bool ok = parse(line, c) && c.P >= 1 && c.P <= NP;
    if (!ok) { if (!wrank) { std::cout << "BADCASE" << std::endl; } continue; }
    std::string out;
    if (c.cm.empty()) {
      if (wrank < c.P) {
        alarm(tmo);
        MPI_Comm cc = comms[c.P]; bool fr = false;
        if (c.ck == 1) { MPI_Comm_dup(comms[c.P], &cc); fr = true; }
        else if (c.ck == 2 && c.P == 1) cc = MPI_COMM_SELF;
        out = run_case(c, cc, wrank);
        if (fr) MPI_Comm_free(&cc);
        alarm(0);
      }
      MPI_Barrier(MPI_COMM_WORLD);
    } else {
      // a communicator whose rank numbering differs from MPI_COMM_WORLD
      bool good = (int) c.cm.size() == c.P;
      std::set<int> seen;
      for (int w : c.cm) { if (w < 0 || w >= NP || seen.count(w)) good = false; seen.insert(w); }
      if (!good) { if (!wrank) { std::cout << "BADCASE" << std::endl; } continue; }
      int key = -1;
      for (int i = 0; i < c.P; ++i) if (c.cm[i] == wrank) key = i;
      MPI_Comm sub;
      MPI_Comm_split(MPI_COMM_WORLD, key >= 0 ? 0 : MPI_UNDEFINED, key, &sub);
      if (key >= 0) {
        int crank; MPI_Comm_rank(sub, &crank);
        alarm(tmo);
        MPI_Comm cc = sub; bool fr = false;
        if (c.ck == 1) { MPI_Comm_dup(sub, &cc); fr = true; }
        else if (c.ck == 2 && c.P == 1) cc = MPI_COMM_SELF;
        out = run_case(c, cc, crank);
        if (fr) MPI_Comm_free(&cc);
        alarm(0);
        MPI_Comm_free(&sub);
      }
      MPI_Barrier(MPI_COMM_WORLD);
      // the line sits on communicator rank 0 = world rank cm[0]; world rank 0 prints
      int root = c.cm[0];
      if (root != 0) {
        if (wrank == root) { int len = (int) out.size(); PMPI_Send(&len, 1, MPI_INT, 0, 777, MPI_COMM_WORLD); PMPI_Send(const_cast<char*>(out.data()), len, MPI_CHAR, 0, 778, MPI_COMM_WORLD); }
        if (wrank == 0) { int len = 0; PMPI_Recv(&len, 1, MPI_INT, root, 777, MPI_COMM_WORLD, MPI_STATUS_IGNORE); std::vector<char> b(len + 1);
                          PMPI_Recv(b.data(), len, MPI_CHAR, root, 778, MPI_COMM_WORLD, MPI_STATUS_IGNORE); out.assign(b.data(), len); }
      }
    }
    if (!wrank) { std::cout << out << std::endl; }
  }
  MPI_Finalize();
  return 0;
}
