// C14 impl driver: main program, case parsing, span operations.
#include "c14_impl.hh"
#include <fstream>
#include <iostream>
#include <sstream>
#include <unordered_map>

namespace c14 {
VL Case::list(const std::string& k) const
{
  VL v; auto it = kv.find(k);
  if (it == kv.end() || it->second == "-" || it->second.empty()) return v;
  std::stringstream ss(it->second); std::string t;
  while (std::getline(ss, t, ',')) v.push_back(std::stoll(t));
  return v;
}
LL Case::num(const std::string& k, LL d) const { auto it = kv.find(k); return it == kv.end() ? d : std::stoll(it->second); }
std::string Case::str(const std::string& k) const { auto it = kv.find(k); return it == kv.end() ? "" : it->second; }
std::string join(const VL& v)
{
  if (v.empty()) return "-";
  std::string s;
  for (std::size_t i = 0; i < v.size(); ++i) { if (i) s += ","; s += std::to_string(v[i]); }
  return s;
}

// ---------------------------------------------------------------- span
// storage: n longs with store[k] = 1000+k; the span under test covers [o0, o0+len0).
template <class Sp>
std::string desc(const Sp& s, const long* b)
{
  return "off=" + ts(s.data() - b) + " len=" + ts(LL(s.size())) + " bytes=" + ts(LL(s.size_bytes())) + " empty=" + ts(s.empty()) +
         " it=" + ts(LL(s.end() - s.begin())) + " ext=" + (Sp::extent == DS::dynamic_extent ? std::string("d") : ts(LL(Sp::extent)));
}
template <class Sp>
std::string span_ops(const Sp& s, const long* b, const Case& c)
{
  std::string f = c.str("f");
  LL a = c.num("a"), cc = c.num("c");
  if (f == "desc") return desc(s, b);
  if (f == "first") return desc(s.first(std::size_t(a)), b);
  if (f == "last") return desc(s.last(std::size_t(a)), b);
  if (f == "sub") return desc(cc < 0 ? s.subspan(std::size_t(a)) : s.subspan(std::size_t(a), std::size_t(cc)), b);
  if (f == "subd") return desc(s.subspan(std::size_t(a), DS::dynamic_extent), b);
  if (f == "at") {
    try { const long& r = s.at(std::size_t(a)); return "pos=" + ts(&r - b) + " v=" + ts(r); }
    catch (const std::out_of_range&) { return "EXC out_of_range"; }
  }
  if (f == "idx") { const long& r = s[std::size_t(a)]; return "pos=" + ts(&r - b) + " v=" + ts(r); }
  if (f == "front") { const long& r = s.front(); return "pos=" + ts(&r - b) + " v=" + ts(r); }
  if (f == "back") { const long& r = s.back(); return "pos=" + ts(&r - b) + " v=" + ts(r); }
  if (f == "iter") { VL v; for (auto it = s.begin(); it != s.end(); ++it) v.push_back(*it); VL r; for (auto it = s.rbegin(); it != s.rend(); ++it) r.push_back(*it); return "fw=" + join(v) + " rv=" + join(r); }
  if (f == "conv") { DS::span<const long> d(s); return desc(d, b); }
  if (f == "tost") {   // dynamic -> static extent (explicit), static -> static const
    if constexpr (Sp::extent == DS::dynamic_extent) {
      using T = typename Sp::element_type;
      switch (s.size()) {
        case 0: { DS::span<T, 0> t(s); DS::span<const T, 0> u(t); return desc(t, b) + " | " + desc(u, b); }
        case 1: { DS::span<T, 1> t(s); DS::span<const T, 1> u(t); return desc(t, b) + " | " + desc(u, b); }
        case 3: { DS::span<T, 3> t(s); DS::span<const T, 3> u(t); return desc(t, b) + " | " + desc(u, b); }
        case 4: { DS::span<T, 4> t(s); DS::span<const T, 4> u(t); return desc(t, b) + " | " + desc(u, b); }
        case 7: { DS::span<T, 7> t(s); DS::span<const T, 7> u(t); return desc(t, b) + " | " + desc(u, b); }
      }
    }
    return "UNKNOWN-SPAN-OP";
  }
  if (f == "asg") {   // copy assignment, const/reverse iterators, default construction (dynamic extent)
    Sp t(s); Sp u(t); u = s;
    bool ok = u.data() == s.data() && u.size() == s.size() && (s.cend() - s.cbegin()) == std::ptrdiff_t(s.size()) &&
              (s.rend() - s.rbegin()) == std::ptrdiff_t(s.size()) && s.cbegin() == s.begin();   // crbegin/crend: probe 6
    if constexpr (Sp::extent == DS::dynamic_extent) { Sp z; ok = ok && z.size() == 0 && z.empty() && z.data() == nullptr; z = s; ok = ok && z.data() == s.data() && z.size() == s.size(); }
    return desc(u, b) + " ok=" + ts(ok);
  }
  // compile-time counts/offsets (static template versions); only valid combinations are generated
  if constexpr (Sp::extent == DS::dynamic_extent || Sp::extent >= 3) {
    if (f == "sfirst") { switch (a) { case 0: return desc(s.template first<0>(), b); case 1: return desc(s.template first<1>(), b); case 2: return desc(s.template first<2>(), b); case 3: return desc(s.template first<3>(), b); } }
    if (f == "slast") { switch (a) { case 0: return desc(s.template last<0>(), b); case 1: return desc(s.template last<1>(), b); case 2: return desc(s.template last<2>(), b); case 3: return desc(s.template last<3>(), b); } }
    if (f == "ssub") {
      switch (a * 10 + (cc < 0 ? 9 : cc)) {
        case 0: return desc(s.template subspan<0, 0>(), b);   case 1: return desc(s.template subspan<0, 1>(), b);
        case 2: return desc(s.template subspan<0, 2>(), b);   case 3: return desc(s.template subspan<0, 3>(), b);
        case 9: return desc(s.template subspan<0>(), b);      case 10: return desc(s.template subspan<1, 0>(), b);
        case 11: return desc(s.template subspan<1, 1>(), b);  case 12: return desc(s.template subspan<1, 2>(), b);
        case 19: return desc(s.template subspan<1>(), b);     case 20: return desc(s.template subspan<2, 0>(), b);
        case 21: return desc(s.template subspan<2, 1>(), b);  case 29: return desc(s.template subspan<2>(), b);
        case 30: return desc(s.template subspan<3, 0>(), b);  case 39: return desc(s.template subspan<3>(), b);
      }
    }
  }
  return "UNKNOWN-SPAN-OP";
}
std::string run_span(const Case& c)
{
  LL n = c.num("n"), o0 = c.num("o"), len = c.num("len");
  std::vector<long> store(n + 1);
  for (std::size_t k = 0; k < store.size(); ++k) store[k] = 1000 + long(k);
  const long* b = store.data();
  std::string x = c.str("x");
  if (x == "d") return span_ops(DS::span<long>(store.data() + o0, std::size_t(len)), b, c);
  if (x == "dc") return span_ops(DS::span<const long>(store.data() + o0, std::size_t(len)), b, c);
  if (x == "dv") { std::vector<long>& r = store; DS::span<long> s(r); return span_ops(s.subspan(std::size_t(o0), std::size_t(len)), b, c); }
  if (x == "di") return span_ops(DS::span<long>(store.begin() + o0, store.begin() + o0 + len), b, c);
  if (x == "0" && len == 0) return span_ops(DS::span<long, 0>(store.data() + o0, 0), b, c);
  if (x == "1" && len == 1) return span_ops(DS::span<long, 1>(store.data() + o0, 1), b, c);
  if (x == "3" && len == 3) return span_ops(DS::span<long, 3>(store.data() + o0, 3), b, c);
  if (x == "4" && len == 4) return span_ops(DS::span<long, 4>(store.data() + o0, 4), b, c);
  if (x == "7" && len == 7) return span_ops(DS::span<long, 7>(store.data() + o0, 7), b, c);
  if (x == "a5" && len == 5) { std::array<long, 5> arr; for (int i = 0; i < 5; ++i) arr[i] = 1000 + o0 + i; DS::span s(arr);
                               std::string r = span_ops(s, arr.data() - o0, c); return r; }
  if (x == "c4" && len == 4) { long arr[4]; for (int i = 0; i < 4; ++i) arr[i] = 1000 + o0 + i; DS::span s(arr);
                               std::string r = span_ops(s, arr - o0, c); return r; }
  return "UNKNOWN-SPAN-KIND";
}
} // namespace c14

int main(int argc, char** argv)
{
  using namespace c14;
  std::unordered_map<std::string, Fn> tab;
  for (int k = 0; k < table_parts(); ++k)
    for (const Entry& e : table_part(k)) tab[e.name] = e.fn;
  std::ifstream in(argv[1]);
  std::string line;
  while (std::getline(in, line)) {
    std::stringstream ss(line);
    Case c; std::string t;
    ss >> c.op >> c.inst;
    while (ss >> t) { auto q = t.find('='); if (q != std::string::npos) c.kv[t.substr(0, q)] = t.substr(q + 1); }
    std::string out;
    try {
      if (c.op == "span") out = run_span(c);
      else {
        std::string key = c.op + "/" + c.inst;
        if (c.kv.count("lay")) key = c.op + "/" + c.kv["lay"] + "/" + c.inst;
        auto it = tab.find(key);
        if (it != tab.end()) out = it->second(c);
        else if (c.op.rfind("p1", 0) == 0) out = probe1(c);
        else if (c.op.rfind("p2", 0) == 0) out = probe2(c);
        else if (c.op.rfind("p3", 0) == 0) out = probe3(c);
        else if (c.op.rfind("p4", 0) == 0) out = probe4(c);
        else if (c.op.rfind("p5", 0) == 0) out = probe5(c);
        else if (c.op.rfind("p6", 0) == 0) out = probe6(c);
        else if (c.op.rfind("p7", 0) == 0) out = probe7(c);
        else if (c.op.rfind("p8", 0) == 0) out = probe8(c);
        else out = "NO-INSTANCE " + key;
      }
    } catch (const std::exception& e) { out = std::string("THROWN ") + e.what(); }
    std::cout << out << std::endl;
  }
  return 0;
}
