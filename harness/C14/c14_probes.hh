// C14 impl driver: features that get their own translation unit ("probe").  If a probe does not
// compile against the tree, checks/C14.py links a stub that answers NOCOMPILE for its cases, so
// that a constructor that cannot be instantiated is an observation attributed to concrete cases
// and not a failure of the whole harness.
#ifndef C14_PROBES_HH
#define C14_PROBES_HH
#include "c14_impl.hh"
#include <cstring>
namespace c14 {

inline std::string probe_lookup(const std::vector<Entry>& t, const Case& c)
{
  std::string key = c.op + "/" + c.str("lay") + "/" + c.inst;
  for (const Entry& e : t) if (key == e.name) return e.fn(c);
  return "NO-INSTANCE " + key;
}

// probe 1: layout_left/right::mapping(const layout_stride::mapping&)   (asserts enabled)
template <class DstLay, class Ext>
std::string run_p1cvt(const Case& c)
{
  Ext e = make_ext<Ext>(c.list("E"));
  auto ms = make_mapping<DS::layout_stride>(e, c.list("S"));
  typename DstLay::template mapping<Ext> m(ms);
  return describe(m);
}
template <class DstLay, class Ext>
std::string run_p1fs(const Case& c) { return run_mdafs<DS::layout_stride, DstLay, Ext>(c); }

// probe 2: mdspan converting constructor (element type -> const, extents -> dextents of another index type)
template <class Lay, class Ext>
std::string run_p2conv(const Case& c)
{
  using J = Other<typename Ext::index_type>;
  constexpr std::size_t R = Ext::rank();
  VL E = c.list("E"), S = c.list("S");
  LL base = c.num("base");
  Ext e = make_ext<Ext>(E);
  auto m = make_mapping<Lay>(e, S);
  std::vector<long> store(base + LL(m.required_span_size()) + 3);
  for (std::size_t k = 0; k < store.size(); ++k) store[k] = 1000 + long(k);
  DS::mdspan<long, Ext, Lay> a(store.data() + base, m);
  DS::mdspan<const long, Ext, Lay> b(a);
  DS::mdspan<long, DS::dextents<J, R>, Lay> d(a);
  VL pb, pd;
  std::array<typename Ext::index_type, R> idx{};
  for (bool ok = first_tuple(idx, E); ok; ok = next_tuple(idx, E)) {
    std::array<J, R> jdx{};
    for (std::size_t r = 0; r < R; ++r) jdx[r] = J(idx[r]);
    pb.push_back(&b[idx] - store.data());
    pd.push_back(&d[jdx] - store.data());
  }
  return "ext=" + join(ext_list(b.extents())) + " dext=" + join(ext_list(d.extents())) + " pb=" + join(pb) + " pd=" + join(pd);
}

// probe 3: mdarray(const mdspan&, const Alloc&)
template <class Lay, class Ext>
std::string run_p3alloc(const Case& c)
{
  constexpr std::size_t R = Ext::rank();
  VL E = c.list("E"), S = c.list("S");
  LL base = c.num("base");
  Ext e = make_ext<Ext>(E);
  auto m = make_mapping<Lay>(e, S);
  std::vector<long> store(base + LL(m.required_span_size()) + 3);
  for (std::size_t k = 0; k < store.size(); ++k) store[k] = 1000 + long(k);
  DS::mdspan<long, Ext, Lay> src(store.data() + base, m);
  std::allocator<long> al;
  DS::mdarray<long, Ext, Lay> a(src, al);
  VL vs, va, p;
  std::array<typename Ext::index_type, R> idx{};
  for (bool ok = first_tuple(idx, E); ok; ok = next_tuple(idx, E)) {
    vs.push_back(LL(src[idx])); va.push_back(LL(a[idx])); p.push_back(&a[idx] - a.container_data());
  }
  return "cs=" + ts(LL(a.container_size())) + " ext=" + join(ext_list(a.extents())) + " p=" + join(p) + " v=" + join(va) + " src=" + join(vs);
}

// probe 4: layout_stride::mapping == layout_left/right::mapping
template <class Lay, class Ext>
std::string run_p4eq(const Case& c)
{
  Ext e = make_ext<Ext>(c.list("E"));
  auto ms = make_mapping<DS::layout_stride>(e, c.list("S"));
  auto m = make_mapping<Lay>(e, c.list("S"));
  typename DS::layout_stride::template mapping<Ext> conv(m);
  return "eqconv=" + ts(conv == m) + " eq=" + ts(ms == m) + " ss=" + ts(ms == conv);
}

// probe 5: rank-0 layout_stride mappings: default construction and conversion from layout_left/right
template <class Lay, class Ext>
std::string run_p5r0(const Case& c)
{
  static_assert(Ext::rank() == 0);
  typename Lay::template mapping<Ext> m{Ext{}};
  typename DS::layout_stride::template mapping<Ext> d, s(m);
  typename DS::layout_stride::template mapping<DS::extents<Other<typename Ext::index_type>>> o(s);
  return "D " + describe(d) + " | C " + describe(s) + " | O " + describe(o);
}

// probe 6: span::crbegin()/crend()
template <class Long = long>     // a template so that only probe6.cc instantiates it
std::string run_p6crit(const Case& c)
{
  LL n = c.num("n"), o0 = c.num("o"), len = c.num("len");
  std::vector<long> store(n + 1);
  for (std::size_t k = 0; k < store.size(); ++k) store[k] = 1000 + long(k);
  DS::span<Long> s(store.data() + o0, std::size_t(len));
  DS::span<const Long, 3> t(store.data() + o0, 3);
  VL r, r3;
  for (auto it = s.crbegin(); it != s.crend(); ++it) r.push_back(*it);
  for (auto it = t.crbegin(); it != t.crend(); ++it) r3.push_back(*it);
  return "rv=" + join(r) + " rv3=" + join(r3) + " n=" + ts(LL(s.crend() - s.crbegin()));
}

// probe 7: mdarray::to_mdspan(accessor) with the accessor argument given explicitly on a non-const array
template <class Lay, class Ext>
std::string run_p7tm(const Case& c)
{
  VL E = c.list("E");
  Ext e = make_ext<Ext>(E);
  DS::mdarray<long, Ext, Lay> x(e, 5L);
  auto w = x.to_mdspan(DS::default_accessor<long>{});
  std::array<typename Ext::index_type, Ext::rank()> idx{};
  VL p; long n = 0;
  for (bool ok = first_tuple(idx, E); ok; ok = next_tuple(idx, E), ++n) { w[idx] = 7000 + n; p.push_back(&w[idx] - x.container_data()); }
  VL v(x.container().begin(), x.container().end());
  return "p=" + join(p) + " w=" + join(v);
}

// probe 8 (second cross-cutting audit, kind B): layout_left/right::mapping<E1> == layout_left/right::mapping<E2> with
// DIFFERENT extents types on the two sides (other index type, all-dynamic pattern), both directions
template <class Lay, class Ext>
std::string run_p8meq(const Case& c)
{
  using EB = DS::dextents<long, Ext::rank()>;
  Ext ea = make_ext<Ext>(c.list("E"));
  EB eb = make_ext<EB>(c.list("E2"));
  typename Lay::template mapping<Ext> a(ea);
  typename Lay::template mapping<EB> b(eb);
  return "ea=" + join(ext_list(a.extents())) + " eb=" + join(ext_list(b.extents())) + " ab=" + ts(a == b) + " ba=" + ts(b == a) +
         " ne=" + ts(a != b);
}

} // namespace c14
#endif
