// C15 impl driver: replays allocate/free scripts on the allocators of the working tree
//   Dune::Pool<T,S>, Dune::PoolAllocator<T,s>, Dune::MallocAllocator<T>, Dune::AlignedAllocator<T,Al>,
//   Dune::DebugAllocator<T>, Dune::isAligned
// and prints ONE line per case in the canonical form of ml/C15_driver.ml (no addresses):
//   pool/pa : G<unionSize>,<size>,<alignment>,<alignedSize>,<chunkSize>,<elements>  c<chunk#>+<offset> | bad_alloc | F ...  D<bytes>:<released chunk#s>
//   malloc/aligned : ok | bad_alloc | F          debug : ok:o<ptr mod page> | bad_alloc | F | ABORT(msg)
// A token gets a !flag when the harness itself sees an address-level failure (misaligned, overlap with a live
// block, outside every chunk, tag corrupted, not writable, no guard page, still mapped after release).
// Chunk allocations are identified by replacing the global operator new/delete (recording only while an
// allocator call is in progress).  Every case runs in a forked child: abort()/SIGSEGV are observations.
// The set of instantiated configurations comes from build/C15/configs.inc (written by checks/C15.py).
#include <config.h>
#include <cerrno>
#include <cstdint>
#include <cstdio>
#include <cstdlib>
#include <cstring>
#include <fstream>
#include <iostream>
#include <new>
#include <sstream>
#include <string>
#include <vector>
#include <fcntl.h>
#include <signal.h>
#include <sys/mman.h>
#include <sys/wait.h>
#include <unistd.h>

#include <dune/common/poolallocator.hh>
#include <dune/common/mallocallocator.hh>
#include <dune/common/alignedallocator.hh>
#include <dune/common/debugallocator.hh>
#include <dune/common/debugalign.hh>

#ifndef CONFIGS_INC
#define CONFIGS_INC "configs.inc"
#endif

// ------------------------------------------------------------------ operator new recorder
namespace rec {
  struct R { char* p; std::size_t size; std::size_t align; bool live; };
  static R tab[4096];
  static int n = 0;
  static int released[4096];
  static int nreleased = 0;
  static bool on = false;
  static bool overflow = false;
  static void add(void* p, std::size_t size, std::size_t align) {
    if (n < 4096) { tab[n].p = (char*)p; tab[n].size = size; tab[n].align = align; tab[n].live = true; ++n; } else overflow = true;
  }
  static void del(void* p) {
    for (int i = 0; i < n; ++i) if (tab[i].p == (char*)p && tab[i].live) { tab[i].live = false; if (nreleased < 4096) released[nreleased++] = i; return; }
    if (nreleased < 4096) released[nreleased++] = -1;     // delete of something that is not a live chunk
  }
  static int find(const void* q) {
    for (int i = 0; i < n; ++i) if (tab[i].live && tab[i].p <= (const char*)q && (const char*)q < tab[i].p + tab[i].size) return i;
    return -1;
  }
}
static void* do_new(std::size_t size, std::size_t align) {
  void* p;
  if (size == 0) size = 1;
  if (align <= alignof(std::max_align_t)) p = std::malloc(size);
  else p = std::aligned_alloc(align, (size + align - 1) / align * align);
  if (!p) throw std::bad_alloc();
  if (rec::on) rec::add(p, size, align);
  return p;
}
static void do_delete(void* p) { if (!p) return; if (rec::on) rec::del(p); std::free(p); }
void* operator new(std::size_t s) { return do_new(s, 1); }
void* operator new[](std::size_t s) { return do_new(s, 1); }
void* operator new(std::size_t s, std::align_val_t a) { return do_new(s, (std::size_t)a); }
void* operator new[](std::size_t s, std::align_val_t a) { return do_new(s, (std::size_t)a); }
void operator delete(void* p) noexcept { do_delete(p); }
void operator delete[](void* p) noexcept { do_delete(p); }
void operator delete(void* p, std::size_t) noexcept { do_delete(p); }
void operator delete[](void* p, std::size_t) noexcept { do_delete(p); }
void operator delete(void* p, std::align_val_t) noexcept { do_delete(p); }
void operator delete[](void* p, std::align_val_t) noexcept { do_delete(p); }
void operator delete(void* p, std::size_t, std::align_val_t) noexcept { do_delete(p); }
void operator delete[](void* p, std::size_t, std::align_val_t) noexcept { do_delete(p); }

// ------------------------------------------------------------------ output (shared with the parent)
static char* g_out = nullptr;           // MAP_SHARED buffer
static std::size_t g_outcap = 0;
static std::size_t* g_outlen = nullptr;
static void emit(const std::string& tok) {
  std::size_t& len = *g_outlen;
  if (len + tok.size() + 2 >= g_outcap) return;
  if (len) g_out[len++] = ' ';
  std::memcpy(g_out + len, tok.data(), tok.size()); len += tok.size(); g_out[len] = 0;
}

// ------------------------------------------------------------------ element types
template<std::size_t S, std::size_t A> struct alignas(A) Blob { unsigned char d[S]; };

struct Op { char k; unsigned long long n; };
struct LiveBlk { char* p; unsigned long long bytes; unsigned char tag; unsigned long long n; bool tagged; };

static bool overlaps(const std::vector<LiveBlk>& live, const char* p, unsigned long long bytes) {
  if (bytes == 0) return false;
  for (auto& b : live) if (b.bytes && p < b.p + b.bytes && b.p < p + bytes) return true;
  return false;
}
static bool tag_ok(const LiveBlk& b) {
  if (!b.tagged) return true;
  for (unsigned long long i = 0; i < b.bytes; ++i) if ((unsigned char)b.p[i] != b.tag) return false;
  return true;
}
static unsigned char g_tagctr = 0;
static unsigned char next_tag() { g_tagctr = (unsigned char)(g_tagctr % 250 + 1); return g_tagctr; }

// ------------------------------------------------------------------ pool runner (type-erased)
struct PoolVT {
  long geom[6]; std::size_t sT, aT, objsize, objalign;
  void (*create)(void*); void* (*alloc)(void*, std::size_t); void (*dealloc)(void*, void*); void (*destroy)(void*);
};
template<class T, std::size_t S> PoolVT vt_pool() {
  using P = Dune::Pool<T, S>;
  PoolVT v{{P::unionSize, P::size, P::alignment, P::alignedSize, P::chunkSize, P::elements}, sizeof(T), alignof(T), sizeof(P), alignof(P),
    [](void* b) { new (b) P; },
    [](void* s, std::size_t n) -> void* { if (n != 1) throw std::bad_alloc(); return ((P*)s)->allocate(); },
    [](void* s, void* p) { ((P*)s)->free(p); },
    [](void* s) { ((P*)s)->~P(); }};
  return v;
}
template<class T, std::size_t s> PoolVT vt_pa() {
  using A = Dune::PoolAllocator<T, s>;
  using P = typename A::PoolType;
  PoolVT v{{P::unionSize, P::size, P::alignment, P::alignedSize, P::chunkSize, P::elements}, sizeof(T), alignof(T), sizeof(A), alignof(A),
    [](void* b) { new (b) A; },
    [](void* self, std::size_t n) -> void* { return ((A*)self)->allocate(n); },
    [](void* self, void* p) { ((A*)self)->deallocate((T*)p, 1); },
    [](void* self) { ((A*)self)->~A(); }};
  return v;
}

static void run_pool(const PoolVT& v, const std::vector<Op>& ops) {
  char g[160]; std::snprintf(g, sizeof g, "G%ld,%ld,%ld,%ld,%ld,%ld", v.geom[0], v.geom[1], v.geom[2], v.geom[3], v.geom[4], v.geom[5]);
  emit(g);
  alignas(64) static char buf[256];
  if (v.objsize > sizeof buf) { emit("HARNESS-OBJECT-TOO-BIG"); return; }
  v.create(buf);
  std::vector<LiveBlk> live; live.reserve(ops.size() + 1);
  for (const Op& op : ops) {
    if (op.k == 'a') {
      void* p = nullptr; std::string tok;
      rec::on = true;
      try { p = v.alloc(buf, op.n); } catch (std::bad_alloc&) { tok = "bad_alloc"; } catch (...) { tok = "EXC-other"; }
      rec::on = false;
      if (tok.empty()) {
        int c = rec::find(p);
        char t[96];
        if (c < 0) { std::snprintf(t, sizeof t, "c?+?!outside"); tok = t; }
        else {
          std::snprintf(t, sizeof t, "c%d+%zu", c, (std::size_t)((char*)p - rec::tab[c].p)); tok = t;
          if ((char*)p + v.sT > rec::tab[c].p + rec::tab[c].size) tok += "!outside";
        }
        if ((std::uintptr_t)p % v.aT != 0 || !Dune::isAligned(p, v.aT)) tok += "!misaligned";
        if (overlaps(live, (char*)p, v.sT)) tok += "!overlap";
        LiveBlk b{(char*)p, v.sT, next_tag(), op.n, c >= 0};
        if (b.tagged) std::memset(p, b.tag, v.sT);           // writable over the whole extent
        live.push_back(b);
      }
      emit(tok);
    } else {
      if (op.n >= live.size()) { emit("BADCASE"); continue; }
      LiveBlk b = live[op.n];
      std::string tok = "F";
      if (!tag_ok(b)) tok += "!corrupt";
      live.erase(live.begin() + op.n);
      rec::on = true;
      try { v.dealloc(buf, b.p); } catch (std::bad_alloc&) { tok = "bad_alloc"; } catch (...) { tok = "EXC-other"; }
      rec::on = false;
      emit(tok);
    }
  }
  bool corrupt = false;
  for (auto& b : live) if (!tag_ok(b)) corrupt = true;
  std::size_t bytes = rec::n ? rec::tab[0].size : 0; bool differ = false;
  for (int i = 0; i < rec::n; ++i) if (rec::tab[i].size != bytes) differ = true;
  rec::on = true; v.destroy(buf); rec::on = false;
  std::string d = "D" + std::to_string(bytes) + ":";
  for (int i = 0; i < rec::nreleased; ++i) { if (i) d += "."; d += rec::released[i] < 0 ? std::string("?") : std::to_string(rec::released[i]); }
  if (corrupt) d += "!corrupt";
  if (differ) d += "!chunksizes";
  if (rec::overflow) d += "!recorder-overflow";
  for (int i = 0; i < rec::n; ++i) if ((std::uintptr_t)rec::tab[i].p % (std::size_t)v.geom[2]) { d += "!chunkmisaligned"; break; }
  emit(d);
}

// ------------------------------------------------------------------ malloc / aligned / debug runner
static int g_pipe[2] = {-1, -1};
static int g_zero = -1;
// readable?  write(pipe, addr, 1) fails with EFAULT when addr is not readable
static bool readable(const void* a) {
  char sink;
  if (write(g_pipe[1], a, 1) == 1) { (void)!read(g_pipe[0], &sink, 1); return true; }
  return false;
}
// writable?  read(/dev/zero, addr, 1) fails with EFAULT when addr is not writable (destroys the byte)
static bool writable(void* a) { return read(g_zero, a, 1) == 1; }

struct SysVT {
  std::size_t sT, aT, promised;    // promised alignment
  void* (*alloc)(unsigned long long); void (*dealloc)(void*, unsigned long long);
};
template<class A> SysVT vt_sys(std::size_t promised) {
  using T = typename A::value_type;
  return SysVT{sizeof(T), alignof(T), promised,
    [](unsigned long long n) -> void* { A a; return a.allocate(n); },
    [](void* p, unsigned long long n) { A a; a.deallocate((T*)p, n); }};
}

static const unsigned long long WRITE_LIMIT = 1ull << 22;

static void run_sys(const SysVT& v, const std::vector<Op>& ops, bool debug, unsigned long long page) {
  std::vector<LiveBlk> live; live.reserve(ops.size() + 1);
  for (const Op& op : ops) {
    if (op.k == 'a') {
      void* p = nullptr; std::string tok;
      try { p = v.alloc(op.n); } catch (std::bad_alloc&) { tok = "bad_alloc"; } catch (...) { tok = "EXC-other"; }
      if (tok.empty()) {
        unsigned __int128 wide = (unsigned __int128)op.n * v.sT;
        bool sane = wide <= WRITE_LIMIT;
        unsigned long long bytes = sane ? (unsigned long long)wide : 0;
        if (debug) tok = "ok:o" + std::to_string((unsigned long long)((std::uintptr_t)p % page)); else tok = "ok";
        if (!p) tok += "!null";
        if (op.n > 0 && ((std::uintptr_t)p % v.promised != 0 || (std::uintptr_t)p % v.aT != 0)) tok += "!misaligned";
        if (sane) {
          if (overlaps(live, (char*)p, bytes)) tok += "!overlap";
          bool w = true;
          if (bytes) {
            if (debug) { w = writable(p) && writable((char*)p + bytes - 1); if (bytes > page) w = w && writable((char*)p + bytes / 2); }
            if (!w) tok += "!unwritable";
          }
          if (debug) {
            char* end = (char*)p + bytes;
            if ((std::uintptr_t)end % page != 0 || readable(end) || writable(end)) tok += "!noguard";
          }
          LiveBlk b{(char*)p, bytes, next_tag(), op.n, w && bytes > 0};
          if (b.tagged) std::memset(p, b.tag, bytes);
          live.push_back(b);
        } else {
          live.push_back(LiveBlk{(char*)p, 0, 0, op.n, false});
        }
      }
      emit(tok);
    } else {
      if (op.n >= live.size()) { emit("BADCASE"); continue; }
      LiveBlk b = live[op.n];
      std::string tok = "F";
      if (!tag_ok(b)) tok += "!corrupt";
      live.erase(live.begin() + op.n);
      try { v.dealloc(b.p, b.n); } catch (...) { tok = "EXC-other"; }
      if (debug && b.bytes && (readable(b.p) || readable(b.p + b.bytes - 1))) tok += "!stillmapped";
      emit(tok);
    }
  }
  bool corrupt = false;
  for (auto& b : live) if (!tag_ok(b)) corrupt = true;
  if (corrupt) emit("END!corrupt");
}

// ------------------------------------------------------------------ debugalign.hh: AlignedBase placement new check
static int g_viol = 0;
template<std::size_t A> static bool placement_violates(void* p) {
  g_viol = 0;
  Dune::ViolatedAlignmentHandler old = Dune::violatedAlignmentHandler();
  Dune::violatedAlignmentHandler() = [](const char*, std::size_t, const void*) { ++g_viol; };
  using AN = Dune::AlignedNumber<double, A>;
  AN* q = new (p) AN(1.0);
  (void)q;
  Dune::violatedAlignmentHandler() = old;
  return g_viol != 0;
}

// ------------------------------------------------------------------ dispatch
static std::vector<Op> parse_ops(std::istringstream& is) {
  std::vector<Op> ops; std::string t;
  while (is >> t) { Op o; o.k = t[0]; o.n = std::strtoull(t.c_str() + 1, nullptr, 10); ops.push_back(o); }
  return ops;
}

static void run_case(const std::string& line) {
  std::istringstream is(line);
  std::string kind; is >> kind;
  if (kind == "isaligned") {
    unsigned long long p, a; is >> p >> a;
    emit(Dune::isAligned((const void*)(std::uintptr_t)p, (std::size_t)a) ? "1" : "0");
    return;
  }
  if (kind == "alignedbase") {
    unsigned long long a, off; is >> a >> off;
    alignas(4096) static char buf[16384];
    void* p = buf + off; bool v;
    if (a == 16) v = placement_violates<16>(p); else if (a == 32) v = placement_violates<32>(p);
    else if (a == 64) v = placement_violates<64>(p); else if (a == 128) v = placement_violates<128>(p);
    else { emit("NO-SUCH-CONFIG"); return; }
    emit(v ? "violated" : "placed");
    return;
  }
  if (kind == "pool" || kind == "pa") {
    unsigned long long sT, aT, s; is >> sT >> aT >> s;
    std::vector<Op> ops = parse_ops(is);
#define POOL(ST, AT, S) if (kind == "pool" && sT == ST && aT == AT && s == S) { run_pool(vt_pool<Blob<ST, AT>, S>(), ops); return; }
#define PA(ST, AT, S) if (kind == "pa" && sT == ST && aT == AT && s == S) { run_pool(vt_pa<Blob<ST, AT>, S>(), ops); return; }
#define SYS(ST, AT)
#define ALIGNED(ST, AT, AL)
#include CONFIGS_INC
#undef POOL
#undef PA
#undef SYS
#undef ALIGNED
    emit("NO-SUCH-CONFIG"); return;
  }
  if (kind == "malloc" || kind == "debug" || kind == "aligned") {
    unsigned long long page = 0, sT, aT; long long al = 0;
    if (kind == "debug") is >> page;
    is >> sT >> aT;
    if (kind == "aligned") is >> al;
    std::vector<Op> ops = parse_ops(is);
    if (kind == "debug" && (long long)page != (long long)Dune::DebugMemory::page_size) { emit("PAGE-SIZE-MISMATCH"); return; }
#define POOL(ST, AT, S)
#define PA(ST, AT, S)
#define SYS(ST, AT) if (kind == "malloc" && sT == ST && aT == AT) { run_sys(vt_sys<Dune::MallocAllocator<Blob<ST, AT>>>(AT), ops, false, 0); return; } \
                    if (kind == "debug" && sT == ST && aT == AT) { run_sys(vt_sys<Dune::DebugAllocator<Blob<ST, AT>>>(AT), ops, true, page); return; }
#define ALIGNED(ST, AT, AL) if (kind == "aligned" && sT == ST && aT == AT && al == AL) { \
      using A = Dune::AlignedAllocator<Blob<ST, AT>, AL>; run_sys(vt_sys<A>((std::size_t)A::alignment), ops, false, 0); return; }
#include CONFIGS_INC
#undef POOL
#undef PA
#undef SYS
#undef ALIGNED
    emit("NO-SUCH-CONFIG"); return;
  }
  emit("UNKNOWN-KIND");
}

int main(int argc, char** argv) {
  if (argc < 2) return 2;
  std::ifstream in(argv[1]);
  g_outcap = 1 << 20;
  g_out = (char*)mmap(nullptr, g_outcap + 4096, PROT_READ | PROT_WRITE, MAP_SHARED | MAP_ANONYMOUS, -1, 0);
  g_outlen = (std::size_t*)(g_out + g_outcap);
  if (pipe(g_pipe) != 0) return 3;
  g_zero = open("/dev/zero", O_RDONLY);
  std::string line;
  while (std::getline(in, line)) {
    *g_outlen = 0; g_out[0] = 0;
    int ep[2]; if (pipe(ep) != 0) return 3;
    fflush(stdout);
    pid_t pid = fork();
    if (pid == 0) {
      dup2(ep[1], 2); close(ep[0]); close(ep[1]);
      alarm(20);
      run_case(line);
      _exit(0);
    }
    close(ep[1]);
    std::string err; char b[512]; ssize_t k;
    while ((k = read(ep[0], b, sizeof b)) > 0) { if (err.size() < 65536) err.append(b, k); }
    close(ep[0]);
    int st = 0; waitpid(pid, &st, 0);
    std::string out(g_out, *g_outlen);
    if (!(WIFEXITED(st) && WEXITSTATUS(st) == 0)) {
      std::string tok;
      std::size_t pos = err.find("Memory Corruption: ");
      if (pos != std::string::npos) {
        std::string m = err.substr(pos + 19); m = m.substr(0, m.find('\n'));
        tok = "ABORT(" + m + ")";
      } else if (WIFSIGNALED(st)) tok = "CRASH(sig" + std::to_string(WTERMSIG(st)) + ")";
      else {
        tok = "CRASH(exit" + std::to_string(WEXITSTATUS(st)) + ")";
        std::size_t q = err.find("ERROR: ");
        if (q != std::string::npos) { std::string m = err.substr(q + 7); m = m.substr(0, m.find_first_of(" \n", m.find(' ') + 1)); for (char& ch : m) if (ch == ' ') ch = '_'; tok += "[" + m + "]"; }
      }
      for (char& ch : tok) if (ch == ' ') ch = '_';
      if (!out.empty()) out += " ";
      out += tok;
    }
    std::puts(out.c_str()); std::fflush(stdout);
  }
  return 0;
}
