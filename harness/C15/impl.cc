// C15 impl driver: replays allocate/free scripts on the allocators of the working tree
//   Dune::Pool<T,S>, Dune::PoolAllocator<T,s>, Dune::MallocAllocator<T>, Dune::AlignedAllocator<T,Al>,
//   Dune::DebugAllocator<T>, Dune::isAligned
// and prints ONE line per case in the canonical form of ml/C15_driver.ml (no addresses):
//   pool/pa : G<unionSize>,<size>,<alignment>,<alignedSize>,<chunkSize>,<elements>  c<chunk#>+<offset> | bad_alloc | F ...  D<bytes>:<released chunk#s>
//   malloc/aligned : ok | bad_alloc | F          debug : ok:o<ptr mod page> | bad_alloc | F | ABORT(msg)
// Further ops: z<i>.<n> deallocate(p_i, n) (Z = no-op), x / y release of a null / foreign pointer, k0/k1/k2 copy / converting construction /
// rebind (K), b<i>.<k> debug-allocator misuse (must ABORT); kinds dman (AllocationManager used directly, destructor at the end),
// debugkeep (only in the -DDEBUG_ALLOCATOR_KEEP=1 build), api (max_size, operator==/!=, rebind), alignedbase (AlignedBase placement new).
// Blocks are filled through construct() / checked with address() / released after destroy() wherever the allocator has them.
// A token gets a !flag when the harness itself sees an address-level failure (misaligned, overlap with a live
// block, outside every chunk, tag corrupted, not writable, no guard page, still mapped after release).
// Chunk allocations are identified by replacing the global operator new/delete (recording only while an
// allocator call is in progress).  Every case runs in a forked child: abort()/SIGSEGV are observations.
// The set of instantiated configurations comes from build/C15/configs.inc (written by checks/C15.py).
#include <config.h>
#include <cerrno>
#include <cstdint>
#include <cstdio>
#include <cstdlib>
#include <cstring>
#include <fstream>
#include <iostream>
#include <list>
#include <new>
#include <sstream>
#include <string>
#include <vector>
#include <fcntl.h>
#include <malloc.h>
#include <signal.h>
#include <sys/mman.h>
#include <sys/wait.h>
#include <unistd.h>

#include <dune/common/poolallocator.hh>
#include <dune/common/mallocallocator.hh>
#include <dune/common/alignedallocator.hh>
#include <dune/common/debugallocator.hh>
#include <dune/common/debugalign.hh>

#ifndef CONFIGS_INC
#define CONFIGS_INC "configs.inc"
#endif

// ------------------------------------------------------------------ operator new recorder
namespace rec {
  struct R { char* p; std::size_t size; std::size_t align; bool live; bool foreign; int num; int owner; };
  static R tab[4096];
  static int n = 0;
  static int nown_by[16] = {0};   // chunks of the allocator object(s) under test, numbered 0,1,.. per object
  static int cur_owner = 0;       // which allocator object is being called (multi runs)
  static int released[4096];
  static int nreleased = 0;
  static int foreign_live = 0;    // chunks obtained by copies / rebound allocators and not yet returned
  static bool on = false;
  static bool foreign = false;    // record the following allocations as belonging to a copy
  static bool overflow = false;
  static void add(void* p, std::size_t size, std::size_t align) {
    if (n < 4096) {
      tab[n].p = (char*)p; tab[n].size = size; tab[n].align = align; tab[n].live = true; tab[n].foreign = foreign;
      tab[n].owner = cur_owner; tab[n].num = foreign ? -1 : nown_by[cur_owner & 15]++; if (foreign) ++foreign_live; ++n;
    } else overflow = true;
  }
  static void del(void* p) {
    for (int i = 0; i < n; ++i) if (tab[i].p == (char*)p && tab[i].live) {
      tab[i].live = false;
      if (tab[i].foreign) --foreign_live; else if (nreleased < 4096) released[nreleased++] = tab[i].num;
      return;
    }
    if (nreleased < 4096) released[nreleased++] = -1;     // delete of something that is not a live chunk
  }
  static int find(const void* q) {
    for (int i = 0; i < n; ++i) if (tab[i].live && tab[i].p <= (const char*)q && (const char*)q < tab[i].p + tab[i].size) return i;
    return -1;
  }
}
static void* do_new(std::size_t size, std::size_t align) {
  void* p;
  if (size == 0) size = 1;
  if (align <= alignof(std::max_align_t)) p = std::malloc(size);
  else p = std::aligned_alloc(align, (size + align - 1) / align * align);
  if (!p) throw std::bad_alloc();
  if (rec::on) rec::add(p, size, align);
  return p;
}
static void do_delete(void* p) { if (!p) return; if (rec::on) rec::del(p); std::free(p); }
void* operator new(std::size_t s) { return do_new(s, 1); }
void* operator new[](std::size_t s) { return do_new(s, 1); }
void* operator new(std::size_t s, std::align_val_t a) { return do_new(s, (std::size_t)a); }
void* operator new[](std::size_t s, std::align_val_t a) { return do_new(s, (std::size_t)a); }
void operator delete(void* p) noexcept { do_delete(p); }
void operator delete[](void* p) noexcept { do_delete(p); }
void operator delete(void* p, std::size_t) noexcept { do_delete(p); }
void operator delete[](void* p, std::size_t) noexcept { do_delete(p); }
void operator delete(void* p, std::align_val_t) noexcept { do_delete(p); }
void operator delete[](void* p, std::align_val_t) noexcept { do_delete(p); }
void operator delete(void* p, std::size_t, std::align_val_t) noexcept { do_delete(p); }
void operator delete[](void* p, std::size_t, std::align_val_t) noexcept { do_delete(p); }

// ------------------------------------------------------------------ output (shared with the parent)
static char* g_out = nullptr;           // MAP_SHARED buffer
static std::size_t g_outcap = 0;
static std::size_t* g_outlen = nullptr;
static void emit(const std::string& tok) {
  std::size_t& len = *g_outlen;
  if (len + tok.size() + 2 >= g_outcap) return;
  if (len) g_out[len++] = ' ';
  std::memcpy(g_out + len, tok.data(), tok.size()); len += tok.size(); g_out[len] = 0;
}

// ------------------------------------------------------------------ element types
// S bytes, alignment A; copy construction / construction from a tag byte / destruction are counted
static long g_ctor = 0, g_dtor = 0;
template<std::size_t S, std::size_t A> struct alignas(A) Blob {
  unsigned char d[S];
  Blob() = default;
  explicit Blob(unsigned char t) { std::memset(d, t, S); ++g_ctor; }
  Blob(const Blob& o) { std::memcpy(d, o.d, S); ++g_ctor; }
  ~Blob() { ++g_dtor; }
};
struct OtherType { long x; };          // "wrong type" for DebugAllocator misuse, value type of converted / rebound allocators

struct Op { char k; unsigned long long n, m; };
struct LiveBlk { char* p; unsigned long long bytes; unsigned char tag; unsigned long long n; bool tagged; };
static std::vector<LiveBlk>* g_live = nullptr;

static bool overlaps(const std::vector<LiveBlk>& live, const char* p, unsigned long long bytes) {
  if (bytes == 0) return false;
  for (auto& b : live) if (b.bytes && p < b.p + b.bytes && b.p < p + bytes) return true;
  return false;
}
static bool tag_ok(const LiveBlk& b) {
  if (!b.tagged) return true;
  for (unsigned long long i = 0; i < b.bytes; ++i) if ((unsigned char)b.p[i] != b.tag) return false;
  return true;
}
static unsigned char g_tagctr = 0;
static unsigned char next_tag() { g_tagctr = (unsigned char)(g_tagctr % 250 + 1); return g_tagctr; }
static unsigned g_alt = 0;               // alternates between overloads (hint / no hint, construct(const T&) / construct(Args...))
alignas(64) static char g_foreign_buf[256];   // "a pointer that never came from the allocator"
static const void* g_hint = g_foreign_buf;    // hint argument of allocate(n, hint): a foreign address or (aliasing) a LIVE block of the same allocator
static const void* g_alias_src = nullptr;     // construct(p, *q) with q a live block of the same allocator (value taken from allocator-owned storage)
static void set_alias(const std::vector<LiveBlk>& live) {
  g_hint = g_foreign_buf; g_alias_src = nullptr;
  if (!live.empty() && (g_alt % 3) != 0) g_hint = live.back().p;
  if (!live.empty() && live.back().tagged && live.back().bytes > 0 && (g_alt % 5) >= 3) g_alias_src = live.back().p;
}

// construct one T at p through the allocator (alternating the two overloads where both exist) and check it landed at p
template<class A, class T> static std::string do_construct(A& a, T* p, unsigned char& tag) {
  std::string fl; long c0 = g_ctor;
  if (g_alias_src && g_alias_src != (const void*)p) {            // value aliasing storage of the same allocator
    const T& src = *(const T*)g_alias_src; tag = src.d[0]; a.construct(p, src); ++g_alt;
    for (std::size_t i = 0; i < sizeof(T); ++i) if (src.d[i] != tag) { fl += "!construct-clobbered-source"; break; }
  }
  else if ((g_alt++ & 1) == 0) { T v(tag); a.construct(p, v); }  // construct(pointer, const T&)
  else {
    if constexpr (requires { a.construct(p, tag); }) a.construct(p, tag);   // construct(pointer, Args&&...)
    else { T v(tag); a.construct(p, v); }
  }
  if (g_ctor == c0) fl += "!construct";
  for (std::size_t i = 0; i < sizeof(T); ++i) if (((unsigned char*)p)[i] != tag) { fl += "!construct-misplaced"; break; }
  const T& cr = *p;
  if (a.address(*p) != p || a.address(cr) != p) fl += "!address";
  return fl;
}
template<class A, class T> static std::string do_destroy(A& a, T* p) {
  long d0 = g_dtor; a.destroy(p);
  return g_dtor == d0 + 1 ? "" : "!destroy";
}

// ------------------------------------------------------------------ pool runner (type-erased)
struct PoolVT {
  long geom[6]; std::size_t sT, aT, objsize, objalign; bool is_pa;
  void (*create)(void*); void* (*alloc)(void*, std::size_t); void (*dealloc)(void*, void*, std::size_t); void (*destroy)(void*);
  std::string (*construct)(void*, void*, unsigned char&); std::string (*destruct)(void*, void*);
  std::string (*copy_probe)(void*, int); int (*print_tokens)(void*);
  void (*copy)(void*, void*); int (*equal)(void*, void*);
};
template<class T, std::size_t S> PoolVT vt_pool() {
  using P = Dune::Pool<T, S>;
  PoolVT v{{P::unionSize, P::size, P::alignment, P::alignedSize, P::chunkSize, P::elements}, sizeof(T), alignof(T), sizeof(P), alignof(P), false,
    [](void* b) { new (b) P; },
    [](void* s, std::size_t n) -> void* { if (n != 1) throw std::bad_alloc(); return ((P*)s)->allocate(); },
    [](void* s, void* p, std::size_t) { ((P*)s)->free(p); },
    [](void* s) { ((P*)s)->~P(); },
    [](void*, void* p, unsigned char& tag) -> std::string { std::memset(p, tag, sizeof(T)); return ""; },
    [](void*, void*) -> std::string { return ""; },
    [](void*, int) -> std::string { return "NO-COPY"; },
    [](void* s) -> int { std::ostringstream os; ((P*)s)->print(os); std::istringstream is(os.str()); std::string t; int k = 0; while (is >> t) ++k; return k; },
    [](void*, void*) {}, [](void*, void*) -> int { return -1; }};
  return v;
}
// allocate one block from a copy / converted / rebound allocator: it must come from a chunk of its own
template<class C> static std::string probe_copy(C& c) {
  using U = typename C::value_type;
  std::string fl;
  U* q = c.allocate(1);
  int r = rec::find(q);
  if (r < 0) fl += "!outside";
  else { if (!rec::tab[r].foreign) fl += "!shares-pool"; if ((char*)q != rec::tab[r].p) fl += "!not-first-slot"; }
  if ((std::uintptr_t)q % alignof(U)) fl += "!misaligned";
  if (g_live && overlaps(*g_live, (char*)q, sizeof(U))) fl += "!overlap";
  std::memset((void*)q, 0x5a, sizeof(U));
  c.deallocate(q, 1);
  return fl;
}
template<class T, std::size_t s> PoolVT vt_pa() {
  using A = Dune::PoolAllocator<T, s>;
  using P = typename A::PoolType;
  PoolVT v{{P::unionSize, P::size, P::alignment, P::alignedSize, P::chunkSize, P::elements}, sizeof(T), alignof(T), sizeof(A), alignof(A), true,
    [](void* b) { new (b) A; },
    [](void* self, std::size_t n) -> void* { return (g_alt++ & 1) ? ((A*)self)->allocate(n) : ((A*)self)->allocate(n, (const T*)g_hint); },
    [](void* self, void* p, std::size_t n) { ((A*)self)->deallocate((T*)p, n); },
    [](void* self) { ((A*)self)->~A(); },
    [](void* self, void* p, unsigned char& tag) -> std::string { return do_construct(*(A*)self, (T*)p, tag); },
    [](void* self, void* p) -> std::string { return do_destroy(*(A*)self, (T*)p); },
    [](void* self, int k) -> std::string {
      A& a = *(A*)self; std::string fl;
      rec::foreign = true;
      if (k == 0) { A c(a); fl = probe_copy(c); }                                                   // copy constructor
      else if (k == 1) { Dune::PoolAllocator<OtherType, 3> o; A c(o); fl = probe_copy(c); }          // converting constructor
      else if (k == 3) { A c(std::move(a)); fl = probe_copy(c); }                                   // "move" construction: the source keeps its pool
      else { typename A::template rebind<OtherType>::other r(a); fl = probe_copy(r); }              // rebind + converting constructor
      rec::foreign = false;
      if (rec::foreign_live != 0) fl += "!copy-leaks";
      return fl;
    },
    [](void*) -> int { return -1; },
    [](void* dst, void* src) { new (dst) A(*(A*)src); },
    [](void* x, void* y) -> int { bool e = (*(A*)x == *(A*)y), ne = (*(A*)x != *(A*)y); return e == ne ? 2 : (e ? 1 : 0); }};
  return v;
}

// several PoolAllocator objects of one type: A<j>.<n> allocate, F<j>.<i> release, C<j> copy-construct a further object from object j,
// V<k>.<j>.<i> release the i-th live block of object j through object k, E<j>.<k> operator== / !=
struct MOp { char k; unsigned long long a, b, c; };
static void run_multi(const PoolVT& v, const std::vector<MOp>& ops) {
  char g[160]; std::snprintf(g, sizeof g, "G%ld,%ld,%ld,%ld,%ld,%ld", v.geom[0], v.geom[1], v.geom[2], v.geom[3], v.geom[4], v.geom[5]);
  emit(g);
  alignas(64) static char arena[16][256];
  if (v.objsize > 256) { emit("HARNESS-OBJECT-TOO-BIG"); return; }
  int nal = 1; v.create(arena[0]);
  std::vector<LiveBlk> live[16]; std::vector<LiveBlk> all; all.reserve(ops.size() + 1); g_live = &all;
  auto refresh = [&]() { all.clear(); for (int j = 0; j < nal; ++j) for (auto& b : live[j]) all.push_back(b); };
  for (const MOp& op : ops) {
    if (op.k == 'A') {
      int j = (int)op.a; void* p = nullptr; std::string tok;
      if (j >= nal) { emit("BADCASE"); continue; }
      set_alias(live[j]);
      rec::cur_owner = j; rec::on = true;
      try { p = v.alloc(arena[j], op.b); } catch (std::bad_alloc&) { tok = "bad_alloc"; } catch (...) { tok = "EXC-other"; }
      rec::on = false;
      if (tok.empty()) {
        int c = rec::find(p); char t[96];
        if (c < 0) { tok = "c?+?!outside"; }
        else {
          std::snprintf(t, sizeof t, "c%d+%zu", rec::tab[c].num, (std::size_t)((char*)p - rec::tab[c].p)); tok = t;
          if (rec::tab[c].owner != j) tok += "!chunk-of-another-allocator";
          if ((char*)p + v.sT > rec::tab[c].p + rec::tab[c].size) tok += "!outside";
        }
        if ((std::uintptr_t)p % v.aT != 0) tok += "!misaligned";
        refresh(); if (overlaps(all, (char*)p, v.sT)) tok += "!overlap";
        LiveBlk b{(char*)p, v.sT, next_tag(), op.b, c >= 0};
        if (b.tagged) tok += v.construct(arena[j], p, b.tag);
        live[j].push_back(b);
      }
      emit(tok);
    } else if (op.k == 'F' || op.k == 'V') {
      int k = (int)op.a, j = op.k == 'F' ? k : (int)op.b; unsigned long long i = op.k == 'F' ? op.b : op.c;
      if (k >= nal || j >= nal || i >= live[j].size()) { emit("BADCASE"); continue; }
      LiveBlk b = live[j][i]; std::string tok = "F";
      if (!tag_ok(b)) tok += "!corrupt";
      rec::cur_owner = k; rec::on = true;
      bool refused = false;
      try { v.dealloc(arena[k], b.p, 1); } catch (std::bad_alloc&) { refused = true; } catch (...) { tok = "EXC-other"; }
      rec::on = false;
      if (refused) tok = "bad_alloc";
      else if (k != j) tok = "NOT-REFUSED";
      if (!refused && k == j) live[j].erase(live[j].begin() + i);
      emit(tok);
    } else if (op.k == 'C') {
      if ((int)op.a >= nal || nal >= 16) { emit("BADCASE"); continue; }
      rec::cur_owner = nal; rec::on = true; v.copy(arena[nal], arena[op.a]); rec::on = false; ++nal;
      emit("K");
    } else if (op.k == 'E') {
      if ((int)op.a >= nal || (int)op.b >= nal) { emit("BADCASE"); continue; }
      int e = v.equal(arena[op.a], arena[op.b]);
      emit(e == 2 ? "E?!eq-ne-inconsistent" : e == 1 ? "E1" : "E0");
    } else emit("BADCASE");
  }
  refresh(); bool corrupt = false; for (auto& b : all) if (!tag_ok(b)) corrupt = true;
  int obtained = rec::n; std::size_t bytes = rec::n ? rec::tab[0].size : 0;
  for (int j = 0; j < nal; ++j) { rec::cur_owner = j; rec::on = true; v.destroy(arena[j]); rec::on = false; }
  int ok = 0; for (int i = 0; i < rec::nreleased; ++i) if (rec::released[i] >= 0) ++ok;
  std::string d = "D" + std::to_string(bytes) + ":" + std::to_string(ok) + "/" + std::to_string(obtained);
  if (rec::nreleased != ok) d += "!bad-delete";
  if (corrupt) d += "!corrupt";
  emit(d); g_live = nullptr;
}

static void run_pool(const PoolVT& v, const std::vector<Op>& ops) {
  char g[160]; std::snprintf(g, sizeof g, "G%ld,%ld,%ld,%ld,%ld,%ld", v.geom[0], v.geom[1], v.geom[2], v.geom[3], v.geom[4], v.geom[5]);
  emit(g);
  alignas(64) static char buf[256];
  if (v.objsize > sizeof buf) { emit("HARNESS-OBJECT-TOO-BIG"); return; }
  v.create(buf);
  std::vector<LiveBlk> live; live.reserve(ops.size() + 1); g_live = &live;
  for (const Op& op : ops) {
    if (op.k == 'a') {
      void* p = nullptr; std::string tok;
      set_alias(live);
      rec::on = true;
      try { p = v.alloc(buf, op.n); } catch (std::bad_alloc&) { tok = "bad_alloc"; } catch (...) { tok = "EXC-other"; }
      rec::on = false;
      if (tok.empty()) {
        int c = rec::find(p);
        char t[96];
        if (c < 0 || rec::tab[c].foreign) { std::snprintf(t, sizeof t, "c?+?!outside"); tok = t; c = -1; }
        else {
          std::snprintf(t, sizeof t, "c%d+%zu", rec::tab[c].num, (std::size_t)((char*)p - rec::tab[c].p)); tok = t;
          if ((char*)p + v.sT > rec::tab[c].p + rec::tab[c].size) tok += "!outside";
        }
        if ((std::uintptr_t)p % v.aT != 0 || !Dune::isAligned(p, v.aT)) tok += "!misaligned";
        if (overlaps(live, (char*)p, v.sT)) tok += "!overlap";
        LiveBlk b{(char*)p, v.sT, next_tag(), op.n, c >= 0};
        if (b.tagged) tok += v.construct(buf, p, b.tag);       // writable over the whole extent, through construct() where it exists
        live.push_back(b);
      }
      emit(tok);
    } else if (op.k == 'f' || op.k == 'z') {
      if (op.n >= live.size()) { emit("BADCASE"); continue; }
      LiveBlk b = live[op.n];
      std::size_t cnt = op.k == 'f' ? 1 : (std::size_t)op.m;
      std::string tok = cnt == 0 ? "Z" : "F";
      if (!tag_ok(b)) tok += "!corrupt";
      if (cnt != 0) { if (b.tagged) tok += v.destruct(buf, b.p); live.erase(live.begin() + op.n); }
      rec::on = true;
      try { v.dealloc(buf, b.p, cnt); } catch (std::bad_alloc&) { tok = "bad_alloc"; } catch (...) { tok = "EXC-other"; }
      rec::on = false;
      emit(tok);
    } else if (op.k == 'x' || op.k == 'y') {
      std::string tok = "NOT-REFUSED";
      rec::on = true;
      try { v.dealloc(buf, op.k == 'x' ? nullptr : (void*)g_foreign_buf, 1); } catch (std::bad_alloc&) { tok = "bad_alloc"; } catch (...) { tok = "EXC-other"; }
      rec::on = false;
      emit(tok);
    } else if (op.k == 'k') {
      rec::on = true;
      std::string fl;
      try { fl = v.copy_probe(buf, (int)op.n); } catch (...) { fl = "!exception"; }
      rec::on = false; rec::foreign = false;
      emit("K" + fl);
    } else emit("BADCASE");
  }
  bool corrupt = false;
  for (auto& b : live) if (!tag_ok(b)) corrupt = true;
  std::size_t bytes = 0; bool differ = false, first = true;
  for (int i = 0; i < rec::n; ++i) if (!rec::tab[i].foreign) { if (first) { bytes = rec::tab[i].size; first = false; } else if (rec::tab[i].size != bytes) differ = true; }
  if (!v.is_pa) { int k = v.print_tokens(buf); emit("P" + std::to_string(k)); }
  rec::on = true; v.destroy(buf); rec::on = false;
  std::string d = "D" + std::to_string(bytes) + ":";
  for (int i = 0; i < rec::nreleased; ++i) { if (i) d += "."; d += rec::released[i] < 0 ? std::string("?") : std::to_string(rec::released[i]); }
  if (corrupt) d += "!corrupt";
  if (differ) d += "!chunksizes";
  if (rec::overflow) d += "!recorder-overflow";
  for (int i = 0; i < rec::n; ++i) if (!rec::tab[i].foreign && (std::uintptr_t)rec::tab[i].p % (std::size_t)v.geom[2]) { d += "!chunkmisaligned"; break; }
  emit(d);
  g_live = nullptr;
}

// ------------------------------------------------------------------ malloc / aligned / debug runner
static int g_pipe[2] = {-1, -1};
static int g_zero = -1;
// readable?  write(pipe, addr, 1) fails with EFAULT when addr is not readable
static bool readable(const void* a) {
  char sink;
  if (write(g_pipe[1], a, 1) == 1) { (void)!read(g_pipe[0], &sink, 1); return true; }
  return false;
}
// writable?  read(/dev/zero, addr, 1) fails with EFAULT when addr is not writable (destroys the byte)
static bool writable(void* a) { return read(g_zero, a, 1) == 1; }

struct SysVT {
  std::size_t sT, aT, promised;    // promised alignment
  void* (*alloc)(unsigned long long); void (*dealloc)(void*, unsigned long long);
  std::string (*construct)(void*, unsigned char); std::string (*destruct)(void*);
  void (*dealloc_wrongtype)(void*, unsigned long long);
  void (*finish)(std::vector<LiveBlk>&);
};
// allocation through one instance, release through another one obtained by the converting constructor (stateless allocators compare equal)
template<class A> static A make_other() {
  using C = typename A::template rebind<char>::other;
  if constexpr (std::is_constructible_v<A, const C&>) { C c; return A(c); }
  else { A a; return A(a); }
}
template<class A> SysVT vt_sys(std::size_t promised) {
  using T = typename A::value_type;
  return SysVT{sizeof(T), alignof(T), promised,
    [](unsigned long long n) -> void* { A a; return (g_alt++ & 1) ? a.allocate(n) : a.allocate(n, (const void*)g_hint); },
    [](void* p, unsigned long long n) { A b = make_other<A>(); b.deallocate((T*)p, n); },
    [](void* p, unsigned char tag) -> std::string { A a; unsigned char t = tag; g_alias_src = nullptr; return do_construct(a, (T*)p, t); },
    [](void* p) -> std::string { A a; return do_destroy(a, (T*)p); },
    [](void* p, unsigned long long n) { typename A::template rebind<OtherType>::other w; w.deallocate((OtherType*)p, n); },
    [](std::vector<LiveBlk>&) {}};
}
// DebugMemory::AllocationManager used directly: a manager of its own, deallocate<T>(p) with the default count, destructor at the end
static Dune::DebugMemory::AllocationManager* g_man = nullptr;
template<class T> SysVT vt_dman() {
  return SysVT{sizeof(T), alignof(T), alignof(T),
    [](unsigned long long n) -> void* { return g_man->allocate<T>(n); },
    [](void* p, unsigned long long n) { if (n == 0) g_man->deallocate<T>((T*)p); else g_man->deallocate<T>((T*)p, n); },
    [](void* p, unsigned char tag) -> std::string { ::new (p) T(tag); return ""; },
    [](void* p) -> std::string { ((T*)p)->~T(); return ""; },
    [](void* p, unsigned long long n) { g_man->deallocate<OtherType>((OtherType*)p, n); },
    [](std::vector<LiveBlk>& live) {
      std::vector<LiveBlk> l = live;
      g_man->~AllocationManager();          // aborts ("lost allocations") when blocks are still in use
      emit("D0");
    }};
}

static const unsigned long long WRITE_LIMIT = 1ull << 22;

// mode: 0 = malloc/aligned, 1 = DebugAllocator, 2 = AllocationManager (frees pass count 0 = default argument)
static void run_sys(const SysVT& v, const std::vector<Op>& ops, int mode, unsigned long long page) {
  const bool debug = mode != 0;
  std::vector<LiveBlk> live, dead; live.reserve(ops.size() + 1); dead.reserve(ops.size() + 1);
  for (const Op& op : ops) {
    if (op.k == 'a') {
      void* p = nullptr; std::string tok;
      set_alias(live);
      try { p = v.alloc(op.n); } catch (std::bad_alloc&) { tok = "bad_alloc"; } catch (...) { tok = "EXC-other"; }
      if (tok.empty()) {
        unsigned __int128 wide = (unsigned __int128)op.n * v.sT;
        bool sane = wide <= WRITE_LIMIT;
        unsigned long long bytes = sane ? (unsigned long long)wide : 0;
        if (debug) tok = "ok:o" + std::to_string((unsigned long long)((std::uintptr_t)p % page)); else tok = "ok";
        if (!p) tok += "!null";
        if (op.n > 0 && ((std::uintptr_t)p % v.promised != 0 || (std::uintptr_t)p % v.aT != 0)) tok += "!misaligned";
        // deep check, any request size: the block the C library (or the manager) really provided must cover n*sizeof(T) bytes
        if (!debug && p && (unsigned __int128)malloc_usable_size(p) < wide) tok += "!short";
        if (debug && p && !sane && wide < ((unsigned __int128)1 << 47)) {
          unsigned long long b = (unsigned long long)wide;
          if (!writable(p) || !writable((char*)p + b - 1) || !writable((char*)p + b / 2)) tok += "!short";
        }
        if (sane) {
          if (overlaps(live, (char*)p, bytes)) tok += "!overlap";
          bool w = true;
          if (bytes) {
            if (debug) { w = writable(p) && writable((char*)p + bytes - 1); if (bytes > page) w = w && writable((char*)p + bytes / 2); }
            if (!w) tok += "!unwritable";
          }
          if (debug) {
            char* end = (char*)p + bytes;
            if ((std::uintptr_t)end % page != 0 || readable(end) || writable(end)) tok += "!noguard";
          }
          LiveBlk b{(char*)p, bytes, next_tag(), op.n, w && bytes > 0};
          if (b.tagged) {
            std::memset(p, b.tag, bytes);
            if ((std::uintptr_t)p % v.aT == 0) {     // first and last element through construct() / address()
              tok += v.construct(p, b.tag);
              if (op.n > 1) tok += v.construct((char*)p + (op.n - 1) * v.sT, b.tag);
            }
          }
          live.push_back(b);
        } else {
          live.push_back(LiveBlk{(char*)p, 0, 0, op.n, false});
        }
      }
      emit(tok);
    } else if (op.k == 'f' || op.k == 'z') {
      if (op.n >= live.size()) { emit("BADCASE"); continue; }
      LiveBlk b = live[op.n];
      std::string tok = "F";
      if (!tag_ok(b)) tok += "!corrupt";
      if (b.tagged && (std::uintptr_t)b.p % v.aT == 0) { tok += v.destruct(b.p); if (b.n > 1) tok += v.destruct(b.p + (b.n - 1) * v.sT); }
      live.erase(live.begin() + op.n);
      unsigned long long cnt = op.k == 'z' ? op.m : (mode == 2 ? 0 : b.n);
      try { v.dealloc(b.p, cnt); } catch (...) { tok = "EXC-other"; }
      if (debug && b.bytes && (readable(b.p) || readable(b.p + b.bytes - 1))) tok += "!stillmapped";
      dead.push_back(b);
      emit(tok);
    } else if (op.k == 'x' || op.k == 'y') {             // must abort ("memory block not found")
      try { v.dealloc(op.k == 'x' ? nullptr : (void*)g_foreign_buf, 0); } catch (...) { }
      emit("NOT-DETECTED");
    } else if (op.k == 'b') {                            // wrong type / interior pointer / double free: must abort
      if (op.m == 2) {
        if (op.n >= dead.size()) { emit("BADCASE"); continue; }
        try { v.dealloc(dead[op.n].p, mode == 2 ? 0 : dead[op.n].n); } catch (...) { }
      } else {
        if (op.n >= live.size()) { emit("BADCASE"); continue; }
        LiveBlk b = live[op.n];
        try { if (op.m == 0) v.dealloc_wrongtype(b.p, mode == 2 ? 0 : b.n); else v.dealloc(b.p + v.sT, mode == 2 ? 0 : b.n); } catch (...) { }
      }
      emit("NOT-DETECTED");
    } else emit("BADCASE");
  }
  bool corrupt = false;
  for (auto& b : live) if (!tag_ok(b)) corrupt = true;
  if (corrupt) emit("END!corrupt");
  v.finish(live);
}

// ------------------------------------------------------------------ the allocators in their real role: std::list / std::vector through allocator_traits
#ifdef C15_WITH_STL
template<class C> static std::string stl_check(const C& c, const std::vector<unsigned char>& ref) {
  using T = typename C::value_type; std::string fl;
  if (c.size() != ref.size()) return "!size";
  std::size_t i = 0;
  for (const T& x : c) {
    if ((std::uintptr_t)&x % alignof(T)) { fl += "!misaligned"; break; }
    bool ok = true; for (std::size_t k = 0; k < sizeof(T); ++k) if (x.d[k] != ref[i]) ok = false;
    if (!ok) { fl += "!content"; break; }
    ++i;
  }
  return fl;
}
// ops: p<v> push_back, q pop (list: front, vector: back), e<i> erase i-th, i<i>.<v> insert before i-th, c clear, y copy-construct + compare,
//      g copy-assign into a non-empty container + compare, m move-construct (stateless allocators only) and move back
template<class C, bool Movable> static void run_stl(const std::vector<Op>& ops) {
  using T = typename C::value_type;
  alignas(64) static char cbuf[sizeof(C)];
  rec::on = true; C* c = new (cbuf) C; rec::on = false;
  std::vector<unsigned char> ref;
  ref.reserve(ops.size() + 1);
  for (const Op& op : ops) {
    std::string fl;
    // reference sequence first (no recording: it uses the global operator new)
    bool doit = true;
    if (op.k == 'p') ref.push_back((unsigned char)op.n);
    else if (op.k == 'q') { if (ref.empty()) doit = false; else { if constexpr (requires { c->pop_front(); }) ref.erase(ref.begin()); else ref.pop_back(); } }
    else if (op.k == 'e') { if (op.n < ref.size()) ref.erase(ref.begin() + op.n); else doit = false; }
    else if (op.k == 'i') { if (op.n <= ref.size()) ref.insert(ref.begin() + op.n, (unsigned char)op.m); else doit = false; }
    else if (op.k == 'c') ref.clear();
    rec::on = true;
    try {
      if (!doit) { }
      else if (op.k == 'p') { T v((unsigned char)op.n); c->push_back(v); }
      else if (op.k == 'q') { if constexpr (requires { c->pop_front(); }) c->pop_front(); else c->pop_back(); }
      else if (op.k == 'e') { auto it = c->begin(); std::advance(it, op.n); c->erase(it); }
      else if (op.k == 'i') { auto it = c->begin(); std::advance(it, op.n); T v((unsigned char)op.m); c->insert(it, v); }
      else if (op.k == 'c') { c->clear(); }
      else if (op.k == 'y') { C d(*c); fl += stl_check(d, ref); }
      else if (op.k == 'g') { C d; T v((unsigned char)7); d.push_back(v); d = *c; fl += stl_check(d, ref); }
      else if (op.k == 'm') { if constexpr (Movable) { C d(std::move(*c)); fl += stl_check(d, ref); *c = std::move(d); } }
    } catch (std::bad_alloc&) { fl += "!bad_alloc"; } catch (std::exception&) { fl += "!exception"; }
    rec::on = false;
    fl += stl_check(*c, ref);
    emit("s" + std::to_string(ref.size()) + fl);
  }
  int obtained = rec::n;
  rec::on = true; c->~C(); rec::on = false;
  int ok = 0; for (int i = 0; i < rec::nreleased; ++i) if (rec::released[i] >= 0) ++ok;
  emit("D" + std::to_string(ok) + "/" + std::to_string(obtained) + (rec::nreleased != ok ? "!bad-delete" : ""));
}
template<class T, std::size_t s> static void run_stl_pa(unsigned long long nodeS, unsigned long long nodeA, const std::vector<Op>& ops) {
  using A = Dune::PoolAllocator<T, s>;
  using Node = std::_List_node<T>;
  using NA = typename std::allocator_traits<A>::template rebind_alloc<Node>;
  using P = typename NA::PoolType;
  if (sizeof(Node) != nodeS || alignof(Node) != nodeA) { emit("NODE-LAYOUT-MISMATCH(" + std::to_string(sizeof(Node)) + "," + std::to_string(alignof(Node)) + ")"); return; }
  char g[160]; std::snprintf(g, sizeof g, "G%d,%d,%d,%d,%d,%d", P::unionSize, P::size, P::alignment, P::alignedSize, P::chunkSize, P::elements);
  emit(g);
  run_stl<std::list<T, A>, false>(ops);
}
#endif

// ------------------------------------------------------------------ plain API: max_size, comparison operators, rebind
template<class X, class Y> static char eqc(const X& x, const Y& y) { return (x == y) ? '1' : '0'; }
template<class X, class Y> static char nec(const X& x, const Y& y) { return (x != y) ? '1' : '0'; }
template<class T, std::size_t s> static std::string api_pa() {
  using A = Dune::PoolAllocator<T, s>;
  A a, b; A c(a); Dune::PoolAllocator<OtherType, s> o; Dune::PoolAllocator<void, s> v1, v2;
  std::string r = "max=" + std::to_string(a.max_size()) + " eq=";
  // same object, two objects, copy, other value type, void/void same, void/void distinct, void/T, T/void
  r += eqc(a, a); r += nec(a, a); r += eqc(a, b); r += nec(a, b); r += eqc(a, c); r += nec(a, c);
  r += eqc(a, o); r += nec(a, o); r += eqc(v1, v1); r += nec(v1, v1); r += eqc(v1, v2); r += nec(v1, v2);
  r += eqc(v1, a); r += nec(v1, a); r += eqc(a, v1); r += nec(a, v1);
  bool rb = std::is_same_v<typename A::template rebind<OtherType>::other, Dune::PoolAllocator<OtherType, s>>
         && std::is_same_v<typename Dune::PoolAllocator<void, s>::template rebind<T>::other, A>
         && std::is_same_v<typename A::PoolType, Dune::Pool<T, s * sizeof(T)>> && A::size == (int)(s * sizeof(T));
  r += std::string(" rebind=") + (rb ? "1" : "0");
  r += " dbgalign=" + std::to_string((unsigned long long)Dune::debugAlignment);
  { A mv(std::move(a)); T* q = a.allocate(1); a.deallocate(q, 1); r += std::string(" mv=") + eqc(mv, a); }   // the source of a "move" keeps working
  return r;
}
template<class A, class Expected> static std::string api_sys() {
  using T = typename A::value_type;
  A a, b;
  std::string r = "max=" + std::to_string((unsigned long long)a.max_size()) + " eq=";
  r += eqc(a, b); r += nec(a, b); r += eqc(a, a); r += nec(a, a);
  bool rb = std::is_same_v<typename A::template rebind<OtherType>::other, Expected>;
  r += std::string(" rebind=") + (rb ? "1" : "0");
  // special members of the stateless allocators: move construction, copy / move assignment, swap; blocks stay interchangeable
  { A m(std::move(b)); A as; as = a; A ms; ms = std::move(as); std::swap(ms, m);
    T* p1 = a.allocate(3); T* p2 = m.allocate(2); ms.deallocate(p1, 3); a.deallocate(p2, 2);
    r += std::string(" sm=") + ((m == a && !(ms != a)) ? "1" : "0"); }
  return r;
}

// ------------------------------------------------------------------ debugalign.hh: AlignedBase placement new check
static int g_viol = 0;
// mode 0: operator new, recording handler; 1: operator new[], recording handler; 2: operator new with the default handler (aborts);
// 3: empty handler (std::function without target): the violation is ignored
template<std::size_t A> static bool placement_violates(void* p, int mode) {
  g_viol = 0;
  using AN = Dune::AlignedNumber<double, A>;
  if (mode == 2) { AN* q = new (p) AN(1.0); (void)q; return false; }
  Dune::ViolatedAlignmentHandler old = Dune::violatedAlignmentHandler();
  Dune::violatedAlignmentHandler() = [](const char*, std::size_t, const void*) { ++g_viol; };
  if (mode == 3) { Dune::violatedAlignmentHandler() = nullptr; AN* q = new (p) AN(1.0); (void)q; Dune::violatedAlignmentHandler() = old; return false; }
  if (mode == 0) {
    if constexpr (A == Dune::debugAlignment) {            // default template arguments: AlignedNumber<T>, aligned(value)
      Dune::AlignedNumber<double>* q = new (p) Dune::AlignedNumber<double>(Dune::aligned(1.0)); if (double(*q) != 1.0) ++g_viol;
    } else { AN* q = new (p) AN(Dune::aligned<A>(1.0)); (void)q; if (double(*q) != 1.0) ++g_viol; }
  }
  else { AN* q = new (p) AN[2]; (void)q; }
  Dune::violatedAlignmentHandler() = old;
  return g_viol != 0;
}

// ------------------------------------------------------------------ dispatch
static std::vector<Op> parse_ops(std::istringstream& is) {
  std::vector<Op> ops; std::string t;
  while (is >> t) {
    Op o; o.k = t[0]; o.m = 0; char* e = nullptr;
    o.n = std::strtoull(t.c_str() + 1, &e, 10);
    if (e && *e == '.') o.m = std::strtoull(e + 1, nullptr, 10);
    ops.push_back(o);
  }
  return ops;
}

static void run_case(const std::string& line) {
  std::istringstream is(line);
  std::string kind; is >> kind;
  if (kind == "isaligned") {
    unsigned long long p, a; is >> p >> a;
    emit(Dune::isAligned((const void*)(std::uintptr_t)p, (std::size_t)a) ? "1" : "0");
    return;
  }
  if (kind == "alignedbase") {
    unsigned long long a, off; int mode = 0; is >> a >> off >> mode;
    alignas(4096) static char buf[16384];
    void* p = buf + off; bool v;
    if (a == 16) v = placement_violates<16>(p, mode); else if (a == 32) v = placement_violates<32>(p, mode);
    else if (a == 64) v = placement_violates<64>(p, mode); else if (a == 128) v = placement_violates<128>(p, mode);
    else { emit("NO-SUCH-CONFIG"); return; }
    emit(v ? "violated" : "placed");
    return;
  }
  if (kind == "api") {
    std::string what; unsigned long long sT, aT; long long s = 0; is >> what >> sT >> aT >> s;
#define POOL(ST, AT, S)
#define PA(ST, AT, S) if (what == "pa" && sT == ST && aT == AT && s == S) { emit(api_pa<Blob<ST, AT>, S>()); return; }
#define SYS(ST, AT) if (what == "malloc" && sT == ST && aT == AT) { emit(api_sys<Dune::MallocAllocator<Blob<ST, AT>>, Dune::MallocAllocator<OtherType>>()); return; } \
                    if (what == "debug" && sT == ST && aT == AT) { emit(api_sys<Dune::DebugAllocator<Blob<ST, AT>>, Dune::DebugAllocator<OtherType>>()); return; }
#define ALIGNED(ST, AT, AL) if (what == "aligned" && sT == ST && aT == AT && s == AL) { emit(api_sys<Dune::AlignedAllocator<Blob<ST, AT>, AL>, Dune::AlignedAllocator<OtherType, AL>>()); return; }
#include CONFIGS_INC
#undef POOL
#undef PA
#undef SYS
#undef ALIGNED
    emit("NO-SUCH-CONFIG"); return;
  }
#ifdef C15_WITH_STL
  if (kind == "stl") {
    std::string what, cont; unsigned long long sT, aT; long long par; unsigned long long nodeS, nodeA;
    is >> what >> cont >> sT >> aT >> par >> nodeS >> nodeA;
    std::vector<Op> ops = parse_ops(is);
#define STLPA(ST, AT, S) if (what == "pa" && sT == ST && aT == AT && par == S) { run_stl_pa<Blob<ST, AT>, S>(nodeS, nodeA, ops); return; }
#define STLSYS(ST, AT) if (sT == ST && aT == AT && what == "malloc") { using T = Blob<ST, AT>; \
      if (cont == "list") run_stl<std::list<T, Dune::MallocAllocator<T>>, true>(ops); else run_stl<std::vector<T, Dune::MallocAllocator<T>>, true>(ops); return; } \
    if (sT == ST && aT == AT && what == "debug") { using T = Blob<ST, AT>; \
      if (cont == "list") run_stl<std::list<T, Dune::DebugAllocator<T>>, true>(ops); else run_stl<std::vector<T, Dune::DebugAllocator<T>>, true>(ops); return; }
#define STLAL(ST, AT, AL) if (what == "aligned" && sT == ST && aT == AT && par == AL) { using T = Blob<ST, AT>; using A = Dune::AlignedAllocator<T, AL>; \
      if (cont == "list") run_stl<std::list<T, A>, true>(ops); else run_stl<std::vector<T, A>, true>(ops); return; }
#include "configs_stl.inc"
#undef STLPA
#undef STLSYS
#undef STLAL
    emit("NO-SUCH-CONFIG"); return;
  }
#endif
  if (kind == "multi") {
    unsigned long long sT, aT, s; is >> sT >> aT >> s;
    std::vector<MOp> ops; std::string t;
    while (is >> t) {
      MOp o{t[0], 0, 0, 0}; const char* q = t.c_str() + 1; char* e = nullptr;
      o.a = std::strtoull(q, &e, 10); if (e && *e == '.') { o.b = std::strtoull(e + 1, &e, 10); if (e && *e == '.') o.c = std::strtoull(e + 1, &e, 10); }
      ops.push_back(o);
    }
#define POOL(ST, AT, S)
#define PA(ST, AT, S) if (sT == ST && aT == AT && s == S) { run_multi(vt_pa<Blob<ST, AT>, S>(), ops); return; }
#define SYS(ST, AT)
#define ALIGNED(ST, AT, AL)
#include CONFIGS_INC
#undef POOL
#undef PA
#undef SYS
#undef ALIGNED
    emit("NO-SUCH-CONFIG"); return;
  }
  if (kind == "pool" || kind == "pa") {
    unsigned long long sT, aT, s; is >> sT >> aT >> s;
    std::vector<Op> ops = parse_ops(is);
#define POOL(ST, AT, S) if (kind == "pool" && sT == ST && aT == AT && s == S) { run_pool(vt_pool<Blob<ST, AT>, S>(), ops); return; }
#define PA(ST, AT, S) if (kind == "pa" && sT == ST && aT == AT && s == S) { run_pool(vt_pa<Blob<ST, AT>, S>(), ops); return; }
#define SYS(ST, AT)
#define ALIGNED(ST, AT, AL)
#include CONFIGS_INC
#undef POOL
#undef PA
#undef SYS
#undef ALIGNED
    emit("NO-SUCH-CONFIG"); return;
  }
  if (kind == "malloc" || kind == "debug" || kind == "aligned" || kind == "dman" || kind == "debugkeep") {
    unsigned long long page = 0, sT, aT; long long al = 0;
    if (kind == "debug" || kind == "dman" || kind == "debugkeep") is >> page;
    is >> sT >> aT;
    if (kind == "aligned") is >> al;
    std::vector<Op> ops = parse_ops(is);
    if (page && (long long)page != (long long)Dune::DebugMemory::page_size) { emit("PAGE-SIZE-MISMATCH"); return; }
#if DEBUG_ALLOCATOR_KEEP
    if (kind != "debugkeep") { emit("NO-SUCH-CONFIG"); return; }
    kind = "debug";
#else
    if (kind == "debugkeep") { emit("NO-SUCH-CONFIG"); return; }
#endif
    alignas(64) static char manbuf[sizeof(Dune::DebugMemory::AllocationManager)];
    if (kind == "dman") g_man = new (manbuf) Dune::DebugMemory::AllocationManager;
#define POOL(ST, AT, S)
#define PA(ST, AT, S)
#define SYS(ST, AT) if (kind == "malloc" && sT == ST && aT == AT) { run_sys(vt_sys<Dune::MallocAllocator<Blob<ST, AT>>>(AT), ops, 0, 0); return; } \
                    if (kind == "debug" && sT == ST && aT == AT) { run_sys(vt_sys<Dune::DebugAllocator<Blob<ST, AT>>>(AT), ops, 1, page); return; } \
                    if (kind == "dman" && sT == ST && aT == AT) { run_sys(vt_dman<Blob<ST, AT>>(), ops, 2, page); return; }
#define ALIGNED(ST, AT, AL) if (kind == "aligned" && sT == ST && aT == AT && al == AL) { \
      using A = Dune::AlignedAllocator<Blob<ST, AT>, AL>; run_sys(vt_sys<A>((std::size_t)A::alignment), ops, 0, 0); return; }
#include CONFIGS_INC
#undef POOL
#undef PA
#undef SYS
#undef ALIGNED
    emit("NO-SUCH-CONFIG"); return;
  }
  emit("UNKNOWN-KIND");
}

int main(int argc, char** argv) {
  if (argc < 2) return 2;
  std::ifstream in(argv[1]);
  g_outcap = 1 << 20;
  g_out = (char*)mmap(nullptr, g_outcap + 4096, PROT_READ | PROT_WRITE, MAP_SHARED | MAP_ANONYMOUS, -1, 0);
  g_outlen = (std::size_t*)(g_out + g_outcap);
  if (pipe(g_pipe) != 0) return 3;
  g_zero = open("/dev/zero", O_RDONLY);
  std::string line;
  while (std::getline(in, line)) {
    *g_outlen = 0; g_out[0] = 0;
    int ep[2]; if (pipe(ep) != 0) return 3;
    fflush(stdout);
    pid_t pid = fork();
    if (pid == 0) {
      dup2(ep[1], 2); close(ep[0]); close(ep[1]);
      alarm(20);
      run_case(line);
      _exit(0);
    }
    close(ep[1]);
    std::string err; char b[512]; ssize_t k;
    while ((k = read(ep[0], b, sizeof b)) > 0) { if (err.size() < 65536) err.append(b, k); }
    close(ep[0]);
    int st = 0; waitpid(pid, &st, 0);
    std::string out(g_out, *g_outlen);
    if (!(WIFEXITED(st) && WEXITSTATUS(st) == 0)) {
      std::string tok;
      std::size_t pos = err.find("Memory Corruption: ");
      if (pos != std::string::npos) {
        std::string m = err.substr(pos + 19); m = m.substr(0, m.find('\n'));
        tok = "ABORT(" + m + ")";
      } else if (err.find("Detected invalid alignment") != std::string::npos) tok = "ABORT(invalid_alignment)";
      else if (WIFSIGNALED(st)) tok = "CRASH(sig" + std::to_string(WTERMSIG(st)) + ")";
      else {
        tok = "CRASH(exit" + std::to_string(WEXITSTATUS(st)) + ")";
        std::size_t q = err.find("ERROR: ");
        if (q != std::string::npos) { std::string m = err.substr(q + 7); m = m.substr(0, m.find_first_of(" \n", m.find(' ') + 1)); for (char& ch : m) if (ch == ' ') ch = '_'; tok += "[" + m + "]"; }
      }
      for (char& ch : tok) if (ch == ' ') ch = '_';
      if (!out.empty()) out += " ";
      out += tok;
    }
    std::puts(out.c_str()); std::fflush(stdout);
  }
  return 0;
}
