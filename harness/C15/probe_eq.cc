// C15 compile probe: the comparison operators of PoolAllocator must be usable for every pair of allocator types
// (same value type with different chunk sizes included: operator==(PoolAllocator<T,t1>, PoolAllocator<T,t2>)).
#include <config.h>
#include <dune/common/poolallocator.hh>
bool c15_probe_eq()
{
  Dune::PoolAllocator<int, 3> a;
  Dune::PoolAllocator<int, 4> b;
  Dune::PoolAllocator<void, 3> v;
  Dune::PoolAllocator<void, 4> w;
  return !(a == b) && (a != b) && !(v == w) && (v != w);
}
