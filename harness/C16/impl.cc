// C16 impl driver: runs the case file on the iterator facades / ranges / hybrid helpers of the working tree.
// One flushed output line per case, same canonical token form as ml/C16_driver.ml.
#include <config.h>
#include <cstdio>
#include <cstdint>
#include <climits>
#include <fstream>
#include <iostream>
#include <sstream>
#include <string>
#include <vector>
#include <list>
#include <array>
#include <tuple>
#include <functional>
#include <type_traits>
#include <dune/common/iteratorfacades.hh>
#include <dune/common/genericiterator.hh>
#include <dune/common/indexediterator.hh>
#include <dune/common/iteratorrange.hh>
#include <dune/common/rangeutilities.hh>
#include <dune/common/hybridutilities.hh>
#include <dune/common/densevector.hh>
#include <dune/common/dynvector.hh>
#include <dune/common/fvector.hh>
#include <dune/common/fmatrix.hh>
#include <dune/common/arraylist.hh>
#include <dune/common/sllist.hh>
#include <dune/common/integersequence.hh>
#include <dune/common/indices.hh>
#include <dune/common/tuplevector.hh>

using std::string;
typedef long long ll;

// The file can be compiled as one translation unit (C16_PART undefined or 0) or as five parts (C16_PART = 1..5)
// that checks/C16.py compiles in parallel and links.
#ifndef C16_PART
#define C16_PART 0
#endif
#define PART(k) (C16_PART == 0 || C16_PART == (k))
string c16_iter_case_1(const std::vector<string>& t);   // dyn, gen, fv, cmpx
string c16_iter_case_2(const std::vector<string>& t);   // fmrow, al, tr
string c16_iter_case_3(const std::vector<string>& t);   // ir
string c16_misc_case(const std::vector<string>& t);     // sl, trl, idxrun, irange, sirange, tr, sparse
string c16_hy_case(const std::vector<string>& t);       // hy
string c16_extra_case(const std::vector<string>& t);    // harness/C16/impl2.cc: cont, bcmp, bstep, trx, rutil, iseq, hyx

static std::vector<string> split(const string& s, char sep = ' ')
{
  std::vector<string> r; string cur; std::istringstream is(s);
  while (std::getline(is, cur, sep)) if (!cur.empty() || sep != ' ') r.push_back(cur);
  return r;
}
static std::vector<ll> ints(const string& s)
{
  std::vector<ll> r; if (s == "-" || s.empty()) return r;
  for (auto& t : split(s, ',')) r.push_back(std::stoll(t));
  return r;
}
template<class V> static string join(const V& v)
{
  std::ostringstream os; bool first = true;
  for (auto&& x : v) { if (!first) os << ","; os << x; first = false; }
  return first ? string("-") : os.str();
}
template<class T> static string num(T x)
{
  if constexpr (std::is_signed_v<T>) return std::to_string((long long) x); else return std::to_string((unsigned long long) x);
}

// ------------------------------------------------------------------------------------------------
// Fixtures: a container of size n with contents 1000+p, iterators of both constness at any position
// lo..n built WITHOUT the operators under test where the class offers a constructor for that.
// ------------------------------------------------------------------------------------------------
template<class T> static string value_of(const T& x) { if constexpr (std::is_arithmetic_v<T>) return num<T>(x); else return std::to_string((ll) x[0]); }

struct DynFix {                       // DynamicVector<int>: DenseIterator, legacy random access facade
  using C = Dune::DynamicVector<int>;
  using M = C::Iterator; using K = C::ConstIterator;
  C c; int n, lo = -1; bool always_deref = false;
  explicit DynFix(int n_) : c(n_), n(n_) { for (int p = 0; p < n; ++p) c[p] = 1000 + p; }
  M m(int p) { return p == -1 ? c.beforeBegin() : M(c, (std::size_t) p); }
  K k(int p) { const C& cc = c; return p == -1 ? cc.beforeBegin() : K(cc, (std::size_t) p); }
};
template<int N> struct FvFix {        // FieldVector<int,N>
  using C = Dune::FieldVector<int, N>;
  using M = typename C::Iterator; using K = typename C::ConstIterator;
  C c; int n = N, lo = -1; bool always_deref = false;
  FvFix() { for (int p = 0; p < N; ++p) c[p] = 1000 + p; }
  M m(int p) { return p == -1 ? c.beforeBegin() : M(c, (std::size_t) p); }
  K k(int p) { const C& cc = c; return p == -1 ? cc.beforeBegin() : K(cc, (std::size_t) p); }
};
template<int N> struct FmFix {        // rows of FieldMatrix<int,N,2>: DenseIterator with row references
  using C = Dune::FieldMatrix<int, N, 2>;
  using M = typename C::Iterator; using K = typename C::ConstIterator;
  C c; int n = N, lo = -1; bool always_deref = false;
  FmFix() { for (int p = 0; p < N; ++p) { c[p][0] = 1000 + p; c[p][1] = -p; } }
  M m(int p) { return p == -1 ? c.beforeBegin() : M(c, (std::size_t) p); }
  K k(int p) { const C& cc = c; return p == -1 ? cc.beforeBegin() : K(cc, (std::size_t) p); }
};
struct GenFix {                       // GenericIterator over std::vector<int>
  using C = std::vector<int>;
  using M = Dune::GenericIterator<C, int>; using K = Dune::GenericIterator<const C, const int>;
  C c; int n, lo = -1; bool always_deref = false;
  explicit GenFix(int n_) : c(n_), n(n_) { for (int p = 0; p < n; ++p) c[p] = 1000 + p; }
  M m(int p) { return M(c, p); }
  K k(int p) { const C& cc = c; return K(cc, p); }
};
struct AlFix {                        // ArrayList<int,3> whose first s slots were erased (start_ = s)
  using C = Dune::ArrayList<int, 3>;
  using M = C::iterator; using K = C::const_iterator;
  C c; int n, lo = 0; bool always_deref = false;
  AlFix(int n_, int s) : n(n_) {
    for (int p = 0; p < s; ++p) c.push_back(-7);
    for (int p = 0; p < n; ++p) c.push_back(1000 + p);
    if (s > 0) { M it = c.begin(); for (int p = 0; p + 1 < s; ++p) ++it; it.eraseToHere(); }
  }
  M m(int p) { M it = c.begin(); for (int q = 0; q < p; ++q) ++it; return it; }   // private constructor: must step
  K k(int p) { const C& cc = c; K it = cc.begin(); for (int q = 0; q < p; ++q) ++it; return it; }
};
template<class T> struct IrFix {      // Impl::IntegralRangeIterator<T>: hand-written
  using M = typename Dune::IntegralRange<T>::iterator; using K = M;
  T from; int n, lo; bool always_deref = true;
  IrFix(int n_, ll from_) : from((T) from_), n(n_) { lo = (from_ > (ll) std::numeric_limits<T>::min() || (std::is_unsigned_v<T> && from_ != 0)) ? -1 : 0; }
  M m(int p) { return M((T) (from + (T) p)); }
  K k(int p) { return m(p); }
};
struct TrF { ll operator()(int x) const { return 3 * (ll) x + 1; } };
struct TrFix {                        // TransformedRangeView over std::vector<int>: new IteratorFacade, random access
  using C = std::vector<int>;
  using R = Dune::TransformedRangeView<C&, TrF>;
  using M = R::iterator; using K = R::const_iterator;
  C c; R r; TrF f; int n, lo = 0; bool always_deref = false;
  explicit TrFix(int n_) : c(n_), r(c, TrF{}), n(n_) { for (int p = 0; p < n; ++p) c[p] = 1000 + p; }
  M m(int p) { return M(c.begin() + p, &f); }
  K k(int p) { return K(c.begin() + p, (const TrF*) &f); }   // const_iterator of a view on C& wraps the mutable raw iterator
};

template<class F, class It> static string ptok(F& fx, const It& r)
{
  // position = the unique p with r == (iterator of the same type built at p); value = *r where dereferenceable
  int hit = 0, pos = 0;
  for (int p = fx.lo; p <= fx.n; ++p) {
    bool e;
    if constexpr (std::is_same_v<It, typename F::M>) e = (r == fx.m(p)); else e = (r == fx.k(p));
    if (e) { ++hit; pos = p; }
  }
  if (hit != 1) return hit == 0 ? "?none" : "?multi";
  string s = std::to_string(pos) + ":";
  if (fx.always_deref || (pos >= 0 && pos < fx.n)) s += value_of(*r); else s += "-";
  return s;
}

template<class A, class B> static string cmp6(const A& a, const B& b)
{
  string s;
  s += (a == b) ? '1' : '0'; s += (a != b) ? '1' : '0';
  s += (a < b) ? '1' : '0'; s += (a <= b) ? '1' : '0'; s += (a > b) ? '1' : '0'; s += (a >= b) ? '1' : '0';
  s += ":" + std::to_string((ll) (a - b));
  return s;
}
template<class A, class B> static string cmp2(const A& a, const B& b)
{
  string s; s += (a == b) ? '1' : '0'; s += (a != b) ? '1' : '0'; return s;
}

template<class F> static string do_cmp(F& fx, int i, int j)
{
  if (i < fx.lo || j < fx.lo || i > fx.n || j > fx.n) return "BADCASE";
  string s = "mm=" + cmp6(fx.m(i), fx.m(j));
  if constexpr (!std::is_same_v<typename F::M, typename F::K>) {
#ifndef C16_AL_MIXED
    // ArrayListIterator <,<=,>,>=,- ConstArrayListIterator does not compile in this tree (checks/C16.py probes it)
    if constexpr (std::is_same_v<F, AlFix>) {
      s += " mc=" + cmp2(fx.m(i), fx.k(j)) + "xxxx:x";
      s += " cm=" + cmp2(fx.k(i), fx.m(j)) + "xxxx:x";
    } else
#endif
    {
    s += " mc=" + cmp6(fx.m(i), fx.k(j));
    s += " cm=" + cmp6(fx.k(i), fx.m(j));
    }
    s += " cc=" + cmp6(fx.k(i), fx.k(j));
  }
  return s;
}

template<class F> struct HasNPlus : std::false_type {};
template<> struct HasNPlus<TrFix> : std::true_type {};
template<class T> struct HasNPlus<IrFix<T>> : std::true_type {};

template<class F> static string do_step(F& fx, const string& var, int i, int k)
{
  const int n = fx.n, lo = fx.lo;
  if (i < lo || i > n || i + k < lo || i + k > n) return "BADCASE";
  auto body = [&](auto it0) {
    using It = decltype(it0);
    std::ostringstream os;
    { It r = it0 + k; os << "plus=" << ptok(fx, r); }
    { It r = it0; r += k; os << " pluseq=" << ptok(fx, r); }
    { It r = it0 - (-k); os << " minus=" << ptok(fx, r); }
    { It r = it0; r -= (-k); os << " minuseq=" << ptok(fx, r); }
    if (fx.always_deref || (i + k >= 0 && i + k < n)) os << " idx=" << value_of(it0[k]); else os << " idx=-";
    { It r = it0; if (k >= 0) for (int q = 0; q < k; ++q) ++r; else for (int q = 0; q < -k; ++q) --r; os << " steps=" << ptok(fx, r); }
    { It r = it0 + k; os << " back=" << (ll) (r - it0); }
    if (i + 1 <= n) { It r = it0; ++r; --r; os << " incdec=" << ptok(fx, r); } else os << " incdec=-";
    if (i - 1 >= lo) { It r = it0; --r; ++r; os << " decinc=" << ptok(fx, r); } else os << " decinc=-";
    if (i + 1 <= n) { It r = it0; It old = r++; os << " postinc=" << ptok(fx, old) << "/" << ptok(fx, r); } else os << " postinc=-";
    if (i - 1 >= lo) { It r = it0; It old = r--; os << " postdec=" << ptok(fx, old) << "/" << ptok(fx, r); } else os << " postdec=-";
    if constexpr (HasNPlus<F>::value) { It r = k + it0; os << " nplus=" << ptok(fx, r); }
    { It r(it0); os << " copy=" << ptok(fx, r); }                          // copy construction
    { It r; r = it0; os << " assign=" << ptok(fx, r); }                    // default construction + assignment
    if constexpr (std::is_convertible_v<typename F::M, typename F::K>) {
      { typename F::K c(fx.m(i)); os << " conv=" << ptok(fx, c); }         // const iterator from mutable iterator
      { typename F::K c; c = fx.m(i); os << " convassign=" << ptok(fx, c); }
    } else os << " conv=n/a convassign=n/a";
    return os.str();
  };
  if (var == "m") return body(fx.m(i));
  return body(fx.k(i));
}

template<class T> static string ir_kind(const string& op, const std::vector<string>& t, ll from)
{
  int n = std::stoi(t[2]), a = std::stoi(t[op == "cmp" ? 3 : 4]), b = std::stoi(t[op == "cmp" ? 4 : 5]);
  IrFix<T> fx(n, from);
  return op == "cmp" ? do_cmp(fx, a, b) : do_step(fx, t[3], a, b);
}
template<template<int> class FX> static string sized_kind(const string& op, const std::vector<string>& t)
{
  int n = std::stoi(t[2]), a = std::stoi(t[op == "cmp" ? 3 : 4]), b = std::stoi(t[op == "cmp" ? 4 : 5]);
  auto go = [&](auto& fx) { return op == "cmp" ? do_cmp(fx, a, b) : do_step(fx, t[3], a, b); };
  switch (n) {
    case 1: { FX<1> fx; return go(fx); } case 2: { FX<2> fx; return go(fx); } case 3: { FX<3> fx; return go(fx); }
    case 4: { FX<4> fx; return go(fx); } case 5: { FX<5> fx; return go(fx); } case 6: { FX<6> fx; return go(fx); }
  }
  return "BADCASE";
}

// forward iterators of SLList: three variants, == and != only, ++ steps
struct SlFix {
  using C = Dune::SLList<int>;
  C c; int n;
  explicit SlFix(int n_) : n(n_) { for (int p = 0; p < n; ++p) c.push_back(1000 + p); }
  C::iterator i(int p) { auto it = c.begin(); for (int q = 0; q < p; ++q) ++it; return it; }
  C::const_iterator k(int p) { const C& cc = c; auto it = cc.begin(); for (int q = 0; q < p; ++q) ++it; return it; }
  C::ModifyIterator m(int p) { auto it = c.beginModify(); for (int q = 0; q < p; ++q) ++it; return it; }
  template<class It> string ptok(const It& r) {
    int hit = 0, pos = 0;
    for (int p = 0; p <= n; ++p) {
      bool e;
      if constexpr (std::is_same_v<It, C::iterator>) e = (r == i(p));
      else if constexpr (std::is_same_v<It, C::const_iterator>) e = (r == k(p));
      else e = (r == m(p));
      if (e) { ++hit; pos = p; }
    }
    if (hit != 1) return hit == 0 ? "?none" : "?multi";
    return std::to_string(pos) + ":" + (pos < n ? std::to_string(*r) : string("-"));
  }
};
static string sl_cmp(int n, int a, int b)
{
  SlFix fx(n);
  if (a < 0 || b < 0 || a > n || b > n) return "BADCASE";
  std::ostringstream os;
  os << "ii=" << cmp2(fx.i(a), fx.i(b)) << " ic=" << cmp2(fx.i(a), fx.k(b)) << " im=" << cmp2(fx.i(a), fx.m(b))
     << " ci=" << cmp2(fx.k(a), fx.i(b)) << " cc=" << cmp2(fx.k(a), fx.k(b)) << " cm=" << cmp2(fx.k(a), fx.m(b))
     << " mi=" << cmp2(fx.m(a), fx.i(b)) << " mc=" << cmp2(fx.m(a), fx.k(b)) << " mm=" << cmp2(fx.m(a), fx.m(b));
  return os.str();
}
static string sl_step(int n, const string& var, int a, int k)
{
  SlFix fx(n);
  if (a < 0 || k < 0 || a + k > n) return "BADCASE";
  auto body = [&](auto it0) {
    using It = decltype(it0);
    std::ostringstream os;
    { It r = it0; for (int q = 0; q < k; ++q) ++r; os << "steps=" << fx.ptok(r); }
    if (a + 1 <= n) { It r = it0; It old = r++; os << " postinc=" << fx.ptok(old) << "/" << fx.ptok(r); } else os << " postinc=-";
    return os.str();
  };
  if (var == "i") return body(fx.i(a));
  if (var == "c") return body(fx.k(a));
  return body(fx.m(a));
}

// bidirectional new-facade iterator: TransformedRangeView over std::list<int>
static string trl_cmp(int n, int a, int b)
{
  std::list<int> c; for (int p = 0; p < n; ++p) c.push_back(1000 + p);
  auto r = Dune::transformedRangeView(c, TrF{});
  const auto& cr = r;
  if (a < 0 || b < 0 || a > n || b > n) return "BADCASE";
  auto m = [&](int p) { auto it = r.begin(); for (int q = 0; q < p; ++q) ++it; return it; };
  auto k = [&](int p) { auto it = cr.begin(); for (int q = 0; q < p; ++q) ++it; return it; };
  std::ostringstream os;
  os << "mm=" << cmp2(m(a), m(b)) << " mc=" << cmp2(m(a), k(b)) << " cm=" << cmp2(k(a), m(b)) << " cc=" << cmp2(k(a), k(b));
  return os.str();
}
static string trl_step(int n, const string& var, int a, int k)
{
  std::list<int> c; for (int p = 0; p < n; ++p) c.push_back(1000 + p);
  auto r = Dune::transformedRangeView(c, TrF{});
  const auto& cr = r;
  if (a < 0 || a > n || a + k < 0 || a + k > n) return "BADCASE";
  auto body = [&](auto mk) {
    auto it0 = mk(a);
    using It = decltype(it0);
    auto pt = [&](const It& x) {
      int hit = 0, pos = 0; for (int p = 0; p <= n; ++p) if (x == mk(p)) { ++hit; pos = p; }
      if (hit != 1) return string(hit == 0 ? "?none" : "?multi");
      return std::to_string(pos) + ":" + (pos < n ? std::to_string((ll) *x) : string("-"));
    };
    std::ostringstream os;
    { It x = it0; if (k >= 0) for (int q = 0; q < k; ++q) ++x; else for (int q = 0; q < -k; ++q) --x; os << "steps=" << pt(x); }
    if (a + 1 <= n) { It x = it0; ++x; --x; os << " incdec=" << pt(x); } else os << " incdec=-";
    if (a - 1 >= 0) { It x = it0; --x; ++x; os << " decinc=" << pt(x); } else os << " decinc=-";
    if (a + 1 <= n) { It x = it0; It old = x++; os << " postinc=" << pt(old) << "/" << pt(x); } else os << " postinc=-";
    if (a - 1 >= 0) { It x = it0; It old = x--; os << " postdec=" << pt(old) << "/" << pt(x); } else os << " postdec=-";
    return os.str();
  };
  auto m = [&](int p) { auto it = r.begin(); for (int q = 0; q < p; ++q) ++it; return it; };
  auto kk = [&](int p) { auto it = cr.begin(); for (int q = 0; q < p; ++q) ++it; return it; };
  return var == "m" ? body(m) : body(kk);
}

// iterators into two different containers of equal size: only == and != are defined
template<class F> static string do_cmpx(F& f1, F& f2, int i, int j)
{
  if (i < f1.lo || j < f1.lo || i > f1.n || j > f1.n) return "BADCASE";
  return "mm=" + cmp2(f1.m(i), f2.m(j)) + " mc=" + cmp2(f1.m(i), f2.k(j)) + " cm=" + cmp2(f1.k(i), f2.m(j)) + " cc=" + cmp2(f1.k(i), f2.k(j));
}

#define ITER_PROLOGUE \
  const string& op = t[0]; auto kp = split(t[1], ':'); const string& kind = kp[0]; int n = std::stoi(t[2]); \
  int a = std::stoi(t[op == "step" ? 4 : 3]), b = std::stoi(t[op == "step" ? 5 : 4]); \
  auto go = [&](auto& fx) { return op == "cmp" ? do_cmp(fx, a, b) : do_step(fx, t[3], a, b); }; (void) n; (void) go;
// cmp <kind> <n> <i> <j>  |  cmpx <kind> <n> <i> <j>  |  step <kind> <n> <var> <i> <k>
#if PART(1)
string c16_iter_case_1(const std::vector<string>& t)
{
  ITER_PROLOGUE
  if (op == "cmpx") {
    if (kind == "dyn") { DynFix f1(n), f2(n); return do_cmpx(f1, f2, a, b); }
    if (kind == "gen") { GenFix f1(n), f2(n); return do_cmpx(f1, f2, a, b); }
    return "BADCASE";
  }
  if (kind == "dyn") { DynFix fx(n); return go(fx); }
  if (kind == "gen") { GenFix fx(n); return go(fx); }
  if (kind == "fv") return sized_kind<FvFix>(op, t);
  return "BADCASE";
}
#endif
#if PART(2)
string c16_iter_case_2(const std::vector<string>& t)
{
  ITER_PROLOGUE
  if (kind == "al") { AlFix fx(n, std::stoi(kp[1])); return go(fx); }
  if (kind == "tr") { TrFix fx(n); return go(fx); }
  if (kind == "fmrow") return sized_kind<FmFix>(op, t);
  return "BADCASE";
}
#endif
#if PART(3)
string c16_iter_case_3(const std::vector<string>& t)
{
  ITER_PROLOGUE
  if (kind == "ir") {
    const string& T = kp[1];
    ll from = (T == "u32" || T == "u64") ? (ll) std::stoull(kp[2]) : std::stoll(kp[2]);
    if (T == "i8") return ir_kind<signed char>(op, t, from);
    if (T == "u8") return ir_kind<unsigned char>(op, t, from);
    if (T == "i16") return ir_kind<short>(op, t, from);
    if (T == "u16") return ir_kind<unsigned short>(op, t, from);
    if (T == "i32") return ir_kind<int>(op, t, from);
    if (T == "u32") return ir_kind<unsigned>(op, t, from);
    if (T == "i64") return ir_kind<long>(op, t, from);
    if (T == "u64") return ir_kind<unsigned long>(op, t, from);
  }
  return "BADCASE";
}
#endif

#if PART(4)
// ------------------------------------------------------------------------------------------------ IndexedIterator
template<class Base, class PT> static string idx_run(Base begin, ll i0, const std::vector<string>& ops, PT pt)
{
  Dune::IndexedIterator<Base> it(begin, (typename Dune::IndexedIterator<Base>::size_type) i0);
  for (auto& o : ops) {
    if (o == "+") ++it; else if (o == "-") --it;
    else if (o == "a") it++; else if (o == "b") it--;
    else if (o[0] == 'p') it += std::stoi(o.substr(1));
    else if (o[0] == 'm') it -= std::stoi(o.substr(1));
  }
  Dune::IndexedIterator<Base> d;                        // default construction, then assignment
  d = it;
  return "pos=" + pt((const Base&) it) + " index=" + std::to_string((ll) it.index()) + " dindex=" + std::to_string((ll) d.index()) + " dpos=" + pt((const Base&) d);
}
static string idx_case(const std::vector<string>& t)      // idxrun <base> <n> <i0> <ops>
{
  int n = std::stoi(t[2]); ll i0 = std::stoll(t[3]);
  auto ops = t.size() > 4 && t[4] != "-" ? split(t[4], ',') : std::vector<string>{};
  if (t[1] == "vec") {
    std::vector<int> c(n); for (int p = 0; p < n; ++p) c[p] = 1000 + p;
    auto b = c.begin();
    return idx_run(b, i0, ops, [&](const std::vector<int>::iterator& x) {
      ll p = x - b; return std::to_string(p) + ":" + (p >= 0 && p < n ? std::to_string(*x) : string("-")); });
  }
  if (t[1] == "dyn") {
    DynFix fx(n);
    return idx_run(fx.m(0), i0, ops, [&](const DynFix::M& x) { return ptok(fx, x); });
  }
  return "BADCASE";
}

// ------------------------------------------------------------------------------------------------ integral ranges
template<class T> static string irange_obs(const Dune::IntegralRange<T>& r, const std::vector<ll>& xs)
{
  std::ostringstream os;
  std::vector<string> el; int cnt = 0;
  for (auto v : r) { if (++cnt > 40) { el.push_back("..."); break; } el.push_back(num<T>(v)); }
  os << "elems=" << join(el) << " size=" << num(r.size()) << " empty=" << (r.empty() ? 1 : 0);
  std::vector<string> at; std::size_t sz = (std::size_t) r.size();
  for (std::size_t i = 0; i < sz && i < 40; ++i) at.push_back(num<T>(r[(T) i]));
  os << " at=" << join(at) << " cont=";
  if (xs.empty()) os << "-";
  for (ll x : xs) os << (r.contains((T) x) ? '1' : '0');
  {                                                   // the other constructors: from a pair, and [0,to) when from == 0
    T from = *r.begin(), to = *r.end();
    Dune::IntegralRange<T> rp(std::pair<T, T>(from, to));
    std::vector<string> pl; int c2 = 0; for (auto v : rp) { if (++c2 > 40) break; pl.push_back(num<T>(v)); }
    os << " pair=" << join(pl);
    if (from == 0) {
      std::vector<string> l1, l2; c2 = 0;
      for (auto v : Dune::IntegralRange<T>(to)) { if (++c2 > 40) break; l1.push_back(num<T>(v)); }
      c2 = 0; for (auto v : Dune::range(to)) { if (++c2 > 40) break; l2.push_back(num<T>(v)); }
      os << " one=" << join(l1) << " rone=" << join(l2);
    } else os << " one=- rone=-";
  }
  return os.str();
}
template<class T> static string irange_case(const std::vector<string>& t)
{
  T from, to;
  if constexpr (std::is_unsigned_v<T>) { from = (T) std::stoull(t[2]); to = (T) std::stoull(t[3]); }
  else { from = (T) std::stoll(t[2]); to = (T) std::stoll(t[3]); }
  std::vector<ll> xs;
  if (t.size() > 4 && t[4] != "-") for (auto& s : split(t[4], ',')) xs.push_back(std::is_unsigned_v<T> ? (ll) std::stoull(s) : std::stoll(s));
  return irange_obs(Dune::range(from, to), xs);
}
// ------------------------------------------------------------------------------------------------ transformed / sparse ranges
struct Affine {
  ll a, b; std::vector<ll>* calls;
  ll operator()(ll x) const { if (calls) calls->push_back(x); return a * x + b; }
};
template<class Rg> static string tr_obs(Rg&& base, ll a, ll b, bool ra, bool has_size)
{
  std::vector<ll> calls;
  auto r = Dune::transformedRangeView(base, Affine{a, b, &calls});
  std::vector<ll> el; for (auto&& v : r) el.push_back((ll) v);
  std::ostringstream os;
  os << "elems=" << join(el) << " calls=" << join(calls);
  std::size_t n = el.size();
  if constexpr (requires { r.size(); }) os << " size=" << (ll) r.size(); else os << " size=-";
  os << " empty=" << (r.empty() ? 1 : 0);
  if constexpr (requires { r[0]; }) { std::vector<ll> at; for (std::size_t i = 0; i < n; ++i) at.push_back((ll) r[i]); os << " at=" << join(at); }
  else os << " at=-";
  // the const view gives the same sequence
  const auto& cr = r; std::vector<ll> cel; for (auto&& v : cr) cel.push_back((ll) v);
  os << " const=" << join(cel);
  if constexpr (requires { cr[0]; }) { std::vector<ll> at; for (std::size_t i = 0; i < n; ++i) at.push_back((ll) cr[i]); os << " cat=" << join(at); }
  else os << " cat=-";
  { std::vector<ll> raw, craw; for (auto&& v : r.rawRange()) raw.push_back((ll) v); for (auto&& v : cr.rawRange()) craw.push_back((ll) v);
    os << " raw=" << join(raw) << " craw=" << join(craw); }
  return os.str();
}
static string tr_case(const std::vector<string>& t)           // tr <base> <a> <b> <xs>
{
  ll a = std::stoll(t[2]), b = std::stoll(t[3]);
  auto xs = ints(t.size() > 4 ? t[4] : "-");
  const string& base = t[1];
  if (base == "vec") { std::vector<int> c(xs.begin(), xs.end()); return tr_obs(c, a, b, true, true); }
  if (base == "cvec") { const std::vector<int> c(xs.begin(), xs.end()); return tr_obs(c, a, b, true, true); }
  if (base == "rvec") { return tr_obs(std::vector<int>(xs.begin(), xs.end()), a, b, true, true); }
  if (base == "dyn") { Dune::DynamicVector<int> c(xs.size()); for (std::size_t i = 0; i < xs.size(); ++i) c[i] = (int) xs[i]; return tr_obs(c, a, b, true, true); }
  if (base == "list") { std::list<int> c(xs.begin(), xs.end()); return tr_obs(c, a, b, false, true); }
  if (base == "al") { Dune::ArrayList<int, 3> c; for (ll x : xs) c.push_back((int) x); return tr_obs(c, a, b, true, true); }
  if (base == "ir") { return tr_obs(Dune::range((int) xs[0], (int) xs[1]), a, b, true, true); }
  return "BADCASE";
}
template<class Rg> static string sparse_obs(Rg&& base)
{
  std::vector<string> el;
  for (auto&& [v, i] : Dune::sparseRange(base)) el.push_back(std::to_string((ll) v) + ":" + std::to_string((ll) i));
  return "elems=" + join(el);
}
static string sparse_case(const std::vector<string>& t)       // sparse <base> <xs>
{
  auto xs = ints(t.size() > 2 ? t[2] : "-");
  if (t[1] == "dyn") { Dune::DynamicVector<int> c(xs.size()); for (std::size_t i = 0; i < xs.size(); ++i) c[i] = (int) xs[i]; return sparse_obs(c); }
  if (t[1] == "cdyn") { Dune::DynamicVector<int> c(xs.size()); for (std::size_t i = 0; i < xs.size(); ++i) c[i] = (int) xs[i]; const auto& cc = c; return sparse_obs(cc); }
  if (t[1] == "idxvec") {
    std::vector<int> c(xs.begin(), xs.end());
    using II = Dune::IndexedIterator<std::vector<int>::iterator>;
    Dune::IteratorRange<II> r(II(c.begin()), II(c.end()));
    return sparse_obs(r);
  }
  if (t[1] == "fv3" && xs.size() == 3) { Dune::FieldVector<int, 3> c; for (int i = 0; i < 3; ++i) c[i] = (int) xs[i]; return sparse_obs(c); }
  return "BADCASE";
}

// Iterator categories / typedefs are compile-time facts (DESIGN section 4 C16, "Level and gaps"): asserted here, not in Coq.
template<class It> using cat_t = typename std::iterator_traits<It>::iterator_category;
static_assert(std::is_same_v<cat_t<DynFix::M>, std::random_access_iterator_tag> && std::is_same_v<cat_t<DynFix::K>, std::random_access_iterator_tag>);
static_assert(std::is_same_v<cat_t<GenFix::M>, std::random_access_iterator_tag> && std::is_same_v<cat_t<GenFix::K>, std::random_access_iterator_tag>);
static_assert(std::is_same_v<cat_t<AlFix::M>, std::random_access_iterator_tag> && std::is_same_v<cat_t<AlFix::K>, std::random_access_iterator_tag>);
static_assert(std::is_same_v<cat_t<TrFix::M>, std::random_access_iterator_tag> && std::is_same_v<cat_t<TrFix::K>, std::random_access_iterator_tag>);
static_assert(std::is_same_v<cat_t<Dune::IntegralRange<int>::iterator>, std::random_access_iterator_tag>);
static_assert(std::is_same_v<cat_t<Dune::SLList<int>::iterator>, std::forward_iterator_tag> && std::is_same_v<cat_t<Dune::SLList<int>::const_iterator>, std::forward_iterator_tag>
              && std::is_same_v<cat_t<Dune::SLList<int>::ModifyIterator>, std::forward_iterator_tag>);
static_assert(std::is_same_v<cat_t<decltype(Dune::transformedRangeView(std::declval<std::list<int>&>(), TrF{}).begin())>, std::bidirectional_iterator_tag>);
static_assert(std::is_convertible_v<DynFix::M, DynFix::K> && std::is_convertible_v<GenFix::M, GenFix::K> && std::is_convertible_v<AlFix::M, AlFix::K>);
static_assert(!std::is_convertible_v<AlFix::K, AlFix::M>, "ArrayList: const -> mutable must not convert (second branch of the facade operators)");
static_assert(std::is_same_v<std::iterator_traits<Dune::IntegralRange<unsigned>::iterator>::difference_type, int>);
static_assert(std::is_same_v<decltype(std::declval<Dune::IntegralRange<short>>().size()), unsigned short>);

string c16_misc_case(const std::vector<string>& t)
{
  if (t[0] == "cmp" || t[0] == "step") {
    int n = std::stoi(t[2]);
    int a = std::stoi(t[t[0] == "step" ? 4 : 3]), b = std::stoi(t[t[0] == "step" ? 5 : 4]);
    if (t[1] == "sl") return t[0] == "cmp" ? sl_cmp(n, a, b) : sl_step(n, t[3], a, b);
    if (t[1] == "trl") return t[0] == "cmp" ? trl_cmp(n, a, b) : trl_step(n, t[3], a, b);
    return "BADCASE";
  }
  if (t[0] == "idxrun") return idx_case(t);
  if (t[0] == "irange") {
    const string& T = t[1];
    if (T == "i8") return irange_case<signed char>(t); if (T == "u8") return irange_case<unsigned char>(t);
    if (T == "i16") return irange_case<short>(t); if (T == "u16") return irange_case<unsigned short>(t);
    if (T == "i32") return irange_case<int>(t); if (T == "u32") return irange_case<unsigned>(t);
    if (T == "i64") return irange_case<long>(t); if (T == "u64") return irange_case<unsigned long>(t);
    return "BADCASE";
  }
  if (t[0] == "tr") return tr_case(t);
  if (t[0] == "sparse") return sparse_case(t);
  return "BADCASE";
}
#endif   // PART(4)

#if PART(5)
// ------------------------------------------------------------------------------------------------ Hybrid
template<class T> static string sd(const T& x)      // S<v> for an integral_constant result, D<v> for a run-time value
{
  if constexpr (Dune::IsIntegralConstant<std::decay_t<T>>::value) return "S" + std::to_string((ll) std::decay_t<T>::value);
  else return "D" + std::to_string((ll) x);
}
template<std::size_t... I> static auto make_tuple_n(const std::vector<ll>& xs, std::index_sequence<I...>) { return std::make_tuple((ll) xs[I]...); }
template<std::size_t... I> static auto make_array_n(const std::vector<ll>& xs, std::index_sequence<I...>) { return std::array<ll, sizeof...(I)>{{(ll) xs[I]...}}; }
template<std::size_t... I> static auto make_tv_n(const std::vector<ll>& xs, std::index_sequence<I...>) { return Dune::makeTupleVector((ll) xs[I]...); }

template<std::size_t N> static string hy_container(const string& op, const std::vector<ll>& xs, ll v0)
{
  auto seqN = std::make_index_sequence<N>{};
  auto tp = make_tuple_n(xs, seqN); auto ar = make_array_n(xs, seqN); auto tv = make_tv_n(xs, seqN);
  std::vector<ll> vec(xs.begin(), xs.end());
  std::ostringstream os;
  if (op == "size") {
    os << "tuple=" << sd(Dune::Hybrid::size(tp)) << " array=" << sd(Dune::Hybrid::size(ar)) << " tv=" << sd(Dune::Hybrid::size(tv))
       << " iseq=" << sd(Dune::Hybrid::size(std::make_index_sequence<N>{}))
       << " sir=" << sd(Dune::Hybrid::size(Dune::StaticIntegralRange<std::size_t, N>{}))
       << " hir=" << sd(Dune::Hybrid::size(Dune::Hybrid::integralRange(Dune::index_constant<N>{})))
       << " vec=" << sd(Dune::Hybrid::size(vec)) << " ir=" << sd(Dune::Hybrid::size(Dune::range(N)))
       << " dhir=" << sd(Dune::Hybrid::size(Dune::Hybrid::integralRange(N)));
  } else if (op == "foreach") {
    std::vector<ll> l1, l2, l3, l4;
    Dune::Hybrid::forEach(tp, [&](auto&& e) { l1.push_back((ll) e); });
    Dune::Hybrid::forEach(ar, [&](auto&& e) { l2.push_back((ll) e); });
    Dune::Hybrid::forEach(tv, [&](auto&& e) { l3.push_back((ll) e); });
    Dune::Hybrid::forEach(vec, [&](auto&& e) { l4.push_back((ll) e); });
    os << "tuple=" << join(l1) << " array=" << join(l2) << " tv=" << join(l3) << " vec=" << join(l4);
  } else if (op == "acc") {
    auto f = [](ll a, ll x) { return 7 * a + x; };
    os << "tuple=" << Dune::Hybrid::accumulate(tp, v0, f) << " array=" << Dune::Hybrid::accumulate(ar, v0, f)
       << " tv=" << Dune::Hybrid::accumulate(tv, v0, f) << " vec=" << Dune::Hybrid::accumulate(vec, v0, f);
  } else if (op == "at") {
    std::vector<ll> l1, l2, l3, l4;
    [&]<std::size_t... I>(std::index_sequence<I...>) {
      (l1.push_back((ll) Dune::Hybrid::elementAt(tp, Dune::index_constant<I>{})), ...);
      (l2.push_back((ll) Dune::Hybrid::elementAt(ar, Dune::index_constant<I>{})), ...);
      (l3.push_back((ll) Dune::Hybrid::elementAt(tv, Dune::index_constant<I>{})), ...);
    }(seqN);
    for (std::size_t i = 0; i < N; ++i) l4.push_back(Dune::Hybrid::elementAt(vec, i));
    std::vector<ll> l5; for (std::size_t i = 0; i < N; ++i) l5.push_back(Dune::Hybrid::elementAt(ar, i));   // run-time index into a static container
    os << "tuple=" << join(l1) << " array=" << join(l2) << " tv=" << join(l3) << " vec=" << join(l4) << " arraydyn=" << join(l5);
  } else if (op == "idx") {
    // loops over index ranges 0..N-1: static (integer_sequence, StaticIntegralRange, Hybrid::integralRange of constants) vs run-time
    std::vector<string> l1, l2, l3, l4, l5;
    Dune::Hybrid::forEach(std::make_index_sequence<N>{}, [&](auto i) { l1.push_back(sd(i)); });
    Dune::Hybrid::forEach(Dune::StaticIntegralRange<std::size_t, N>{}, [&](auto i) { l2.push_back(sd(i)); });
    Dune::Hybrid::forEach(Dune::Hybrid::integralRange(Dune::index_constant<N>{}), [&](auto i) { l3.push_back(sd(i)); });
    Dune::Hybrid::forEach(Dune::range(std::size_t(N)), [&](auto i) { l4.push_back(sd(i)); });
    Dune::Hybrid::forEach(Dune::Hybrid::integralRange(std::size_t(N)), [&](auto i) { l5.push_back(sd(i)); });
    os << "iseq=" << join(l1) << " sir=" << join(l2) << " hir=" << join(l3) << " ir=" << join(l4) << " dhir=" << join(l5);
  } else return "BADCASE";
  return os.str();
}

template<int... C> static string hy_switch_seq(ll v)
{
  using Cases = std::integer_sequence<int, C...>;
  auto br = [](auto i) -> ll { return 100 + (ll) i; };
  auto el = []() -> ll { return -1; };
  std::ostringstream os;
  os << "dyn=" << Dune::Hybrid::switchCases(Cases{}, (int) v, br, el);
  ll sres = -2;
  [&]<int... V>(std::integer_sequence<int, V...>) {
    ((v == V ? (void) (sres = Dune::Hybrid::switchCases(Cases{}, std::integral_constant<int, V>{}, br, el)) : (void) 0), ...);
  }(std::integer_sequence<int, 0, 1, 2, 3, 4, 5, 6, 7, 8, 9>{});
  os << " static=" << sres;
  return os.str();
}
string c16_hy_case(const std::vector<string>& t)
{
  const string& op = t[1];
  if (op == "size" || op == "foreach" || op == "acc" || op == "at" || op == "idx") {
    ll v0 = 0; std::vector<ll> xs;
    if (op == "acc") { v0 = std::stoll(t[2]); xs = ints(t.size() > 3 ? t[3] : "-"); }
    else if (op == "size" || op == "idx") xs.assign((std::size_t) std::stoi(t[2]), 0);
    else xs = ints(t.size() > 2 ? t[2] : "-");
    switch (xs.size()) {
      case 0: return hy_container<0>(op, xs, v0); case 1: return hy_container<1>(op, xs, v0); case 2: return hy_container<2>(op, xs, v0);
      case 3: return hy_container<3>(op, xs, v0); case 4: return hy_container<4>(op, xs, v0); case 5: return hy_container<5>(op, xs, v0);
    }
    return "BADCASE";
  }
  if (op == "ifelse") {
    bool c = t[2] == "1";
    auto yes = [](auto id) -> ll { return id(1); }; auto no = [](auto id) -> ll { return id(2); };
    ll s = c ? Dune::Hybrid::ifElse(std::true_type{}, yes, no) : Dune::Hybrid::ifElse(std::false_type{}, yes, no);
    ll d = Dune::Hybrid::ifElse(c, yes, no);
    ll one = 0; if (c) Dune::Hybrid::ifElse(std::true_type{}, [&](auto id) { one = id(1); }); else Dune::Hybrid::ifElse(std::false_type{}, [&](auto id) { one = id(1); });
    ll oned = 0; Dune::Hybrid::ifElse(c, [&](auto id) { oned = id(1); });
    return "static=" + std::to_string(s) + " dyn=" + std::to_string(d) + " static1=" + std::to_string(one) + " dyn1=" + std::to_string(oned);
  }
  if (op == "switch") {                     // hy switch <table id> <v>
    ll v = std::stoll(t[3]);
    switch (std::stoi(t[2])) {
      case 0: { auto el = []() -> ll { return -1; }; auto br = [](auto i) -> ll { return 100 + (ll) i; };
                return "dyn=" + std::to_string(Dune::Hybrid::switchCases(std::integer_sequence<int>{}, (int) v, br, el)) + " static=-1"; }
      case 1: return hy_switch_seq<3>(v);
      case 2: return hy_switch_seq<1, 4, 2>(v);
      case 3: return hy_switch_seq<5, 5, 7>(v);
      case 4: return hy_switch_seq<0, 1, 2, 3>(v);
      case 5: return hy_switch_seq<9, 0, 8>(v);
    }
    return "BADCASE";
  }
  if (op == "switchr") {                    // hy switchr <id> <from> <to> <v> : IntegralRange (run-time) and the matching static range
    ll from = std::stoll(t[3]), to = std::stoll(t[4]), v = std::stoll(t[5]);
    auto br = [](auto i) -> ll { return 100 + (ll) i; };
    auto el = []() -> ll { return -1; };
    ll d = Dune::Hybrid::switchCases(Dune::range((int) from, (int) to), (int) v, br, el);
    ll s = -2;
    switch (std::stoi(t[2])) {
      case 0: if (from != 0 || to != 0) return "TABLE-MISMATCH"; s = Dune::Hybrid::switchCases(Dune::StaticIntegralRange<int, 0, 0>{}, (int) v, br, el); break;
      case 1: if (from != 0 || to != 4) return "TABLE-MISMATCH"; s = Dune::Hybrid::switchCases(Dune::StaticIntegralRange<int, 4, 0>{}, (int) v, br, el); break;
      case 2: if (from != 2 || to != 7) return "TABLE-MISMATCH"; s = Dune::Hybrid::switchCases(Dune::StaticIntegralRange<int, 7, 2>{}, (int) v, br, el); break;
      case 3: if (from != -3 || to != 2) return "TABLE-MISMATCH"; s = Dune::Hybrid::switchCases(Dune::StaticIntegralRange<int, 2, -3>{}, (int) v, br, el); break;
      case 4: if (from != 2 || to != 5) return "TABLE-MISMATCH";
              static_assert(std::is_same_v<decltype(Dune::Hybrid::integralRange(Dune::Indices::_2, Dune::Indices::_5)), Dune::StaticIntegralRange<std::size_t, 5, 2>>);
              s = v < 0 ? -1 : Dune::Hybrid::switchCases(Dune::Hybrid::integralRange(Dune::Indices::_2, Dune::Indices::_5), (std::size_t) v, br, el);
              d = v < 0 ? -1 : Dune::Hybrid::switchCases(Dune::Hybrid::integralRange(std::size_t(2), std::size_t(5)), (std::size_t) v, br, el); break;
      default: return "BADCASE";
    }
    return "dyn=" + std::to_string(d) + " static=" + std::to_string(s);
  }
  if (op == "fun") {                        // hy fun <plus|minus|max|min|equal_to> <a> <b>, a,b in 0..4
    int a = std::stoi(t[3]), b = std::stoi(t[4]);
    string res = "BADCASE";
    auto with = [&](auto f) {
      [&]<std::size_t... I>(std::index_sequence<I...>) {
        ((a == (int) (I / 5) && b == (int) (I % 5) ? (void) (res =
            "ss=" + sd(f(Dune::index_constant<I / 5>{}, Dune::index_constant<I % 5>{})) +
            " sd=" + sd(f(Dune::index_constant<I / 5>{}, std::size_t(I % 5))) +
            " ds=" + sd(f(std::size_t(I / 5), Dune::index_constant<I % 5>{})) +
            " dd=" + sd(f(std::size_t(I / 5), std::size_t(I % 5)))) : (void) 0), ...);
      }(std::make_index_sequence<25>{});
    };
    if (t[2] == "plus") with(Dune::Hybrid::plus);
    else if (t[2] == "minus") { if (a < b) return "BADCASE"; with(Dune::Hybrid::minus); }
    else if (t[2] == "max") with(Dune::Hybrid::max);
    else if (t[2] == "min") with(Dune::Hybrid::min);
    else if (t[2] == "equal_to") with(Dune::Hybrid::equal_to);
    return res;
  }
  return "BADCASE";
}

#endif   // PART(5)
