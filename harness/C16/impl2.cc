// C16 impl driver, part 6: entry points found unexercised by the API-coverage audit (mutants/C16/API_COVERAGE.md).
//   cont   <kind> <n> <arg>        iterators handed out by the containers themselves: begin/end/beforeBegin/beforeEnd/find, both constness
//   bcmp   <kind> <n> <i> <j>      == / != of forward / bidirectional iterators (legacy Forward/BidirectionalIteratorFacade, new IteratorFacade with
//   bstep  <kind> <n> <var> <i> <k>   forward / bidirectional tags): GenericIterator<..., Bidirectional/ForwardIteratorFacade>, BitSetVector iterators,
//                                  ContainerWrapperIterator (rows of DiagonalMatrix), hand-written derived classes of IteratorFacade
//   cmp/step nfman|nfptr ...       random access derived classes of the new IteratorFacade that use the documented alternative protocols
//   trx <variant> <xs>             TransformedRangeView/Iterator: reference-returning and proxy transformations, operator->, iterator transformation,
//                                  forward base range, iterator with a directly callable function object, const operator[]
//   sparsex <base> <xs>            sparseRange over rows of DiagonalMatrix / FieldMatrix
//   rutil <xs>                     max_value / min_value / any_true / all_true
//   iseq <id>                      integersequence.hh helpers on a fixed table of sequences
//   hyx ...                        remaining Hybrid overloads (elementAt on integer_sequence, integralRange(begin,end), void switchCases, n-ary max/min)
#define C16_PART 6
#include "impl.cc"
#include <forward_list>
#include <bitset>
#include <dune/common/bitsetvector.hh>
#include <dune/common/diagonalmatrix.hh>

template<class T> static string sd(const T& x)      // S<v> for an integral_constant result, D<v> for a run-time value
{
  if constexpr (Dune::IsIntegralConstant<std::decay_t<T>>::value) return "S" + std::to_string((ll) std::decay_t<T>::value);
  else return "D" + std::to_string((ll) x);
}
// ---------------------------------------------------------------------------------------------- cont
template<class F, class C> static string cont_dense(F& fx, C& c, int arg, bool has_find)
{
  const C& cc = c;
  std::ostringstream os;
  os << "begin=" << ptok(fx, c.begin()) << " cbegin=" << ptok(fx, cc.begin()) << " end=" << ptok(fx, c.end()) << " cend=" << ptok(fx, cc.end())
     << " bbegin=" << ptok(fx, c.beforeBegin()) << " cbbegin=" << ptok(fx, cc.beforeBegin());
  if (fx.n >= 1) os << " bend=" << ptok(fx, c.beforeEnd()) << " cbend=" << ptok(fx, cc.beforeEnd()); else os << " bend=- cbend=-";
  if constexpr (requires { c.find(0); }) { if (has_find) os << " find=" << ptok(fx, c.find((std::size_t) arg)) << " cfind=" << ptok(fx, cc.find((std::size_t) arg)); }
  return os.str();
}
template<template<int> class FX> static string cont_sized(int n, int arg)
{
  auto go = [&](auto& fx) { return cont_dense(fx, fx.c, arg, true); };
  switch (n) { case 1: { FX<1> fx; return go(fx); } case 2: { FX<2> fx; return go(fx); } case 3: { FX<3> fx; return go(fx); } case 4: { FX<4> fx; return go(fx); } }
  return "BADCASE";
}
static string cont_case(const std::vector<string>& t)
{
  auto kp = split(t[1], ':'); int n = std::stoi(t[2]), arg = std::stoi(t[3]);
  if (kp[0] == "dyn") { DynFix fx(n); return cont_dense(fx, fx.c, arg, true); }
  if (kp[0] == "fv") return cont_sized<FvFix>(n, arg);
  if (kp[0] == "fmrow") return cont_sized<FmFix>(n, arg);
  if (kp[0] == "al") { AlFix fx(n, std::stoi(kp[1])); const auto& cc = fx.c;
    return "begin=" + ptok(fx, fx.c.begin()) + " cbegin=" + ptok(fx, cc.begin()) + " end=" + ptok(fx, fx.c.end()) + " cend=" + ptok(fx, cc.end()); }
  if (kp[0] == "tr") { TrFix fx(n); const auto& cr = fx.r;
    return "begin=" + ptok(fx, fx.r.begin()) + " cbegin=" + ptok(fx, cr.begin()) + " end=" + ptok(fx, fx.r.end()) + " cend=" + ptok(fx, cr.end()); }
  if (kp[0] == "sl") { SlFix fx(n); const auto& cc = fx.c;
    return "begin=" + fx.ptok(fx.c.begin()) + " cbegin=" + fx.ptok(cc.begin()) + " end=" + fx.ptok(fx.c.end()) + " cend=" + fx.ptok(cc.end())
         + " bmod=" + fx.ptok(fx.c.beginModify()) + " emod=" + fx.ptok(fx.c.endModify())
         + " itfrommod=" + fx.ptok(Dune::SLList<int>::iterator(fx.m(arg))) + " cfrommod=" + fx.ptok(Dune::SLList<int>::const_iterator(fx.m(arg)))
         + " cfromit=" + fx.ptok(Dune::SLList<int>::const_iterator(fx.i(arg))); }
  return "BADCASE";
}

// ---------------------------------------------------------------------------------------------- forward / bidirectional kinds
// a fixture offers: n, lo, bidir, m(p), k(p) (iterators at position p), val(it)
struct GenBiFix {                     // GenericIterator with the BidirectionalIteratorFacade, difference type int, by-value reference
  struct Cont { std::vector<int> v; int operator[](int i) const { return v[i]; } };
  using M = Dune::GenericIterator<Cont, int, int, int, Dune::BidirectionalIteratorFacade>;
  using K = Dune::GenericIterator<const Cont, const int, const int, int, Dune::BidirectionalIteratorFacade>;
  Cont c; int n, lo = -1; static constexpr bool bidir = true;
  explicit GenBiFix(int n_) : n(n_) { for (int p = 0; p < n; ++p) c.v.push_back(1000 + p); }
  M m(int p) { return M(c, p); }  K k(int p) { const Cont& cc = c; return K(cc, p); }
  template<class It> ll val(const It& it) { return *it; }
};
struct GenFwFix {                     // GenericIterator with the ForwardIteratorFacade
  using C = std::vector<int>;
  using M = Dune::GenericIterator<C, int, int&, std::ptrdiff_t, Dune::ForwardIteratorFacade>;
  using K = Dune::GenericIterator<const C, const int, const int&, std::ptrdiff_t, Dune::ForwardIteratorFacade>;
  C c; int n, lo = 0; static constexpr bool bidir = false;
  explicit GenFwFix(int n_) : c(n_), n(n_) { for (int p = 0; p < n; ++p) c[p] = 1000 + p; }
  M m(int p) { return M(c, p); }  K k(int p) { const C& cc = c; return K(cc, p); }
  template<class It> ll val(const It& it) { return *it; }
};
struct BsvFix {                       // BitSetVector<4>: GenericIterator + ForwardIteratorFacade with proxy references; block p holds the bits of p+1
  using C = Dune::BitSetVector<4>;
  using M = C::iterator; using K = C::const_iterator;
  C c; int n, lo = 0; static constexpr bool bidir = false;
  explicit BsvFix(int n_) : c(n_), n(n_) { for (int p = 0; p < n; ++p) for (int b = 0; b < 4; ++b) c[p][b] = ((p + 1) >> b) & 1; }
  M m(int p) { M it = c.begin(); for (int q = 0; q < p; ++q) ++it; return it; }
  K k(int p) { const C& cc = c; K it = cc.begin(); for (int q = 0; q < p; ++q) ++it; return it; }
  template<class It> ll val(const It& it) { ll v = 0; for (int b = 0; b < 4; ++b) if ((*it)[b]) v |= 1 << b; return 1000 + v - 1; }
};
template<int N> struct DiagFix {      // rows of DiagonalMatrix<int,N>: ContainerWrapperIterator on the BidirectionalIteratorFacade
  using C = Dune::DiagonalMatrix<int, N>;
  using M = typename C::Iterator; using K = typename C::ConstIterator;
  C c; int n = N, lo = -1; static constexpr bool bidir = true;
  DiagFix() { for (int p = 0; p < N; ++p) c.diagonal(p) = 1000 + p; }
  M m(int p) { M it = (p < 0) ? c.beforeBegin() : c.begin(); for (int q = 0; q < p; ++q) ++it; return it; }
  K k(int p) { const C& cc = c; K it = (p < 0) ? cc.beforeBegin() : cc.begin(); for (int q = 0; q < p; ++q) ++it; return it; }
  template<class It> ll val(const It& it) { return (ll) (*it).diagonal() + 0 * (ll) it.index(); }
};
// derived classes of the new IteratorFacade written after its documentation
template<class Tag> struct NfPtr      // only baseIterator(): every operation incl. operator* and operator-> comes from the facade
  : public Dune::IteratorFacade<NfPtr<Tag>, Tag, const std::pair<int,int>>
{
  using Base = const std::pair<int,int>*;
  NfPtr() : p_(nullptr) {}
  explicit NfPtr(Base p) : p_(p) {}
  Base& baseIterator() { return p_; }
  const Base& baseIterator() const { return p_; }
private:
  Base p_;
};
struct NfMan                          // no baseIterator(): implements *, +=, -, == itself; ++ and -- come from the facade's `+= 1` / `-= 1` fallbacks
  : public Dune::IteratorFacade<NfMan, std::random_access_iterator_tag, const std::pair<int,int>>
{
  using Facade = Dune::IteratorFacade<NfMan, std::random_access_iterator_tag, const std::pair<int,int>>;
  NfMan() : b_(nullptr), i_(0) {}
  NfMan(const std::pair<int,int>* b, std::ptrdiff_t i) : b_(b), i_(i) {}
  const std::pair<int,int>& operator*() const { return b_[i_]; }
  NfMan& operator+=(std::ptrdiff_t n) { i_ += n; return *this; }
  friend std::ptrdiff_t operator-(const NfMan& a, const NfMan& b) { return a.i_ - b.i_; }
  friend bool operator==(const NfMan& a, const NfMan& b) { return a.i_ == b.i_ && a.b_ == b.b_; }
private:
  const std::pair<int,int>* b_; std::ptrdiff_t i_;
};
template<class It> struct NfFix {     // storage has one slot of slack on either side so that one-before-begin is a valid pointer value
  using M = It; using K = It;
  std::vector<std::pair<int,int>> c; int n, lo = -1; bool always_deref = false;
  static constexpr bool bidir = !std::is_same_v<typename It::iterator_category, std::forward_iterator_tag>;
  explicit NfFix(int n_) : c(n_ + 2), n(n_) { for (int p = -1; p <= n; ++p) c[p + 1] = {1000 + p, -p}; if (!bidir) lo = 0; }
  M m(int p) { if constexpr (std::is_same_v<It, NfMan>) return It(c.data() + 1, p); else return It(c.data() + 1 + p); }
  K k(int p) { return m(p); }
  template<class I2> ll val(const I2& it) { return (*it).first; }
};
template<> struct HasNPlus<NfFix<NfMan>> : std::true_type {};
template<> struct HasNPlus<NfFix<NfPtr<std::random_access_iterator_tag>>> : std::true_type {};

// a mutable / const pair on the BidirectionalIteratorFacade with a ONE-WAY conversion (mutable -> const): `mutable == const` selects the
// second operator== overload of the facade (is_convertible<T1,T2> && !is_convertible<T2,T1>)
struct CbiK;
struct CbiM : public Dune::BidirectionalIteratorFacade<CbiM, std::pair<int,int>, std::pair<int,int>&, int>
{
  CbiM() : b_(nullptr), i_(0) {}  CbiM(std::pair<int,int>* b, int i) : b_(b), i_(i) {}
  bool equals(const CbiM& o) const { return i_ == o.i_ && b_ == o.b_; }
  std::pair<int,int>& dereference() const { return b_[i_]; }
  void increment() { ++i_; }  void decrement() { --i_; }
  std::pair<int,int>* b_; int i_;
};
struct CbiK : public Dune::BidirectionalIteratorFacade<CbiK, const std::pair<int,int>, const std::pair<int,int>&, int>
{
  CbiK() : b_(nullptr), i_(0) {}  CbiK(const std::pair<int,int>* b, int i) : b_(b), i_(i) {}
  CbiK(const CbiM& o) : b_(o.b_), i_(o.i_) {}
  bool equals(const CbiK& o) const { return i_ == o.i_ && b_ == o.b_; }
  const std::pair<int,int>& dereference() const { return b_[i_]; }
  void increment() { ++i_; }  void decrement() { --i_; }
  const std::pair<int,int>* b_; int i_;
};
static_assert(std::is_convertible_v<CbiM, CbiK> && !std::is_convertible_v<CbiK, CbiM>);
struct CbiFix {
  using M = CbiM; using K = CbiK;
  std::vector<std::pair<int,int>> c; int n, lo = -1; static constexpr bool bidir = true;
  explicit CbiFix(int n_) : c(n_ + 2), n(n_) { for (int p = -1; p <= n; ++p) c[p + 1] = {1000 + p, -p}; }
  M m(int p) { return M(c.data() + 1, p); }  K k(int p) { return K(c.data() + 1, p); }
  template<class I2> ll val(const I2& it) { return (*it).first; }
};

template<class F, class It> static string bptok(F& fx, const It& r)
{
  int hit = 0, pos = 0;
  for (int p = fx.lo; p <= fx.n; ++p) {
    bool e;
    if constexpr (std::is_same_v<It, typename F::M>) e = (r == fx.m(p)); else e = (r == fx.k(p));
    if (e) { ++hit; pos = p; }
  }
  if (hit != 1) return hit == 0 ? "?none" : "?multi";
  return std::to_string(pos) + ":" + ((pos >= 0 && pos < fx.n) ? std::to_string(fx.val(r)) : string("-"));
}
template<class F> static string bcmp(F& fx, int i, int j)
{
  if (i < fx.lo || j < fx.lo || i > fx.n || j > fx.n) return "BADCASE";
  string s = "mm=" + cmp2(fx.m(i), fx.m(j));
  if constexpr (!std::is_same_v<typename F::M, typename F::K>)
    s += " mc=" + cmp2(fx.m(i), fx.k(j)) + " cm=" + cmp2(fx.k(i), fx.m(j)) + " cc=" + cmp2(fx.k(i), fx.k(j));
  return s;
}
template<class F> static string bstep(F& fx, const string& var, int i, int k)
{
  const int n = fx.n, lo = fx.lo;
  if (i < lo || i > n || i + k < lo || i + k > n || (!F::bidir && k < 0)) return "BADCASE";
  auto body = [&](auto it0) {
    using It = decltype(it0);
    std::ostringstream os;
    { It x = it0; if (k >= 0) for (int q = 0; q < k; ++q) ++x; else if constexpr (F::bidir) for (int q = 0; q < -k; ++q) --x; os << "steps=" << bptok(fx, x); }
    if (i + 1 <= n) { It x = it0; It old = x++; os << " postinc=" << bptok(fx, old) << "/" << bptok(fx, x); } else os << " postinc=-";
    if constexpr (F::bidir) {
      if (i + 1 <= n) { It x = it0; ++x; --x; os << " incdec=" << bptok(fx, x); } else os << " incdec=-";
      if (i - 1 >= lo) { It x = it0; --x; ++x; os << " decinc=" << bptok(fx, x); } else os << " decinc=-";
      if (i - 1 >= lo) { It x = it0; It old = x--; os << " postdec=" << bptok(fx, old) << "/" << bptok(fx, x); } else os << " postdec=-";
    }
    { It x(it0); os << " copy=" << bptok(fx, x); }
    { It x; x = it0; os << " assign=" << bptok(fx, x); }
    if constexpr (std::is_convertible_v<typename F::M, typename F::K>) { typename F::K c(fx.m(i)); os << " conv=" << bptok(fx, c); }
    else os << " conv=n/a";
    if constexpr (requires { it0->first; }) { if (i >= 0 && i < n) os << " arrow=" << it0->first; else os << " arrow=-"; }
    return os.str();
  };
  if (var == "m") return body(fx.m(i));
  return body(fx.k(i));
}
template<template<int> class FX, class G> static string sized4(int n, G go)
{
  switch (n) { case 2: { FX<2> fx; return go(fx); } case 3: { FX<3> fx; return go(fx); } case 4: { FX<4> fx; return go(fx); } case 5: { FX<5> fx; return go(fx); } }
  return "BADCASE";
}
static string b_case(const std::vector<string>& t)      // bcmp <kind> <n> <i> <j> | bstep <kind> <n> <var> <i> <k>
{
  const bool st = t[0] == "bstep";
  int n = std::stoi(t[2]), a = std::stoi(t[st ? 4 : 3]), b = std::stoi(t[st ? 5 : 4]);
  auto go = [&](auto& fx) { return st ? bstep(fx, t[3], a, b) : bcmp(fx, a, b); };
  const string& kind = t[1];
  if (kind == "genbi") { GenBiFix fx(n); return go(fx); }
  if (kind == "genfw") { GenFwFix fx(n); return go(fx); }
  if (kind == "bsv") { BsvFix fx(n); return go(fx); }
  if (kind == "diag") return sized4<DiagFix>(n, go);
  if (kind == "cbi") { CbiFix fx(n); return go(fx); }
  if (kind == "nffw") { NfFix<NfPtr<std::forward_iterator_tag>> fx(n); return go(fx); }
  if (kind == "nfbi") { NfFix<NfPtr<std::bidirectional_iterator_tag>> fx(n); return go(fx); }
  return "BADCASE";
}
static string n_case(const std::vector<string>& t)      // ncmp <kind> <n> <i> <j> | nstep <kind> <n> <var> <i> <k>: random access new-facade classes
{
  const bool st = t[0] == "nstep";
  int n = std::stoi(t[2]), a = std::stoi(t[st ? 4 : 3]), b = std::stoi(t[st ? 5 : 4]);
  auto go = [&](auto& fx) {
    string r = st ? do_step(fx, t[3], a, b) : do_cmp(fx, a, b);
    if (st && a >= 0 && a < n) r += " arrow=" + std::to_string(fx.m(a)->first); else if (st) r += " arrow=-";
    return r; };
  if (t[1] == "nfman") { NfFix<NfMan> fx(n); return go(fx); }
  if (t[1] == "nfptr") { NfFix<NfPtr<std::random_access_iterator_tag>> fx(n); return go(fx); }
  return "BADCASE";
}
template<> string value_of<std::pair<int,int>>(const std::pair<int,int>& x) { return std::to_string(x.first); }

// ---------------------------------------------------------------------------------------------- trx
struct Pt { ll a, b; };
static string trx_case(const std::vector<string>& t)     // trx <variant> <xs>
{
  auto xs = ints(t.size() > 2 ? t[2] : "-");
  const string& v = t[1];
  std::ostringstream os;
  if (v == "ref") {
    // transformation returning an lvalue reference: writing through the view changes the underlying range; operator-> is a raw pointer
    std::vector<std::pair<int, Pt>> c; for (std::size_t i = 0; i < xs.size(); ++i) c.push_back({(int) i, Pt{xs[i], -xs[i]}});
    auto r = Dune::transformedRangeView(c, [](auto& p) -> Pt& { return p.second; });
    static_assert(std::is_same_v<decltype(*r.begin()), Pt&>);
    std::vector<ll> seen, arrow;
    for (auto it = r.begin(); it != r.end(); ++it) { seen.push_back((*it).a); arrow.push_back(it->b); it->a = 2 * it->a + 1; }
    std::vector<ll> under; for (auto& p : c) under.push_back(p.second.a);
    std::vector<ll> idx; for (std::size_t i = 0; i < c.size(); ++i) { r[i].b += 5; idx.push_back(c[i].second.b); }
    os << "seen=" << join(seen) << " arrow=" << join(arrow) << " under=" << join(under) << " idx=" << join(idx);
    return os.str();
  }
  if (v == "proxy") {
    // transformation returning a temporary: operator-> goes through ProxyArrowResult
    std::vector<int> c(xs.begin(), xs.end());
    auto r = Dune::transformedRangeView(c, [](int x) { return Pt{3 * (ll) x, (ll) x - 1}; });
    const auto& cr = r;
    std::vector<ll> a, b, ca;
    std::vector<ll> cst;
    for (auto it = r.begin(); it != r.end(); ++it) { a.push_back(it->a); b.push_back((*it).b);
      const auto ar = it.operator->(); cst.push_back(ar->b);                               // const ProxyArrowResult
      Dune::ProxyArrowResult<Pt> cp(static_cast<const Pt&>(*it)); cst.back() += cp->a - 3 * (ll) c[it - r.begin()]; }
    for (auto it = cr.begin(); it != cr.end(); ++it) ca.push_back(it->a);
    os << "a=" << join(a) << " b=" << join(b) << " ca=" << join(ca) << " cst=" << join(cst);
    return os.str();
  }
  if (v == "iter") {
    // iterator transformation with a user function: f(it) = 10 * *it + distance from begin
    std::vector<int> c(xs.begin(), xs.end());
    auto b0 = c.begin();
    auto r = Dune::iteratorTransformedRangeView(c, [b0](auto it) { return 10 * (ll) *it + (ll) (it - b0); });
    std::vector<ll> el, at; for (auto e : r) el.push_back(e); for (std::size_t i = 0; i < c.size(); ++i) at.push_back(r[i]);
    const std::vector<int>& cc = c; auto cb0 = cc.begin();
    auto r2 = Dune::iteratorTransformedRangeView(cc, [cb0](auto it) { return 10 * (ll) *it + (ll) (it - cb0); });
    std::vector<ll> el2; for (auto e : r2) el2.push_back(e);
    os << "elems=" << join(el) << " at=" << join(at) << " celems=" << join(el2) << " size=" << r.size() << " empty=" << (r.empty() ? 1 : 0);
    return os.str();
  }
  if (v == "fwd") {
    // forward base range: the view's iterators are forward iterators of the new facade
    std::forward_list<int> c(xs.begin(), xs.end());
    auto r = Dune::transformedRangeView(c, [](int x) { return 2 * (ll) x + 7; });
    static_assert(std::is_same_v<typename decltype(r.begin())::iterator_category, std::forward_iterator_tag>);
    std::vector<ll> el; for (auto e : r) el.push_back(e);
    std::vector<ll> post; for (auto it = r.begin(); it != r.end(); ) { auto old = it++; post.push_back(*old); }
    int eqs = 0; { auto a = r.begin(); auto b = r.begin(); eqs = (a == b) + 2 * !(a != b); if (!xs.empty()) { ++b; eqs += 4 * (a != b) + 8 * !(a == b); } else eqs += 12; }
    os << "elems=" << join(el) << " post=" << join(post) << " empty=" << (r.empty() ? 1 : 0) << " eqs=" << eqs;
    return os.str();
  }
  if (v == "direct") {
    // TransformedRangeIterator used directly with a callable stored by value (not through a view): all constructors
    using I = std::vector<int>::const_iterator;
    struct Fn { ll k = 4; ll operator()(int x) const { return k * x; } };
    using TI = Dune::Impl::TransformedRangeIterator<I, Fn, Dune::ValueTransformationTag>;
    std::vector<int> c(xs.begin(), xs.end());
    TI b(c.cbegin(), Fn{5}), e(c.cend(), Fn{5});
    TI onlyit(c.cbegin());                 // function default-constructed (k = 4)
    TI onlyf(Fn{6});                       // iterator value-initialised
    TI dflt; dflt = b;                     // default construction, assignment
    std::vector<ll> el; for (TI it = b; it != e; ++it) el.push_back(*it);
    std::vector<ll> el2; for (TI it = dflt; it != e; it += 1) el2.push_back(it[0]);
    os << "elems=" << join(el) << " viaassign=" << join(el2) << " dist=" << (ll) (e - b);
    if (!xs.empty()) os << " onlyit=" << *onlyit; else os << " onlyit=-";
    (void) onlyf;
    return os.str();
  }
  return "BADCASE";
}

// ---------------------------------------------------------------------------------------------- sparsex
template<int N> static string sparse_diag(const std::vector<ll>& xs)
{
  Dune::DiagonalMatrix<int, N> d; Dune::FieldMatrix<int, N, N> f(0);
  for (int i = 0; i < N; ++i) { d.diagonal(i) = (int) xs[i]; for (int j = 0; j < N; ++j) f[i][j] = (int) xs[i] * 10 + j; }
  const auto& cd = d; const auto& cf = f;
  std::vector<string> dl, cdl, fl, cfl;
  for (int r = 0; r < N; ++r) {
    for (auto&& [v, i] : Dune::sparseRange(d[r])) dl.push_back(std::to_string(r) + "/" + std::to_string((ll) v) + ":" + std::to_string((ll) i));
    for (auto&& [v, i] : Dune::sparseRange(cd[r])) cdl.push_back(std::to_string(r) + "/" + std::to_string((ll) v) + ":" + std::to_string((ll) i));
    for (auto&& [v, i] : Dune::sparseRange(f[r])) fl.push_back(std::to_string(r) + "/" + std::to_string((ll) v) + ":" + std::to_string((ll) i));
    for (auto&& [v, i] : Dune::sparseRange(cf[r])) cfl.push_back(std::to_string(r) + "/" + std::to_string((ll) v) + ":" + std::to_string((ll) i));
  }
  // rows of the matrices themselves (row iterators offer index()): pair (row, row index); observe the first diagonal / first entry of each row
  std::vector<string> dr, fr;
  for (auto&& [row, i] : Dune::sparseRange(d)) dr.push_back(std::to_string((ll) row.diagonal()) + ":" + std::to_string((ll) i));
  for (auto&& [row, i] : Dune::sparseRange(f)) fr.push_back(std::to_string((ll) row[0]) + ":" + std::to_string((ll) i));
  return "diag=" + join(dl) + " cdiag=" + join(cdl) + " full=" + join(fl) + " cfull=" + join(cfl) + " drows=" + join(dr) + " frows=" + join(fr);
}
static string sparsex_case(const std::vector<string>& t)
{
  auto xs = ints(t.size() > 2 ? t[2] : "-");
  switch (xs.size()) { case 2: return sparse_diag<2>(xs); case 3: return sparse_diag<3>(xs); case 4: return sparse_diag<4>(xs); }
  return "BADCASE";
}

// ---------------------------------------------------------------------------------------------- rutil
static string rutil_case(const std::vector<string>& t)
{
  auto xs = ints(t.size() > 1 ? t[1] : "-");
  if (xs.empty()) return "BADCASE";
  std::vector<int> v(xs.begin(), xs.end());
  std::vector<bool> bv; for (ll x : xs) bv.push_back(x != 0);
  std::bitset<6> bs; for (std::size_t i = 0; i < 6; ++i) bs[i] = i < xs.size() ? xs[i] != 0 : xs[0] != 0;
  std::ostringstream os;
  os << "max=" << Dune::max_value(v) << " min=" << Dune::min_value(v) << " smax=" << Dune::max_value(v[0]) << " smin=" << Dune::min_value(v[0])
     << " any=" << Dune::any_true(bv) << " all=" << Dune::all_true(bv) << " sany=" << Dune::any_true(bool(bv[0])) << " sall=" << Dune::all_true(bool(bv[0]))
     << " bany=" << Dune::any_true(bs) << " ball=" << Dune::all_true(bs)
     << " irmax=" << Dune::max_value(Dune::range(0, (int) xs.size())) << " irmin=" << Dune::min_value(Dune::range(0, (int) xs.size()));
  return os.str();
}

// ---------------------------------------------------------------------------------------------- iseq
template<class T, T... I> static string seqstr(std::integer_sequence<T, I...>) { std::vector<ll> v{(ll) I...}; return join(v); }
template<int V> struct IsOdd : std::bool_constant<(V % 2 != 0)> {};
template<int... I> static string iseq_obs()
{
  using S = std::integer_sequence<int, I...>;
  constexpr S s{};
  std::ostringstream os;
  os << "seq=" << seqstr(s) << " size=" << sd(Dune::size(s)) << " empty=" << (decltype(Dune::empty(s))::value ? 1 : 0);
  if constexpr (sizeof...(I) > 0) {
    std::vector<ll> g, gd;
    [&]<std::size_t... P>(std::index_sequence<P...>) {
      (g.push_back(decltype(Dune::get<P>(s))::value), ...); (gd.push_back(Dune::get(s, P)), ...);
      (void) std::initializer_list<int>{(g.push_back(decltype(Dune::get(s, std::integral_constant<std::size_t, P>{}))::value), 0)...};
    }(std::make_index_sequence<sizeof...(I)>{});
    os << " get=" << join(g) << " getdyn=" << join(gd) << " front=" << sd(Dune::front(s)) << " back=" << sd(Dune::back(s)) << " head=" << sd(Dune::head(s))
       << " tail=" << seqstr(Dune::tail(s));
    std::vector<ll> he; [&]<std::size_t... P>(std::index_sequence<P...>) { (he.push_back(decltype(Dune::Hybrid::elementAt(s, Dune::index_constant<P>{}))::value), ...); }(std::make_index_sequence<sizeof...(I)>{});
    os << " hyat=" << join(he);
  } else os << " get=- getdyn=- front=- back=- head=- tail=- hyat=-";
  os << " pushf=" << seqstr(Dune::push_front<7>(s)) << " pushb=" << seqstr(Dune::push_back<7>(s))
     << " pushf2=" << seqstr(Dune::push_front(s, std::integral_constant<int, 8>{})) << " pushb2=" << seqstr(Dune::push_back(s, std::integral_constant<int, 8>{}))
     << " sorted=" << seqstr(Dune::sorted(s)) << " sortedgt=" << seqstr(Dune::sorted(s, std::greater<int>{}))
     << " has2=" << (decltype(Dune::contains(s, std::integral_constant<int, 2>{}))::value ? 1 : 0)
     << " has5=" << (decltype(Dune::contains(s, std::integral_constant<int, 5>{}))::value ? 1 : 0)
     << " diff=" << seqstr(Dune::difference(s, std::integer_sequence<int, 2, 3, 9>{}))
     << " cdiff=" << seqstr(Dune::difference<10>(std::integer_sequence<int, (I >= 0 && I < 10 ? I : 0)...>{}))
     << " eqself=" << (decltype(Dune::equal(s, s))::value ? 1 : 0)
     << " eq123=" << (decltype(Dune::equal(s, std::integer_sequence<long, 1, 2, 3>{}))::value ? 1 : 0)
     << " odd=" << seqstr(Dune::filter<IsOdd>(s))
     << " lt3=" << seqstr(Dune::filter([](auto i) { return std::bool_constant<(decltype(i)::value < 3)>{}; }, s));
  return os.str();
}
static string iseq_case(const std::vector<string>& t)
{
  switch (std::stoi(t[1])) {
    case 0: return iseq_obs<>();
    case 1: return iseq_obs<4>();
    case 2: return iseq_obs<1, 2, 3>();
    case 3: return iseq_obs<3, 1, 2>();
    case 4: return iseq_obs<5, 5, 0, 9, 2, 2, 7>();
    case 5: return iseq_obs<9, 8, 7, 6, 5, 4, 3, 2, 1, 0>();
    case 6: return iseq_obs<2, 0, 1, 0>();
    case 7: return iseq_obs<0, 1, 2, 3, 4, 5>();
  }
  return "BADCASE";
}
// literals and the unary minus of indices.hh: compile-time facts
namespace { using namespace Dune::Indices;
static_assert(decltype(12_ic)::value == 12 && std::is_same_v<decltype(12_ic)::value_type, std::size_t>);
static_assert(decltype(7_uc)::value == 7u && std::is_same_v<decltype(7_uc)::value_type, unsigned>);
static_assert(decltype(305_sc)::value == 305 && std::is_same_v<decltype(305_sc)::value_type, int>);
static_assert(decltype(-(4_ic))::value == -4 && std::is_signed_v<decltype(-(4_ic))::value_type>);
static_assert(decltype(_3)::value == 3 && decltype(_19)::value == 19);
}

// ---------------------------------------------------------------------------------------------- hyx
template<int A, int B> static string hy_range_obs()
{
  std::vector<string> st, dy, dy2;
  auto sr = Dune::Hybrid::integralRange(Dune::index_constant<A>{}, Dune::index_constant<B>{});
  static_assert(std::is_same_v<decltype(sr), Dune::StaticIntegralRange<std::size_t, B, A>>);
  Dune::Hybrid::forEach(sr, [&](auto i) { st.push_back(sd(i)); });
  Dune::Hybrid::forEach(Dune::Hybrid::integralRange(std::size_t(A), std::size_t(B)), [&](auto i) { dy.push_back(sd(i)); });
  Dune::Hybrid::forEach(Dune::Hybrid::integralRange(Dune::index_constant<A>{}, std::size_t(B)), [&](auto i) { dy2.push_back(sd(i)); });   // mixed: run-time range
  return "static=" + join(st) + " dyn=" + join(dy) + " mixed=" + join(dy2) + " ssize=" + sd(Dune::Hybrid::size(sr))
       + " dsize=" + sd(Dune::Hybrid::size(Dune::Hybrid::integralRange(std::size_t(A), std::size_t(B))));
}
static string hyx_case(const std::vector<string>& t)
{
  const string& op = t[1];
  if (op == "range") {                       // hyx range <id> <from> <to>
    ll f = std::stoll(t[3]), to = std::stoll(t[4]);
    switch (std::stoi(t[2])) {
      case 0: if (f != 0 || to != 0) return "TABLE-MISMATCH"; return hy_range_obs<0, 0>();
      case 1: if (f != 0 || to != 3) return "TABLE-MISMATCH"; return hy_range_obs<0, 3>();
      case 2: if (f != 2 || to != 6) return "TABLE-MISMATCH"; return hy_range_obs<2, 6>();
      case 3: if (f != 4 || to != 4) return "TABLE-MISMATCH"; return hy_range_obs<4, 4>();
    }
    return "BADCASE";
  }
  if (op == "vswitch") {                     // hyx vswitch <v>: the overloads without else branch; v must be among the cases 1,4,2 / in [2,7)
    int v = std::stoi(t[2]); ll r1 = -9, r2 = -9, r3 = -9, r4 = -9;
    using Cases = std::integer_sequence<int, 1, 4, 2>;
    if (v == 1 || v == 4 || v == 2) {
      Dune::Hybrid::switchCases(Cases{}, v, [&](auto i) { r1 = 100 + (ll) i; });
      [&]<int... V>(std::integer_sequence<int, V...>) { ((v == V ? (void) Dune::Hybrid::switchCases(Cases{}, std::integral_constant<int, V>{}, [&](auto i) { r2 = 100 + (ll) i; }) : (void) 0), ...); }(Cases{});
    }
    if (v >= 2 && v < 7) {
      Dune::Hybrid::switchCases(Dune::range(2, 7), v, [&](auto i) { r3 = 100 + (ll) i; });
      Dune::Hybrid::switchCases(Dune::StaticIntegralRange<int, 7, 2>{}, v, [&](auto i) { r4 = 100 + (ll) i; });
    }
    return "seqdyn=" + std::to_string(r1) + " seqstatic=" + std::to_string(r2) + " range=" + std::to_string(r3) + " srange=" + std::to_string(r4);
  }
  if (op == "fun3") {                        // hyx fun3 <a> <b> <c>, a,b,c in 0..2: n-ary max / min with every static/dynamic mix
    int a = std::stoi(t[2]), b = std::stoi(t[3]), c = std::stoi(t[4]);
    string res = "BADCASE";
    [&]<std::size_t... I>(std::index_sequence<I...>) {
      ((a == (int) (I / 9) && b == (int) ((I / 3) % 3) && c == (int) (I % 3) ? (void) (res =
          "maxsss=" + sd(Dune::Hybrid::max(Dune::index_constant<I / 9>{}, Dune::index_constant<(I / 3) % 3>{}, Dune::index_constant<I % 3>{})) +
          " maxsds=" + sd(Dune::Hybrid::max(Dune::index_constant<I / 9>{}, std::size_t((I / 3) % 3), Dune::index_constant<I % 3>{})) +
          " maxddd=" + sd(Dune::Hybrid::max(std::size_t(I / 9), std::size_t((I / 3) % 3), std::size_t(I % 3))) +
          " minsss=" + sd(Dune::Hybrid::min(Dune::index_constant<I / 9>{}, Dune::index_constant<(I / 3) % 3>{}, Dune::index_constant<I % 3>{})) +
          " minssd=" + sd(Dune::Hybrid::min(Dune::index_constant<I / 9>{}, Dune::index_constant<(I / 3) % 3>{}, std::size_t(I % 3))) +
          " minddd=" + sd(Dune::Hybrid::min(std::size_t(I / 9), std::size_t((I / 3) % 3), std::size_t(I % 3))) +
          " max1=" + sd(Dune::Hybrid::max(Dune::index_constant<I / 9>{})) +
          " hf=" + sd(Dune::Hybrid::hybridFunctor(std::multiplies<>{})(Dune::index_constant<I / 9>{}, Dune::index_constant<I % 3>{}))) : (void) 0), ...);
    }(std::make_index_sequence<27>{});
    return res;
  }
  if (op == "fvec") {                        // hyx fvec <xs>: FieldVector / std::pair / const containers as arguments of size, forEach, accumulate, elementAt
    auto xs = ints(t.size() > 2 ? t[2] : "-");
    if (xs.size() != 3) return "BADCASE";
    Dune::FieldVector<ll, 3> fv; for (int i = 0; i < 3; ++i) fv[i] = xs[i];
    const auto& cfv = fv;
    const std::tuple<ll, ll, ll> ctp(xs[0], xs[1], xs[2]);
    std::pair<ll, ll> pr(xs[0], xs[1]);
    auto f = [](ll a, ll x) { return 7 * a + x; };
    std::vector<ll> l1, l2; Dune::Hybrid::forEach(cfv, [&](auto&& e) { l1.push_back((ll) e); }); Dune::Hybrid::forEach(ctp, [&](auto&& e) { l2.push_back((ll) e); });
    // writing through forEach on mutable containers
    std::tuple<ll, ll, ll> tp(xs[0], xs[1], xs[2]); Dune::Hybrid::forEach(tp, [](auto& e) { e += 1; });
    std::vector<ll> vec(xs.begin(), xs.end()); Dune::Hybrid::forEach(vec, [](auto& e) { e += 1; });
    Dune::Hybrid::elementAt(tp, Dune::Indices::_1) += 10; Dune::Hybrid::elementAt(vec, 1) += 10;
    std::vector<ll> wt{std::get<0>(tp), std::get<1>(tp), std::get<2>(tp)};
    return "fvsize=" + sd(Dune::Hybrid::size(fv)) + " fv=" + join(l1) + " ctuple=" + join(l2) + " fvacc=" + std::to_string(Dune::Hybrid::accumulate(cfv, ll(1), f))
         + " fvat=" + std::to_string((ll) Dune::Hybrid::elementAt(cfv, 2)) + " ctat=" + std::to_string((ll) Dune::Hybrid::elementAt(ctp, Dune::Indices::_2))
         + " pairsize=" + sd(Dune::Hybrid::size(pr))
         + " wtuple=" + join(wt) + " wvec=" + join(vec);
  }
  return "BADCASE";
}

// operator-> of the three legacy facades
static string arrow_case(const std::vector<string>& t)      // arrow <n> <i>, 0 <= i < n
{
  using P = std::pair<int,int>;
  int n = std::stoi(t[1]), i = std::stoi(t[2]);
  if (i < 0 || i >= n) return "BADCASE";
  std::vector<P> c; Dune::SLList<P> sl; for (int p = 0; p < n; ++p) { c.push_back({1000 + p, -p}); sl.push_back({1000 + p, -p}); }
  const auto& cc = c; const auto& csl = sl;
  Dune::GenericIterator<std::vector<P>, P> ra(c, i);
  Dune::GenericIterator<const std::vector<P>, const P> cra(cc, i);
  Dune::GenericIterator<std::vector<P>, P, P&, std::ptrdiff_t, Dune::BidirectionalIteratorFacade> bi(c, i);
  auto fw = sl.begin(); auto cfw = csl.begin(); auto mfw = sl.beginModify();
  for (int q = 0; q < i; ++q) { ++fw; ++cfw; ++mfw; }
  ra->second = 7;                                        // writing through operator->
  return "ra=" + std::to_string(ra->first) + " cra=" + std::to_string(cra->first) + " bi=" + std::to_string(bi->first)
       + " fw=" + std::to_string(fw->first) + " cfw=" + std::to_string(cfw->first) + " mfw=" + std::to_string(mfw->first)
       + " wrote=" + std::to_string(c[i].second);
}
// the primitives themselves are public members: call the overloads that no operator ever selects
static string prim_case(const std::vector<string>& t)       // prim <kind> <n> <i> <j>
{
  int n = std::stoi(t[2]), i = std::stoi(t[3]), j = std::stoi(t[4]);
  auto b = [](bool x) { return string(x ? "1" : "0"); };
  if (t[1] == "al") {
    AlFix fx(n, 2); auto m = fx.m(i), m2 = fx.m(j); auto k = fx.k(i), k2 = fx.k(j);
    return "meqk=" + b(m.equals(k2)) + " meqm=" + b(m.equals(m2)) + " keqk=" + b(k.equals(k2)) + " mdk=" + std::to_string((ll) m.distanceTo(k2))
         + " mdm=" + std::to_string((ll) m.distanceTo(m2)) + " kdk=" + std::to_string((ll) k.distanceTo(k2)) + " pos=" + std::to_string((ll) m.position());
  }
  if (t[1] == "sl") {
    SlFix fx(n);
    return "meqc=" + b(fx.m(i).equals(fx.k(j))) + " meqi=" + b(fx.m(i).equals(fx.i(j))) + " meqm=" + b(fx.m(i).equals(fx.m(j)))
         + " ieqc=" + b(fx.i(i).equals(fx.k(j))) + " ieqm=" + b(fx.i(i).equals(fx.m(j))) + " ceqc=" + b(fx.k(i).equals(fx.k(j)));
  }
  auto dg = [&](auto& fx) {
    return "meqk=" + b(fx.m(i).equals(fx.k(j))) + " keqm=" + b(fx.k(i).equals(fx.m(j))) + " mdk=" + std::to_string((ll) fx.m(i).distanceTo(fx.k(j)))
         + " kdm=" + std::to_string((ll) fx.k(i).distanceTo(fx.m(j))) + " mdm=" + std::to_string((ll) fx.m(i).distanceTo(fx.m(j))); };
  if (t[1] == "dyn") { DynFix fx(n); return dg(fx) + " index=" + std::to_string((ll) (std::ptrdiff_t) fx.m(i).index()); }
  if (t[1] == "gen") { GenFix fx(n); return dg(fx); }
  return "BADCASE";
}
enum C16Enum { C16_FOUR = 4 };

string c16_extra_case(const std::vector<string>& t)
{
  if (t[0] == "arrow") return arrow_case(t);
  if (t[0] == "prim") return prim_case(t);
  if (t[0] == "hyx" && t[1] == "enum") {
    std::vector<ll> el; auto r = Dune::range(C16_FOUR); for (auto v : r) el.push_back((ll) v);
    static_assert(std::is_same_v<decltype(r), Dune::IntegralRange<std::underlying_type_t<C16Enum>>>);
    return "elems=" + join(el) + " size=" + std::to_string((ll) r.size());
  }
  if (t[0] == "cont") return cont_case(t);
  if (t[0] == "bcmp" || t[0] == "bstep") return b_case(t);
  if (t[0] == "ncmp" || t[0] == "nstep") return n_case(t);
  if (t[0] == "trx") return trx_case(t);
  if (t[0] == "sparsex") return sparsex_case(t);
  if (t[0] == "rutil") return rutil_case(t);
  if (t[0] == "iseq") return iseq_case(t);
  if (t[0] == "hyx") return hyx_case(t);
  return "BADCASE";
}
