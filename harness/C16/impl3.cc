// C16 impl driver, StaticIntegralRange<T,to,from>: ONE instantiation per translation unit (-DC16_SIR_FN=c16_sirange_<id> -DC16_SIR_T=.. -DC16_SIR_TO=..
// -DC16_SIR_FROM=..), so that an instantiation that no longer compiles against the tree is reported as `compile:sir<id>` and the others still run.
#include <config.h>
#include <cstdint>
#include <sstream>
#include <string>
#include <vector>
#include <type_traits>
#include <dune/common/rangeutilities.hh>
#include <dune/common/indices.hh>
#include <dune/common/typetraits.hh>
using std::string;
typedef long long ll;
static std::vector<string> split(const string& s, char sep = ' ')
{
  std::vector<string> r; string cur; std::istringstream is(s);
  while (std::getline(is, cur, sep)) if (!cur.empty() || sep != ' ') r.push_back(cur);
  return r;
}
static std::vector<ll> ints(const string& s)
{
  std::vector<ll> r; if (s == "-" || s.empty()) return r;
  for (auto& t : split(s, ',')) r.push_back(std::stoll(t));
  return r;
}
template<class V> static string join(const V& v)
{
  std::ostringstream os; bool first = true;
  for (auto&& x : v) { if (!first) os << ","; os << x; first = false; }
  return first ? string("-") : os.str();
}
template<class T> static string num(T x)
{
  if constexpr (std::is_signed_v<T>) return std::to_string((long long) x); else return std::to_string((unsigned long long) x);
}
template<class T, T to, T from> static string sirange_obs(const std::vector<string>& t)
{
  using R = Dune::StaticIntegralRange<T, to, from>;
  R r;
  if (std::stoll(t[3]) != (ll) from || std::stoll(t[4]) != (ll) to) return "TABLE-MISMATCH";
  std::ostringstream os;
  std::vector<string> el; for (auto v : r) el.push_back(num<T>(v));
  constexpr auto sz = R::size();
  static_assert(Dune::IsIntegralConstant<std::decay_t<decltype(R::size())>>::value, "size() of a static range is an integral_constant");
  os << "elems=" << join(el) << " size=" << num((std::size_t) sz) << " empty=" << (decltype(R::empty())::value ? 1 : 0);
  std::vector<string> at; for (std::size_t i = 0; i < (std::size_t) sz; ++i) at.push_back(num<T>(r[i]));
  os << " at=" << join(at);
  std::vector<string> sq;
  Dune::unpackIntegerSequence([&](auto... i) { (sq.push_back(num<T>(decltype(i)::value)), ...); }, typename R::integer_sequence{});
  os << " seq=" << join(sq);
  {
    std::vector<string> sa, fl, tis;
    if constexpr ((std::size_t) sz > 0) {
      auto first = r[std::integral_constant<std::size_t, 0>{}]; auto last = r[std::integral_constant<int, (int) sz - 1>{}];
      static_assert(Dune::IsIntegralConstant<decltype(first)>::value);
      sa.push_back(num<T>(decltype(first)::value)); sa.push_back(num<T>(decltype(last)::value));
    }
    auto fac = Dune::range(std::integral_constant<T, from>{}, std::integral_constant<T, to>{});      // static factory
    static_assert(std::is_same_v<decltype(fac), R>);
    for (auto v : fac) fl.push_back(num<T>(v));
    typename R::integer_sequence cs = r;                                                            // conversion operator
    Dune::unpackIntegerSequence([&](auto... i) { (tis.push_back(num<T>(decltype(i)::value)), ...); }, R::to_integer_sequence());
    (void) cs;
    os << " ats=" << join(sa) << " fac=" << join(fl) << " tis=" << join(tis);
    if constexpr (from == 0) { std::vector<string> f1; for (auto v : Dune::range(std::integral_constant<T, to>{})) f1.push_back(num<T>(v)); os << " fac1=" << join(f1); }
    else os << " fac1=n/a";
  }
  Dune::IntegralRange<T> dyn = r;                 // cast into the dynamic range
  std::vector<string> dl; for (auto v : dyn) dl.push_back(num<T>(v));
  os << " dyn=" << join(dl) << " cont=";
  std::vector<ll> xs; if (t.size() > 5 && t[5] != "-") xs = ints(t[5]);
  if (xs.empty()) os << "-";
  for (ll x : xs) os << (R::contains((T) x) ? '1' : '0');
  return os.str();
}

string C16_SIR_FN(const std::vector<string>& t) { return sirange_obs<C16_SIR_T, C16_SIR_TO, C16_SIR_FROM>(t); }
