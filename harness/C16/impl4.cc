// C16 impl driver, group "audit": dimensions the cross-cutting coverage audit found unvaried (mutants/C16/API_COVERAGE.md, "Dimension audit")
//   self  <kind> <n> <i> <j>     ALIASING / SPECIAL MEMBERS on one iterator object: a OP a with both operands the SAME object, a = a, a += (a - a),
//                                move construction / assignment, std::swap with a second iterator at position j
//   walk  <kind> <n> <ops>       OBJECT HISTORY: one iterator object driven through a sequence of ++ -- it++ it-- += -= and re-assignments
//   cmp/step al1:<s> | al8:<s> | dmrow | ir:<ill|ull|ch>:<from>   further TEMPLATE ARGUMENTS: ArrayList chunk sizes 1 and 8, rows of a DynamicMatrix,
//                                IntegralRange over long long / unsigned long long / char
//   ncmp/nstep nfptri            new IteratorFacade with a non-default difference type (int)
//   idxrun ir|al|tr ...          IndexedIterator over further base iterators (ROLES)
//   hyx dyn <kind> <xs>          Hybrid::size / forEach / accumulate on run-time ranges other than std::vector (ROLES)
//   trx nested|fvbase|sirbase|itrange|copy|twice|cat <xs>   views over further bases, views of views, special members of views, reuse, category override
#define C16_PART 7
#include "impl.cc"
#include <forward_list>
#include <dune/common/dynmatrix.hh>

template<int N> struct AlFixN {       // ArrayList<int,N>, first s slots erased
  using C = Dune::ArrayList<int, N>;
  using M = typename C::iterator; using K = typename C::const_iterator;
  C c; int n, lo = 0; bool always_deref = false;
  AlFixN(int n_, int s) : n(n_) {
    for (int p = 0; p < s; ++p) c.push_back(-7);
    for (int p = 0; p < n; ++p) c.push_back(1000 + p);
    if (s > 0) { M it = c.begin(); for (int p = 0; p + 1 < s; ++p) ++it; it.eraseToHere(); }
  }
  M m(int p) { M it = c.begin(); for (int q = 0; q < p; ++q) ++it; return it; }
  K k(int p) { const C& cc = c; K it = cc.begin(); for (int q = 0; q < p; ++q) ++it; return it; }
};
struct DmFix {                        // rows of DynamicMatrix<int>(n,2)
  using C = Dune::DynamicMatrix<int>;
  using M = C::Iterator; using K = C::ConstIterator;
  C c; int n, lo = -1; bool always_deref = false;
  explicit DmFix(int n_) : c(n_, 2, 0), n(n_) { for (int p = 0; p < n; ++p) { c[p][0] = 1000 + p; c[p][1] = -p; } }
  M m(int p) { return p == -1 ? c.beforeBegin() : M(c, (std::size_t) p); }
  K k(int p) { const C& cc = c; return p == -1 ? cc.beforeBegin() : K(cc, (std::size_t) p); }
};
struct NfPtrI                         // new IteratorFacade, only baseIterator(), difference type int
  : public Dune::IteratorFacade<NfPtrI, std::random_access_iterator_tag, const int, const int&, const int*, int>
{
  NfPtrI() : p_(nullptr) {}  explicit NfPtrI(const int* p) : p_(p) {}
  const int*& baseIterator() { return p_; }  const int* const& baseIterator() const { return p_; }
private: const int* p_;
};
struct NfIFix {
  using M = NfPtrI; using K = NfPtrI;
  std::vector<int> c; int n, lo = -1; bool always_deref = false;
  explicit NfIFix(int n_) : c(n_ + 2), n(n_) { for (int p = -1; p <= n; ++p) c[p + 1] = 1000 + p; }
  M m(int p) { return M(c.data() + 1 + p); }  K k(int p) { return m(p); }
};
template<> struct HasNPlus<NfIFix> : std::true_type {};
static_assert(std::is_same_v<NfPtrI::difference_type, int> && std::is_same_v<decltype(std::declval<NfPtrI>() - std::declval<NfPtrI>()), int>);

// ---------------------------------------------------------------------------------------------- self
template<class F> static string self_ra(F& fx, int i, int j)
{
  if (i < fx.lo || i > fx.n || j < fx.lo || j > fx.n) return "BADCASE";
  auto body = [&](auto a, auto b) {
    using It = decltype(a);
    std::ostringstream os;
    const It& r = a;                                                  // both operands are the same object
    os << "self=" << ((r == r) ? '1' : '0') << ((r != r) ? '1' : '0') << ((r < r) ? '1' : '0') << ((r <= r) ? '1' : '0') << ((r > r) ? '1' : '0')
       << ((r >= r) ? '1' : '0') << ":" << (ll) (r - r);
    { It x = a; x = *&x; os << " selfassign=" << ptok(fx, x); }
    { It x = a; x += (x - x); os << " addself=" << ptok(fx, x); }
    { It x = a; x -= (x - x); os << " subself=" << ptok(fx, x); }
    { It x = a; It y(std::move(x)); os << " moved=" << ptok(fx, y); }
    { It x = a; It y = b; y = std::move(x); os << " moveassign=" << ptok(fx, y); }
    { It x = a, y = b; using std::swap; swap(x, y); os << " swap=" << ptok(fx, x) << "/" << ptok(fx, y); }
    return os.str();
  };
  string s = "m." + body(fx.m(i), fx.m(j));
  if constexpr (!std::is_same_v<typename F::M, typename F::K>) { string c = body(fx.k(i), fx.k(j)); s += " c." + c; }
  // prefix the token names of the const variant: rewrite " name=" -> " c.name=" is done by giving every token its own prefix
  return s;
}
static string prefixed(const string& s)   // "m.a=1 b=2 c.a=3 b=4" -> "m.a=1 m.b=2 c.a=3 c.b=4"
{
  std::ostringstream os; string pre; bool first = true;
  for (auto& tk : split(s)) {
    string t = tk;
    if (t.size() > 2 && t[1] == '.' && (t[0] == 'm' || t[0] == 'c')) { pre = t.substr(0, 2); t = t.substr(2); }
    os << (first ? "" : " ") << pre << t; first = false;
  }
  return os.str();
}
static string self_case(const std::vector<string>& t)
{
  auto kp = split(t[1], ':'); int n = std::stoi(t[2]), i = std::stoi(t[3]), j = std::stoi(t[4]);
  auto go = [&](auto& fx) { return prefixed(self_ra(fx, i, j)); };
  if (kp[0] == "dyn") { DynFix fx(n); return go(fx); }
  if (kp[0] == "gen") { GenFix fx(n); return go(fx); }
  if (kp[0] == "al") { AlFix fx(n, std::stoi(kp[1])); return go(fx); }
  if (kp[0] == "tr") { TrFix fx(n); return go(fx); }
  if (kp[0] == "dmrow") { DmFix fx(n); return go(fx); }
  if (kp[0] == "ir") { IrFix<int> fx(n, std::stoll(kp[2])); return go(fx); }
  if (kp[0] == "nfptri") { NfIFix fx(n); return go(fx); }
  if (kp[0] == "sl") {                                     // forward: == != only
    Dune::SLList<int> c; for (int p = 0; p < n; ++p) c.push_back(1000 + p);
    const auto& cc = c;
    auto a = c.begin(); auto k = cc.begin(); auto m = c.beginModify();
    for (int q = 0; q < i; ++q) { ++a; ++k; ++m; }
    const auto& ra = a; const auto& rk = k; const auto& rm = m;
    auto a2 = a; a2 = *&a2; auto m2(std::move(m)); 
    return string("i.self=") + ((ra == ra) ? '1' : '0') + ((ra != ra) ? '1' : '0') + " c.self=" + ((rk == rk) ? '1' : '0') + ((rk != rk) ? '1' : '0')
         + " m.self=" + ((rm == rm) ? '1' : '0') + ((rm != rm) ? '1' : '0') + " i.selfassign=" + ((a2 == a) ? '1' : '0') + " m.moved=" + ((m2 == a) ? '1' : '0');
  }
  return "BADCASE";
}

// ---------------------------------------------------------------------------------------------- walk
template<class F> static string walk(F& fx, const std::vector<string>& ops)
{
  auto it = fx.m(0);
  using It = decltype(it);
  for (auto& o : ops) {
    if (o == "+") ++it; else if (o == "-") --it;
    else if (o == "a") it++; else if (o == "b") it--;
    else if (o == "c") { It tmp(it); it = tmp; }                       // re-assignment from a copy of itself
    else if (o == "v") { It tmp(std::move(it)); it = std::move(tmp); } // moved out and back
    else if (o[0] == 'p') it += std::stoi(o.substr(1));
    else if (o[0] == 'm') it -= std::stoi(o.substr(1));
    else if (o[0] == 'P') it = it + std::stoi(o.substr(1));
    else if (o[0] == 'M') it = it - std::stoi(o.substr(1));
  }
  return "pos=" + ptok(fx, it) + " dist=" + std::to_string((ll) (it - fx.m(0)));
}
static string walk_case(const std::vector<string>& t)    // walk <kind> <n> <ops>
{
  auto kp = split(t[1], ':'); int n = std::stoi(t[2]);
  auto ops = t.size() > 3 && t[3] != "-" ? split(t[3], ',') : std::vector<string>{};
  auto go = [&](auto& fx) { return walk(fx, ops); };
  if (kp[0] == "dyn") { DynFix fx(n); return go(fx); }
  if (kp[0] == "gen") { GenFix fx(n); return go(fx); }
  if (kp[0] == "al") { AlFix fx(n, std::stoi(kp[1])); return go(fx); }
  if (kp[0] == "al1") { AlFixN<1> fx(n, std::stoi(kp[1])); return go(fx); }
  if (kp[0] == "al8") { AlFixN<8> fx(n, std::stoi(kp[1])); return go(fx); }
  if (kp[0] == "tr") { TrFix fx(n); return go(fx); }
  if (kp[0] == "dmrow") { DmFix fx(n); return go(fx); }
  if (kp[0] == "ir") { IrFix<int> fx(n, std::stoll(kp[2])); return go(fx); }
  if (kp[0] == "nfptri") { NfIFix fx(n); return go(fx); }
  return "BADCASE";
}

// ---------------------------------------------------------------------------------------------- further kinds through do_cmp / do_step
static string kinds_case(const std::vector<string>& t)   // cmp|step|ncmp|nstep ...
{
  const bool st = (t[0] == "step" || t[0] == "nstep");
  auto kp = split(t[1], ':'); int n = std::stoi(t[2]);
  int a = std::stoi(t[st ? 4 : 3]), b = std::stoi(t[st ? 5 : 4]);
  auto go = [&](auto& fx) { return st ? do_step(fx, t[3], a, b) : do_cmp(fx, a, b); };
  if (kp[0] == "al1") { AlFixN<1> fx(n, std::stoi(kp[1])); return go(fx); }
  if (kp[0] == "al8") { AlFixN<8> fx(n, std::stoi(kp[1])); return go(fx); }
  if (kp[0] == "dmrow") { DmFix fx(n); return go(fx); }
  if (kp[0] == "nfptri") { NfIFix fx(n); return go(fx); }
  if (kp[0] == "ir") {
    if (kp[1] == "ill") { IrFix<long long> fx(n, std::stoll(kp[2])); return go(fx); }
    if (kp[1] == "ull") { IrFix<unsigned long long> fx(n, (ll) std::stoull(kp[2])); return go(fx); }
    if (kp[1] == "ch") { IrFix<char> fx(n, std::stoll(kp[2])); return go(fx); }
  }
  return "BADCASE";
}

// ---------------------------------------------------------------------------------------------- IndexedIterator over further bases
template<class Base, class PT> static string idx_run2(Base begin, ll i0, const std::vector<string>& ops, PT pt)
{
  Dune::IndexedIterator<Base> it(begin, (typename Dune::IndexedIterator<Base>::size_type) i0);
  for (auto& o : ops) {
    if (o == "+") ++it; else if (o == "-") --it;
    else if (o == "a") it++; else if (o == "b") it--;
    else if (o[0] == 'p') it += std::stoi(o.substr(1));
    else if (o[0] == 'm') it -= std::stoi(o.substr(1));
  }
  Dune::IndexedIterator<Base> d; d = it;
  return "pos=" + pt((const Base&) it) + " index=" + std::to_string((ll) it.index()) + " dindex=" + std::to_string((ll) d.index()) + " dpos=" + pt((const Base&) d);
}
static string idx2_case(const std::vector<string>& t)    // idxrun ir|al|tr <n> <i0> <ops>
{
  int n = std::stoi(t[2]); ll i0 = std::stoll(t[3]);
  auto ops = t.size() > 4 && t[4] != "-" ? split(t[4], ',') : std::vector<string>{};
  if (t[1] == "ir") { IrFix<int> fx(n, 1000); fx.always_deref = false; return idx_run2(fx.m(0), i0, ops, [&](const IrFix<int>::M& x) { return ptok(fx, x); }); }
  if (t[1] == "al") { AlFix fx(n, 2); return idx_run2(fx.m(0), i0, ops, [&](const AlFix::M& x) { return ptok(fx, x); }); }
  if (t[1] == "tr") { TrFix fx(n); return idx_run2(fx.m(0), i0, ops, [&](const TrFix::M& x) { return ptok(fx, x); }); }
  return "BADCASE";
}

// ---------------------------------------------------------------------------------------------- Hybrid on further run-time ranges
template<class R> static string hy_dyn_obs(R&& r, bool has_size)
{
  std::vector<ll> log; Dune::Hybrid::forEach(r, [&](auto&& e) { log.push_back((ll) e); });
  ll acc = Dune::Hybrid::accumulate(r, ll(1), [](ll a, ll x) { return 7 * a + x; });
  string s = "log=" + join(log) + " acc=" + std::to_string(acc);
  if constexpr (requires { r.size(); }) s += " size=D" + std::to_string((ll) Dune::Hybrid::size(r)); else s += " size=-";
  return s;
}
static string hydyn_case(const std::vector<string>& t)   // hyx dyn <kind> <xs>
{
  auto xs = ints(t.size() > 3 ? t[3] : "-");
  const string& k = t[2];
  if (k == "al") { Dune::ArrayList<int, 3> c; for (ll x : xs) c.push_back((int) x); return hy_dyn_obs(c, true); }
  if (k == "cal") { Dune::ArrayList<int, 3> c; for (ll x : xs) c.push_back((int) x); const auto& cc = c; return hy_dyn_obs(cc, true); }
  if (k == "sl") { Dune::SLList<int> c; for (ll x : xs) c.push_back((int) x); return hy_dyn_obs(c, true); }
  if (k == "dynv") { Dune::DynamicVector<int> c(xs.size()); for (std::size_t i = 0; i < xs.size(); ++i) c[i] = (int) xs[i]; return hy_dyn_obs(c, true); }
  if (k == "view") { std::vector<int> c(xs.begin(), xs.end()); auto v = Dune::transformedRangeView(c, [](int x) { return (ll) x; }); return hy_dyn_obs(v, true); }
  // (an IteratorRange or any other range without size() cannot be passed to Hybrid::forEach: Hybrid::size(range) is instantiated while
  //  selecting the overload and fails hard; outside the property's quantifier "tuple / integer-sequence / vector arguments")
  return "BADCASE";
}

// ---------------------------------------------------------------------------------------------- further views
struct Aff { ll a, b; ll operator()(ll x) const { return a * x + b; } };
static string trx2_case(const std::vector<string>& t)    // trx <variant> <xs>
{
  auto xs = ints(t.size() > 2 ? t[2] : "-");
  const string& v = t[1];
  std::ostringstream os;
  if (v == "nested") {                 // a view of a view: g(f(x)); a view of a sparse view
    std::vector<int> c(xs.begin(), xs.end());
    auto inner = Dune::transformedRangeView(c, [](int x) { return 2 * (ll) x + 1; });
    auto outer = Dune::transformedRangeView(inner, [](ll y) { return 10 * y - 3; });
    auto rvalue_outer = Dune::transformedRangeView(Dune::transformedRangeView(c, [](int x) { return 2 * (ll) x + 1; }), [](ll y) { return 10 * y - 3; });
    std::vector<ll> el, at, rv; for (auto e : outer) el.push_back(e); for (std::size_t i = 0; i < c.size(); ++i) at.push_back(outer[i]); for (auto e : rvalue_outer) rv.push_back(e);
    os << "elems=" << join(el) << " at=" << join(at) << " rv=" << join(rv) << " size=" << outer.size() << " dist=" << (ll) (outer.end() - outer.begin());
    return os.str();
  }
  if (v == "fvbase") {                 // FieldVector and a StaticIntegralRange with from != 0 as underlying ranges
    if (xs.size() != 3) return "BADCASE";
    Dune::FieldVector<int, 3> fv; for (int i = 0; i < 3; ++i) fv[i] = (int) xs[i];
    auto r = Dune::transformedRangeView(fv, [](int x) { return 5 * (ll) x; });
    auto s = Dune::transformedRangeView(Dune::StaticIntegralRange<int, 6, 2>{}, [](int x) { return 5 * (ll) x; });
    std::vector<ll> el, se; for (auto e : r) el.push_back(e); for (auto e : s) se.push_back(e);
    os << "elems=" << join(el) << " at1=" << r[1] << " sir=" << join(se) << " sirat=" << s[3];
    return os.str();
  }
  if (v == "itrange") {                // IteratorRange as underlying range (no size(), no operator[] of its own)
    std::vector<int> c(xs.begin(), xs.end());
    Dune::IteratorRange<std::vector<int>::iterator> ir(c.begin(), c.end());
    auto r = Dune::transformedRangeView(ir, [](int x) { return (ll) x - 4; });
    std::vector<ll> el; for (auto e : r) el.push_back(e);
    Dune::IteratorRange<std::vector<int>::iterator> ir2(ir); Dune::IteratorRange<std::vector<int>::iterator> ir3; ir3 = ir2;      // copy construction / default + assignment
    os << "elems=" << join(el) << " empty=" << (r.empty() ? 1 : 0) << " copydist=" << (ll) (ir3.end() - ir3.begin());
    return os.str();
  }
  if (v == "copy") {                   // special members of a view: copies own their function object and range; source and copy are independent
    std::vector<int> c(xs.begin(), xs.end());
    using V = Dune::TransformedRangeView<std::vector<int>, Aff>;
    V v1(c, Aff{2, 1}), v3(c, Aff{-1, 0});
    V v2(v1);                          // copy construction
    v1 = V(std::vector<int>{9, 9}, Aff{0, 7});       // the source changes afterwards: the copy must not
    std::vector<ll> e2, e1; for (auto e : v2) e2.push_back(e); for (auto e : v1) e1.push_back(e);
    V v4(c, Aff{3, 3}); v4 = v3;      // copy assignment
    v3 = V(std::vector<int>{}, Aff{5, 5});
    std::vector<ll> e4; for (auto e : v4) e4.push_back(e);
    V v5(std::move(v4));              // move construction
    std::vector<ll> e5; for (auto e : v5) e5.push_back(e);
    v5 = *&v5;                        // self assignment
    std::vector<ll> e6; for (std::size_t i = 0; i < v5.size(); ++i) e6.push_back(v5[i]);
    Dune::IntegralRange<int> r1(2, 2 + (int) xs.size()), r2(r1); r1 = Dune::IntegralRange<int>(0, 0);
    os << "copy=" << join(e2) << " source=" << join(e1) << " assigned=" << join(e4) << " moved=" << join(e5) << " selfassigned=" << join(e6)
       << " ircopy=" << (ll) r2.size() << ":" << (r2.empty() ? 1 : 0) << " irsource=" << (ll) r1.size();
    return os.str();
  }
  if (v == "twice") {                  // reuse: the same view traversed twice, then again after the underlying range changed
    std::vector<int> c(xs.begin(), xs.end());
    std::vector<ll> calls;
    auto r = Dune::transformedRangeView(c, [&calls](int x) { calls.push_back(x); return 3 * (ll) x; });
    std::vector<ll> e1, e2, e3; for (auto e : r) e1.push_back(e); for (auto e : r) e2.push_back(e);
    for (auto& x : c) x += 1; c.push_back(100);
    for (auto e : r) e3.push_back(e);
    os << "first=" << join(e1) << " second=" << join(e2) << " after=" << join(e3) << " ncalls=" << calls.size() << " size=" << r.size();
    return os.str();
  }
  if (v == "cat") {                    // TransformedRangeIterator with the iterator category overridden (4th template argument)
    using I = std::vector<int>::const_iterator;
    struct Fn { ll operator()(int x) const { return 4 * (ll) x; } };
    using FI = Dune::Impl::TransformedRangeIterator<I, Fn, Dune::ValueTransformationTag, std::forward_iterator_tag>;
    using BI = Dune::Impl::TransformedRangeIterator<I, Fn, Dune::ValueTransformationTag, std::bidirectional_iterator_tag>;
    static_assert(std::is_same_v<FI::iterator_category, std::forward_iterator_tag> && std::is_same_v<BI::iterator_category, std::bidirectional_iterator_tag>);
    std::vector<int> c(xs.begin(), xs.end());
    std::vector<ll> f, b;
    for (FI it(c.cbegin(), Fn{}), e(c.cend(), Fn{}); it != e; it++) f.push_back(*it);
    if (!c.empty()) { BI it(c.cend(), Fn{}), bg(c.cbegin(), Fn{}); do { --it; b.push_back(*it); } while (!(it == bg)); }
    os << "fwd=" << join(f) << " back=" << join(b);
    return os.str();
  }
  return "BADCASE";
}

string c16_audit_case(const std::vector<string>& t)
{
  if (t[0] == "self") return self_case(t);
  if (t[0] == "walk") return walk_case(t);
  if (t[0] == "idxrun") return idx2_case(t);
  if (t[0] == "hyx") return hydyn_case(t);
  if (t[0] == "trx") return trx2_case(t);
  return kinds_case(t);
}
