// C16 impl driver, group "audit2": dimensions the SECOND cross-cutting coverage audit found unvaried (mutants/C16/API_COVERAGE.md, "Dimension audit 2")
//   asg <kind> <n> <i> <j>          A (pre-existing state of the target): copy / move / converting assignment onto an iterator that already points to
//                                   position j of ANOTHER container (other size, other start offset, other function object, other index)
//   asgv <xs>                       A: assignment of views / ranges onto a target holding another range AND another function; StaticIntegralRange ->
//                                   IntegralRange conversion assigned onto a non-empty range
//   idxcmp <base> <n> <i> <j> <a> <b>   B (asymmetric configuration): IndexedIterators with DIFFERENT indices a, b; IndexedIterator against plain base
//   sparsei <i0> <e0> <xs>          B: sparseRange over [IndexedIterator(begin,i0), IndexedIterator(end,e0)) with unrelated indices
//   cmp/step dynov|genov ...        C (attributes of the input object): containers whose capacity exceeds their size
//   irangex <T> <from> <to> <xs>    D (magnitude): integral ranges up to the FULL span of the type (size() needs the unsigned size_type)
#define C16_PART 8
#include "impl.cc"

struct DynOvFix {                     // DynamicVector<int> that was larger before: capacity() > size()
  using C = Dune::DynamicVector<int>;
  using M = C::Iterator; using K = C::ConstIterator;
  C c; int n, lo = -1; bool always_deref = false;
  explicit DynOvFix(int n_) : c(n_ + 9), n(n_) { for (int p = 0; p < n + 9; ++p) c[p] = p < n ? 1000 + p : -7; c.resize(n); }
  M m(int p) { return p == -1 ? c.beforeBegin() : M(c, (std::size_t) p); }
  K k(int p) { const C& cc = c; return p == -1 ? cc.beforeBegin() : K(cc, (std::size_t) p); }
};
struct GenOvFix {                     // GenericIterator over a std::vector<int> with reserved extra capacity that was longer before
  using C = std::vector<int>;
  using M = Dune::GenericIterator<C, int>; using K = Dune::GenericIterator<const C, const int>;
  C c; int n, lo = -1; bool always_deref = false;
  explicit GenOvFix(int n_) : n(n_) { c.reserve(n + 17); for (int p = 0; p < n + 5; ++p) c.push_back(p < n ? 1000 + p : -7); for (int p = 0; p < 5; ++p) c.pop_back(); }
  M m(int p) { return M(c, p); }
  K k(int p) { const C& cc = c; return K(cc, p); }
};

// ---------------------------------------------------------------------------------------------- asg
template<class F, class G> static string asg_ra(F& fx, G& fy, int i, int j)
{
  if (i < fx.lo || i > fx.n || j < fx.lo || j > fx.n) return "BADCASE";
  auto body = [&](auto src, auto tgt) {
    using It = decltype(src);
    static_assert(std::is_same_v<It, decltype(tgt)>);
    std::ostringstream os;
    { It t = tgt; t = src; os << "asg=" << ptok(fx, t) << " rel=" << cmp6(t, src); if (i + 1 <= fx.n) { ++t; --t; } os << " moved=" << ptok(fx, t); }
    { It t = tgt; It s2 = src; t = std::move(s2); os << " masg=" << ptok(fx, t); }
    { It t = tgt; It u = tgt; t = u = src; os << " chain=" << ptok(fx, t); }           // a = b = c
    return os.str();
  };
  string s = "m." + body(fx.m(i), fy.m(j));
  if constexpr (!std::is_same_v<typename F::M, typename F::K>) {
    s += " c." + body(fx.k(i), fy.k(j));
    if constexpr (std::is_convertible_v<typename F::M, typename F::K>) {
      typename F::K t = fy.k(j); t = fx.m(i);                                          // converting assignment onto a const iterator of the other container
      s += " conv=" + ptok(fx, t) + " convrel=" + cmp2(t, fx.m(i));
    }
  }
  return s;
}
static string prefixed(const string& s)   // "m.a=1 b=2 c.a=3 b=4" -> "m.a=1 m.b=2 c.a=3 c.b=4"; tokens without prefix after "conv" stay
{
  std::ostringstream os; string pre; bool first = true;
  for (auto& tk : split(s)) {
    string t = tk;
    if (t.size() > 2 && t[1] == '.' && (t[0] == 'm' || t[0] == 'c')) { pre = t.substr(0, 2); t = t.substr(2); }
    if (t.rfind("conv", 0) == 0) pre = "";
    os << (first ? "" : " ") << pre << t; first = false;
  }
  return os.str();
}
struct Aff { ll a, b; ll operator()(ll x) const { return a * x + b; } };
static string asg_case(const std::vector<string>& t)
{
  auto kp = split(t[1], ':'); int n = std::stoi(t[2]), i = std::stoi(t[3]), j = std::stoi(t[4]);
  if (kp[0] == "dyn") { DynFix fx(n), fy(n + 2); return prefixed(asg_ra(fx, fy, i, j)); }
  if (kp[0] == "gen") { GenFix fx(n), fy(n + 2); return prefixed(asg_ra(fx, fy, i, j)); }
  if (kp[0] == "al") { AlFix fx(n, std::stoi(kp[1])), fy(n + 2, std::stoi(kp[1]) + 3); return prefixed(asg_ra(fx, fy, i, j)); }
  if (kp[0] == "tr") { TrFix fx(n), fy(n + 2); return prefixed(asg_ra(fx, fy, i, j)); }
  if (kp[0] == "ir") { IrFix<int> fx(n, std::stoll(kp[2])), fy(n + 2, std::stoll(kp[2]) + 1000); return prefixed(asg_ra(fx, fy, i, j)); }
  if (i < 0 || i > n || j < 0 || j > n) return "BADCASE";
  std::ostringstream os;
  if (kp[0] == "trf") {               // iterators of two views with DIFFERENT function objects (same type) over different vectors
    std::vector<int> c1(n), c2(n + 2); for (int p = 0; p < n; ++p) c1[p] = 1000 + p; for (int p = 0; p < n + 2; ++p) c2[p] = 5000 + p;
    using V = Dune::TransformedRangeView<std::vector<int>&, Aff>;
    V v1(c1, Aff{2, 1}), v2(c2, Aff{-1, 5});
    const V& cv1 = v1; const V& cv2 = v2;
    auto obs = [&](auto t, auto b1) {
      std::ostringstream o; ll p = (ll) (t - b1); o << p << ":"; if (p >= 0 && p < n) o << (ll) *t << "/" << (ll) t[0]; else o << "-"; return o.str(); };
    { auto tg = v2.begin() + j; tg = v1.begin() + i; os << "m.asg=" << obs(tg, v1.begin()) << " m.eq=" << cmp2(tg, v1.begin() + i); }
    { auto tg = cv2.begin() + j; tg = cv1.begin() + i; os << " c.asg=" << obs(tg, cv1.begin()) << " c.eq=" << cmp2(tg, cv1.begin() + i); }
    { auto tg = v2.begin() + j; auto s = v1.begin() + i; tg = std::move(s); os << " m.masg=" << obs(tg, v1.begin()); }
    return os.str();
  }
  if (kp[0] == "sl") {                // SLList: three classes, plain and converting assignments
    SlFix fx(n), fy(n + 2);
    { auto tg = fy.i(j); tg = fx.i(i); os << "i.asg=" << fx.ptok(tg); }
    { auto tg = fy.k(j); tg = fx.k(i); os << " c.asg=" << fx.ptok(tg); }
    { auto tg = fy.m(j); tg = fx.m(i); os << " m.asg=" << fx.ptok(tg); if (i < n) { ++tg; os << "/" << fx.ptok(tg); } else os << "/-"; }
    { auto tg = fy.k(j); tg = fx.i(i); os << " ci.conv=" << fx.ptok(tg); }
    { auto tg = fy.k(j); tg = fx.m(i); os << " cm.conv=" << fx.ptok(tg); }
    { auto tg = fy.i(j); tg = fx.m(i); os << " im.conv=" << fx.ptok(tg); }
    return os.str();
  }
  if (kp[0] == "idx") {               // IndexedIterator: the target has another base position, another container and another index
    std::vector<int> c1(n), c2(n + 2); for (int p = 0; p < n; ++p) c1[p] = 1000 + p; for (int p = 0; p < n + 2; ++p) c2[p] = 5000 + p;
    using II = Dune::IndexedIterator<std::vector<int>::iterator>;
    auto obs = [&](const II& x) { ll p = (const std::vector<int>::iterator&) x - c1.begin(); return std::to_string(p) + ":" + (p >= 0 && p < n ? std::to_string(*x) : string("-")) + ":" + std::to_string((ll) x.index()); };
    { II tg(c2.begin() + j, 1000000 + j); II s(c1.begin() + i, -5 + i); tg = s; os << "v.asg=" << obs(tg); if (i < n) { ++tg; os << " v.next=" << obs(tg); } else os << " v.next=-"; }
    { II tg(c2.begin() + j, 1000000 + j); II s(c1.begin() + i, -5 + i); tg = std::move(s); os << " v.masg=" << obs(tg); }
    { II tg(c2.begin() + j, 1000000 + j); tg = c1.begin() + i; os << " v.frombase=" << obs(tg); }            // implicit conversion from Iter: index restarts at 0
    DynFix fx(n), fy(n + 2);
    using DI = Dune::IndexedIterator<DynFix::M>;
    { DI tg(fy.m(j), 77); DI s(fx.m(i), 3 + i); tg = s; os << " d.asg=" << ptok(fx, (const DynFix::M&) tg) << ":" << (ll) tg.index(); }
    return os.str();
  }
  return "BADCASE";
}

// ---------------------------------------------------------------------------------------------- asgv
static string asgv_case(const std::vector<string>& t)
{
  auto xs = ints(t.size() > 1 ? t[1] : "-");
  std::ostringstream os;
  std::vector<int> c(xs.begin(), xs.end());
  using V = Dune::TransformedRangeView<std::vector<int>, Aff>;
  auto all = [](auto&& r) { std::vector<ll> e; for (auto&& x : r) e.push_back((ll) x); return e; };
  { V tg(std::vector<int>{9, 9, 9, 9, 9, 9, 9, 9, 9}, Aff{3, 3}); V src(c, Aff{-1, 0}); tg = src;                       // copy assignment: other range, other function
    std::vector<ll> at; for (std::size_t i = 0; i < tg.size(); ++i) at.push_back(tg[i]);
    os << "copy=" << join(all(tg)) << " copyat=" << join(at) << " copysize=" << (ll) tg.size() << " copyempty=" << (tg.empty() ? 1 : 0);
    src = V(std::vector<int>{4}, Aff{0, 0}); os << " copyafter=" << join(all(tg)); }                                   // ... and independent of the source afterwards
  { V tg(std::vector<int>{9, 9, 9}, Aff{0, 7}); tg = V(c, Aff{2, 1}); os << " move=" << join(all(tg)) << " movesize=" << (ll) tg.size(); }
  { const int n = (int) xs.size(); Dune::IntegralRange<int> r(100, 110); r = Dune::IntegralRange<int>(2, 2 + n);
    os << " ir=" << join(all(r)) << " irsize=" << (ll) r.size() << " irempty=" << (r.empty() ? 1 : 0) << " ircont=" << (r.contains(105) ? 1 : 0) << (r.contains(2) ? 1 : 0);
    r = Dune::StaticIntegralRange<int, 6, 2>{};                                                                      // conversion, assigned onto a non-empty range
    os << " sir=" << join(all(r)) << " sirsize=" << (ll) r.size();
    r = Dune::range(std::integral_constant<int, 0>{}, std::integral_constant<int, 0>{});
    os << " sirempty=" << join(all(r)) << ":" << (r.empty() ? 1 : 0); }
  { std::vector<int> c2{7, 7, 7, 7, 7, 7, 7, 7}; using IR = Dune::IteratorRange<std::vector<int>::iterator>;
    IR r(c2.begin() + 1, c2.end()); r = IR(c.begin(), c.end()); os << " itr=" << join(all(r)) << " itrdist=" << (ll) (r.end() - r.begin()); }
  return os.str();
}

// ---------------------------------------------------------------------------------------------- idxcmp / sparsei
template<class F> static string idxcmp_fx(F& fx, int i, int j, ll a, ll b)
{
  using B = typename F::M; using II = Dune::IndexedIterator<B>;
  II x(fx.m(i), (typename II::size_type) a), y(fx.m(j), (typename II::size_type) b);
  B pi = fx.m(i), pj = fx.m(j);
  return "vv=" + cmp6(x, y) + " vp=" + cmp6(x, pj) + " pv=" + cmp6(pi, y) + " idx=" + std::to_string((ll) x.index()) + "," + std::to_string((ll) y.index());
}
static string idxcmp_case(const std::vector<string>& t)
{
  int n = std::stoi(t[2]), i = std::stoi(t[3]), j = std::stoi(t[4]); ll a = std::stoll(t[5]), b = std::stoll(t[6]);
  if (i < 0 || j < 0 || i > n || j > n) return "BADCASE";
  if (t[1] == "dyn") { DynFix fx(n); return idxcmp_fx(fx, i, j, a, b); }
  if (t[1] == "tr") { TrFix fx(n); return idxcmp_fx(fx, i, j, a, b); }
  if (t[1] == "ir") { IrFix<int> fx(n, 1000); return idxcmp_fx(fx, i, j, a, b); }
  if (t[1] == "al") { AlFix fx(n, 2); return idxcmp_fx(fx, i, j, a, b); }
  return "BADCASE";
}
static string sparsei_case(const std::vector<string>& t)
{
  ll i0 = std::stoll(t[1]), e0 = std::stoll(t[2]); auto xs = ints(t.size() > 3 ? t[3] : "-");
  std::vector<int> c(xs.begin(), xs.end());
  using II = Dune::IndexedIterator<std::vector<int>::iterator>;
  Dune::IteratorRange<II> r(II(c.begin(), i0), II(c.end(), e0));
  std::vector<string> el;
  for (auto&& [v, i] : Dune::sparseRange(r)) el.push_back(std::to_string((ll) v) + ":" + std::to_string((ll) i));
  return "elems=" + join(el);
}

// ---------------------------------------------------------------------------------------------- irangex
template<class T> static string irangex_t(const std::vector<string>& t)
{
  T from, to;
  if constexpr (std::is_unsigned_v<T>) { from = (T) std::stoull(t[2]); to = (T) std::stoull(t[3]); }
  else { from = (T) std::stoll(t[2]); to = (T) std::stoll(t[3]); }
  auto r = Dune::range(from, to);
  std::ostringstream os;
  os << "size=" << num(r.size()) << " empty=" << (r.empty() ? 1 : 0) << " cont=";
  bool any = false;
  if (t.size() > 4 && t[4] != "-") for (auto& s : split(t[4], ',')) { T x = std::is_unsigned_v<T> ? (T) std::stoull(s) : (T) std::stoll(s); os << (r.contains(x) ? '1' : '0'); any = true; }
  if (!any) os << "-";
  std::vector<string> first; int cnt = 0;
  for (auto v : r) { if (++cnt > 3) break; first.push_back(num<T>(v)); }
  os << " first=" << join(first);
  if (!r.empty()) { auto e = r.end(); --e; os << " last=" << num<T>(*e); } else os << " last=-";
  if (!r.empty()) {
    unsigned long long sz = (unsigned long long) r.size(), tm = (unsigned long long) std::numeric_limits<T>::max();
    T kmax = (T) (sz - 1 < tm ? sz - 1 : tm);
    os << " at0=" << num<T>(r[(T) 0]) << " atmax=" << num<T>(r[kmax]);
  } else os << " at0=- atmax=-";
  Dune::IntegralRange<T> rp(std::pair<T, T>(from, to));
  os << " pairsize=" << num(rp.size());
  return os.str();
}
static string irangex_case(const std::vector<string>& t)
{
  const string& T = t[1];
  if (T == "i8") return irangex_t<signed char>(t); if (T == "u8") return irangex_t<unsigned char>(t);
  if (T == "i16") return irangex_t<short>(t); if (T == "u16") return irangex_t<unsigned short>(t);
  if (T == "i32") return irangex_t<int>(t); if (T == "u32") return irangex_t<unsigned>(t);
  if (T == "i64") return irangex_t<long>(t); if (T == "u64") return irangex_t<unsigned long>(t);
  return "BADCASE";
}

string c16_audit2_case(const std::vector<string>& t)
{
  if (t[0] == "asg") return asg_case(t);
  if (t[0] == "asgv") return asgv_case(t);
  if (t[0] == "idxcmp") return idxcmp_case(t);
  if (t[0] == "sparsei") return sparsei_case(t);
  if (t[0] == "irangex") return irangex_case(t);
  if (t[0] == "cmp" || t[0] == "step") {
    const bool st = t[0] == "step";
    int n = std::stoi(t[2]), a = std::stoi(t[st ? 4 : 3]), b = std::stoi(t[st ? 5 : 4]);
    auto go = [&](auto& fx) { return st ? do_step(fx, t[3], a, b) : do_cmp(fx, a, b); };
    if (t[1] == "dynov") { DynOvFix fx(n); return go(fx); }
    if (t[1] == "genov") { GenOvFix fx(n); return go(fx); }
  }
  return "BADCASE";
}
