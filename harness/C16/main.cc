// C16 impl driver: dispatcher only (no Dune headers: this translation unit always compiles).  Every group of cases lives in its own
// translation unit; a group that does not compile against the tree is replaced by stub.cc (its cases print NOCOMPILE) by checks/C16.py.
#include <fstream>
#include <iostream>
#include <sstream>
#include <string>
#include <vector>
using std::string;
string c16_iter_case_1(const std::vector<string>& t);   // dyn, gen, fv, cmpx
string c16_iter_case_2(const std::vector<string>& t);   // fmrow, al, tr
string c16_iter_case_3(const std::vector<string>& t);   // ir
string c16_misc_case(const std::vector<string>& t);     // sl, trl, idxrun, irange, tr, sparse
string c16_hy_case(const std::vector<string>& t);       // hy
string c16_extra_case(const std::vector<string>& t);    // impl2.cc
string c16_audit_case(const std::vector<string>& t);    // impl4.cc
string c16_audit2_case(const std::vector<string>& t);   // impl5.cc
#define SIR(k) string c16_sirange_##k(const std::vector<string>& t);
SIR(0) SIR(1) SIR(2) SIR(3) SIR(4) SIR(5) SIR(6) SIR(7) SIR(8) SIR(9) SIR(10) SIR(11)
static std::vector<string> split(const string& s, char sep = ' ')
{
  std::vector<string> r; string cur; std::istringstream is(s);
  while (std::getline(is, cur, sep)) if (!cur.empty() || sep != ' ') r.push_back(cur);
  return r;
}
int main(int argc, char** argv)
{
  if (argc < 2) return 2;
  std::ifstream in(argv[1]);
  string line;
  while (std::getline(in, line)) {
    auto t = split(line);
    string out;
    try {
      auto is_audit = [&]() {
        if (t[0] == "self" || t[0] == "walk") return true;
        if (t.size() < 2) return false;
        auto kp = split(t[1], ':');
        if ((t[0] == "cmp" || t[0] == "step" || t[0] == "ncmp" || t[0] == "nstep") &&
            (kp[0] == "al1" || kp[0] == "al8" || kp[0] == "dmrow" || kp[0] == "nfptri" || (kp[0] == "ir" && (kp[1] == "ill" || kp[1] == "ull" || kp[1] == "ch")))) return true;
        if (t[0] == "idxrun" && (t[1] == "ir" || t[1] == "al" || t[1] == "tr")) return true;
        if (t[0] == "hyx" && t[1] == "dyn") return true;
        if (t[0] == "trx" && (t[1] == "nested" || t[1] == "fvbase" || t[1] == "itrange" || t[1] == "copy" || t[1] == "twice" || t[1] == "cat")) return true;
        return false; };
      auto is_audit2 = [&]() {
        if (t[0] == "asg" || t[0] == "asgv" || t[0] == "idxcmp" || t[0] == "sparsei" || t[0] == "irangex") return true;
        return t.size() > 1 && (t[0] == "cmp" || t[0] == "step") && (t[1] == "dynov" || t[1] == "genov"); };
      if (t.empty()) out = "BADCASE";
      else if (is_audit2()) out = c16_audit2_case(t);
      else if (is_audit()) out = c16_audit_case(t);
      else if (t[0] == "cmp" || t[0] == "step" || t[0] == "cmpx") {
        string kind = split(t[1], ':')[0];
        if (kind == "dyn" || kind == "gen" || kind == "fv") out = c16_iter_case_1(t);
        else if (kind == "al" || kind == "tr" || kind == "fmrow") out = c16_iter_case_2(t);
        else if (kind == "ir") out = c16_iter_case_3(t);
        else out = c16_misc_case(t);
      }
      else if (t[0] == "hy") out = c16_hy_case(t);
      else if (t[0] == "sirange") {
        switch (std::stoi(t[1])) {
          case 0: out = c16_sirange_0(t); break; case 1: out = c16_sirange_1(t); break; case 2: out = c16_sirange_2(t); break;
          case 3: out = c16_sirange_3(t); break; case 4: out = c16_sirange_4(t); break; case 5: out = c16_sirange_5(t); break;
          case 6: out = c16_sirange_6(t); break; case 7: out = c16_sirange_7(t); break; case 8: out = c16_sirange_8(t); break;
          case 9: out = c16_sirange_9(t); break; case 10: out = c16_sirange_10(t); break; case 11: out = c16_sirange_11(t); break; default: out = "BADCASE";
        }
      }
      else if (t[0] == "cont" || t[0] == "bcmp" || t[0] == "bstep" || t[0] == "ncmp" || t[0] == "nstep" || t[0] == "trx" || t[0] == "rutil"
               || t[0] == "iseq" || t[0] == "hyx" || t[0] == "sparsex" || t[0] == "arrow" || t[0] == "prim") out = c16_extra_case(t);
      else out = c16_misc_case(t);
    } catch (const std::exception& e) { out = string("EXC ") + e.what(); }
    std::cout << out << std::endl;
  }
  return 0;
}
