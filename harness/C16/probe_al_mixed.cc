// compile probe: are ArrayListIterator and ConstArrayListIterator interoperable for the ordering operators and '-' ?
#include <config.h>
#include <dune/common/arraylist.hh>
int main()
{
  Dune::ArrayList<int, 3> l; l.push_back(1);
  const Dune::ArrayList<int, 3>& cl = l;
  auto m = l.begin(); auto c = cl.begin();
  bool r = (m < c) && (c <= m) && !(m > c) && (c >= m) && (m - c) == 0 && (c - m) == 0;
  return r ? 0 : 1;
}
