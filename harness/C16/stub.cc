// replacement for a group of the C16 impl driver that does not compile against the tree: -DC16_STUB_FN=<entry point>
#include <string>
#include <vector>
std::string C16_STUB_FN(const std::vector<std::string>&) { return "NOCOMPILE"; }
