// C17 impl driver: executes the case file on Dune::FloatCmp / Dune::FloatCmpOps / math.hh helpers
// built from the working tree.  One flushed output line per case, same canonical form as ml/C17_driver.ml.
#include <config.h>
#include <cmath>
#include <complex>
#include <cstdio>
#include <cstdint>
#include <cstring>
#include <cstdlib>
#include <fstream>
#include <iostream>
#include <sstream>
#include <string>
#include <vector>
#include <limits>
#include <array>
#include <utility>
#include <type_traits>
#include <dune/common/float_cmp.hh>
#include <dune/common/math.hh>
#include <dune/common/fvector.hh>
#include <dune/common/typetraits.hh>

using namespace Dune;
using FloatCmp::CmpStyle;
using FloatCmp::RoundingStyle;

template<class T> struct Bits;
template<> struct Bits<float>  { using U = std::uint32_t; static constexpr int hex = 8; };
template<> struct Bits<double> { using U = std::uint64_t; static constexpr int hex = 16; };
template<> struct Bits<long double> { using U = unsigned __int128; static constexpr int hex = 20; };

template<class T> static T from_bits(const std::string& s)
{
  typename Bits<T>::U u = (typename Bits<T>::U) std::stoull(s, nullptr, 16);
  T v; std::memcpy(&v, &u, sizeof v); return v;
}
template<class T> static std::string to_bits(T v)
{
  typename Bits<T>::U u; std::memcpy(&u, &v, sizeof v);
  if (v != v) u = (typename Bits<T>::U)(std::is_same<T,float>::value ? 0x7fc00000ull : 0x7ff8000000000000ull); // canonical NaN
  char buf[32]; std::snprintf(buf, sizeof buf, "%0*llx", Bits<T>::hex, (unsigned long long) u); return buf;
}
// long double = x87 extended: 20 hex digits = 16 bit sign/exponent + 64 bit significand (explicit integer bit)
template<> long double from_bits<long double>(const std::string& s)
{
  std::uint16_t se = (std::uint16_t) std::stoul(s.substr(0, 4), nullptr, 16);
  std::uint64_t m = std::stoull(s.substr(4, 16), nullptr, 16);
  long double v = 0; unsigned char raw[sizeof(long double)] = {0};
  std::memcpy(raw, &m, 8); std::memcpy(raw + 8, &se, 2); std::memcpy(&v, raw, sizeof v); return v;
}
template<> std::string to_bits<long double>(long double v)
{
  unsigned char raw[sizeof(long double)]; std::memcpy(raw, &v, sizeof v);
  std::uint64_t m; std::uint16_t se; std::memcpy(&m, raw, 8); std::memcpy(&se, raw + 8, 2);
  if (v != v) { se = 0x7fff; m = 0xc000000000000000ull; }   // canonical NaN
  char buf[32]; std::snprintf(buf, sizeof buf, "%04x%016llx", (unsigned) se, (unsigned long long) m); return buf;
}

static CmpStyle cstyle_of(const std::string& s)
{ return s == "w" ? FloatCmp::relativeWeak : s == "s" ? FloatCmp::relativeStrong : FloatCmp::absolute; }

// ---------------------------------------------------------------- comparisons
template<class T, CmpStyle cs>
static std::string cmp6(T eps, T a, T b0, bool alias)
{
  // alias: both operands are the SAME object (the functions take references)
  const T& b = alias ? a : b0;
  std::string r;
  r += FloatCmp::eq<T, cs>(a, b, eps) ? '1' : '0';
  r += FloatCmp::ne<T, cs>(a, b, eps) ? '1' : '0';
  r += FloatCmp::gt<T, cs>(a, b, eps) ? '1' : '0';
  r += FloatCmp::lt<T, cs>(a, b, eps) ? '1' : '0';
  r += FloatCmp::ge<T, cs>(a, b, eps) ? '1' : '0';
  r += FloatCmp::le<T, cs>(a, b, eps) ? '1' : '0';
  FloatCmpOps<T, cs> ops(eps);
  r += ' ';
  r += ops.eq(a, b) ? '1' : '0';
  r += ops.ne(a, b) ? '1' : '0';
  r += ops.gt(a, b) ? '1' : '0';
  r += ops.lt(a, b) ? '1' : '0';
  r += ops.ge(a, b) ? '1' : '0';
  r += ops.le(a, b) ? '1' : '0';
  // object history and special members: default-constructed object (DefaultEpsilon), a first epsilon, used once, then the final
  // epsilon; copy construction, copy assignment, self-assignment, move construction; every copy must carry the epsilon and
  // leave its source unchanged; non-default rstyle_
  typedef FloatCmpOps<T, cs, FloatCmp::upward> Ops;
  Ops ops0;
  ops0.epsilon(eps + eps + T(1));
  (void) ops0.eq(a, b);
  ops0.epsilon(eps);
  Ops ops2(ops0);
  Ops ops3; ops3 = ops2; ops3 = *&ops3;
  Ops ops4(std::move(ops3));
  r += ' ';
  if (to_bits<T>(ops0.epsilon()) != to_bits<T>(eps)) return r + "GETTER";
  if (to_bits<T>(ops2.epsilon()) != to_bits<T>(eps) || to_bits<T>(ops4.epsilon()) != to_bits<T>(eps)) return r + "COPY";
  static_assert(Ops::cstyle == cs && Ops::rstyle == FloatCmp::upward, "recorded styles");
  r += ops4.eq(a, b) ? '1' : '0';
  r += ops4.ne(a, b) ? '1' : '0';
  r += ops4.gt(a, b) ? '1' : '0';
  r += ops4.lt(a, b) ? '1' : '0';
  r += ops4.ge(a, b) ? '1' : '0';
  r += ops2.le(a, b) ? '1' : '0';
  return r;
}

template<class T>
static std::string do_cmp(const std::vector<std::string>& t)
{
  T eps = from_bits<T>(t[3]), a = from_bits<T>(t[4]), b = from_bits<T>(t[5]);
  bool alias = t[4] == t[5];
  switch (cstyle_of(t[2])) {
    case FloatCmp::relativeWeak:   return cmp6<T, FloatCmp::relativeWeak>(eps, a, b, alias);
    case FloatCmp::relativeStrong: return cmp6<T, FloatCmp::relativeStrong>(eps, a, b, alias);
    default:                       return cmp6<T, FloatCmp::absolute>(eps, a, b, alias);
  }
}

template<class T, CmpStyle cs, int n>
static std::string fveq(T eps, const std::vector<T>& a, const std::vector<T>& b)
{
  FieldVector<T, n> x, y;
  for (int i = 0; i < n; ++i) { x[i] = a[i]; y[i] = b[i]; }
  std::string r;
  r += FloatCmp::eq<FieldVector<T, n>, cs>(x, y, eps) ? '1' : '0';
  r += FloatCmp::ne<FieldVector<T, n>, cs>(x, y, eps) ? '1' : '0';
  return r;
}

template<class V, CmpStyle cs, class E>
static std::string six_of(const V& a, const V& b, E eps)
{
  std::string r;
  r += FloatCmp::eq<V, cs>(a, b, eps) ? '1' : '0';
  r += FloatCmp::ne<V, cs>(a, b, eps) ? '1' : '0';
  r += FloatCmp::gt<V, cs>(a, b, eps) ? '1' : '0';
  r += FloatCmp::lt<V, cs>(a, b, eps) ? '1' : '0';
  r += FloatCmp::ge<V, cs>(a, b, eps) ? '1' : '0';
  r += FloatCmp::le<V, cs>(a, b, eps) ? '1' : '0';
  return r;
}

template<class T, CmpStyle cs>
static std::string vcmp(T eps, const std::vector<T>& a, const std::vector<T>& b0, bool alias)
{
  const std::vector<T>& b = alias ? a : b0;       // alias: both operands are the same vector object
  static_assert(std::is_same<typename FloatCmp::EpsilonType<std::vector<T>>::Type, T>::value, "EpsilonType of std::vector");
  static_assert(std::is_same<typename FloatCmp::EpsilonType<FieldVector<T, 3>>::Type, T>::value, "EpsilonType of FieldVector");
  static_assert(std::is_same<typename FloatCmp::EpsilonType<T>::Type, T>::value, "EpsilonType of a scalar");
  std::string r = six_of<std::vector<T>, cs>(a, b, eps);
  r += ' ';
  if (a.size() == b.size() && a.size() == 1) {
    FieldVector<T, 1> x(a[0]), y(b[0]);
    r += six_of<FieldVector<T, 1>, cs>(x, y, eps);      // FieldVector<T,1> also has the ordering operators
  }
  else if (a.size() == b.size() && a.size() == 2) r += fveq<T, cs, 2>(eps, a, b);
  else if (a.size() == b.size() && a.size() == 3) r += fveq<T, cs, 3>(eps, a, b);
  else r += "--";
  r += ' ';
  FloatCmpOps<std::vector<T>, cs> ops(eps);
  r += ops.eq(a, b) ? '1' : '0'; r += ops.ne(a, b) ? '1' : '0'; r += ops.gt(a, b) ? '1' : '0';
  r += ops.lt(a, b) ? '1' : '0'; r += ops.ge(a, b) ? '1' : '0'; r += ops.le(a, b) ? '1' : '0';
  // epsilon defaulted (DefaultEpsilon<std::vector<T>,cs>), compare style defaulted as well, FieldVector<T,2> with defaulted epsilon
  r += ' ';
  r += FloatCmp::eq<std::vector<T>, cs>(a, b) ? '1' : '0'; r += FloatCmp::ne<std::vector<T>, cs>(a, b) ? '1' : '0';
  r += ' ';
  r += FloatCmp::eq<std::vector<T>>(a, b) ? '1' : '0'; r += FloatCmp::ne<std::vector<T>>(a, b) ? '1' : '0';
  r += ' ';
  if (a.size() == b.size() && a.size() == 2) {
    FieldVector<T, 2> x, y; x[0] = a[0]; x[1] = a[1]; y[0] = b[0]; y[1] = b[1];
    const FieldVector<T, 2>& yy = alias ? x : y;
    r += FloatCmp::eq<FieldVector<T, 2>, cs>(x, yy) ? '1' : '0'; r += FloatCmp::ne<FieldVector<T, 2>, cs>(x, yy) ? '1' : '0';
  }
  else r += "--";
  return r;
}

template<class T>
static std::string do_vcmp(const std::vector<std::string>& t)
{
  T eps = from_bits<T>(t[3]);
  int n = std::stoi(t[4]);
  std::vector<T> a, b;
  for (int i = 0; i < n; ++i) a.push_back(from_bits<T>(t[5 + i]));
  int m = std::stoi(t[5 + n]);
  for (int i = 0; i < m; ++i) b.push_back(from_bits<T>(t[6 + n + i]));
  bool alias = n == m;
  for (int i = 0; alias && i < n; ++i) alias = t[5 + i] == t[6 + n + i];
  switch (cstyle_of(t[2])) {
    case FloatCmp::relativeWeak:   return vcmp<T, FloatCmp::relativeWeak>(eps, a, b, alias);
    case FloatCmp::relativeStrong: return vcmp<T, FloatCmp::relativeStrong>(eps, a, b, alias);
    default:                       return vcmp<T, FloatCmp::absolute>(eps, a, b, alias);
  }
}

// ---------------------------------------------------------------- round / trunc
template<class I> static std::string istr(I v)
{
  if (std::numeric_limits<I>::is_signed) return std::to_string((long long) v);
  return std::to_string((unsigned long long) v);
}

template<class I, class T, CmpStyle cs, RoundingStyle rs>
static std::string rt(bool isround, T eps, T v)
{
  // free function and FloatCmpOps member must agree
  I r1 = isround ? FloatCmp::round<I, T, cs, rs>(v, eps) : FloatCmp::trunc<I, T, cs, rs>(v, eps);
  FloatCmpOps<T, cs, rs> ops(eps);
  I r2 = isround ? ops.template round<I>(v) : ops.template trunc<I>(v);
  if (r1 != r2) return istr<I>(r1) + " ops:" + istr<I>(r2);
  return istr<I>(r1);
}

template<class I, class T, CmpStyle cs>
static std::string rt_r(bool isround, const std::string& r, T eps, T v)
{
  if (r == "z") return rt<I, T, cs, FloatCmp::towardZero>(isround, eps, v);
  if (r == "i") return rt<I, T, cs, FloatCmp::towardInf>(isround, eps, v);
  if (r == "d") return rt<I, T, cs, FloatCmp::downward>(isround, eps, v);
  return rt<I, T, cs, FloatCmp::upward>(isround, eps, v);
}

template<class I, class T>
static std::string rt_c(bool isround, const std::string& c, const std::string& r, T eps, T v)
{
  if (c == "w") return rt_r<I, T, FloatCmp::relativeWeak>(isround, r, eps, v);
  if (c == "s") return rt_r<I, T, FloatCmp::relativeStrong>(isround, r, eps, v);
  return rt_r<I, T, FloatCmp::absolute>(isround, r, eps, v);
}

template<class T>
static std::string do_rt(const std::vector<std::string>& t)
{
  bool isround = t[0] == "round";
  T eps = from_bits<T>(t[5]), v = from_bits<T>(t[6]);
  const std::string& i = t[2];
  if constexpr (std::is_same<T, double>::value) {          // narrow integer types (promotion to int inside round_t / trunc_t)
    if (i == "i16") return rt_c<short, T>(isround, t[3], t[4], eps, v);
    if (i == "u16") return rt_c<unsigned short, T>(isround, t[3], t[4], eps, v);
  }
  if (i == "i32") return rt_c<std::int32_t, T>(isround, t[3], t[4], eps, v);
  if (i == "u32") return rt_c<std::uint32_t, T>(isround, t[3], t[4], eps, v);
  if (i == "i64") return rt_c<long, T>(isround, t[3], t[4], eps, v);
  return rt_c<unsigned long, T>(isround, t[3], t[4], eps, v);
}

// ---------------------------------------------------------------- integer helpers
template<class I> static I parse_int(const std::string& s)
{
  if (std::numeric_limits<I>::is_signed) return (I) std::stoll(s);
  return (I) std::stoull(s);
}

template<class I>
static std::string do_int(const std::vector<std::string>& t)
{
  const std::string& op = t[0];
  if (op == "ipow")  return istr<I>(Dune::power(parse_int<I>(t[2]), (int) std::stol(t[3])));
  if (op == "fact")  return istr<I>(Dune::factorial(parse_int<I>(t[2])));
  if (op == "binom") {
    // binomial<T> cannot be instantiated for types narrower than int: `binomial(n, n-k)` deduces T from `n-k`, which is an int
    if constexpr (sizeof(I) < sizeof(int)) return "NOT-INSTANTIABLE";
    else {
    const I n = parse_int<I>(t[2]), k0 = parse_int<I>(t[3]);
    const I& k = (t[2] == t[3]) ? n : k0;                 // n and k the same object when equal (the function takes references)
    return istr<I>(Dune::binomial(n, k));
    }
  }
  return std::to_string(Dune::sign(parse_int<I>(t[2])));
}

// ---------------------------------------------------------------- classifiers
template<class T, int n>
static std::string cls_vec(const std::vector<T>& v)
{
  FieldVector<T, n> x;
  for (int i = 0; i < n; ++i) x[i] = v[i];
  std::string r;
  r += Dune::isNaN(x) ? '1' : '0';
  r += Dune::isInf(x) ? '1' : '0';
  r += Dune::isFinite(x) ? '1' : '0';
  return r;
}

template<class T>
static std::string do_cls(const std::vector<std::string>& t)
{
  int n = std::stoi(t[3]);
  std::vector<T> v;
  for (int i = 0; i < n; ++i) v.push_back(from_bits<T>(t[4 + i]));
  std::string r;
  if (t[2] == "s") {
    r += Dune::isNaN(v[0]) ? '1' : '0'; r += Dune::isInf(v[0]) ? '1' : '0'; r += Dune::isFinite(v[0]) ? '1' : '0';
    return r;
  }
  if (t[2] == "c") {
    std::complex<T> c(v[0], v[1]);
    r += Dune::isNaN(c) ? '1' : '0'; r += Dune::isInf(c) ? '1' : '0'; r += Dune::isFinite(c) ? '1' : '0';
    return r;
  }
  switch (n) {
    case 1: return cls_vec<T, 1>(v);
    case 2: return cls_vec<T, 2>(v);
    case 3: return cls_vec<T, 3>(v);
    case 4: return cls_vec<T, 4>(v);
    default: return cls_vec<T, 5>(v);
  }
}

template<class T>
static std::string do_unord(const std::vector<std::string>& t)
{
  T a = from_bits<T>(t[2]), b0 = from_bits<T>(t[3]);
  const T& b = (t[2] == t[3]) ? a : b0;                   // same object when equal
  FieldVector<T, 1> x(a), y0(b);
  const FieldVector<T, 1>& y = (t[2] == t[3]) ? x : y0;
  std::string r;
  r += Dune::isUnordered(a, b) ? '1' : '0';
  r += ' ';
  r += Dune::isUnordered(x, y) ? '1' : '0';
  return r;
}

// ---------------------------------------------------------------- defaulted template / function arguments
template<class T, CmpStyle cs>
static std::string defeps_one()
{
  FloatCmpOps<T, cs> ops;     // default constructor: DefaultEpsilon<EpsilonType, cstyle>::value()
  return to_bits<T>(FloatCmp::DefaultEpsilon<T, cs>::value()) + " " + to_bits<T>(FloatCmp::DefaultEpsilon<std::vector<T>, cs>::value()) + " "
       + to_bits<T>(FloatCmp::DefaultEpsilon<FieldVector<T, 2>, cs>::value()) + " " + to_bits<T>(ops.epsilon());
}
template<class T>
static std::string do_defeps()
{
  return defeps_one<T, FloatCmp::relativeWeak>() + " " + defeps_one<T, FloatCmp::relativeStrong>() + " " + defeps_one<T, FloatCmp::absolute>()
       + " " + to_bits<T>(FloatCmp::DefaultEpsilon<T>::value());   // style defaulted as well
}

template<class T, CmpStyle cs>
static std::string six_default(T a, T b)       // epsilon defaulted by the declarations in float_cmp.hh
{
  std::string r;
  r += FloatCmp::eq<T, cs>(a, b) ? '1' : '0'; r += FloatCmp::ne<T, cs>(a, b) ? '1' : '0'; r += FloatCmp::gt<T, cs>(a, b) ? '1' : '0';
  r += FloatCmp::lt<T, cs>(a, b) ? '1' : '0'; r += FloatCmp::ge<T, cs>(a, b) ? '1' : '0'; r += FloatCmp::le<T, cs>(a, b) ? '1' : '0';
  return r;
}
template<class T>
static std::string do_cmpd(const std::vector<std::string>& t)
{
  T eps = from_bits<T>(t[2]), a = from_bits<T>(t[3]), b = from_bits<T>(t[4]);
  std::string r = six_default<T, FloatCmp::relativeWeak>(a, b) + " " + six_default<T, FloatCmp::relativeStrong>(a, b) + " " + six_default<T, FloatCmp::absolute>(a, b) + " ";
  // compare style defaulted (the overloads of float_cmp.cc), epsilon defaulted / given
  r += FloatCmp::eq<T>(a, b) ? '1' : '0'; r += FloatCmp::ne<T>(a, b) ? '1' : '0'; r += FloatCmp::gt<T>(a, b) ? '1' : '0';
  r += FloatCmp::lt<T>(a, b) ? '1' : '0'; r += FloatCmp::ge<T>(a, b) ? '1' : '0'; r += FloatCmp::le<T>(a, b) ? '1' : '0';
  r += ' ';
  r += FloatCmp::eq<T>(a, b, eps) ? '1' : '0'; r += FloatCmp::ne<T>(a, b, eps) ? '1' : '0'; r += FloatCmp::gt<T>(a, b, eps) ? '1' : '0';
  r += FloatCmp::lt<T>(a, b, eps) ? '1' : '0'; r += FloatCmp::ge<T>(a, b, eps) ? '1' : '0'; r += FloatCmp::le<T>(a, b, eps) ? '1' : '0';
  r += ' ';
  FloatCmpOps<T> ops;          // every template argument and the epsilon defaulted
  r += ops.eq(a, b) ? '1' : '0'; r += ops.ne(a, b) ? '1' : '0'; r += ops.gt(a, b) ? '1' : '0';
  r += ops.lt(a, b) ? '1' : '0'; r += ops.ge(a, b) ? '1' : '0'; r += ops.le(a, b) ? '1' : '0';
  return r;
}

// rto <round|trunc> F I SEL X EPS V : the overloads that default the rounding style (SEL=c, X = compare style),
// the compare style (SEL=r, X = rounding style) or both (SEL=n); EPS "-" = defaulted epsilon
template<class I, class T, CmpStyle cs>
static I rto_c(bool isround, bool defeps, T eps, T v)
{
  if (isround) return defeps ? FloatCmp::round<I, T, cs>(v) : FloatCmp::round<I, T, cs>(v, eps);
  return defeps ? FloatCmp::trunc<I, T, cs>(v) : FloatCmp::trunc<I, T, cs>(v, eps);
}
template<class I, class T, RoundingStyle rs>
static I rto_r(bool isround, bool defeps, T eps, T v)
{
  if (isround) return defeps ? FloatCmp::round<I, T, rs>(v) : FloatCmp::round<I, T, rs>(v, eps);
  return defeps ? FloatCmp::trunc<I, T, rs>(v) : FloatCmp::trunc<I, T, rs>(v, eps);
}
template<class I, class T>
static std::string rto_I(const std::vector<std::string>& t)
{
  bool isround = t[1] == "round";
  const std::string& sel = t[4]; const std::string& x = t[5];
  bool defeps = t[6] == "-";
  T eps = defeps ? T(0) : from_bits<T>(t[6]);
  T v = from_bits<T>(t[7]);
  I r;
  if (sel == "c") r = x == "w" ? rto_c<I, T, FloatCmp::relativeWeak>(isround, defeps, eps, v) : x == "s" ? rto_c<I, T, FloatCmp::relativeStrong>(isround, defeps, eps, v) : rto_c<I, T, FloatCmp::absolute>(isround, defeps, eps, v);
  else if (sel == "r") r = x == "z" ? rto_r<I, T, FloatCmp::towardZero>(isround, defeps, eps, v) : x == "i" ? rto_r<I, T, FloatCmp::towardInf>(isround, defeps, eps, v)
                         : x == "d" ? rto_r<I, T, FloatCmp::downward>(isround, defeps, eps, v) : rto_r<I, T, FloatCmp::upward>(isround, defeps, eps, v);
  else {
    if (isround) r = defeps ? FloatCmp::round<I, T>(v) : FloatCmp::round<I, T>(v, eps);
    else r = defeps ? FloatCmp::trunc<I, T>(v) : FloatCmp::trunc<I, T>(v, eps);
    FloatCmpOps<T> ops; if (!defeps) ops.epsilon(eps);
    I r2 = isround ? ops.template round<I>(v) : ops.template trunc<I>(v);
    if (r2 != r) return istr<I>(r) + " ops:" + istr<I>(r2);
  }
  return istr<I>(r);
}
template<class T>
static std::string do_rto(const std::vector<std::string>& t)
{
  const std::string& i = t[3];
  if (i == "i32") return rto_I<std::int32_t, T>(t);
  if (i == "u32") return rto_I<std::uint32_t, T>(t);
  if (i == "i64") return rto_I<long, T>(t);
  return rto_I<unsigned long, T>(t);
}

// ---------------------------------------------------------------- integral_constant overloads, Factorial<m>
template<int... n> static constexpr std::array<int, sizeof...(n)> icfact_table(std::integer_sequence<int, n...>)
{ return {{ decltype(Dune::factorial(std::integral_constant<int, n>{}))::value... }}; }
#pragma GCC diagnostic push
#pragma GCC diagnostic ignored "-Wdeprecated-declarations"
template<int... n> static constexpr std::array<int, sizeof...(n)> Factorial_table(std::integer_sequence<int, n...>)
{ return {{ Dune::Factorial<n>::factorial... }}; }
#pragma GCC diagnostic pop
static constexpr int IC_N = 13;                    // n = 0..12
template<int n, int... k> static constexpr std::array<int, sizeof...(k)> icbinom_row(std::integer_sequence<int, k...>)
{ return {{ decltype(Dune::binomial(std::integral_constant<int, n - 1>{}, std::integral_constant<int, k - 1>{}))::value... }}; }   // n-1, k-1: from -1
template<int... n> static constexpr std::array<std::array<int, IC_N + 2>, sizeof...(n)> icbinom_table(std::integer_sequence<int, n...>)
{ return {{ icbinom_row<n>(std::make_integer_sequence<int, IC_N + 2>{})... }}; }

static std::string do_ic(const std::vector<std::string>& t)
{
  // n = 0..11 only: the table is evaluated at compile time, and an off-by-one in factorial must stay a run-time observation (12! fits an int, 13! does not)
  static constexpr auto ft = icfact_table(std::make_integer_sequence<int, IC_N - 1>{});
  static constexpr auto Ft = Factorial_table(std::make_integer_sequence<int, IC_N - 1>{});
  static constexpr auto bt = icbinom_table(std::make_integer_sequence<int, IC_N + 2>{});
  if (t[0] == "icfact") { int n = std::stoi(t[1]); return std::to_string(ft[n]) + " " + std::to_string(Ft[n]); }
  int n = std::stoi(t[1]), k = std::stoi(t[2]);
  return std::to_string(bt[n + 1][k + 1]);
}

// classification of integer values (forwarded to std::isnan etc. through the PriorityTag<0> overloads), sign of narrow types
template<class I> static std::string icls(const std::string& v)
{
  I x = parse_int<I>(v);
  std::string r;
  r += Dune::isNaN(x) ? '1' : '0'; r += Dune::isInf(x) ? '1' : '0'; r += Dune::isFinite(x) ? '1' : '0'; r += Dune::isUnordered(x, x) ? '1' : '0';
  return r;
}

template<class I, class E> static std::string ipowx(const std::string& m, const std::string& p)
{ return istr<I>(Dune::power(parse_int<I>(m), (E) std::stol(p))); }
template<class I> static std::string do_ipowx(const std::vector<std::string>& t)
{
  if (t[2] == "l") return ipowx<I, long>(t[3], t[4]);
  if (t[2] == "u") return ipowx<I, unsigned>(t[3], t[4]);
  return ipowx<I, short>(t[3], t[4]);
}

template<class T>
static std::string do_cls_vc(const std::vector<std::string>& t)
{
  static_assert(HasNaN<T>::value && HasNaN<std::complex<T>>::value && !HasNaN<int>::value, "HasNaN");
  int n = std::stoi(t[3]);
  std::vector<std::complex<T>> v;
  for (int i = 0; i < n; ++i) v.emplace_back(from_bits<T>(t[4 + 2*i]), from_bits<T>(t[5 + 2*i]));
  std::string r;
  auto go = [&](auto x) { for (int i = 0; i < n; ++i) x[i] = v[i];
    r += Dune::isNaN(x) ? '1' : '0'; r += Dune::isInf(x) ? '1' : '0'; r += Dune::isFinite(x) ? '1' : '0'; };
  if (n == 1) go(FieldVector<std::complex<T>, 1>()); else if (n == 2) go(FieldVector<std::complex<T>, 2>()); else go(FieldVector<std::complex<T>, 3>());
  return r;
}

template<class T>
static std::string do_float(const std::vector<std::string>& t)
{
  const std::string& op = t[0];
  if (op == "cmp") return do_cmp<T>(t);
  if (op == "vcmp") return do_vcmp<T>(t);
  if (op == "round" || op == "trunc") return do_rt<T>(t);
  if (op == "fpow") return to_bits<T>(Dune::power(from_bits<T>(t[2]), (int) std::stol(t[3])));
  if (op == "fsign") return std::to_string(Dune::sign(from_bits<T>(t[2])));
  if (op == "cls" && t[2] == "vc") return do_cls_vc<T>(t);
  if (op == "cls") return do_cls<T>(t);
  if (op == "defeps") return do_defeps<T>();
  if (op == "cmpd") return do_cmpd<T>(t);
  if (op == "unord") return do_unord<T>(t);
  return "UNKNOWN-OP";
}

int main(int argc, char** argv)
{
  if (argc < 2) return 2;
  std::ifstream in(argv[1]);
  std::string line;
  while (std::getline(in, line)) {
    std::istringstream ls(line);
    std::vector<std::string> t; std::string tok;
    while (ls >> tok) t.push_back(tok);
    std::string out;
    if (t.empty()) out = "EMPTY";
    else if (t[0] == "ipow" || t[0] == "fact" || t[0] == "binom" || t[0] == "isign") {
      if (t[0] == "isign" && t[1] == "i8") out = std::to_string(Dune::sign((signed char) std::stol(t[2])));
      else if (t[0] == "isign" && t[1] == "u8") out = std::to_string(Dune::sign((unsigned char) std::stol(t[2])));
      else if (t[0] == "isign" && t[1] == "i16") out = std::to_string(Dune::sign((short) std::stol(t[2])));
      else if (t[0] == "isign" && t[1] == "u16") out = std::to_string(Dune::sign((unsigned short) std::stol(t[2])));
      else if (t[1] == "i8") out = do_int<signed char>(t);
      else if (t[1] == "u8") out = do_int<unsigned char>(t);
      else if (t[1] == "i16") out = do_int<short>(t);
      else if (t[1] == "u16") out = do_int<unsigned short>(t);
      else if (t[1] == "i32") out = do_int<std::int32_t>(t);
      else if (t[1] == "u32") out = do_int<std::uint32_t>(t);
      else if (t[1] == "i64") out = do_int<long>(t);
      else out = do_int<unsigned long>(t);
    }
    else if (t[0] == "icfact" || t[0] == "icbinom") out = do_ic(t);
    else if (t[0] == "icls") out = t[1] == "i32" ? icls<std::int32_t>(t[2]) : t[1] == "u32" ? icls<std::uint32_t>(t[2]) : icls<long>(t[2]);
    else if (t[0] == "ipowx") out = t[1] == "i32" ? do_ipowx<std::int32_t>(t) : t[1] == "u32" ? do_ipowx<std::uint32_t>(t) : t[1] == "i64" ? do_ipowx<long>(t) : do_ipowx<unsigned long>(t);
    else if (t[0] == "rto") out = t[2] == "32" ? do_rto<float>(t) : t[2] == "80" ? do_rto<long double>(t) : do_rto<double>(t);
    else if (t[1] == "32") out = do_float<float>(t);
    else if (t[1] == "80") out = do_float<long double>(t);
    else out = do_float<double>(t);
    std::cout << out << std::endl;
  }
  return 0;
}
