// C17 impl driver: executes the case file on Dune::FloatCmp / Dune::FloatCmpOps / math.hh helpers
// built from the working tree.  One flushed output line per case, same canonical form as ml/C17_driver.ml.
#include <config.h>
#include <cmath>
#include <complex>
#include <cstdio>
#include <cstdint>
#include <cstring>
#include <cstdlib>
#include <fstream>
#include <iostream>
#include <sstream>
#include <string>
#include <vector>
#include <limits>
#include <dune/common/float_cmp.hh>
#include <dune/common/math.hh>
#include <dune/common/fvector.hh>
#include <dune/common/typetraits.hh>

using namespace Dune;
using FloatCmp::CmpStyle;
using FloatCmp::RoundingStyle;

template<class T> struct Bits;
template<> struct Bits<float>  { using U = std::uint32_t; static constexpr int hex = 8; };
template<> struct Bits<double> { using U = std::uint64_t; static constexpr int hex = 16; };

template<class T> static T from_bits(const std::string& s)
{
  typename Bits<T>::U u = (typename Bits<T>::U) std::stoull(s, nullptr, 16);
  T v; std::memcpy(&v, &u, sizeof v); return v;
}
template<class T> static std::string to_bits(T v)
{
  typename Bits<T>::U u; std::memcpy(&u, &v, sizeof v);
  if (v != v) u = (typename Bits<T>::U)(std::is_same<T,float>::value ? 0x7fc00000ull : 0x7ff8000000000000ull); // canonical NaN
  char buf[32]; std::snprintf(buf, sizeof buf, "%0*llx", Bits<T>::hex, (unsigned long long) u); return buf;
}

static CmpStyle cstyle_of(const std::string& s)
{ return s == "w" ? FloatCmp::relativeWeak : s == "s" ? FloatCmp::relativeStrong : FloatCmp::absolute; }

// ---------------------------------------------------------------- comparisons
template<class T, CmpStyle cs>
static std::string cmp6(T eps, T a, T b)
{
  std::string r;
  r += FloatCmp::eq<T, cs>(a, b, eps) ? '1' : '0';
  r += FloatCmp::ne<T, cs>(a, b, eps) ? '1' : '0';
  r += FloatCmp::gt<T, cs>(a, b, eps) ? '1' : '0';
  r += FloatCmp::lt<T, cs>(a, b, eps) ? '1' : '0';
  r += FloatCmp::ge<T, cs>(a, b, eps) ? '1' : '0';
  r += FloatCmp::le<T, cs>(a, b, eps) ? '1' : '0';
  FloatCmpOps<T, cs> ops(eps);
  r += ' ';
  r += ops.eq(a, b) ? '1' : '0';
  r += ops.ne(a, b) ? '1' : '0';
  r += ops.gt(a, b) ? '1' : '0';
  r += ops.lt(a, b) ? '1' : '0';
  r += ops.ge(a, b) ? '1' : '0';
  r += ops.le(a, b) ? '1' : '0';
  return r;
}

template<class T>
static std::string do_cmp(const std::vector<std::string>& t)
{
  T eps = from_bits<T>(t[3]), a = from_bits<T>(t[4]), b = from_bits<T>(t[5]);
  switch (cstyle_of(t[2])) {
    case FloatCmp::relativeWeak:   return cmp6<T, FloatCmp::relativeWeak>(eps, a, b);
    case FloatCmp::relativeStrong: return cmp6<T, FloatCmp::relativeStrong>(eps, a, b);
    default:                       return cmp6<T, FloatCmp::absolute>(eps, a, b);
  }
}

template<class T, CmpStyle cs, int n>
static std::string fveq(T eps, const std::vector<T>& a, const std::vector<T>& b)
{
  FieldVector<T, n> x, y;
  for (int i = 0; i < n; ++i) { x[i] = a[i]; y[i] = b[i]; }
  std::string r;
  r += FloatCmp::eq<FieldVector<T, n>, cs>(x, y, eps) ? '1' : '0';
  r += FloatCmp::ne<FieldVector<T, n>, cs>(x, y, eps) ? '1' : '0';
  return r;
}

template<class T, CmpStyle cs>
static std::string vcmp(T eps, const std::vector<T>& a, const std::vector<T>& b)
{
  std::string r;
  r += FloatCmp::eq<std::vector<T>, cs>(a, b, eps) ? '1' : '0';
  r += FloatCmp::ne<std::vector<T>, cs>(a, b, eps) ? '1' : '0';
  r += ' ';
  if (a.size() == b.size() && a.size() == 1) r += fveq<T, cs, 1>(eps, a, b);
  else if (a.size() == b.size() && a.size() == 2) r += fveq<T, cs, 2>(eps, a, b);
  else if (a.size() == b.size() && a.size() == 3) r += fveq<T, cs, 3>(eps, a, b);
  else r += "--";
  return r;
}

template<class T>
static std::string do_vcmp(const std::vector<std::string>& t)
{
  T eps = from_bits<T>(t[3]);
  int n = std::stoi(t[4]);
  std::vector<T> a, b;
  for (int i = 0; i < n; ++i) a.push_back(from_bits<T>(t[5 + i]));
  int m = std::stoi(t[5 + n]);
  for (int i = 0; i < m; ++i) b.push_back(from_bits<T>(t[6 + n + i]));
  switch (cstyle_of(t[2])) {
    case FloatCmp::relativeWeak:   return vcmp<T, FloatCmp::relativeWeak>(eps, a, b);
    case FloatCmp::relativeStrong: return vcmp<T, FloatCmp::relativeStrong>(eps, a, b);
    default:                       return vcmp<T, FloatCmp::absolute>(eps, a, b);
  }
}

// ---------------------------------------------------------------- round / trunc
template<class I> static std::string istr(I v)
{
  if (std::numeric_limits<I>::is_signed) return std::to_string((long long) v);
  return std::to_string((unsigned long long) v);
}

template<class I, class T, CmpStyle cs, RoundingStyle rs>
static std::string rt(bool isround, T eps, T v)
{
  // free function and FloatCmpOps member must agree
  I r1 = isround ? FloatCmp::round<I, T, cs, rs>(v, eps) : FloatCmp::trunc<I, T, cs, rs>(v, eps);
  FloatCmpOps<T, cs, rs> ops(eps);
  I r2 = isround ? ops.template round<I>(v) : ops.template trunc<I>(v);
  if (r1 != r2) return istr<I>(r1) + " ops:" + istr<I>(r2);
  return istr<I>(r1);
}

template<class I, class T, CmpStyle cs>
static std::string rt_r(bool isround, const std::string& r, T eps, T v)
{
  if (r == "z") return rt<I, T, cs, FloatCmp::towardZero>(isround, eps, v);
  if (r == "i") return rt<I, T, cs, FloatCmp::towardInf>(isround, eps, v);
  if (r == "d") return rt<I, T, cs, FloatCmp::downward>(isround, eps, v);
  return rt<I, T, cs, FloatCmp::upward>(isround, eps, v);
}

template<class I, class T>
static std::string rt_c(bool isround, const std::string& c, const std::string& r, T eps, T v)
{
  if (c == "w") return rt_r<I, T, FloatCmp::relativeWeak>(isround, r, eps, v);
  if (c == "s") return rt_r<I, T, FloatCmp::relativeStrong>(isround, r, eps, v);
  return rt_r<I, T, FloatCmp::absolute>(isround, r, eps, v);
}

template<class T>
static std::string do_rt(const std::vector<std::string>& t)
{
  bool isround = t[0] == "round";
  T eps = from_bits<T>(t[5]), v = from_bits<T>(t[6]);
  const std::string& i = t[2];
  if (i == "i32") return rt_c<std::int32_t, T>(isround, t[3], t[4], eps, v);
  if (i == "u32") return rt_c<std::uint32_t, T>(isround, t[3], t[4], eps, v);
  if (i == "i64") return rt_c<long, T>(isround, t[3], t[4], eps, v);
  return rt_c<unsigned long, T>(isround, t[3], t[4], eps, v);
}

// ---------------------------------------------------------------- integer helpers
template<class I> static I parse_int(const std::string& s)
{
  if (std::numeric_limits<I>::is_signed) return (I) std::stoll(s);
  return (I) std::stoull(s);
}

template<class I>
static std::string do_int(const std::vector<std::string>& t)
{
  const std::string& op = t[0];
  if (op == "ipow")  return istr<I>(Dune::power(parse_int<I>(t[2]), (int) std::stol(t[3])));
  if (op == "fact")  return istr<I>(Dune::factorial(parse_int<I>(t[2])));
  if (op == "binom") return istr<I>(Dune::binomial(parse_int<I>(t[2]), parse_int<I>(t[3])));
  return std::to_string(Dune::sign(parse_int<I>(t[2])));
}

// ---------------------------------------------------------------- classifiers
template<class T, int n>
static std::string cls_vec(const std::vector<T>& v)
{
  FieldVector<T, n> x;
  for (int i = 0; i < n; ++i) x[i] = v[i];
  std::string r;
  r += Dune::isNaN(x) ? '1' : '0';
  r += Dune::isInf(x) ? '1' : '0';
  r += Dune::isFinite(x) ? '1' : '0';
  return r;
}

template<class T>
static std::string do_cls(const std::vector<std::string>& t)
{
  int n = std::stoi(t[3]);
  std::vector<T> v;
  for (int i = 0; i < n; ++i) v.push_back(from_bits<T>(t[4 + i]));
  std::string r;
  if (t[2] == "s") {
    r += Dune::isNaN(v[0]) ? '1' : '0'; r += Dune::isInf(v[0]) ? '1' : '0'; r += Dune::isFinite(v[0]) ? '1' : '0';
    return r;
  }
  if (t[2] == "c") {
    std::complex<T> c(v[0], v[1]);
    r += Dune::isNaN(c) ? '1' : '0'; r += Dune::isInf(c) ? '1' : '0'; r += Dune::isFinite(c) ? '1' : '0';
    return r;
  }
  switch (n) {
    case 1: return cls_vec<T, 1>(v);
    case 2: return cls_vec<T, 2>(v);
    case 3: return cls_vec<T, 3>(v);
    case 4: return cls_vec<T, 4>(v);
    default: return cls_vec<T, 5>(v);
  }
}

template<class T>
static std::string do_unord(const std::vector<std::string>& t)
{
  T a = from_bits<T>(t[2]), b = from_bits<T>(t[3]);
  FieldVector<T, 1> x(a), y(b);
  std::string r;
  r += Dune::isUnordered(a, b) ? '1' : '0';
  r += ' ';
  r += Dune::isUnordered(x, y) ? '1' : '0';
  return r;
}

template<class T>
static std::string do_float(const std::vector<std::string>& t)
{
  const std::string& op = t[0];
  if (op == "cmp") return do_cmp<T>(t);
  if (op == "vcmp") return do_vcmp<T>(t);
  if (op == "round" || op == "trunc") return do_rt<T>(t);
  if (op == "fpow") return to_bits<T>(Dune::power(from_bits<T>(t[2]), (int) std::stol(t[3])));
  if (op == "fsign") return std::to_string(Dune::sign(from_bits<T>(t[2])));
  if (op == "cls") return do_cls<T>(t);
  if (op == "unord") return do_unord<T>(t);
  return "UNKNOWN-OP";
}

int main(int argc, char** argv)
{
  if (argc < 2) return 2;
  std::ifstream in(argv[1]);
  std::string line;
  while (std::getline(in, line)) {
    std::istringstream ls(line);
    std::vector<std::string> t; std::string tok;
    while (ls >> tok) t.push_back(tok);
    std::string out;
    if (t.empty()) out = "EMPTY";
    else if (t[0] == "ipow" || t[0] == "fact" || t[0] == "binom" || t[0] == "isign") {
      if (t[1] == "i32") out = do_int<std::int32_t>(t);
      else if (t[1] == "u32") out = do_int<std::uint32_t>(t);
      else if (t[1] == "i64") out = do_int<long>(t);
      else out = do_int<unsigned long>(t);
    }
    else if (t[1] == "32") out = do_float<float>(t);
    else out = do_float<double>(t);
    std::cout << out << std::endl;
  }
  return 0;
}
