// C18 impl driver: executes the case file on dune/common/path.cc and dune/common/stringutility.hh
// built from the working tree.  One flushed output line per case, same canonical form as
// ml/C18_driver.ml (strings ":<escaped>", booleans 0/1, exceptions "EXC <class>").
#include <config.h>
#include <cstdio>
#include <cstdlib>
#include <fstream>
#include <iostream>
#include <sstream>
#include <string>
#include <vector>
#include <list>
#include <deque>
#include <string_view>
#include <memory_resource>
#include <cwchar>
#include <dune/common/exceptions.hh>
#include <dune/common/path.hh>
#include <dune/common/stringutility.hh>

static std::string esc(const std::string& s)
{
  std::string r = ":";
  char buf[8];
  for (unsigned char c : s) {
    if (c > ' ' && c <= '~' && c != '%') r += (char) c;
    else { std::snprintf(buf, sizeof buf, "%%%02X", (unsigned) c); r += buf; }
  }
  return r;
}

static std::string unesc(const std::string& t)
{
  std::string r;
  for (std::size_t i = 1; i < t.size(); ++i) {
    if (t[i] == '%' && i + 2 < t.size()) {
      r += (char) std::stoi(t.substr(i + 1, 2), nullptr, 16); i += 2;
    } else r += t[i];
  }
  return r;
}

// DUNE_THROW prefixes the streamed message with "<class> [<function>:<file>:<line>]: "; the payload follows
static std::string message_of(const Dune::Exception& e)
{
  const std::string w = e.what();
  const auto k = w.find("]: ");
  return k == std::string::npos ? w : w.substr(k + 3);
}

static std::string run(const std::vector<std::string>& t)
{
  const std::string& op = t.at(0);
  // the arguments live in named objects so that (a) one object can be passed in two roles (ops ending in '@'),
  // (b) a result can be assigned back to its own argument (ops ending in '='), (c) we can check afterwards that
  // the callee left its (const&) arguments untouched
  std::string a = t.size() > 1 && t[1][0] == ':' ? unesc(t[1]) : std::string();
  std::string b = t.size() > 2 && t[2][0] == ':' ? unesc(t[2]) : std::string();
  const std::string a0 = a, b0 = b;
  auto untouched = [&](const std::string& r) { return (a == a0 && b == b0) ? r : "ARG-MODIFIED " + r; };
  try {
    if (op == "process") {
      std::string r = Dune::processPath(a);
      return untouched(esc(r) + " " + esc(Dune::processPath(r)));
    }
    if (op == "process=") {                      // x = processPath(x); x = processPath(x)
      a = Dune::processPath(a); std::string r = a; a = Dune::processPath(a);
      return esc(r) + " " + esc(a);
    }
    if (op == "pretty") return untouched(esc(Dune::prettyPath(a, t.at(2) == "1")));
    if (op == "pretty=") { a = Dune::prettyPath(a, t.at(2) == "1"); return esc(a); }
    if (op == "prettyauto") return untouched(esc(Dune::prettyPath(a)));
    if (op == "prettyauto=") { a = Dune::prettyPath(a); return esc(a); }
    if (op == "isdir") return untouched(Dune::pathIndicatesDirectory(a) ? "1" : "0");
    if (op == "concat") return untouched(esc(Dune::concatPaths(a, b)));
    if (op == "concat@") return untouched(esc(Dune::concatPaths(a, a)));          // both parameters bound to ONE object
    if (op == "concat=") { a = Dune::concatPaths(a, a); return esc(a); }          // ... and the result assigned back to it
    if (op == "concat=base") { a = Dune::concatPaths(a, b); return esc(a); }      // base = concatPaths(base, p)
    if (op == "concat=p") { b = Dune::concatPaths(a, b); return esc(b); }         // p = concatPaths(base, p)
    if (op == "relpath") return untouched(esc(Dune::relativePath(a, b)));
    if (op == "relpath@") return untouched(esc(Dune::relativePath(a, a)));
    if (op == "relpath=p") { b = Dune::relativePath(a, b); return esc(b); }
    if (op == "prefix") return untouched(Dune::hasPrefix(a, b.c_str()) ? "1" : "0");
    if (op == "suffix") return untouched(Dune::hasSuffix(a, b.c_str()) ? "1" : "0");
    // the const char* argument points INTO the container's own buffer (offset k): t = op :s :<s.substr(k)> k
    if (op == "prefix@") return untouched(Dune::hasPrefix(a, a.c_str() + std::stoul(t.at(3))) ? "1" : "0");
    if (op == "suffix@") return untouched(Dune::hasSuffix(a, a.c_str() + std::stoul(t.at(3))) ? "1" : "0");
    if (op.rfind("prefix_", 0) == 0 || op.rfind("suffix_", 0) == 0) {
      // other character containers: the templates only use size(), begin(), const_iterator, std::advance
      const std::string c = unesc(t.at(1)), x = unesc(t.at(2));
      const bool pre = op[0] == 'p';
      const std::string k = op.substr(7);
      bool r;
      if (k == "vec") { const std::vector<char> v(c.begin(), c.end()); r = pre ? Dune::hasPrefix(v, x.c_str()) : Dune::hasSuffix(v, x.c_str()); }
      else if (k == "list") { const std::list<char> v(c.begin(), c.end()); r = pre ? Dune::hasPrefix(v, x.c_str()) : Dune::hasSuffix(v, x.c_str()); }
      else if (k == "deque") { const std::deque<char> v(c.begin(), c.end()); r = pre ? Dune::hasPrefix(v, x.c_str()) : Dune::hasSuffix(v, x.c_str()); }
      else if (k == "vsc") { const std::vector<signed char> v(c.begin(), c.end()); r = pre ? Dune::hasPrefix(v, x.c_str()) : Dune::hasSuffix(v, x.c_str()); }
      else if (k == "pmr") { const std::pmr::string v(c.begin(), c.end()); r = pre ? Dune::hasPrefix(v, x.c_str()) : Dune::hasSuffix(v, x.c_str()); }
      else if (k == "sv") { const std::string_view v(c); r = pre ? Dune::hasPrefix(v, x.c_str()) : Dune::hasSuffix(v, x.c_str()); }
      else return "UNKNOWN-KIND";
      return r ? "1" : "0";
    }
    if (op == "format") {
      // format <fmt> <kind> <arg> <expected expansion (used by the model only)>
      const std::string fmt = unesc(t.at(1));
      const std::string& kind = t.at(2);
      if (kind == "s") return esc(Dune::formatString(fmt, unesc(t.at(3)).c_str()));
      if (kind == "d") return esc(Dune::formatString(fmt, (int) std::stol(t.at(3))));
      if (kind == "ld") return esc(Dune::formatString(fmt, (long) std::stol(t.at(3))));
      if (kind == "u") return esc(Dune::formatString(fmt, (unsigned) std::stoul(t.at(3))));
      if (kind == "f") return esc(Dune::formatString(fmt, std::strtod(t.at(3).c_str(), nullptr)));
      if (kind == "c") return esc(Dune::formatString(fmt, (int) std::stol(t.at(3))));
      if (kind == "sd") {   // "<string>,<int>"
        std::string a = unesc(t.at(3)); auto k = a.rfind(',');
        return esc(Dune::formatString(fmt, a.substr(0, k).c_str(), (int) std::stol(a.substr(k + 1))));
      }
      if (kind == "lld") return esc(Dune::formatString(fmt, (long long) std::stoll(t.at(3))));
      if (kind == "lu") return esc(Dune::formatString(fmt, (unsigned long) std::stoull(t.at(3))));
      if (kind == "zu") return esc(Dune::formatString(fmt, (std::size_t) std::stoull(t.at(3))));
      if (kind == "ch") return esc(Dune::formatString(fmt, (char) std::stol(t.at(3))));
      if (kind == "fd") {   // "<double>,<int>"
        std::string a = unesc(t.at(3)); auto k = a.rfind(',');
        return esc(Dune::formatString(fmt, std::strtod(a.substr(0, k).c_str(), nullptr), (int) std::stol(a.substr(k + 1))));
      }
      if (kind == "sds") {  // "<string>,<int>,<string>"  (std::string::c_str() and a literal-like const char*)
        std::string a = unesc(t.at(3)); auto k1 = a.find(','), k2 = a.rfind(',');
        const std::string s1 = a.substr(0, k1), s2 = a.substr(k2 + 1);
        const char* p2 = s2.c_str();
        return esc(Dune::formatString(fmt, s1.c_str(), (int) std::stol(a.substr(k1 + 1, k2 - k1 - 1)), p2));
      }
      if (kind == "s@") return esc(Dune::formatString(fmt, fmt.c_str()));          // the format string's own buffer as %s argument
      if (kind == "hd") return esc(Dune::formatString(fmt, (short) std::stol(t.at(3))));
      if (kind == "hu") return esc(Dune::formatString(fmt, (unsigned short) std::stoul(t.at(3))));
      if (kind == "b") return esc(Dune::formatString(fmt, t.at(3) == "1"));
      if (kind == "f32") return esc(Dune::formatString(fmt, (float) std::strtod(t.at(3).c_str(), nullptr)));
      if (kind == "Lf") return esc(Dune::formatString(fmt, (long double) std::strtold(t.at(3).c_str(), nullptr)));
      if (kind == "i5") {   // five int arguments "a,b,c,d,e"
        int v[5]; std::string q = unesc(t.at(3)); std::size_t pos = 0;
        for (int i = 0; i < 5; ++i) { auto k = q.find(',', pos); v[i] = std::stoi(q.substr(pos, k - pos)); pos = k + 1; }
        return esc(Dune::formatString(fmt, v[0], v[1], v[2], v[3], v[4]));
      }
      if (kind == "lc") return esc(Dune::formatString(fmt, (wint_t) std::stoul(t.at(3))));   // unconvertible in the C locale: snprintf < 0
      if (kind == "none") return esc(Dune::formatString(fmt));
      return "UNKNOWN-KIND";
    }
    return "UNKNOWN-OP";
  }
  catch (const Dune::NotImplemented& e) { return "EXC NotImplemented " + esc(message_of(e)); }
  catch (const Dune::Exception& e) { return "EXC Exception " + esc(message_of(e)); }
  catch (const std::exception& e) { return std::string("EXC std::") + e.what(); }
}

int main(int argc, char** argv)
{
  std::ifstream in(argv[argc - 1]);
  std::string line;
  while (std::getline(in, line)) {
    std::istringstream is(line);
    std::vector<std::string> t; std::string w;
    while (is >> w) t.push_back(w);
    std::string r = t.empty() ? "EMPTY" : run(t);
    if (!t.empty()) {   // the functions are stateless: a second call on the same input must observe the same
      const std::string r2 = run(t);
      if (r2 != r) r = "NONDETERMINISTIC " + r + " THEN " + r2;
    }
    std::fputs(r.c_str(), stdout); std::fputc('\n', stdout); std::fflush(stdout);
  }
  return 0;
}
