// C19 impl driver: MPIGuard scripts and MPIFuture / PseudoFuture call orders on the real code.
//   mpirun -np P impl cases.txt out      (rank r writes ONE flushed line per case to out.<r>; one harness barrier between cases)
// Case lines (see ml/C19_driver.ml for the same format on the model side):
//   G P kind act colors mode outs scripts
//       kind: H MPIGuard(active)  M MPIGuard(MPIHelper&,active)  C Communication<MPI_Comm>(dup world)  W MPI_Comm (dup world)
//             S MPI_Comm split by colors  T Communication<MPI_Comm>(split)  N Communication<No_Comm>
//       scripts: per rank, ',' separated, over s=finalize(true) f=finalize(false) t=throw r=reactivate ('-' = empty)
//       observation per rank  <exit>:<number of MPI_Allreduce calls>,  exit = N | G<pc>e<nerr> | U<pc>
//   F P fam op pay wrap salt late dep order
//       fam M: Communication<MPI_Comm> (MPIFuture)   N: Communication<No_Comm> (PseudoFuture)
//       pay i int by value, j int&, v vector<double> by value, w vector<double>&, 0 void;  wrap r raw, e Dune::Future<R>
//       late: rank whose start of the operation is delayed until the others executed the non-blocking prefix of `order`
//       order over v=valid r=ready w=wait g=get m=move;  observation per rank: v1 r0 w. g[..] gX(InvalidFutureException) ...
// A per-case watchdog (alarm, env C19_ALARM seconds) turns a deadlock into exit code 86 with an ERROR line on stderr.
#include <config.h>
#include <mpi.h>
#include <unistd.h>
#include <signal.h>
#include <cstdio>
#include <cstdlib>
#include <cstring>
#include <string>
#include <vector>
#include <map>
#include <sstream>
#include <fstream>
#include <functional>
#include <utility>
#include <optional>
#include <deque>
#include <algorithm>
#include <chrono>
#include <dune/common/exceptions.hh>
#include <dune/common/fvector.hh>
#include <dune/common/dynvector.hh>
#include <dune/common/parallel/mpihelper.hh>
#include <dune/common/parallel/communication.hh>
#include <dune/common/parallel/mpicommunication.hh>
#include <dune/common/parallel/future.hh>
#include <dune/common/parallel/mpifuture.hh>
#include <dune/common/parallel/mpiguard.hh>

static long g_allreduce = 0;
extern "C" int MPI_Allreduce(const void* s, void* r, int c, MPI_Datatype d, MPI_Op op, MPI_Comm comm)
{ ++g_allreduce; return PMPI_Allreduce(s, r, c, d, op, comm); }

// Requests posted by the code under test (X cases): started by MPI_Irecv / MPI_Isend, completion not yet observed through
// MPI_Wait / MPI_Test, not released by MPI_Request_free.  The size of this set is the observation "requests posted in MPI".
static bool g_track = false;
static long g_waitms = 3000;
struct WaitTimeout {};
static std::vector<MPI_Request> g_posted;
static void untrack(MPI_Request r) { auto it = std::find(g_posted.begin(), g_posted.end(), r); if (it != g_posted.end()) g_posted.erase(it); }
extern "C" int MPI_Irecv(void* b, int n, MPI_Datatype d, int src, int tag, MPI_Comm c, MPI_Request* r)
{ int rc = PMPI_Irecv(b, n, d, src, tag, c, r); if (g_track) g_posted.push_back(*r); return rc; }
extern "C" int MPI_Isend(const void* b, int n, MPI_Datatype d, int dst, int tag, MPI_Comm c, MPI_Request* r)
{ int rc = PMPI_Isend(b, n, d, dst, tag, c, r); if (g_track) g_posted.push_back(*r); return rc; }
extern "C" int MPI_Request_free(MPI_Request* r) { if (g_track) untrack(*r); return PMPI_Request_free(r); }
extern "C" int MPI_Test(MPI_Request* r, int* flag, MPI_Status* s)
{ MPI_Request old = *r; int rc = PMPI_Test(r, flag, s); if (g_track && *flag && old != MPI_REQUEST_NULL) untrack(old); return rc; }
// X cases: MPI_Wait = poll MPI_Test (same effect on the request); a request nothing completes within g_waitms is reported
// by an exception instead of blocking the whole launch
extern "C" int MPI_Wait(MPI_Request* r, MPI_Status* s)
{
  if (!g_track || *r == MPI_REQUEST_NULL) return PMPI_Wait(r, s);
  MPI_Request old = *r;
  auto t0 = std::chrono::steady_clock::now();
  for (;;) {
    int flag = 0; int rc = PMPI_Test(r, &flag, s);
    if (flag) { untrack(old); return rc; }
    if (std::chrono::duration_cast<std::chrono::milliseconds>(std::chrono::steady_clock::now() - t0).count() > g_waitms) {
      // after three time-outs in one launch the remaining cases wait only briefly (the check re-runs reported cases alone)
      static int ntimeouts = 0; if (++ntimeouts >= 3 && g_waitms > 20) g_waitms = 20;
      throw WaitTimeout();
    }
    usleep(100);
  }
}

static int g_rank = 0, g_size = 1;
static volatile long g_case = -1;
static void on_alarm(int)
{
  char b[128];
  int n = snprintf(b, sizeof b, "ERROR C19-WATCHDOG rank %d blocked in case %ld\n", g_rank, (long)g_case);
  if (write(2, b, n)) {}
  _exit(86);
}

// ------------------------------------------------------------------------------------------------ guard
struct UserExc {};
struct GuardLeft { std::string obs; };   // nested mode: the inner scope was left by an exception (observation attached)

template<class Mk>
static std::string run_guard(Mk&& mk, const std::string& script, bool count, bool rethrow = false)
{
  bool exceptional = true;
  long c0 = g_allreduce;
  size_t pc = 0;
  std::string ex;
  try {
    auto g = mk();
    for (pc = 0; pc < script.size(); ++pc)
      switch (script[pc]) {
        case 's': if (pc % 2 == 0) g.finalize(); else g.finalize(true); break;   // default argument and explicit true
        case 'f': g.finalize(false); break;
        case 'r': g.reactivate(); break;
        case 't': throw UserExc();
        default: break;
      }
    ex = "N"; exceptional = false;
  } catch (Dune::MPIGuardError& e) {
    std::string w = e.what();
    size_t p = w.find("due to ");
    size_t q = w.find("Terminating process ");
    ex = "G" + std::to_string(pc) + "e" + (p == std::string::npos ? std::string("?") : std::to_string(atoi(w.c_str() + p + 7)))
       + "r" + (q == std::string::npos ? std::string("?") : std::to_string(atoi(w.c_str() + q + 20)));
  } catch (UserExc&) {
    ex = "U" + std::to_string(pc);
  } catch (Dune::Exception& e) {
    ex = "?E(" + std::string(typeid(e).name()) + ")";
  }
  std::string obs = ex + ":" + (count ? std::to_string(g_allreduce - c0) : std::string("-"));
  if (rethrow && exceptional) throw GuardLeft{obs};   // the exception continues to unwind through the enclosing scope
  return obs;
}

// ------------------------------------------------------------------------------------------------ futures
static std::string show(int x) { return "[" + std::to_string(x) + "]"; }
static std::string show(long x) { return "[" + std::to_string(x) + "]"; }
template<class C> static std::string show(const C& v)
{
  if (v.size() > 16) { long long sum = 0; for (size_t i = 0; i < (size_t)v.size(); ++i) sum += (long long)v[i];
                       return "[n=" + std::to_string(v.size()) + ";sum=" + std::to_string(sum) + "]"; }
  std::string s = "[";
  for (size_t i = 0; i < (size_t)v.size(); ++i) { if (i) s += ","; s += std::to_string((long long)v[i]); }
  return s + "]";
}

// F d;  compiles?  MPIFuture<R,S> is default-constructible only for S = void and non-reference R: Buffer<S> (by value) has no
// default constructor, and Buffer<T&>(bool) does not compile when instantiated (`value = T()` on optional<reference_wrapper<T>>)
template<class F> struct can_default : std::true_type {};
template<class R, class S> struct can_default<Dune::MPIFuture<R, S>> : std::bool_constant<std::is_void_v<S> && !std::is_reference_v<R>> {};
template<class T> struct can_default<Dune::PseudoFuture<T>> : std::bool_constant<!std::is_reference_v<T>> {};

template<class F, bool MOVABLE, class Renew>
static void run_ops(F& f, const std::string& order, size_t from, size_t to, std::string& out, Renew&& renew)
{
  using R = decltype(f.get());
  for (size_t i = from; i < to && i < order.size(); ++i) {
    char c = order[i];
    if (!out.empty()) out += " ";
    try {
      switch (c) {
        // valid()/ready() are const members: called through a const reference at odd positions
        case 'v': out += (i % 2 ? std::as_const(f).valid() : f.valid()) ? "v1" : "v0"; break;
        case 'r': out += (i % 2 ? std::as_const(f).ready() : f.ready()) ? "r1" : "r0"; break;
        case 'M':   // move CONSTRUCT a new future, ask the TARGET whether it is ready (the request must have moved along), move back
          if constexpr (MOVABLE && std::is_move_assignable_v<F>) { F tmp(std::move(f)); bool rd = tmp.ready(); f = std::move(tmp); out += rd ? "M1" : "M0"; }
          else out += "M?";
          break;
        case 'A':   // the same through move ASSIGNMENT into a default-constructed future
          if constexpr (MOVABLE && can_default<F>::value && std::is_move_assignable_v<F>) { F d; d = std::move(f); bool rd = d.ready(); f = std::move(d); out += rd ? "A1" : "A0"; }
          else out += "A?";
          break;
        case 'S':   // self move assignment: must leave the future as it is
          if constexpr (MOVABLE && std::is_move_assignable_v<F>) { F& alias = f; f = std::move(alias); out += "S."; }
          else out += "S?";
          break;
        case 'n':   // the same object receives a NEW operation (move assignment from the temporary returned by the call)
          if constexpr (MOVABLE && std::is_move_assignable_v<F>) { renew(f); out += "n."; }
          else out += "n?";
          break;
        case 'w': f.wait(); out += "w."; break;
        case 'g':
          if constexpr (std::is_void_v<R>) { f.get(); out += "g[]"; }
          else { auto&& x = f.get(); out += "g" + show(x); }
          break;
        case 'm':
          if constexpr (MOVABLE && std::is_move_assignable_v<F>) { F tmp(std::move(f)); bool ov = f.valid(); f = std::move(tmp); out += ov ? "m1" : "m0"; }
          else out += "m?";
          break;
        case 'a':   // move ASSIGNMENT into a default-constructed future and back
          if constexpr (MOVABLE && can_default<F>::value && std::is_move_assignable_v<F>) { F d; d = std::move(f); bool ov = f.valid(); f = std::move(d); out += ov ? "a1" : "a0"; }
          else out += "a?";
          break;
        case 'd':   // get_send_data()
          if constexpr (requires { f.get_send_data(); }) {
            if constexpr (std::is_void_v<decltype(f.get_send_data())>) { f.get_send_data(); out += "d[]"; }
            else { auto&& x = f.get_send_data(); out += "d" + show(x); }
          } else out += "d?";
          break;
        default: out += "??";
      }
    } catch (Dune::InvalidFutureException&) {
      out += std::string(1, c) + "X";
    } catch (Dune::Exception& e) {
      out += std::string(1, c) + "?E(" + typeid(e).name() + ")";
    }
  }
}

struct FCase { int P; std::string fam, op, pay, wrap; int salt, late; std::string dep, order; };
static MPI_Comm g_hcomm, g_wdup, g_rev, g_fcomm;   // g_rev: all ranks, order reversed (key = -rank); g_fcomm: communicator of the current future case
static int g_me = 0;                              // rank inside g_fcomm

static size_t nb_prefix(const std::string& o) { size_t k = 0; while (k < o.size() && o[k] != 'w' && o[k] != 'g' && o[k] != 'd') ++k; return k; }

// start() returns the future under test (started by this rank); cleanup() completes partner requests
template<class Start>
static std::string flow(const FCase& c, Start&& start, std::function<void()> cleanup = {})
{
  using F0 = decltype(start());
  std::string out;
  try {
  bool lt = c.fam != "N" && c.late >= 0;
  if (lt && g_me == c.late) MPI_Barrier(g_hcomm);
  size_t k1 = (lt && g_me != c.late) ? nb_prefix(c.order) : 0;
  auto body = [&](auto& f, auto movable) {
    using FF = std::decay_t<decltype(f)>;
    auto renew = [&](FF& ff) { if constexpr (std::is_move_assignable_v<FF>) ff = FF(start()); };
    run_ops<FF, decltype(movable)::value>(f, c.order, 0, k1, out, renew);
    if (lt && g_me != c.late) MPI_Barrier(g_hcomm);
    run_ops<FF, decltype(movable)::value>(f, c.order, k1, c.order.size(), out, renew);
    // not part of the observation: complete a still pending operation before the future is destroyed
    try { if (f.valid()) f.wait(); } catch (...) {}
  };
  if (c.wrap == "e") {
    using R = decltype(std::declval<F0&>().get());
    Dune::Future<R> f(start());
    body(f, std::true_type());
  } else if (c.wrap == "c") {
    // converting: Future<T> around a future whose get() returns T& (FutureModel::get casts)
    using R = std::decay_t<decltype(std::declval<F0&>().get())>;
    if constexpr (std::is_void_v<R>) { Dune::Future<void> f(start()); body(f, std::true_type()); }
    else { Dune::Future<R> f(start()); body(f, std::true_type()); }
  } else {
    F0 f = start();
    body(f, std::true_type());
  }
  } catch (Dune::ParallelError&) { out = "START-EXC(ParallelError)"; }
  if (cleanup) cleanup();
  return out;
}

static int val(int w, int salt, int i) { return 1000 * (w + 1) + 10 * salt + i; }
static std::vector<double> dvec(int w, int salt, int n) { std::vector<double> v(n); for (int i = 0; i < n; ++i) v[i] = val(w, salt, i); return v; }
static std::vector<int> ivec(int w, int salt, int n) { std::vector<int> v(n); for (int i = 0; i < n; ++i) v[i] = val(w, salt, i); return v; }

template<class V> static V mkvec(int w, int salt, int n) { V v(n); for (int i = 0; i < n; ++i) v[i] = val(w, salt, i); return v; }
template<class V> static V mkfill(int n, double x) { V v(n); for (int i = 0; i < n; ++i) v[i] = x; return v; }
static Dune::FieldVector<double, 3> fvec(int w, int salt) { Dune::FieldVector<double, 3> v; for (int i = 0; i < 3; ++i) v[i] = val(w, salt, i); return v; }

// single-buffer operations with an owned container payload X (sent/received/broadcast/reduced in place)
template<class X, class Comm>
static std::string single_buffer_value(const FCase& c, Comm& cc, const std::string& op, X mine, X blank, int root, int dest, int src, int tag,
                                       MPI_Request& raw, double* rawbuf, int n, std::function<void()> fin)
{
  const int me = g_me;
  if (op == "isend") return flow(c, [&]() { MPI_Irecv(rawbuf, n, MPI_DOUBLE, src, tag, g_fcomm, &raw); return cc.isend(X(mine), dest, tag); }, fin);
  if (op == "irecv") return flow(c, [&]() { MPI_Isend((void*)&mine[0], n, MPI_DOUBLE, dest, tag, g_fcomm, &raw); return cc.irecv(X(blank), src, tag); }, fin);
  if (op == "ibcast") return flow(c, [&]() { return cc.ibroadcast(X(me == root ? mine : blank), root); });
  if (op == "iallreduce1") return flow(c, [&]() { return cc.template iallreduce<std::plus<double>>(X(mine)); });
  return "UNSUPPORTED";
}

static std::string future_mpi(const FCase& c, long caseno)
{
  Dune::Communication<MPI_Comm> cc(g_fcomm);
  const int P = g_size, me = g_me, root = c.salt % P, salt = c.salt, tag = 100 + (int)(caseno % 20000);
  const int dest = (me + 1) % P, src = (me + P - 1) % P;
  const std::string& op = c.op; const char pay = c.pay[0];
  // lvalue storage for the reference payloads (outlives the future)
  int xi = val(me, salt, 0), ri = -1, zi = 0;
  std::vector<double> xv = dvec(me, salt, 3), rv(3, -1.0), zv(3, 0.0);
  MPI_Request raw = MPI_REQUEST_NULL;
  int rawi = -1; std::vector<double> rawv(3000, -1.0);
  auto fin = [&]() { if (raw != MPI_REQUEST_NULL) MPI_Wait(&raw, MPI_STATUS_IGNORE); };
  if (op == "ibarrier") return flow(c, [&]() { return cc.ibarrier(); });
  if (op == "default") {
    if (pay == 'i') return flow(c, [&]() { return Dune::MPIFuture<int>(); });
    if (pay == 'v') return flow(c, [&]() { return Dune::MPIFuture<std::vector<double>>(); });
    return flow(c, [&]() { return Dune::MPIFuture<void>(); });
  }
  if (op == "mkvalid") {   // MPIFuture(bool valid = true): valid, value-initialised buffer, null request
    if (pay == 'i') return flow(c, [&]() { return Dune::MPIFuture<int>(true); });
    if (pay == 'v') return flow(c, [&]() { return Dune::MPIFuture<std::vector<double>>(true); });
    return flow(c, [&]() { return Dune::MPIFuture<void>(true); });
  }
  if (op == "efuture") {   // default-constructed type-erased Dune::Future<T>: invalid, must report misuse
    if (pay == 'i') return flow(c, [&]() { return Dune::Future<int>(); });
    return flow(c, [&]() { return Dune::Future<void>(); });
  }
  if (pay == 'q') return single_buffer_value<Dune::DynamicVector<double>>(c, cc, op, mkvec<Dune::DynamicVector<double>>(me, salt, 3),
                          mkfill<Dune::DynamicVector<double>>(3, -1.0), root, dest, src, tag, raw, rawv.data(), 3, fin);
  if (pay == 'L') return single_buffer_value<std::vector<double>>(c, cc, op, dvec(me, salt, 3000), std::vector<double>(3000, -1.0),
                          root, dest, src, tag, raw, rawv.data(), 3000, fin);
  if (pay == 'l') {   // another scalar element type
    long xl = val(me, salt, 0); static long rawl; rawl = -1;
    if (op == "isend") return flow(c, [&]() { MPI_Irecv(&rawl, 1, MPI_LONG, src, tag, g_fcomm, &raw); return cc.isend(long(xl), dest, tag); }, fin);
    if (op == "irecv") return flow(c, [&]() { MPI_Isend(&xl, 1, MPI_LONG, dest, tag, g_fcomm, &raw); return cc.irecv(long(-1), src, tag); }, fin);
    if (op == "ibcast") return flow(c, [&]() { return cc.ibroadcast(long(me == root ? xl : -1), root); });
    if (op == "iallreduce1") return flow(c, [&]() { return cc.template iallreduce<std::plus<long>>(long(xl)); });
    return "UNSUPPORTED";
  }
  if (pay == 's') {   // std::string is a container payload of MPIData too
    std::string mine(3, 'a'), blank(3, '?'); static char rawc[4];
    for (int i = 0; i < 3; ++i) mine[i] = (char)('a' + val(me, salt, i) % 26);
    if (op == "isend") return flow(c, [&]() { MPI_Irecv(rawc, 3, MPI_CHAR, src, tag, g_fcomm, &raw); return cc.isend(std::string(mine), dest, tag); }, fin);
    if (op == "irecv") return flow(c, [&]() { MPI_Isend(mine.data(), 3, MPI_CHAR, dest, tag, g_fcomm, &raw); return cc.irecv(std::string(blank), src, tag); }, fin);
    if (op == "ibcast") return flow(c, [&]() { return cc.ibroadcast(std::string(me == root ? mine : blank), root); });
    return "UNSUPPORTED";
  }
  if (pay == 'e') {   // size 0
    if (op == "isend") return flow(c, [&]() { MPI_Irecv(rawv.data(), 0, MPI_DOUBLE, src, tag, g_fcomm, &raw); return cc.isend(std::vector<double>(), dest, tag); }, fin);
    if (op == "ibcast") return flow(c, [&]() { return cc.ibroadcast(std::vector<double>(), root); });
    return "UNSUPPORTED";
  }
  if (pay == 'F') {
    Dune::FieldVector<double, 3> mine = fvec(me, salt), blank(-1.0);
    if (op == "isend") return flow(c, [&]() { MPI_Irecv(rawv.data(), 3, MPI_DOUBLE, src, tag, g_fcomm, &raw); return cc.isend(Dune::FieldVector<double, 3>(mine), dest, tag); }, fin);
    if (op == "irecv") return flow(c, [&]() { MPI_Isend(&mine[0], 3, MPI_DOUBLE, dest, tag, g_fcomm, &raw); return cc.irecv(Dune::FieldVector<double, 3>(blank), src, tag); }, fin);
    if (op == "ibcast") return flow(c, [&]() { return cc.ibroadcast(Dune::FieldVector<double, 3>(me == root ? mine : blank), root); });
    return "UNSUPPORTED";
  }
  if (op == "isend") {
    auto post = [&]() { if (pay == 'i' || pay == 'j') MPI_Irecv(&rawi, 1, MPI_INT, src, tag, g_fcomm, &raw);
                        else MPI_Irecv(rawv.data(), 3, MPI_DOUBLE, src, tag, g_fcomm, &raw); };
    switch (pay) {
      case 'i': return flow(c, [&]() { post(); return cc.isend(int(xi), dest, tag); }, fin);
      case 'j': return flow(c, [&]() { post(); return cc.isend(xi, dest, tag); }, fin);
      case 'v': return flow(c, [&]() { post(); return cc.isend(std::vector<double>(xv), dest, tag); }, fin);
      case 'w': return flow(c, [&]() { post(); return cc.isend(xv, dest, tag); }, fin);
    }
  }
  if (op == "irecv") {
    auto post = [&]() { if (pay == 'i' || pay == 'j') MPI_Isend(&xi, 1, MPI_INT, dest, tag, g_fcomm, &raw);
                        else MPI_Isend(xv.data(), 3, MPI_DOUBLE, dest, tag, g_fcomm, &raw); };
    switch (pay) {
      case 'i': return flow(c, [&]() { post(); return cc.irecv(int(-1), src, tag); }, fin);
      case 'j': return flow(c, [&]() { post(); return cc.irecv(ri, src, tag); }, fin);
      case 'v': return flow(c, [&]() { post(); return cc.irecv(std::vector<double>(3, -1.0), src, tag); }, fin);
      case 'w': return flow(c, [&]() { post(); return cc.irecv(rv, src, tag); }, fin);
      case 'z': return flow(c, [&]() { return cc.irecv(std::vector<double>(), src, tag); });   // empty buffer: documented ParallelError
    }
  }
  if (op == "ibcast") {
    int bi = me == root ? xi : -1; std::vector<double> bv = me == root ? xv : std::vector<double>(3, -1.0);
    switch (pay) {
      case 'i': return flow(c, [&]() { return cc.ibroadcast(int(bi), root); });
      case 'j': return flow(c, [&]() { return cc.ibroadcast(bi, root); });
      case 'v': return flow(c, [&]() { return cc.ibroadcast(std::vector<double>(bv), root); });
      case 'w': return flow(c, [&]() { return cc.ibroadcast(bv, root); });
    }
  }
  if (op == "igather") {
    std::vector<int> oi = me == root ? std::vector<int>(P, -1) : std::vector<int>{9000 + me};
    std::vector<double> ov = me == root ? std::vector<double>(3 * P, -1.0) : std::vector<double>{9000.0 + me};
    switch (pay) {
      case 'i': return flow(c, [&]() { return cc.igather(int(xi), std::vector<int>(oi), root); });
      case 'j': return flow(c, [&]() { return cc.igather(xi, oi, root); });
      case 'v': return flow(c, [&]() { return cc.igather(std::vector<double>(xv), std::vector<double>(ov), root); });
      case 'w': return flow(c, [&]() { return cc.igather(xv, ov, root); });
    }
  }
  if (op == "iscatter") {
    std::vector<int> si = me == root ? ivec(me, salt, P) : std::vector<int>();
    std::vector<double> sv = me == root ? dvec(me, salt, 3 * P) : std::vector<double>();
    switch (pay) {
      case 'i': return flow(c, [&]() { return cc.iscatter(std::vector<int>(si), int(-1), root); });
      case 'j': return flow(c, [&]() { return cc.iscatter(si, ri, root); });
      case 'v': return flow(c, [&]() { return cc.iscatter(std::vector<double>(sv), std::vector<double>(3, -1.0), root); });
      case 'w': return flow(c, [&]() { return cc.iscatter(sv, rv, root); });
    }
  }
  if (op == "iallgather") {
    std::vector<int> oi(P, -1); std::vector<double> ov(3 * P, -1.0);
    switch (pay) {
      case 'i': return flow(c, [&]() { return cc.iallgather(int(xi), std::vector<int>(oi)); });
      case 'j': return flow(c, [&]() { return cc.iallgather(xi, oi); });
      case 'v': return flow(c, [&]() { return cc.iallgather(std::vector<double>(xv), std::vector<double>(ov)); });
      case 'w': return flow(c, [&]() { return cc.iallgather(xv, ov); });
    }
  }
  if (op == "iallreduce") {     // two-argument form (send buffer + receive buffer)
    switch (pay) {
      case 'i': return flow(c, [&]() { return cc.template iallreduce<std::plus<int>>(int(xi), int(0)); });
      case 'j': return flow(c, [&]() { return cc.template iallreduce<std::plus<int>>(xi, zi); });
      case 'v': return flow(c, [&]() { return cc.template iallreduce<std::plus<double>>(std::vector<double>(xv), std::vector<double>(3, 0.0)); });
      case 'w': return flow(c, [&]() { return cc.template iallreduce<std::plus<double>>(xv, zv); });
    }
  }
  if (op == "iallreduce1") {    // in-place form
    switch (pay) {
      case 'i': return flow(c, [&]() { return cc.template iallreduce<std::plus<int>>(int(xi)); });
      case 'j': return flow(c, [&]() { return cc.template iallreduce<std::plus<int>>(xi); });
      case 'v': return flow(c, [&]() { return cc.template iallreduce<std::plus<double>>(std::vector<double>(xv)); });
      case 'w': return flow(c, [&]() { return cc.template iallreduce<std::plus<double>>(xv); });
    }
  }
  return "UNSUPPORTED";
}

static std::string future_seq(const FCase& c)
{
  Dune::Communication<Dune::No_Comm> cc;
  const int me = g_rank, salt = c.salt;
  const std::string& op = c.op; const char pay = c.pay[0];
  int xi = val(me, salt, 0), ri = -1, zi = 0;
  std::vector<double> xv = dvec(me, salt, 3), zv(3, 0.0);
  if (op == "ibarrier") return flow(c, [&]() { return cc.ibarrier(); });
  if (op == "default") {
    if (pay == 'i') return flow(c, [&]() { return Dune::PseudoFuture<int>(); });
    return flow(c, [&]() { return Dune::PseudoFuture<void>(); });
  }
  // point-to-point is documented as unsupported in sequential programs: ParallelError
  if (op == "isend") return flow(c, [&]() { return cc.isend(int(xi), 0, 1); });
  if (op == "irecv") return flow(c, [&]() { return cc.irecv(int(-1), 0, 1); });
  if (op == "ibcast") {
    switch (pay) {
      case 'i': return flow(c, [&]() { return cc.ibroadcast(int(xi), 0); });
      case 'j': return flow(c, [&]() { return cc.ibroadcast(xi, 0); });
      case 'v': return flow(c, [&]() { return cc.ibroadcast(std::vector<double>(xv), 0); });
      case 'w': return flow(c, [&]() { return cc.ibroadcast(xv, 0); });
      case 'q': return flow(c, [&]() { return cc.ibroadcast(mkvec<Dune::DynamicVector<double>>(me, salt, 3), 0); });
    }
  }
  if (op == "igather" && pay == 'i') return flow(c, [&]() { return cc.igather(int(xi), std::vector<int>(1, -1), 0); });
  if (op == "iscatter" && pay == 'i') return flow(c, [&]() { return cc.iscatter(std::vector<int>(1, xi), int(-1), 0); });
  // (scalar contributions only: like igather, the sequential iallgather stores the contribution with *out.begin() = in)
  if (op == "iallgather" && pay == 'i') return flow(c, [&]() { return cc.iallgather(int(xi), std::vector<int>(1, -1)); });
  if (op == "iallreduce") {
    switch (pay) {
      case 'i': return flow(c, [&]() { return cc.template iallreduce<std::plus<int>>(int(xi), int(0)); });
      case 'j': return flow(c, [&]() { return cc.template iallreduce<std::plus<int>>(xi, zi); });
      case 'v': return flow(c, [&]() { return cc.template iallreduce<std::plus<double>>(std::vector<double>(xv), std::vector<double>(3, 0.0)); });
      case 'w': return flow(c, [&]() { return cc.template iallreduce<std::plus<double>>(xv, zv); });
    }
  }
  if (op == "iallreduce1") {
    switch (pay) {
      case 'i': return flow(c, [&]() { return cc.template iallreduce<std::plus<int>>(int(xi)); });
      case 'j': return flow(c, [&]() { return cc.template iallreduce<std::plus<int>>(xi); });
      case 'v': return flow(c, [&]() { return cc.template iallreduce<std::plus<double>>(std::vector<double>(xv)); });
      case 'w': return flow(c, [&]() { return cc.template iallreduce<std::plus<double>>(xv); });
    }
  }
  return "UNSUPPORTED";
}

// ------------------------------------------------------------------------------------------------ several futures / posted requests
//   X P M multi pay wrap salt nslots actor script        script: '-' separated steps executed by rank `actor` (partner = actor+1 mod P)
//     p<s> slot_s = comm.irecv(buffer, partner, tag)  (construction if the slot has no object, move assignment otherwise)
//     q<s> slot_s = comm.isend(value, partner, tag+1)
//     c<s><t> F slot_t(std::move(slot_s))    a<s><t> slot_t = std::move(slot_s)    x<s> destroy slot_s
//     v<s> r<s> w<s> g<s> member calls      S  the partner sends its next message (two harness barriers around the send)
//   observation of the actor: one token per step  <step><result>/<number of requests posted in MPI>, then E/<n> after all slots
//   were destroyed;  <step>T = MPI_Wait did not return within C19_WAITMS (the rest of the script is skipped)
template<class T> struct XPay;
template<> struct XPay<int> { static int blank() { return -1; } static int msg(int v) { return v; } static int count() { return 1; } static MPI_Datatype type() { return MPI_INT; } };
template<> struct XPay<std::vector<double>> {
  static std::vector<double> blank() { return std::vector<double>(3, -1.0); }
  static std::vector<double> msg(int v) { return std::vector<double>{10.0 * v, 10.0 * v + 1, 10.0 * v + 2}; }
  static int count() { return 3; } static MPI_Datatype type() { return MPI_DOUBLE; } };

template<class T, bool ERASED>
static std::string run_x(int salt, int nslots, int actor, const std::vector<std::string>& steps, long caseno)
{
  using V = std::decay_t<T>;
  using MF = Dune::MPIFuture<T>;
  using F = std::conditional_t<ERASED, Dune::Future<T>, MF>;
  Dune::Communication<MPI_Comm> cc(g_wdup);
  const int P = g_size, partner = (actor + 1) % P, tag = 40000 + 2 * (int)(caseno % 100000);
  const bool me_actor = g_rank == actor, me_partner = g_rank == partner;
  std::deque<V> store;                          // lvalue buffers of the reference payloads (outlive every future)
  std::deque<V> sent; std::deque<MPI_Request> sreq;   // partner side
  std::vector<std::optional<F>> slot(nslots);
  std::string out; bool aborted = false; int nmsg = 0, npost = 0, nq = 0;
  auto tok = [&](const std::string& t) { if (!out.empty()) out += " "; out += t + "/" + std::to_string(g_posted.size()); };
  auto start = [&](bool snd) -> MF {
    int h = npost++;
    if constexpr (std::is_reference_v<T>) {
      store.push_back(snd ? XPay<V>::msg(7000 + h) : XPay<V>::blank());
      return snd ? cc.isend(store.back(), partner, tag + 1) : cc.irecv(store.back(), partner, tag);
    } else
      return snd ? cc.isend(V(XPay<V>::msg(7000 + h)), partner, tag + 1) : cc.irecv(V(XPay<V>::blank()), partner, tag);
  };
  g_posted.clear();
  for (const std::string& st : steps) {
    if (st == "S") {
      MPI_Barrier(g_hcomm);
      if (me_partner) {
        ++nmsg; sent.push_back(XPay<V>::msg(100 * (salt + 1) + nmsg)); sreq.push_back(MPI_REQUEST_NULL);
        void* ptr; if constexpr (std::is_same_v<V, int>) ptr = &sent.back(); else ptr = sent.back().data();
        PMPI_Isend(ptr, XPay<V>::count(), XPay<V>::type(), actor, tag, g_wdup, &sreq.back());
      }
      MPI_Barrier(g_hcomm);
      if (me_actor && !aborted) tok("S.");
      continue;
    }
    if (st[0] == 'q') ++nq;
    if (!me_actor || aborted) continue;
    const char c = st[0]; const int s = st.size() > 1 ? st[1] - '0' : 0, t = st.size() > 2 ? st[2] - '0' : 0;
    if (s < 0 || s >= nslots || t < 0 || t >= nslots) { tok(st + "?"); continue; }
    g_track = true;
    try {
      switch (c) {
        case 'p': case 'q':
          if (!slot[s]) slot[s].emplace(start(c == 'q')); else *slot[s] = F(start(c == 'q'));
          g_track = false; tok(st + "."); break;
        case 'c':
          if (slot[s] && !slot[t]) { slot[t].emplace(std::move(*slot[s])); g_track = false; tok(st + "."); } else { g_track = false; tok(st + "?"); }
          break;
        case 'a':
          if (slot[s] && slot[t]) { F& src = *slot[s]; *slot[t] = std::move(src); g_track = false; tok(st + "."); } else { g_track = false; tok(st + "?"); }
          break;
        case 'x':
          if (slot[s]) { slot[s].reset(); g_track = false; tok(st + "."); } else { g_track = false; tok(st + "?"); }
          break;
        case 'v': if (slot[s]) { bool b = slot[s]->valid(); g_track = false; tok(st + (b ? "1" : "0")); } else { g_track = false; tok(st + "?"); } break;
        case 'r': if (slot[s]) { bool b = slot[s]->ready(); g_track = false; tok(st + (b ? "1" : "0")); } else { g_track = false; tok(st + "?"); } break;
        case 'w': if (slot[s]) { slot[s]->wait(); g_track = false; tok(st + "."); } else { g_track = false; tok(st + "?"); } break;
        case 'g': if (slot[s]) { auto&& x = slot[s]->get(); g_track = false; tok(st + show(x)); } else { g_track = false; tok(st + "?"); } break;
        default: g_track = false; tok(st + "??");
      }
    } catch (Dune::InvalidFutureException&) { g_track = false; tok(st + "X");
    } catch (WaitTimeout&) { g_track = false; tok(st + "T"); aborted = true;
    } catch (Dune::Exception& e) { g_track = false; tok(st + "?E(" + typeid(e).name() + ")"); }
  }
  if (me_actor) {
    g_track = true;
    try { for (auto& sl : slot) sl.reset(); } catch (...) {}
    g_track = false;
    tok("E");
    // not part of the observation: withdraw what the code under test left posted, so that the next case starts clean
    for (MPI_Request r : g_posted) { PMPI_Cancel(&r); PMPI_Request_free(&r); }
    g_posted.clear();
  }
  MPI_Barrier(g_hcomm);
  if (me_partner) {
    for (int i = 0; i < nq; ++i) { V scratch = XPay<V>::blank(); void* ptr; if constexpr (std::is_same_v<V, int>) ptr = &scratch; else ptr = scratch.data();
                                   PMPI_Recv(ptr, XPay<V>::count(), XPay<V>::type(), actor, tag + 1, g_wdup, MPI_STATUS_IGNORE); }
    for (MPI_Request& r : sreq) if (r != MPI_REQUEST_NULL) PMPI_Wait(&r, MPI_STATUS_IGNORE);
  }
  return me_actor ? out : std::string("-");
}

static std::string run_x_case(const std::vector<std::string>& t, long caseno)
{
  const char pay = t[4][0]; const bool er = t[5] == "e";
  const int salt = atoi(t[6].c_str()), nslots = atoi(t[7].c_str()), actor = atoi(t[8].c_str());
  std::vector<std::string> steps; { std::string cur; for (char ch : t[9]) { if (ch == '-') { steps.push_back(cur); cur.clear(); } else cur += ch; } steps.push_back(cur); }
  if (nslots < 1 || nslots > 9 || actor < 0 || actor >= g_size) return "BAD-CASE";
  switch (pay) {
    case 'i': return er ? run_x<int, true>(salt, nslots, actor, steps, caseno) : run_x<int, false>(salt, nslots, actor, steps, caseno);
    case 'j': return er ? run_x<int&, true>(salt, nslots, actor, steps, caseno) : run_x<int&, false>(salt, nslots, actor, steps, caseno);
    case 'v': return er ? run_x<std::vector<double>, true>(salt, nslots, actor, steps, caseno) : run_x<std::vector<double>, false>(salt, nslots, actor, steps, caseno);
    case 'w': return er ? run_x<std::vector<double>&, true>(salt, nslots, actor, steps, caseno) : run_x<std::vector<double>&, false>(salt, nslots, actor, steps, caseno);
  }
  return "UNSUPPORTED";
}

// ------------------------------------------------------------------------------------------------ main
static std::vector<std::string> split(const std::string& s, char d)
{
  std::vector<std::string> r; std::string cur;
  for (char ch : s) { if (ch == d) { r.push_back(cur); cur.clear(); } else cur += ch; }
  r.push_back(cur);
  return r;
}

int main(int argc, char** argv)
{
  Dune::MPIHelper& helper = Dune::MPIHelper::instance(argc, argv);
  g_rank = helper.rank(); g_size = helper.size();
  if (argc < 3) { if (g_rank == 0) fprintf(stderr, "usage: impl cases out\n"); return 2; }
  MPI_Comm_dup(MPI_COMM_WORLD, &g_hcomm);
  MPI_Comm_dup(MPI_COMM_WORLD, &g_wdup);
  MPI_Comm_split(MPI_COMM_WORLD, 0, -g_rank, &g_rev);
  int alarm_s = getenv("C19_ALARM") ? atoi(getenv("C19_ALARM")) : 20;
  if (getenv("C19_WAITMS")) g_waitms = atol(getenv("C19_WAITMS"));
  signal(SIGALRM, on_alarm);
  std::ifstream in(argv[1]);
  FILE* out = fopen((std::string(argv[2]) + "." + std::to_string(g_rank)).c_str(), "w");
  std::map<std::string, MPI_Comm> splits;
  auto split_comm = [&](const std::string& colors) -> MPI_Comm {
    auto it = splits.find(colors);
    if (it == splits.end()) {
      MPI_Comm nc; MPI_Comm_split(MPI_COMM_WORLD, colors[g_rank] - '0', g_rank, &nc);
      it = splits.emplace(colors, nc).first;
    }
    return it->second;
  };
  auto run_kind = [&](const std::string& kind, bool act, const std::string& colors, const std::string& script) -> std::string {
    MPI_Comm sc = (kind == "S" || kind == "T") ? split_comm(colors) : MPI_COMM_NULL;
    if (kind == "H") return run_guard([&]() { return Dune::MPIGuard(act); }, script, true);
    if (kind == "M") return run_guard([&]() { return Dune::MPIGuard(helper, act); }, script, true);
    if (kind == "C") return run_guard([&]() { return Dune::MPIGuard(Dune::Communication<MPI_Comm>(g_wdup), act); }, script, true);
    if (kind == "W") return run_guard([&]() { return Dune::MPIGuard(g_wdup, act); }, script, true);
    if (kind == "S") return run_guard([&]() { return Dune::MPIGuard(sc, act); }, script, true);
    if (kind == "R") return run_guard([&]() { return Dune::MPIGuard(g_rev, act); }, script, true);                              // ranks reversed w.r.t. world
    if (kind == "D") return run_guard([&]() { return Dune::MPIGuard(Dune::Communication<MPI_Comm>(), act); }, script, true);   // default argument MPI_COMM_WORLD
    if (kind == "T") return run_guard([&]() { return Dune::MPIGuard(Dune::Communication<MPI_Comm>(sc), act); }, script, true);
    // default argument `active = true` of every constructor (lower case kinds, act must be 1)
    if (kind == "h") return run_guard([&]() { return Dune::MPIGuard(); }, script, true);
    if (kind == "m") return run_guard([&]() { return Dune::MPIGuard(helper); }, script, true);
    if (kind == "c") return run_guard([&]() { return Dune::MPIGuard(Dune::Communication<MPI_Comm>(g_wdup)); }, script, true);
    if (kind == "w") return run_guard([&]() { return Dune::MPIGuard(g_wdup); }, script, true);
    if (kind == "n") return run_guard([&]() { return Dune::MPIGuard(Dune::Communication<Dune::No_Comm>()); }, script, false);
    // Communication<MPI_Comm>(Communication<No_Comm>) = MPI_COMM_SELF
    if (kind == "X") return run_guard([&]() { return Dune::MPIGuard(Dune::Communication<MPI_Comm>(Dune::Communication<Dune::No_Comm>()), act); }, script, true);
    if (kind == "N") return run_guard([&]() { return Dune::MPIGuard(Dune::Communication<Dune::No_Comm>(), act); }, script, false);
    return "BAD-KIND";
  };
  std::string line;
  long caseno = 0;
  while (std::getline(in, line)) {
    g_case = caseno;
    std::istringstream ls(line);
    std::vector<std::string> t; std::string w;
    while (ls >> w) t.push_back(w);
    std::string res = "BAD-CASE";
    alarm(alarm_s);
    if (!t.empty() && atoi(t.size() > 1 ? t[1].c_str() : "0") != g_size) res = "SKIP(P)";
    else if (t.size() >= 8 && t[0] == "G") {
      std::vector<std::string> scripts = split(t[7], ',');
      std::string script = (size_t)g_rank < scripts.size() ? scripts[g_rank] : "-";
      if (script == "-") script = "";
      res = run_kind(t[2], t[3] == "1", t[4], script);
    }
    else if (t.size() >= 7 && t[0] == "Q") {
      // several scopes one after the other (a new guard each), NO harness synchronisation in between
      std::vector<std::string> scripts = split(t[6], ',');
      std::vector<std::string> mine = split((size_t)g_rank < scripts.size() ? scripts[g_rank] : "", ';');
      res.clear();
      for (size_t j = 0; j < mine.size(); ++j) {
        if (j) res += ";";
        res += run_kind(t[2], j < t[3].size() && t[3][j] == '1', t[4], mine[j] == "-" ? std::string() : mine[j]);
      }
    }
    else if (t.size() >= 6 && (t[0] == "N" || t[0] == "O")) {
      // nested: outer guard on the world communicator, inner guard on the split communicator of this rank's colour
      std::vector<std::string> scripts = split(t[5], ',');
      std::string script = (size_t)g_rank < scripts.size() ? scripts[g_rank] : "";
      MPI_Comm sc = t[0] == "O" ? g_wdup : split_comm(t[2]);    // O: inner and outer guard on the SAME communicator
      std::string inner = "?", outer = "?";
      long c0 = g_allreduce, c1 = c0;
      try {
        Dune::MPIGuard og(g_wdup);
        try {
          std::string r = run_guard([&]() { return Dune::MPIGuard(sc); }, script, true, true);   // rethrows
          inner = r; c1 = g_allreduce;
        } catch (GuardLeft& gl) { inner = gl.obs; c1 = g_allreduce; throw UserExc(); }
        og.finalize();
        outer = "N";
      } catch (Dune::MPIGuardError& e) {
        std::string w = e.what(); size_t p = w.find("due to "), q = w.find("Terminating process ");
        outer = "G0e" + std::to_string(p == std::string::npos ? -1 : atoi(w.c_str() + p + 7)) + "r" + std::to_string(q == std::string::npos ? -1 : atoi(w.c_str() + q + 20));
      } catch (UserExc&) { outer = "P"; }
      res = inner + "/" + outer + ":" + std::to_string(g_allreduce - c1);
      (void)c0;
    }
    else if (t.size() >= 10 && t[0] == "X") {
      try { res = run_x_case(t, caseno); }
      catch (Dune::Exception& e) { g_track = false; res = std::string("?E(") + typeid(e).name() + ")"; }
    }
    else if (t.size() >= 10 && t[0] == "F") {
      FCase c{atoi(t[1].c_str()), t[2], t[3], t[4], t[5], atoi(t[6].c_str()), atoi(t[7].c_str()), t[8], t[9]};
      g_fcomm = c.fam == "R" ? g_rev : g_wdup; g_me = c.fam == "N" ? g_rank : (c.fam == "R" ? g_size - 1 - g_rank : g_rank);
      try { res = c.fam != "N" ? future_mpi(c, caseno) : future_seq(c); }
      catch (Dune::Exception& e) { res = std::string("?E(") + typeid(e).name() + ")"; }
    }
    // cases are separated by a barrier on the harness' own communicator: a process that skipped a collective of the code
    // under test must not match the next case's collectives; it waits here until the watchdog of the blocked process fires
    MPI_Barrier(g_hcomm);
    alarm(0);
    fprintf(out, "%s\n", res.c_str()); fflush(out);
    ++caseno;
  }
  if (out) fclose(out);
  return 0;
}
