# C20 impl driver: interprets the op scripts of the case file (argv[1]) on the real dune.common objects
# (FieldVector classes generated just-in-time from dune/python/common/fvector.hh + densevector.hh of the tree the
# check points the JIT at, wrapped by python/dune/common/__init__.py of that tree) and prints ONE flushed line
# per case in the canonical form of ml/C20_driver.ml:
#     obs ; obs ; ... # {dump of all registers}
# Run as:  /repo/_build/run-in-dune-env python3 impl.py cases.txt       (env: DUNE_PY_DIR, PYTHONPATH set by checks/C20.py)
# `python3 impl.py --info` prints where dune.common, its extension and the JIT build script come from.
# `python3 impl.py --prebuild n` only generates/loads the FieldVector class of size n.
import sys, os, math, array, operator
from fractions import Fraction
import numpy as np
import dune.common as dc

_classes = {}
_float_mode = [False]          # `f32` scripts: Dune::FieldVector<float,n> (another instance of the registerFieldVector template)


def cls_float(n):
    key = ("f", n)
    if key not in _classes:
        C = dc._loadVec([], "Dune::FieldVector< float ," + str(n) + " >").FieldVector
        # what dune.common.FieldVector() does to the classes it generates
        if "_getitem" not in C.__dict__:
            setattr(C, "_getitem", C.__getitem__); setattr(C, "__getitem__", dc._fieldVectorGetItem)
            setattr(C, "_setitem", C.__setitem__); setattr(C, "__setitem__", dc._fieldVectorSetItem)
        _classes[key] = C
    return _classes[key]


def cls_double(n):
    if n not in _classes:
        _classes[n] = type(dc.FieldVector([0.0] * n))
    return _classes[n]


def cls(n):
    return cls_float(n) if _float_mode[0] else cls_double(n)


def fr(x):
    x = float(x)
    if math.isnan(x):
        return "nan"
    if math.isinf(x):
        return "inf" if x > 0 else "-inf"
    f = Fraction(x)
    return str(f.numerator) if f.denominator == 1 else "%d/%d" % (f.numerator, f.denominator)


def q(s):
    return Fraction(s)


def num(f, as_int=True):
    """the Python number handed to the binding: int for integral values (exercises int -> double), else float"""
    return int(f) if (as_int and f.denominator == 1) else float(f)


def qlist(s):
    return [] if s == "-" else [Fraction(t) for t in s.split(",")]


def is_fv(o):
    return type(o).__name__ == "FieldVector" and hasattr(o, "two_norm2")


def is_dv(o):
    return type(o).__name__ == "DynamicVector" and hasattr(o, "two_norm2")


DYNF_SRC = """
#include <config.h>
#include <dune/python/common/typeregistry.hh>
#include <dune/python/common/dynvector.hh>
#include <dune/python/pybind11/pybind11.h>
// DynamicVector<float> bound with registerDynamicVector of the CHECKED tree's dynvector.hh / densevector.hh
// (dune.common.DynamicVector = DynamicVector<double> lives in the prebuilt _common.so of /repo/_build)
PYBIND11_MODULE( c20dynf, module )
{
  Dune::Python::addToTypeRegistry<float>(Dune::Python::GenerateTypeName("float"));
  Dune::Python::registerDynamicVector<float>(module);
}
"""
_dynf = []


def dyn_class(jit):
    if not jit:
        return dc.DynamicVector
    if not _dynf:
        from dune.generator import builder
        D = builder.load("c20dynf", DYNF_SRC, "c20dynf").DynamicVector
        # what python/dune/common/__init__.py does to dune.common.DynamicVector, if anything, is done to this class too
        for name in ("__getitem__", "__setitem__"):
            w = dc.DynamicVector.__dict__.get(name)
            if w is not None and type(w).__name__ == "function":
                setattr(D, "_" + name.strip("_"), getattr(D, name))
                setattr(D, name, w)
        _dynf.append(D)
    return _dynf[0]


def vals_of(o):
    if is_dv(o):
        g = getattr(o, "_getitem", None) or o.__getitem__
        return [g(i) for i in range(len(o))]
    if is_fv(o):
        return [o._getitem(i) if hasattr(o, "_getitem") else o[i] for i in range(len(o))]
    return [x for x in o.tolist()]


def objstr(o):
    if o is None:
        return "x"                       # dropped register
    if is_dv(o):
        return "d[" + ",".join(fr(x) for x in vals_of(o)) + "]"
    if is_fv(o):
        return "v[" + ",".join(fr(x) for x in vals_of(o)) + "]"
    if isinstance(o, np.ndarray) and o.ndim == 1:
        return "a[" + ",".join(fr(x) for x in o.tolist()) + "]"
    return "?" + type(o).__name__


def dump(R):
    return "{" + "|".join(objstr(o) for o in R) + "}"


def canon_str(o, s):
    """sign of zero is not observed: '-0.000000' printed for an entry that equals 0 becomes '0.000000'"""
    try:
        head, _, rest = s.rpartition("(")
        toks = rest[:-1].split(", ")
        vs = vals_of(o)
        if len(toks) == len(vs):
            toks = [t[1:] if (t.startswith("-") and float(v) == 0.0) else t for t, v in zip(toks, vs)]
            return head + "(" + ", ".join(toks) + ")"
    except Exception:
        pass
    return s


def optz(s):
    return None if s == "_" else int(s)


def construct(n, kind, vals):
    C = cls(n)
    if kind == "noarg":
        return C()
    if kind == "list":
        return C([num(v) for v in vals])
    if kind == "listf":
        return C([float(v) for v in vals])
    if kind == "tuple":
        return C(tuple(num(v) for v in vals))
    if kind == "args":
        return C(*[num(v) for v in vals])
    if kind == "np":
        return C(np.array([float(v) for v in vals], dtype=np.float64))
    if kind == "nprev":
        return C(np.array([float(v) for v in reversed(vals)], dtype=np.float64)[::-1])
    if kind == "npstride":
        base = []
        for v in vals:
            base += [float(v), 12345.0]
        return C(np.array(base, dtype=np.float64)[::2])
    if kind == "array":
        return C(array.array("d", [float(v) for v in vals]))
    if kind == "fact":
        return dc.FieldVector([num(v) for v in vals])
    if kind == "factgen":                       # the factory accepts any iterable (list(values))
        return dc.FieldVector(num(v) for v in vals)
    if kind == "npcol":                         # a column of a two-dimensional array: one-dimensional, not contiguous
        M = np.full((len(vals), 3), 777.0)
        M[:, 1] = [float(v) for v in vals]
        return C(M[:, 1])
    if kind == "memview":
        return C(memoryview(array.array("d", [float(v) for v in vals])))
    # seeding round 6: kind / flags of the exporting buffer.  Read-only exporters are as good as writable ones (the entries are copied)
    if kind == "npro":
        a = np.array([float(v) for v in vals], dtype=np.float64); a.flags.writeable = False
        return C(a)
    if kind == "npfrombytes":                   # a read-only array over an immutable bytes object
        return C(np.frombuffer(np.array([float(v) for v in vals], dtype=np.float64).tobytes(), dtype=np.float64))
    if kind == "mvro":                          # a read-only memoryview with format 'd' over a bytes object
        return C(memoryview(np.array([float(v) for v in vals], dtype=np.float64).tobytes()).cast("d"))
    if kind == "npbc":                          # broadcast view: stride 0, read-only (the generator gives equal values)
        return C(np.broadcast_to(np.array([float(vals[0]) if vals else 0.0]), (len(vals),)))
    # rejected: non-native byte order, raw bytes, float itemsize 4, zero- and two-dimensional read-only arrays
    if kind == "npbe":
        return C(np.array([float(v) for v in vals], dtype=">f8"))
    if kind == "bytes":
        return C(bytes(8 * len(vals)))
    if kind == "arrayf":
        return C(array.array("f", [float(v) for v in vals]))
    if kind == "np0d":
        return C(np.array(float(vals[0]) if vals else 0.0))
    if kind == "npro2d":
        return C(np.broadcast_to(np.array([float(v) for v in vals], dtype=np.float64), (2, len(vals))))
    # rejected buffers: other element types, not one-dimensional
    if kind == "npint":
        return C(np.array([int(v) for v in vals], dtype=np.int64))
    if kind == "npf32":
        return C(np.array([float(v) for v in vals], dtype=np.float32))
    if kind == "nprev32":
        return C(np.array([float(v) for v in reversed(vals)], dtype=np.float32)[::-1])
    if kind == "np2d":
        return C(np.array([[float(v) for v in vals]] * 2, dtype=np.float64))
    if kind == "bytearray":
        return C(bytearray(8 * len(vals)))
    if kind == "arrayi":
        return C(array.array("i", [int(v) for v in vals]))
    raise ValueError("bad kind " + kind)


NPV_CODE = """
#include <dune/python/common/numpyvector.hh>
// every operation goes through a Dune::Python::NumPyVector wrapped around the array (no copy)
template <class T>
double c20npv(pybind11::array_t< T >& a, int op, int i, double x)
{
  Dune::Python::NumPyVector< T > v( a );
  switch( op ) {
    case 0: return v.size();
    case 1: return v[ i ];
    case 2: v[ i ] = x; return 0;
    case 3: v *= x; return 0;
    case 4: return v.two_norm2();
    case 5: return v.one_norm();
    case 6: v += x; return 0;
    case 7: return v.infinity_norm();
    case 8: v -= x; return 0;
    case 9: v /= x; return 0;
    case 10: { const Dune::Python::NumPyVector< T > &cv = v; return cv[ i ]; }          // const access path
    case 11: { const Dune::Python::NumPyVector< T > &cv = v; return v.vec_access( i ) + cv.vec_access( i ) - cv[ i ]; }
    case 12: {                                   // NumPyVector( size ) owning a new array, conversion to array_t, coefficients()
      Dune::Python::NumPyVector< T > w( v.size() );
      for( std::size_t k = 0; k < v.size(); ++k ) w[ k ] = v[ k ];
      pybind11::array_t< T > arr( w );
      if( std::size_t( w.coefficients().size() ) != v.size() || std::size_t( arr.size() ) != w.vec_size() ) return -12345;
      w[ i ] += 1;                               // the new array is independent of the wrapped one
      return arr.at( i ) - 1;
    }
  }
  return -1;
}
"""


def npv(a, op, i=0, x=0.0):
    from io import StringIO
    from dune.generator.algorithm import run
    return run("c20npv", StringIO(NPV_CODE), a, int(op), int(i), float(x))


def as_array(x):
    return x if isinstance(x, np.ndarray) else np.array(x, copy=False)


def exporter(x, kind):
    """a fresh EXPORTER object over the memory of register x with the given flags (seeding round 6); returns (object, after)
    where after() -> "" or a complaint: run after the access to look at memory that is not visible through the registers"""
    a = as_array(x)
    none = lambda: ""
    if kind == "w":
        return a.view(), none
    if kind == "warr":                           # another writable exporter (array.array) holding the entries of x: what the
        arr = array.array("d", a.tolist())       # NumPyVector does to it is copied back into x
        def back():
            a[...] = np.frombuffer(arr, dtype=np.float64) if len(arr) else a
            return ""
        return np.frombuffer(arr, dtype=np.float64) if len(arr) else np.zeros(0), back
    if kind == "ro" or (kind == "romv" and not (a.flags.c_contiguous and a.flags.writeable and a.size)):
        v = a.view(); v.flags.writeable = False
        return v, none
    if kind == "romv":                           # the same memory exported read-only by a memoryview
        return np.frombuffer(memoryview(a).toreadonly(), dtype=a.dtype), none
    if kind == "rob":                            # an immutable bytes object holding the entries of x
        b = a.tobytes(); keep = bytearray(b)
        return np.frombuffer(b, dtype=a.dtype), (lambda: "" if bytes(keep) == b else "(BYTES-OBJECT-MUTATED)")
    if kind == "robc":                           # broadcast of the first entry: read-only, stride 0
        return np.broadcast_to(a[:1], (3,)), none
    if kind == "ro2d":
        return np.broadcast_to(a, (2, a.shape[0])), none
    if kind == "rof32":
        v = a.astype(np.float32); v.flags.writeable = False
        return v, none
    raise ValueError("bad exporter kind " + kind)


def nx_step(R, t):
    """`nx kind r access [args]`: the access through a C++ NumPyVector wrapped around an exporter of register r"""
    e, after = exporter(R[int(t[2])], t[1])
    acc = t[3]
    try:
        if acc == "len": o = "i:%d" % int(npv(e, 0))
        elif acc == "get": o = "s:" + fr(npv(e, 1, int(t[4])))
        elif acc == "set": npv(e, 2, int(t[4]), float(q(t[5]))); o = "ok"
        elif acc == "imuls": npv(e, 3, 0, float(q(t[4]))); o = "ok"
        elif acc == "iadds": npv(e, 6, 0, float(q(t[4]))); o = "ok"
        elif acc == "norm22": o = "s:" + fr(npv(e, 4))
        else: o = "UNKNOWN-OP"
    except (ValueError, BufferError, RuntimeError, TypeError) as ex:
        o = "!" + type(ex).__name__
    return o + after()


def npv_step(R, t):
    """ops of an `npv` script: the registers are NumPy arrays / views, every access goes through the C++ NumPyVector"""
    op = t[0]
    if op == "new":
        a = np.array([float(v) for v in qlist(t[3])], dtype=np.float64)
        R.append(a)
        return objstr(a)
    if op == "bad2d":
        return "s:" + fr(npv(np.zeros((2, 2)), 0))
    if op == "nx":
        return nx_step(R, t)
    if op == "newv":                     # a FieldVector; its buffer view (op `view`) is what the NumPyVector wraps
        return result(R, construct(int(t[1]), t[2], qlist(t[3])))
    x = R[int(t[1])]
    if op == "view":
        return result(R, np.array(x, copy=False))
    if op == "slice":
        return result(R, x[slice(optz(t[2]), optz(t[3]), optz(t[4]))])
    if op == "getc": return "s:" + fr(npv(x, 10, int(t[2])))
    if op == "getva": return "s:" + fr(npv(x, 11, int(t[2])))
    if op == "getcopy": return "s:" + fr(npv(x, 12, int(t[2])))
    if op == "len": return "i:%d" % int(npv(x, 0))
    if op == "get": return "s:" + fr(npv(x, 1, int(t[2])))          # only in-range, non-negative indices (C++ operator[])
    if op == "set": npv(x, 2, int(t[2]), float(q(t[3]))); return "ok"
    if op == "imuls": npv(x, 3, 0, float(q(t[2]))); return "ok"
    if op == "idivs": npv(x, 9, 0, float(q(t[2]))); return "ok"
    if op == "iadds": npv(x, 6, 0, float(q(t[2]))); return "ok"
    if op == "isubs": npv(x, 8, 0, float(q(t[2]))); return "ok"
    if op == "norm22": return "s:" + fr(npv(x, 4))
    if op == "norm1": return "s:" + fr(npv(x, 5))
    if op == "norminf": return "s:" + fr(npv(x, 7))
    return "UNKNOWN-OP"


MUTATING = {"set", "iadd", "isub", "iaddl", "imuls", "idivs", "iadds", "isubs", "assign", "setslice", "isubl", "assignl", "setnp",
            "setslicefrom", "arriadd", "arrisub", "arrimuls", "arriadds", "nx", "iaddro", "isubro", "assignro"}


def result(R, res, operand=None):
    """canonical observation of a result; objects become the next register"""
    if operand is not None and res is R[operand]:
        R.append(res)
        return "=r%d" % operand
    if isinstance(res, (bool, np.bool_)):
        return "b:%d" % (1 if res else 0)
    if is_fv(res) or is_dv(res) or (isinstance(res, np.ndarray) and res.ndim == 1):
        for k, o in enumerate(R):
            if o is res:
                R.append(res)
                return "=r%d" % k
        R.append(res)
        return objstr(res)
    if isinstance(res, (float, int, np.floating, np.integer)):
        return "s:" + fr(res)
    if res is None:
        return "ok"
    return "?" + type(res).__name__


def step(R, t, dyn=None):
    op = t[0]
    r = int(t[1]) if len(t) > 1 and op not in ("new", "newfrom", "newfromx") else None
    if op == "new":
        if dyn is not None:
            return result(R, dyn() if t[2] == "noarg" else dyn([num(v) for v in qlist(t[3])]))
        return result(R, construct(int(t[1]), t[2], qlist(t[3])))
    if op == "newfrom":
        return result(R, cls(int(t[1]))(R[int(t[2])]))
    if op == "newfromx":                 # FieldVector_n( exporter of R[r] ): read-only / other format / two-dimensional exporters
        return result(R, cls(int(t[2]))(exporter(R[int(t[3])], t[1])[0]))
    if op in ("addro", "subro", "dotro", "eqro", "iaddro", "isubro", "assignro"):      # a read-only exporter as operand
        R2 = list(R) + [exporter(R[int(t[2])], "ro")[0]]          # the exporter is a temporary, not a register
        out = step(R2, [op[:-2], t[1], str(len(R))], dyn)
        R.extend(R2[len(R) + 1:])
        return out
    if op == "crossbad":                 # the double class from a float object (buffer of another element type)
        return result(R, cls_double(len(R[int(t[1])]))(R[int(t[1])]))
    if op == "drop":                     # the script drops its reference; views / results keep whatever they need alive
        import gc
        R[int(t[1])] = None
        gc.collect()
        return "ok"
    if op == "setslicefrom":
        R[int(t[1])][slice(optz(t[2]), optz(t[3]), optz(t[4]))] = R[int(t[5])]
        return "ok"
    if op in ("arriadd", "arrisub", "arradd"):
        a, y = R[int(t[1])], R[int(t[2])]
        assert isinstance(a, np.ndarray)
        if op == "arradd": return result(R, a + y)
        return "ok" if (operator.iadd(a, y) if op == "arriadd" else operator.isub(a, y)) is a else "!notinplace"
    if op in ("arrimuls", "arriadds"):
        a, sc = R[int(t[1])], float(q(t[2]))
        assert isinstance(a, np.ndarray)
        return "ok" if (operator.imul(a, sc) if op == "arrimuls" else operator.iadd(a, sc)) is a else "!notinplace"
    x = R[r]
    if op == "view":
        return result(R, np.array(x, copy=False))
    if op == "slice":
        return result(R, x[slice(optz(t[2]), optz(t[3]), optz(t[4]))])
    if op == "copyctor":
        return result(R, type(x)(x) if is_fv(x) else np.array(x))
    if op == "copymeth":
        return result(R, x.copy())
    if op == "copyargs":
        return result(R, x.copy(*[num(v) for v in qlist(t[2])]))
    if op == "float":
        return "s:" + fr(float(x))
    if op == "eqf":                      # one-entry vectors compare with plain numbers (implicitly_convertible< K, FV >)
        return result(R, x == float(q(t[2])))
    if op == "setslice":
        vals = [num(v) for v in qlist(t[5])]
        x[slice(optz(t[2]), optz(t[3]), optz(t[4]))] = vals[0] if len(vals) == 1 else vals
        return "ok"
    if op == "getnp":
        return "s:" + fr(x[np.int64(int(t[2]))])
    if op == "setnp":
        x[np.int64(int(t[2]))] = num(q(t[3]))
        return "ok"
    if op == "ellipsis":
        return result(R, x[...])
    if op == "bufinfo32":
        mv = memoryview(x)
        good = (mv.format, mv.ndim, mv.readonly, mv.itemsize) == ("f", 1, False, 4) and (mv.strides == (4,) or mv.shape[0] <= 1)
        return ("i:%d" % mv.shape[0]) if good else "?buffer(%s,%s,%s,%s)" % (mv.format, mv.shape, mv.strides, mv.readonly)
    if op == "bufinfo":
        mv = memoryview(x)
        # (for one entry the exported stride is &self[1] - &self[0] = 0: irrelevant for a single element, not observed)
        good = (mv.format, mv.ndim, mv.readonly, mv.itemsize) == ("d", 1, False, 8) and (mv.strides == (8,) or mv.shape[0] <= 1)
        return ("i:%d" % mv.shape[0]) if good else "?buffer(%s,%s,%s,%s)" % (mv.format, mv.shape, mv.strides, mv.readonly)
    if op == "get":
        return "s:" + fr(x[int(t[2])])
    if op == "set":
        x[int(t[2])] = num(q(t[3]))
        return "ok"
    if op == "len":
        return "i:%d" % len(x)
    if op == "iter":
        return "l[" + ",".join(fr(e) for e in list(x)) + "]"
    if op == "str":
        return '"' + canon_str(x, str(x)) + '"'
    if op == "repr":
        return '"' + canon_str(x, repr(x)) + '"'
    if op in ("add", "sub", "dot", "eq", "ne", "iadd", "isub", "assign"):
        y = R[int(t[2])]
        if op == "add": return result(R, x + y)
        if op == "sub": return result(R, x - y)
        if op == "dot": return result(R, x * y)
        if op == "eq": return result(R, x == y)
        if op == "ne": return result(R, x != y)
        if op == "iadd": return "ok" if operator.iadd(x, y) is x else "!notinplace"
        if op == "isub": return "ok" if operator.isub(x, y) is x else "!notinplace"
        if op == "assign": return result(R, x.assign(y))
    if op in ("addt", "eqt"):
        tup = tuple(num(v) for v in qlist(t[2]))
        return result(R, x + tup) if op == "addt" else result(R, x == tup)
    if op in ("addl", "raddl", "subl", "rsubl", "dotl", "eql", "iaddl", "nel", "isubl", "assignl", "rdotl"):
        l = [num(v) for v in qlist(t[2])]
        if op == "nel": return result(R, x != l)
        if op == "isubl": return "ok" if operator.isub(x, l) is x else "!notinplace"
        if op == "assignl": return result(R, x.assign(l))
        if op == "rdotl": return result(R, l * x)
        if op == "addl": return result(R, x + l)
        if op == "raddl": return result(R, l + x)
        if op == "subl": return result(R, x - l)
        if op == "rsubl": return result(R, l - x)
        if op == "dotl": return result(R, x * l)
        if op == "eql": return result(R, x == l)
        if op == "iaddl": return "ok" if operator.iadd(x, l) is x else "!notinplace"
    if op in ("muls", "rmuls", "divs", "addf", "subf", "raddf", "rsubf", "imuls", "idivs", "iadds", "isubs"):
        s = float(q(t[2]))
        if op == "muls": return result(R, x * s)
        if op == "rmuls": return result(R, s * x)
        if op == "divs": return result(R, x / s)
        if op == "addf": return result(R, x + s, r)
        if op == "subf": return result(R, x - s, r)
        if op == "raddf": return result(R, s + x, r)
        if op == "rsubf": return result(R, s - x, r)
        if op == "imuls": return "ok" if operator.imul(x, s) is x else "!notinplace"
        if op == "idivs": return "ok" if operator.itruediv(x, s) is x else "!notinplace"
        if op == "iadds": return "ok" if operator.iadd(x, s) is x else "!notinplace"
        if op == "isubs": return "ok" if operator.isub(x, s) is x else "!notinplace"
    if op in ("muli", "rmuli", "addi", "subi", "raddi", "rsubi"):
        k = int(t[2])
        if op == "muli": return result(R, x * k)
        if op == "rmuli": return result(R, k * x)
        if op == "addi": return result(R, x + k, r)
        if op == "subi": return result(R, x - k, r)
        if op == "raddi": return result(R, k + x, r)
        if op == "rsubi": return result(R, k - x, r)
    if op == "neg": return result(R, -x)
    if op == "pos": return result(R, +x, r)
    if op == "norm1r": return "s:" + fr(x.one_norm_real)
    if op == "norminfr": return "s:" + fr(x.infinity_norm_real)
    if op == "div2": return result(R, x.__div__(float(q(t[2]))))
    if op == "norm1": return "s:" + fr(x.one_norm)
    if op == "norm22":
        n2, n = x.two_norm2, x.two_norm
        # two_norm is observed relative to two_norm2 (sqrt is correctly rounded in libm and in Python)
        ok = n == math.sqrt(n2) or float(np.float32(n)) == float(np.sqrt(np.float32(n2)))      # float entries: sqrt in float
        return "s:" + fr(n2) + ("" if ok else "(two_norm=%r)" % n)
    if op == "norminf": return "s:" + fr(x.infinity_norm)
    return "UNKNOWN-OP"


def tv_elems(line):
    """`tv ; f 17 ; v 2,2 ; i 5 ; ...` -> python tuple (float / FieldVector / int elements)"""
    elems = []
    for part in line.split(";")[1:]:
        t = part.split()
        if not t:
            continue
        if t[0] == "f": elems.append(float(q(t[1])))
        elif t[0] == "i": elems.append(int(t[1]))
        elif t[0] == "v": elems.append(dc.FieldVector([float(v) for v in qlist(t[1])]))
    return tuple(elems)


def tv_show(e):
    if is_fv(e): return objstr(e)
    if isinstance(e, bool): return "b:%d" % e
    if isinstance(e, int): return "i:%d" % e
    if isinstance(e, float): return "s:" + fr(e)
    return "?" + type(e).__name__


def tv_case(line):
    """TupleVector (tuplevector.hh + dune.common.TupleVector): element types and values are preserved; len; IndexError at n;
    assignment of an element; copy() is independent"""
    def guard(f):
        try:
            return f()
        except (IndexError, TypeError, ValueError, RuntimeError) as e:
            return "!" + type(e).__name__
    tup = tv_elems(line)
    n = len(tup)
    tv = dc.TupleVector(*tup) if line.startswith("tva") else dc.TupleVector(tup)
    out = ["len=%s" % guard(lambda: len(tv))]
    out += ["%d:%s" % (i, guard(lambda: tv_show(tv[i]))) for i in range(n)]
    out.append("get%d:%s" % (n, guard(lambda: tv_show(tv[n]))))
    cp = tv.copy()
    for i in range(n):                    # overwrite every element of the copy with a changed value of the same type
        e = tup[i]
        new = dc.FieldVector([x + 1 for x in vals_of(e)]) if is_fv(e) else (e + 1)
        def setit():
            cp[i] = new
            return "ok"
        out.append("set%d:%s" % (i, guard(setit)))
    out.append("copy=" + ",".join(guard(lambda: tv_show(cp[i])) for i in range(n)))
    out.append("orig=" + ",".join(guard(lambda: tv_show(tv[i])) for i in range(n)))
    out.append("neg:" + guard(lambda: tv_show(tv[-1])))
    for i in range(n):                    # a value that does not cast to the element type
        def setbad():
            cp[i] = "x"
            return "ok"
        out.append("bad%d:%s" % (i, guard(setbad)))
    cp.assign(tv)
    out.append("assign=" + ",".join(guard(lambda: tv_show(cp[i])) for i in range(n)))
    tv.assign(tv)                          # self-assignment
    out.append("self=" + ",".join(guard(lambda: tv_show(tv[i])) for i in range(n)))
    ty = lambda e: ("v", len(e)) if is_fv(e) else type(e).__name__
    pair = next(((a, b) for a in range(n) for b in range(a + 1, n) if ty(tup[a]) == ty(tup[b])), None)
    if pair is None:
        out.append("xfer=-")
    else:                                  # an element of one tuple vector assigned into a slot of another
        def xfer():
            cp[pair[0]] = tv[pair[1]]
            return ",".join(tv_show(cp[i]) for i in range(n))
        out.append("xfer=" + guard(xfer))
    import gc
    k0 = next((k for k, e in enumerate(tup) if is_fv(e)), 0)
    def keep():                            # an element reference outlives the Python handle of its tuple vector
        t2 = dc.TupleVector(tv_elems(line))
        e = t2[k0]
        del t2
        gc.collect()
        # allocate objects of the same shapes so that storage freed by mistake is reused (makes a dangling reference visible)
        junk = [dc.TupleVector(tuple(dc.FieldVector([x + 1000 for x in vals_of(el)]) if is_fv(el) else el + 1000 for el in tv_elems(line))) for _ in range(8)]
        junk += [dc.FieldVector([1000.0 + k] * max(1, len(vals_of(e)))) for k in range(32)] if is_fv(e) else []
        return tv_show(e)
    out.append("keep=" + guard(keep))
    j = next((k for k, e in enumerate(tup) if is_fv(e)), None)
    if j is None:
        out.append("alias=-")
    else:                                 # tv[j] refers to the stored element
        def alias():
            e = tv[j]
            e[0] = 99.0
            return tv_show(tv[j])
        out.append("alias=" + guard(alias))
    return " | ".join(out)


def run_case(line):
    if line.startswith("tv"):
        return tv_case(line)
    R, toks = [], []
    is_npv = line.startswith("npv")
    _float_mode[0] = line.startswith("f32")
    if _float_mode[0]:
        line = line.split(";", 1)[1]
    dyn = None
    if line.startswith("dyn"):
        dyn = dyn_class(line.startswith("dynj"))
    if is_npv or dyn is not None:
        line = line.split(";", 1)[1]
    for s in line.split(";"):
        t = s.split()
        if not t:
            continue
        try:
            o = npv_step(R, t) if is_npv else step(R, t, dyn)
        except (IndexError, TypeError, ValueError, RuntimeError, ZeroDivisionError, AttributeError, OverflowError, BufferError) as e:
            o = "!" + type(e).__name__
        if t[0] in MUTATING:
            o += dump(R)
        toks.append(o)
    return " ; ".join(toks) + " # " + dump(R)


def main():
    if sys.argv[1] == "--info":
        import dune.generator.generator  # noqa
        from dune.packagemetadata import getDunePyDir
        d = getDunePyDir()
        print("dune.common.__init__ = " + os.path.realpath(dc.__file__))
        print("dune.common._common  = " + os.path.realpath(dc._common.__file__))
        print("dune-py              = " + d)
        bs = os.path.join(d, "python", "dune", "generated", "buildScript.sh")
        print("buildScript          = " + (bs if os.path.exists(bs) else "(not generated yet)"))
        print("numpy                = " + np.__version__)
        return
    if sys.argv[1] == "--prebuild":
        for a in sys.argv[2:]:
            if a == "npv":
                npv(np.zeros(2), 0)
            elif a == "dynj":
                dyn_class(True)
            elif a.startswith("f32:"):
                cls_float(int(a[4:]))
            elif a.startswith("tv"):
                dc.TupleVector(tv_elems(a))
            else:
                cls(int(a))
        print("prebuilt", sys.argv[2:])
        return
    fd = os.environ.get("C20_OUT_FD")
    outf = os.fdopen(int(fd), "w") if fd else sys.stdout
    for line in open(sys.argv[1]):
        line = line.strip()
        if not line:
            continue
        try:
            out = run_case(line)
        except Exception as e:          # a failure of the driver itself, attributed to the case
            out = "DRIVER-ERROR %s: %s" % (type(e).__name__, str(e).split("\n")[0][:120])
        outf.write(out.replace("\n", " ") + "\n")
        outf.flush()


main()
