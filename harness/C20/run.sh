#!/bin/bash
# Runs `python3 "$@"` inside the dune environment of /repo/_build (run-in-dune-env).  run-in-dune-env prints a
# banner on stdout; the case-by-case output of impl.py must be the only thing on stdout, so stdout of the whole
# command is sent to stderr and impl.py writes its lines to fd 3 (= the original stdout) when C20_OUT_FD=3.
exec 3>&1
exec /repo/_build/run-in-dune-env python3 "$@" 1>&2
