#!/bin/bash
# Runs `python3 "$@"` inside the dune environment of /repo/_build (run-in-dune-env).  run-in-dune-env prints a
# banner on stdout; the case-by-case output of impl.py must be the only thing on stdout, so stdout of the whole
# command is sent to stderr and impl.py writes its lines to fd 3 (= the original stdout) when C20_OUT_FD=3.
# The interpreter is a grandchild of this script: when the caller's timeout kills this script the interpreter would
# survive (and, if it hangs after a memory-corrupting defect, keep the dune-py lock).  GNU timeout runs the command
# in its own process group and kills the whole group, so a hung interpreter is always reaped (C20_INNER_TIMEOUT seconds).
exec 3>&1
exec timeout -s KILL "${C20_INNER_TIMEOUT:-1500}" /repo/_build/run-in-dune-env python3 "$@" 1>&2
