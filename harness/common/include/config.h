/* Static configuration header used by the /verif impl harnesses (mirrors /repo/_build/config.h). */
#ifndef VERIF_CONFIG_H
#define VERIF_CONFIG_H
#include <dune-common-config.hh>
#define PACKAGE "dune-common"
#define PACKAGE_NAME "dune-common"
#define PACKAGE_VERSION "2.11-git"
#define VERSION "2.11-git"
#endif
