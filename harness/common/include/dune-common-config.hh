
#ifndef DUNE_COMMON_CONFIG_HH
#define DUNE_COMMON_CONFIG_HH

/* Define to 1 if you have module dune-common available */
#ifndef HAVE_DUNE_COMMON
#define HAVE_DUNE_COMMON 1
#endif



/* Define to the version of dune-common */
#define DUNE_COMMON_VERSION "2.11-git"

/* Define to the major version of dune-common */
#define DUNE_COMMON_VERSION_MAJOR 2

/* Define to the minor version of dune-common */
#define DUNE_COMMON_VERSION_MINOR 11

/* Define to the revision of dune-common */
#define DUNE_COMMON_VERSION_REVISION 0

/* Standard debug streams with a level below will collapse to doing nothing */
#define DUNE_MINIMAL_DEBUG_LEVEL 4

/* does the standard library provide experimental::is_detected ? */
#define DUNE_HAVE_CXX_EXPERIMENTAL_IS_DETECTED 1

/* does the language support lambdas in unevaluated contexts ? */
/* #undef DUNE_HAVE_CXX_UNEVALUATED_CONTEXT_LAMBDA */

/* does the standard library provide identity ? */
/* #undef DUNE_HAVE_CXX_STD_IDENTITY */

/* Define if you have a BLAS library. */
#define HAVE_BLAS 1

/* Define if you have LAPACK library. */
#define HAVE_LAPACK 1

/* Define to 1 if you have the Threading Building Blocks (TBB) library */
#define HAVE_TBB 1




/* old feature support macros which were tested until 2.10, kept around for one more release */
/* none for 2.10 */

/* Define to ENABLE_UMFPACK if the UMFPack library is available. */
/// \deprecated Use HAVE_SUITESPARSE_UMFPACK instead
#define HAVE_UMFPACK HAVE_SUITESPARSE_UMFPACK

/* Used to call lapack functions */
#define LAPACK_NEEDS_UNDERLINE

/* If enabled certain Python modules will be precompiled */
/* #undef DUNE_ENABLE_PYTHONMODULE_PRECOMPILE */






#endif // DUNE_COMMON_CONFIG_HH


#ifndef DUNE_COMMON_CONFIG_BOTTOM_HH
#define DUNE_COMMON_CONFIG_BOTTOM_HH



#endif // DUNE_COMMON_CONFIG_BOTTOM_HH
