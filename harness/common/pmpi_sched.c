/* pmpi_sched.c -- PMPI interposition shim: seeded perturbation of MPI completion order.
 *
 * Shared by the MPI slices (C04, C05, C06, C07, C13, C19).  Owned by the C06 slice.
 * No change to /repo is needed: the shim defines the MPI_* entry points listed below and forwards to
 * PMPI_*.  It is valid C and valid C++ (g++/mpicxx compile *.c as C++): simply add this file to the
 * sources of the harness, e.g.
 *
 *     V.cxx(ctx, [".../harness/Cxx/impl.cc", V.VERIF + "/harness/common/pmpi_sched.c"], out, mpi=True)
 *
 * WHAT IT DOES (only while a non-zero seed is active; with seed 0 every wrapper is a pass-through)
 *   MPI_Testsome / MPI_Waitsome / MPI_Testany / MPI_Waitany / MPI_Testall-free variants:
 *       the active requests are polled one by one through PMPI_Test in a seeded random ORDER, and each
 *       candidate is polled only with probability 3/4 per sweep (so that also the SUBSET reported by one call
 *       varies).  Completed requests are reported in polling order (indices[] / statuses[] are consistent:
 *       statuses[j] belongs to indices[j]).  A request that was polled and found complete is always reported
 *       (PMPI_Test frees it), a request that was not polled stays pending -- both are legal MPI behaviour.
 *       All-null / all-inactive request lists yield outcount = MPI_UNDEFINED (index = MPI_UNDEFINED) as the
 *       standard requires.  The Wait* variants repeat sweeps until at least one request completed.
 *       statuses[] of the *some calls carry MPI_ERROR = MPI_SUCCESS; Testany/Waitany leave the caller's
 *       status.MPI_ERROR untouched (single-completion rule of the standard).
 *   MPI_Probe / MPI_Iprobe with source == MPI_ANY_SOURCE on an intra-communicator:
 *       the sources 0..size-1 are probed through PMPI_Iprobe in a seeded order (Probe: repeated until a
 *       message is found), so which pending sender is reported first varies with the seed.
 *   MPI_Send / MPI_Ssend / MPI_Isend / MPI_Issend / MPI_Irecv:
 *       with probability 1/2 a seeded micro-delay of 0..PMPI_SCHED_MAXDELAY_US microseconds (default 150)
 *       is inserted before the call (otherwise sched_yield()).
 *
 * INTERFACE
 *   environment  PMPI_SCHED_SEED=<n>          initial seed, read at the first intercepted call (0/unset: off)
 *                PMPI_SCHED_MAXDELAY_US=<n>   upper bound of the micro-delays (0: no delays)
 *   functions (C linkage; declare them yourself or include this comment's prototypes)
 *     void pmpi_sched_reseed(unsigned long long seed);
 *          (re)seed the generator, e.g. once per test case with the case's seed; the caller's rank in
 *          MPI_COMM_WORLD is mixed in, so ranks take different decisions; seed 0 switches the shim off.
 *     void pmpi_sched_trace(int on);
 *          on != 0: clear the trace and start recording every MPI_Issend/MPI_Isend/MPI_Send/MPI_Ssend as a
 *          triple (dest, tag, count); on == 0: stop recording.
 *     int  pmpi_sched_trace_get(int *triples, int max_triples);
 *          copy up to max_triples recorded (dest, tag, count) triples (3 ints each) in call order;
 *          returns the number of triples recorded so far (may exceed max_triples).
 *     void pmpi_sched_counters(unsigned long long *sweeps, unsigned long long *reordered, unsigned long long *delays);
 *          statistics since start: number of perturbed Test/Wait/Probe sweeps, number of calls in which >= 2
 *          completions were reported in an order different from ascending index, number of delays inserted.
 *   Determinism: all decisions derive from (seed, world rank, call counter) through splitmix64; the real
 *   message timing of the MPI library is of course not controlled -- the shim samples schedules, the
 *   Coq theorems quantify over all of them.
 */
#include <mpi.h>
#include <stdlib.h>
#include <string.h>
#include <unistd.h>
#include <sched.h>

#ifdef __cplusplus
extern "C" {
#endif

static unsigned long long ps_state = 0;     /* 0 = off */
static int ps_init_done = 0;
static int ps_maxdelay = 150;
static unsigned long long ps_sweeps = 0, ps_reordered = 0, ps_delays = 0;
static int ps_trace_on = 0, ps_trace_n = 0, ps_trace_cap = 0;
static int *ps_trace_buf = 0;

static unsigned long long ps_next(void)
{
  unsigned long long z = (ps_state += 0x9E3779B97F4A7C15ULL);
  z = (z ^ (z >> 30)) * 0xBF58476D1CE4E5B9ULL;
  z = (z ^ (z >> 27)) * 0x94D049BB133111EBULL;
  return z ^ (z >> 31);
}

static void ps_seed_with_rank(unsigned long long seed)
{
  int init = 0, fin = 0, rank = 0;
  if (seed == 0) { ps_state = 0; return; }
  PMPI_Initialized(&init);
  PMPI_Finalized(&fin);
  if (init && !fin) PMPI_Comm_rank(MPI_COMM_WORLD, &rank);
  ps_state = seed * 0x2545F4914F6CDD1DULL + 0x632BE59BD9B4E019ULL * (unsigned long long)(rank + 1);
  if (ps_state == 0) ps_state = 1;
  (void) ps_next();
}

static void ps_lazy_init(void)
{
  const char *s;
  if (ps_init_done) return;
  ps_init_done = 1;
  s = getenv("PMPI_SCHED_MAXDELAY_US");
  if (s) ps_maxdelay = atoi(s);
  s = getenv("PMPI_SCHED_SEED");
  if (s && ps_state == 0) ps_seed_with_rank(strtoull(s, 0, 10));
}

void pmpi_sched_reseed(unsigned long long seed)
{
  ps_lazy_init();
  ps_seed_with_rank(seed);
}

void pmpi_sched_trace(int on)
{
  if (on) ps_trace_n = 0;
  ps_trace_on = on;
}

int pmpi_sched_trace_get(int *triples, int max_triples)
{
  int n = ps_trace_n < max_triples ? ps_trace_n : max_triples;
  if (n > 0 && triples) memcpy(triples, ps_trace_buf, (size_t) n * 3 * sizeof(int));
  return ps_trace_n;
}

void pmpi_sched_counters(unsigned long long *sweeps, unsigned long long *reordered, unsigned long long *delays)
{
  if (sweeps) *sweeps = ps_sweeps;
  if (reordered) *reordered = ps_reordered;
  if (delays) *delays = ps_delays;
}

static void ps_record_send(int dest, int tag, int count)
{
  if (!ps_trace_on) return;
  if (ps_trace_n == ps_trace_cap) {
    ps_trace_cap = ps_trace_cap ? 2 * ps_trace_cap : 256;
    ps_trace_buf = (int *) realloc(ps_trace_buf, (size_t) ps_trace_cap * 3 * sizeof(int));
  }
  ps_trace_buf[3 * ps_trace_n] = dest; ps_trace_buf[3 * ps_trace_n + 1] = tag; ps_trace_buf[3 * ps_trace_n + 2] = count;
  ++ps_trace_n;
}

static void ps_delay(void)
{
  ps_lazy_init();
  if (ps_state == 0) return;
  if (ps_maxdelay > 0 && (ps_next() & 1)) {
    usleep((useconds_t)(ps_next() % (unsigned long long)(ps_maxdelay + 1)));
    ++ps_delays;
  } else
    sched_yield();
}

/* seeded permutation of 0..n-1 into perm (caller allocates) */
static void ps_perm(int n, int *perm)
{
  int i;
  for (i = 0; i < n; ++i) perm[i] = i;
  for (i = n - 1; i > 0; --i) {
    int j = (int)(ps_next() % (unsigned long long)(i + 1));
    int t = perm[i]; perm[i] = perm[j]; perm[j] = t;
  }
}

/* One perturbed sweep over the requests.  Returns the number of completions written to indices/statuses
   (at most `limit`), or MPI_UNDEFINED when no request is active.  `all` != 0: poll every active request
   (no subset thinning). */
static int ps_sweep(int incount, MPI_Request reqs[], int indices[], MPI_Status statuses[], int limit, int all, int *err)
{
  int *perm, i, nactive = 0, ndone = 0, sorted = 1;
  *err = MPI_SUCCESS;
  for (i = 0; i < incount; ++i) if (reqs[i] != MPI_REQUEST_NULL) ++nactive;
  if (nactive == 0) return MPI_UNDEFINED;
  perm = (int *) malloc((size_t)(incount > 0 ? incount : 1) * sizeof(int));
  ps_perm(incount, perm);
  ++ps_sweeps;
  for (i = 0; i < incount && ndone < limit; ++i) {
    int k = perm[i], flag = 0, e;
    MPI_Status st;
    if (reqs[k] == MPI_REQUEST_NULL) continue;
    if (!all && (ps_next() & 3) == 0) continue;           /* leave this one for a later call */
    e = PMPI_Test(&reqs[k], &flag, &st);
    if (e != MPI_SUCCESS) { *err = e; break; }
    if (flag) {
      if (ndone > 0 && indices[ndone - 1] > k) sorted = 0;
      indices[ndone] = k;
      st.MPI_ERROR = MPI_SUCCESS;                           /* PMPI_Test (single completion) leaves it undefined */
      if (statuses != MPI_STATUSES_IGNORE) statuses[ndone] = st;
      ++ndone;
    }
  }
  if (!sorted) ++ps_reordered;
  free(perm);
  return ndone;
}

/* single-completion calls (Testany/Waitany) must not modify the MPI_ERROR field of the caller's status */
static void ps_copy_status(MPI_Status *dst, const MPI_Status *src)
{
  int keep;
  if (dst == MPI_STATUS_IGNORE) return;
  keep = dst->MPI_ERROR;
  *dst = *src;
  dst->MPI_ERROR = keep;
}

int MPI_Testsome(int incount, MPI_Request reqs[], int *outcount, int indices[], MPI_Status statuses[])
{
  int err;
  ps_lazy_init();
  if (ps_state == 0 || incount <= 0) return PMPI_Testsome(incount, reqs, outcount, indices, statuses);
  *outcount = ps_sweep(incount, reqs, indices, statuses, incount, 0, &err);
  return err;
}

int MPI_Waitsome(int incount, MPI_Request reqs[], int *outcount, int indices[], MPI_Status statuses[])
{
  int err, n, spins = 0;
  ps_lazy_init();
  if (ps_state == 0 || incount <= 0) return PMPI_Waitsome(incount, reqs, outcount, indices, statuses);
  for (;;) {
    n = ps_sweep(incount, reqs, indices, statuses, incount, 0, &err);
    if (n != 0 || err != MPI_SUCCESS) break;               /* MPI_UNDEFINED (<0) also ends the loop */
    if (++spins > 64) sched_yield();
  }
  *outcount = n;
  return err;
}

int MPI_Testany(int count, MPI_Request reqs[], int *index, int *flag, MPI_Status *status)
{
  int err, n, idx[1];
  MPI_Status st[1];
  ps_lazy_init();
  if (ps_state == 0 || count <= 0) return PMPI_Testany(count, reqs, index, flag, status);
  n = ps_sweep(count, reqs, idx, st, 1, 0, &err);
  if (n == MPI_UNDEFINED) { *flag = 1; *index = MPI_UNDEFINED; return err; }
  if (n == 1) { *flag = 1; *index = idx[0]; ps_copy_status(status, &st[0]); }
  else { *flag = 0; *index = MPI_UNDEFINED; }
  return err;
}

int MPI_Waitany(int count, MPI_Request reqs[], int *index, MPI_Status *status)
{
  int err, n, idx[1], spins = 0;
  MPI_Status st[1];
  ps_lazy_init();
  if (ps_state == 0 || count <= 0) return PMPI_Waitany(count, reqs, index, status);
  for (;;) {
    n = ps_sweep(count, reqs, idx, st, 1, 0, &err);
    if (n != 0 || err != MPI_SUCCESS) break;
    if (++spins > 64) sched_yield();
  }
  if (n == 1) { *index = idx[0]; ps_copy_status(status, &st[0]); }
  else *index = MPI_UNDEFINED;
  return err;
}

static int ps_any_source_sweep(int tag, MPI_Comm comm, int *flag, MPI_Status *status)
{
  int size = 0, inter = 0, i, *perm, err = MPI_SUCCESS;
  *flag = 0;
  PMPI_Comm_test_inter(comm, &inter);
  if (inter) return PMPI_Iprobe(MPI_ANY_SOURCE, tag, comm, flag, status);
  PMPI_Comm_size(comm, &size);
  perm = (int *) malloc((size_t)(size > 0 ? size : 1) * sizeof(int));
  ps_perm(size, perm);
  ++ps_sweeps;
  for (i = 0; i < size && !*flag; ++i) {
    err = PMPI_Iprobe(perm[i], tag, comm, flag, status);
    if (err != MPI_SUCCESS) break;
  }
  free(perm);
  return err;
}

int MPI_Iprobe(int source, int tag, MPI_Comm comm, int *flag, MPI_Status *status)
{
  ps_lazy_init();
  if (ps_state == 0 || source != MPI_ANY_SOURCE) return PMPI_Iprobe(source, tag, comm, flag, status);
  return ps_any_source_sweep(tag, comm, flag, status);
}

int MPI_Probe(int source, int tag, MPI_Comm comm, MPI_Status *status)
{
  int flag = 0, err, spins = 0;
  ps_lazy_init();
  if (ps_state == 0 || source != MPI_ANY_SOURCE) return PMPI_Probe(source, tag, comm, status);
  for (;;) {
    err = ps_any_source_sweep(tag, comm, &flag, status);
    if (flag || err != MPI_SUCCESS) return err;
    if (++spins > 64) sched_yield();
  }
}

int MPI_Send(const void *buf, int count, MPI_Datatype dt, int dest, int tag, MPI_Comm comm)
{
  ps_delay(); ps_record_send(dest, tag, count);
  return PMPI_Send(buf, count, dt, dest, tag, comm);
}

int MPI_Ssend(const void *buf, int count, MPI_Datatype dt, int dest, int tag, MPI_Comm comm)
{
  ps_delay(); ps_record_send(dest, tag, count);
  return PMPI_Ssend(buf, count, dt, dest, tag, comm);
}

int MPI_Isend(const void *buf, int count, MPI_Datatype dt, int dest, int tag, MPI_Comm comm, MPI_Request *req)
{
  ps_delay(); ps_record_send(dest, tag, count);
  return PMPI_Isend(buf, count, dt, dest, tag, comm, req);
}

int MPI_Issend(const void *buf, int count, MPI_Datatype dt, int dest, int tag, MPI_Comm comm, MPI_Request *req)
{
  ps_delay(); ps_record_send(dest, tag, count);
  return PMPI_Issend(buf, count, dt, dest, tag, comm, req);
}

int MPI_Irecv(void *buf, int count, MPI_Datatype dt, int source, int tag, MPI_Comm comm, MPI_Request *req)
{
  ps_delay();
  return PMPI_Irecv(buf, count, dt, source, tag, comm, req);
}

#ifdef __cplusplus
}
#endif
