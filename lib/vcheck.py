"""Shared machinery of the /verif checks (see DESIGN.md section 2).

A per-property plugin  checks/Cxx.py  defines
    META  = {...}                (level, technique, notes: used by tools/gen_manifest.py)
    def run(ctx): ...            (build, generate, run impl + model, diff, oracle, ctx.violation(...))
and bin/check drives it through main() below.  Everything is rebuilt from ctx.repo
(default /repo, its current working tree) on every run.
"""
import os, sys, re, json, time, subprocess, glob, hashlib, fcntl, shutil, random, contextlib

VERIF = os.path.dirname(os.path.dirname(os.path.abspath(__file__)))
COQ = os.path.join(VERIF, "coq")
NCPU = os.cpu_count() or 4

FORBIDDEN = re.compile(
    r"\b(Admitted|admit|Axiom|Axioms|Parameter|Parameters|Conjecture|Conjectures|Admit Obligations|"
    r"Unset Guard Checking|Unset Positivity Checking|Unset Universe Checking|bypass_check|"
    r"type-in-type|impredicative-set|native_compute)\b")

GLOBAL_TRUSTED = [
    "Coq 8.16.1 kernel (coqc); vm_compute used inside proofs for finite sweeps/witnesses; native_compute not used",
    "no axioms declared by this development (grep for Admitted/admit/Axiom/Parameter/Conjecture on every run); "
    "library axioms per theorem as printed by Print Assumptions (listed under theorems[].axioms)",
    "extraction to OCaml with ExtrOcamlBasic/ExtrOcamlString only (no further Extract Constant/Inductive), "
    "ocamlfind ocamlopt 4.13.1, the hand-written OCaml driver",
    "correspondence machinery: generators, C++ impl drivers built from the working tree, canonicalisers, diff",
]


class BuildError(Exception):
    pass


def sh(cmd, timeout=600, cwd=None, env=None, input=None, check=False):
    """Run a command (list or shell string); return (rc, stdout+stderr)."""
    e = dict(os.environ)
    e.setdefault("OMPI_ALLOW_RUN_AS_ROOT", "1")
    e.setdefault("OMPI_ALLOW_RUN_AS_ROOT_CONFIRM", "1")
    e.setdefault("OMPI_MCA_rmaps_base_oversubscribe", "1")
    if env:
        e.update(env)
    try:
        p = subprocess.run(cmd, shell=isinstance(cmd, str), cwd=cwd, env=e, input=input,
                           stdout=subprocess.PIPE, stderr=subprocess.STDOUT, timeout=timeout,
                           text=True, errors="replace")
        rc, out = p.returncode, p.stdout
    except subprocess.TimeoutExpired as ex:
        o = ex.stdout or ""
        if isinstance(o, bytes):
            o = o.decode("utf-8", "replace")
        rc, out = 124, o + "\n[timeout after %ss]" % timeout
    if check and rc != 0:
        raise BuildError("command failed (%s): %s\n%s" % (rc, cmd if isinstance(cmd, str) else " ".join(cmd), out[-4000:]))
    return rc, out


_LOCK_DEPTH = {}
_COQ_LOCK = None     # set by private_coq_dir(): name of the lock guarding this run's private Coq directory


@contextlib.contextmanager
def locked(name):
    """Inter-process lock (flock), re-entrant within this process: a caller that already holds
    the lock (e.g. the Coq stage, which keeps it across parameter regeneration, make and coqc so
    that no other run can rebuild a shared .vo in between) may call helpers that take it again."""
    if name == "coq" and _COQ_LOCK:
        name = _COQ_LOCK
    if _LOCK_DEPTH.get(name, 0) > 0:
        _LOCK_DEPTH[name] += 1
        try:
            yield
        finally:
            _LOCK_DEPTH[name] -= 1
        return
    os.makedirs(os.path.join(VERIF, "build"), exist_ok=True)
    f = open(os.path.join(VERIF, "build", ".lock-" + name), "w")
    fcntl.flock(f, fcntl.LOCK_EX)
    _LOCK_DEPTH[name] = 1
    try:
        yield
    finally:
        _LOCK_DEPTH[name] = 0
        fcntl.flock(f, fcntl.LOCK_UN)
        f.close()


# --------------------------------------------------------------------------- Coq

def private_coq_dir(ctx):
    """Runs against a tree other than /repo (mutants, seeded changes, refactorings, scratch worktrees)
    get a private copy of the Coq development (sources and compiled files) in their own build
    directory: the constants regenerated from that tree (Params_gen.v and the per-property generated
    files) and everything recompiled against them stay there, so a concurrent or later run against
    /repo never sees constants of a foreign tree, and vice versa."""
    global COQ, _COQ_LOCK
    priv = os.path.join(ctx.build, "coq")
    os.makedirs(priv, exist_ok=True)
    with locked("coq"):          # consistent snapshot of the shared directory
        sh(["rsync", "-a", "--delete", os.path.join(VERIF, "coq") + "/", priv + "/"], check=True)
    COQ = priv
    _COQ_LOCK = "coq-" + os.path.basename(ctx.build)
    os.environ["VERIF_COQ_DIR"] = priv


def coq_project():
    """(Re)generate coq/_CoqProject and coq/Makefile when the set of .v files changed."""
    vs = sorted(os.path.basename(p) for p in glob.glob(os.path.join(COQ, "*.v")))
    content = "-Q . DuneV\n-arg -w -arg -notation-overridden,-deprecated-hint-without-locality,-deprecated-instance-without-locality,-ambiguous-paths,-redundant-canonical-projection\n" + "\n".join(vs) + "\n"
    cp = os.path.join(COQ, "_CoqProject")
    old = open(cp).read() if os.path.exists(cp) else None
    if old != content or not os.path.exists(os.path.join(COQ, "Makefile")):
        open(cp, "w").write(content)
        sh(["coq_makefile", "-f", "_CoqProject", "-o", "Makefile"], cwd=COQ, check=True)
        # dependencies must be recomputed
        for f in (".Makefile.d",):
            try:
                os.remove(os.path.join(COQ, f))
            except OSError:
                pass


def coq_make(targets, timeout=3000, keep_going=True):
    """Full .vo build of the given targets (never -vos/-vok).  Returns (ok, output)."""
    with locked("coq"):
        coq_project()
        cmd = ["make", "-j%d" % NCPU] + (["-k"] if keep_going else []) + list(targets)
        rc, out = sh(cmd, cwd=COQ, timeout=timeout)
    return rc == 0, out


def forbidden_scan(files=None):
    """Return list of 'file:line: text' for forbidden constructs (comments stripped roughly)."""
    hits = []
    for p in sorted(files or glob.glob(os.path.join(COQ, "*.v"))):
        txt = open(p, errors="replace").read()
        # strip (* ... *) comments, nesting-aware
        out, depth, i = [], 0, 0
        while i < len(txt):
            if txt.startswith("(*", i):
                depth += 1; i += 2; continue
            if txt.startswith("*)", i) and depth > 0:
                depth -= 1; i += 2; continue
            out.append(txt[i] if depth == 0 or txt[i] == "\n" else " ")
            i += 1
        stack = []
        for n, line in enumerate("".join(out).split("\n"), 1):
            if FORBIDDEN.search(line):
                hits.append("%s:%d: %s" % (os.path.basename(p), n, line.strip()))
            m = re.match(r"\s*(Section|Module\s+Type|Module)\s+([\w']+)\s*(.*)$", line)
            if m and not (m.group(1) != "Section" and ":=" in m.group(3)):
                stack.append(("S" if m.group(1) == "Section" else "M", m.group(2)))
            m = re.match(r"\s*End\s+([\w']+)\s*\.", line)
            if m and stack and stack[-1][1] == m.group(1):
                stack.pop()
            if re.match(r"\s*(Variable|Variables|Hypothesis|Hypotheses)\b", line) and not any(k == "S" for k, _ in stack):
                hits.append("%s:%d: %s (outside a section)" % (os.path.basename(p), n, line.strip()))
    return hits


def coq_deps(vfile):
    """Transitive DuneV dependencies (file names) of a .v file in coq/, textual."""
    seen, todo = [], [vfile]
    while todo:
        f = todo.pop()
        if f in seen or not os.path.exists(os.path.join(COQ, f)):
            continue
        seen.append(f)
        txt = open(os.path.join(COQ, f)).read()
        for m in re.finditer(r"(?:From\s+DuneV\s+)?Require\s+(?:Import\s+|Export\s+)?([^.]*(?:\.[A-Za-z_][\w']*)*)\s*\.", txt):
            for name in re.split(r"\s+", m.group(1).strip()):
                name = name.split(".")[-1]
                if os.path.exists(os.path.join(COQ, name + ".v")):
                    todo.append(name + ".v")
    return seen


def parse_assumptions(src, out):
    """Pair each `Print Assumptions X.` of the source with its output block."""
    names = re.findall(r"Print\s+Assumptions\s+([\w'.]+)\s*\.", src)
    blocks, cur = [], None
    for line in out.split("\n"):
        if line.startswith("Closed under the global context"):
            if cur is not None:
                blocks.append(cur)
            blocks.append([]); cur = None
        elif line.startswith("Axioms:"):
            if cur is not None:
                blocks.append(cur)
            cur = []
        elif cur is not None:
            m = re.match(r"^([A-Za-z_][\w'.]*)\s*(?::|$)", line)
            if m:
                cur.append(m.group(1))
            elif line and not line[0].isspace():
                blocks.append(cur); cur = None
    if cur is not None:
        blocks.append(cur)
    res = []
    for i, n in enumerate(names):
        res.append({"name": n, "axioms": blocks[i] if i < len(blocks) else None})
    return res


def coq_check_properties(ctx, extra_targets=()):
    """Regenerate parameters, build the proofs the property file depends on, re-check the property
    file itself (always, so that Print Assumptions output is fresh).  Fills ctx.coq."""
    prop = ctx.prop
    pf = "Properties_%s.v" % prop
    info = {"file": "coq/" + pf, "ok": False, "theorems": [], "forbidden": [], "log": ""}
    ctx.coq = info
    with locked("coq"):
        return _coq_check_properties_locked(ctx, info, prop, pf, extra_targets)


def _coq_check_properties_locked(ctx, info, prop, pf, extra_targets):
    if ctx.params_hook:
        ctx.params_hook(ctx)
    deps = coq_deps(pf)
    info["files"] = sorted(deps)
    info["forbidden"] = forbidden_scan([os.path.join(COQ, f) for f in deps])
    src = open(os.path.join(COQ, pf)).read()
    thms = re.findall(r"^\s*(?:Theorem|Lemma|Corollary|Example|Fact)\s+([\w']+)", src, re.M)
    info["obligations"] = len(thms)
    targets = [f[:-2] + ".vo" for f in deps if f != pf] + list(extra_targets)
    t0 = time.time()
    ok, out = coq_make(targets) if targets else (True, "")
    if not ok:
        info["log"] = out[-6000:]
        info["failed_stage"] = "dependencies"
        info["discharged"] = 0
        return info
    with locked("coq"):
        rc, out = sh(["coqc", "-Q", ".", "DuneV", "-w", "-notation-overridden,-deprecated-hint-without-locality,-ambiguous-paths,-redundant-canonical-projection,-deprecated-instance-without-locality", pf], cwd=COQ, timeout=1800)
    info["coq_s"] = round(time.time() - t0, 1)
    info["log"] = out[-6000:]
    if rc != 0:
        info["failed_stage"] = "properties"
        m = re.search(r'line (\d+)', out)
        failed_line = int(m.group(1)) if m else 0
        # theorems stated before the failing line count as discharged
        done = 0
        for mm in re.finditer(r"^\s*(?:Theorem|Lemma|Corollary|Example|Fact)\s+([\w']+)", src, re.M):
            end = src.find("Qed.", mm.start())
            if end >= 0 and src.count("\n", 0, end) + 1 < failed_line:
                done += 1
            else:
                info.setdefault("failed_theorem", mm.group(1))
                break
        info["discharged"] = done
        return info
    info["theorems"] = parse_assumptions(src, out)
    info["discharged"] = len(thms)
    info["ok"] = not info["forbidden"]
    return info


def build_model(ctx, driver=None, extract=None, extra=()):
    """Extract coq/<P>_Extract.v to OCaml in build/<P>/ml and link it with ml/<P>_driver.ml."""
    prop = ctx.prop
    extract = extract or "%s_Extract.v" % prop
    driver = driver or os.path.join(VERIF, "ml", "%s_driver.ml" % prop)
    mld = os.path.join(ctx.build, "ml")
    os.makedirs(mld, exist_ok=True)
    deps = [f[:-2] + ".vo" for f in coq_deps(extract) if f != extract]
    for f in glob.glob(os.path.join(mld, "*.ml*")):
        os.remove(f)
    with locked("coq"):
        ok, out = coq_make(deps)
        if not ok:
            raise BuildError("Coq model does not build:\n" + out[-3000:])
        sh(["coqc", "-Q", COQ, "DuneV", "-w", "-extraction-opaque-accessed,-extraction-reserved-identifier,-notation-overridden,-deprecated-hint-without-locality,-ambiguous-paths,-redundant-canonical-projection,-deprecated-instance-without-locality",
            "-o", os.path.join(mld, extract[:-2] + ".vo"), os.path.join(COQ, extract)], cwd=mld, timeout=900, check=True)
    mls = sorted(glob.glob(os.path.join(mld, "*.ml")))
    mods = []
    for ml in mls:
        b = ml[:-3]
        if os.path.exists(b + ".mli"):
            mods.append(b + ".mli")
        mods.append(ml)
    shutil.copy(driver, os.path.join(mld, "driver_main.ml"))
    exe = os.path.join(ctx.build, "model")
    sh(["ocamlfind", "ocamlopt", "-O3" if False else "-inline", "100", "-w", "-a", "-I", mld] + list(extra) + mods +
       [os.path.join(mld, "driver_main.ml"), "-o", exe], cwd=mld, timeout=600, check=True)
    return exe


# --------------------------------------------------------------------------- impl side

REPO_CC_DEFAULT = ["dune/common/exceptions.cc", "dune/common/stdstreams.cc", "dune/common/ios_state.cc"]


def cxx(ctx, srcs, out, repo_srcs=REPO_CC_DEFAULT, flags=(), mpi=False, libs=(), san=False, opt="-O1", timeout=900):
    """Compile an impl driver against the headers and sources of ctx.repo (current working tree)."""
    cc = "mpicxx" if mpi else "g++"
    cmd = [cc, "-std=gnu++20", opt, "-g0" if not san else "-g", "-w", "-DHAVE_CONFIG_H", "-D_GLIBCXX_USE_FLOAT128",
           "-I" + os.path.join(VERIF, "harness", "common", "include"), "-I" + os.path.join(VERIF, "harness", "common"),
           "-I" + ctx.repo]
    if mpi:
        cmd += ["-DHAVE_MPI=1", "-DMPICH_SKIP_MPICXX=1", "-DOMPI_SKIP_MPICXX=1", "-DMPI_NO_CPPBIND=1", "-DMPIPP_H", "-D_MPICC_H"]
    if san:
        cmd += ["-fsanitize=address,undefined", "-fno-sanitize-recover=all", "-fno-omit-frame-pointer"]
    if ctx.hooks_define:
        cmd += ["-D" + ctx.hooks_define]
    cmd += list(flags) + list(srcs) + [os.path.join(ctx.repo, s) for s in repo_srcs] + ["-o", out] + list(libs)
    rc, o = sh(cmd, timeout=timeout)
    if rc != 0:
        raise BuildError("impl driver does not compile against %s:\n%s" % (ctx.repo, o[-5000:]))
    return out


def cxx_many(ctx, jobs):
    """jobs: list of kwargs for cxx(); compiled in parallel.  Returns list of outputs; raises BuildError."""
    from concurrent.futures import ThreadPoolExecutor
    with ThreadPoolExecutor(max_workers=NCPU) as ex:
        futs = [ex.submit(cxx, ctx, **j) for j in jobs]
        return [f.result() for f in futs]


def mpirun(np, exe, args=(), timeout=120, env=None, input=None):
    cmd = ["mpirun", "--allow-run-as-root", "--oversubscribe", "-np", str(np), exe] + list(args)
    return sh(cmd, timeout=timeout, env=env, input=input)


# --------------------------------------------------------------------------- context

class Ctx:
    def __init__(self, prop, tier, seed, repo):
        self.prop, self.tier, self.seed, self.repo = prop, tier, seed, os.path.abspath(repo)
        # one build directory per (property, tree under test): concurrent runs against different trees do not collide
        tag = "" if self.repo == "/repo" else "-" + hashlib.sha1(self.repo.encode()).hexdigest()[:6]
        self.build = os.path.join(VERIF, "build", prop + tag)
        os.makedirs(self.build, exist_ok=True)
        self.t0 = time.time()
        self.viol = []          # (signature, replay dict)
        self.coverage = {}
        self.assumptions = []
        self.coq = None
        self.params_hook = None
        self.hooks_define = "DUNE_COMMON_VERIF"
        self.notes = []
        self.quick = tier == "quick"

    def rng(self, *tags):
        h = hashlib.sha256(("%s|%s|%s" % (self.prop, self.seed, "|".join(map(str, tags)))).encode()).digest()
        return random.Random(int.from_bytes(h[:8], "big"))

    def log(self, *a):
        print("[%s %6.1fs]" % (self.prop, time.time() - self.t0), *a, file=sys.stderr, flush=True)

    def violation(self, signature, replay, found_input=True):
        """Record a violation.  signature: short stable string identifying WHAT fails (used to match
        known findings); replay: JSON-able dict with the concrete case / observations."""
        self.viol.append((signature, replay, found_input))

    def path(self, *a):
        return os.path.join(self.build, *a)


def load_known(prop):
    p = os.path.join(VERIF, "known_findings", prop + ".json")
    if not os.path.exists(p):
        return []
    return json.load(open(p)).get("findings", [])


def coqchk_stage(ctx):
    """Thorough tier: re-check the compiled property file and everything it depends on with the
    independent checker coqchk, and record the axioms it reports."""
    prop = ctx.prop
    with locked("coq"):
        rc, out = sh(["coqchk", "-o", "-silent", "-Q", ".", "DuneV", "DuneV.Properties_%s" % prop], cwd=COQ, timeout=3000)
    info = {"rc": rc, "cmd": "coqchk -o -silent -Q . DuneV DuneV.Properties_%s" % prop}
    m = re.search(r"CONTEXT SUMMARY(.*)", out, re.S)
    info["summary"] = (m.group(1) if m else out)[-3000:].strip().split("\n")
    ctx.coverage["coqchk"] = info
    if rc != 0:
        ctx.violation("coq:coqchk", {"broken": "coqchk rejects Properties_%s.vo" % prop, "log": out[-3000:]}, found_input=False)
    return rc == 0


def finish(ctx, level="proof"):
    """Known-findings filter, replay files, evidence, exit status."""
    prop = ctx.prop
    if ctx.tier == "thorough" and ctx.coq and ctx.coq.get("ok") and os.path.exists(os.path.join(COQ, "Properties_%s.vo" % prop)) \
            and not os.environ.get("VERIF_NO_COQCHK"):
        try:
            coqchk_stage(ctx)
        except Exception as e:           # never let the re-checker's absence hide the real result
            ctx.notes.append("coqchk stage failed to run: %r" % (e,))
    known = [k for k in load_known(prop) if k.get("status") == "known"]
    hits, fresh = {}, []
    for sig, rep, found in ctx.viol:
        for k in known:
            if re.search(k["signature"], sig):
                hits.setdefault(k["id"], k); break
        else:
            fresh.append((sig, rep, found))
    for kid, k in hits.items():
        print("KNOWN-FINDING: property=%s %s: %s" % (prop, kid, k["what"]))
    os.makedirs(os.path.join(VERIF, "replays"), exist_ok=True)
    seen, nrep = set(), 0
    for sig, rep, found in fresh:
        if sig in seen:
            continue
        seen.add(sig)
        if nrep >= 8:
            break
        tag = "" if ctx.repo == "/repo" else "-" + hashlib.sha1(ctx.repo.encode()).hexdigest()[:6]
        path = os.path.join(VERIF, "replays", "%s-%s%s-%d.json" % (prop, ctx.seed, tag, nrep))
        rep = dict(rep); rep.update({"property": prop, "seed": ctx.seed, "tier": ctx.tier, "signature": sig,
                                     "failing_input_found": bool(found), "repo": ctx.repo})
        json.dump(rep, open(path, "w"), indent=1, default=str)
        print("VIOLATION property=%s replay=%s%s" % (prop, path, "" if found else " no-failing-input-found"))
        nrep += 1
    cov = dict(ctx.coverage)
    coq = ctx.coq or {}
    if level == "proof":
        cov.setdefault("obligations", coq.get("obligations", 0))
        cov.setdefault("discharged", coq.get("discharged", 0))
        cov.setdefault("checker_cmd", "make -C coq (coq_makefile, full .vo) + coqc -Q . DuneV Properties_%s.v ; bin/check %s" % (prop, prop))
        cov.setdefault("trusted_base", GLOBAL_TRUSTED + ctx.assumptions)
        cov["theorems"] = coq.get("theorems", [])
        cov["coq_files"] = coq.get("files", [])
        cov["forbidden_constructs_found"] = coq.get("forbidden", [])
    cov.setdefault("evaluations", 0)
    cov.setdefault("distinct_nontrivial", 0)
    cov.setdefault("rule", "")
    cov.setdefault("samples", [])
    cov["known_findings_reported"] = sorted(hits)
    cov["notes"] = ctx.notes
    ev = {"property_id": prop, "tier": ctx.tier, "seed": ctx.seed, "level": level, "coverage": cov,
          "assumptions": ctx.assumptions or ["see coverage.trusted_base"], "wall_s": round(time.time() - ctx.t0, 2),
          "violations": len(seen)}
    if ctx.repo == "/repo":
        os.makedirs(os.path.join(VERIF, "evidence"), exist_ok=True)
        json.dump(ev, open(os.path.join(VERIF, "evidence", prop + ".json"), "w"), indent=1, default=str)
    else:
        # a run against another tree (mutant, seeded change, rewrite) must never overwrite the evidence of /repo itself
        ev["repo"] = ctx.repo
        json.dump(ev, open(os.path.join(ctx.build, "evidence.json"), "w"), indent=1, default=str)
    return 1 if fresh else 0


def coq_stage(ctx):
    """Standard Coq stage of a check: returns True when all theorems of Properties_<P>.v check.
    On failure records a violation (no concrete input yet: the plugin's search may add one)."""
    info = coq_check_properties(ctx)
    if info["forbidden"]:
        ctx.violation("coq:forbidden-construct", {"broken": "forbidden constructs in development", "hits": info["forbidden"]}, found_input=False)
        return False
    if info.get("discharged", 0) != info.get("obligations", -1) or not info["ok"]:
        ctx.violation("coq:theorem:%s" % info.get("failed_theorem", info.get("failed_stage", "?")),
                      {"broken": "theorem/proof no longer checks: %s" % info.get("failed_theorem", info.get("failed_stage")),
                       "log": info.get("log", "")[-3000:]}, found_input=False)
        return False
    ctx.log("coq: %d/%d theorems of %s check (%.1fs)" % (info["discharged"], info["obligations"], info["file"], info.get("coq_s", 0)))
    return True


def compare_streams(ctx, cases, impl, model, what, sig_of=None, max_report=5, oracle=None):
    """Generic line-by-line comparison.  cases/impl/model: lists of equal length (strings).
    oracle(case, impl_line) -> None if the property accepts the impl's observation, else a reason string.
    Returns number of disagreements."""
    nd = 0
    if len(impl) != len(cases) or len(model) != len(cases):
        ctx.violation("corr:%s/%s:length" % (ctx.prop, what),
                      {"broken": "corr:%s/%s" % (ctx.prop, what), "detail": "output length mismatch cases=%d impl=%d model=%d" % (len(cases), len(impl), len(model)),
                       "impl_tail": impl[-3:], "model_tail": model[-3:]}, found_input=False)
        return 1
    for c, a, b in zip(cases, impl, model):
        if a != b:
            nd += 1
            if nd <= max_report:
                reason = oracle(c, a) if oracle else "impl differs from model"
                sig = (sig_of(c) if sig_of else what)
                if reason is None:
                    ctx.violation("corr:%s/%s" % (ctx.prop, sig), {"broken": "corr:%s/%s" % (ctx.prop, what), "case": c, "impl": a, "model": b,
                                                                     "oracle": "accepts impl output"}, found_input=False)
                else:
                    ctx.violation("%s" % sig, {"case": c, "impl": a, "model": b, "oracle": reason}, found_input=True)
    return nd


def main(argv):
    import argparse, importlib.util
    ap = argparse.ArgumentParser()
    ap.add_argument("prop")
    ap.add_argument("--tier", default=os.environ.get("VERIF_TIER", "quick"), choices=["quick", "thorough"])
    ap.add_argument("--repo", default=os.environ.get("VERIF_REPO", "/repo"))
    ap.add_argument("--replay", default=None)
    ap.add_argument("--seed", type=int, default=int(os.environ.get("VERIF_SEED", "1") or 1))
    a = ap.parse_args(argv)
    ctx = Ctx(a.prop, a.tier, a.seed, a.repo)
    if ctx.repo != "/repo":
        private_coq_dir(ctx)
    spec = importlib.util.spec_from_file_location("check_" + a.prop, os.path.join(VERIF, "checks", a.prop + ".py"))
    mod = importlib.util.module_from_spec(spec)
    spec.loader.exec_module(mod)
    level = mod.META.get("level", "proof")
    if a.replay:
        return mod.replay(ctx, a.replay) if hasattr(mod, "replay") else 2
    # serialise runs of the same property against the same tree (they share a build directory)
    _runlock = open(os.path.join(VERIF, "build", ".lock-run-" + os.path.basename(ctx.build)), "w")
    fcntl.flock(_runlock, fcntl.LOCK_EX)
    ctx.t0 = time.time()
    try:
        mod.run(ctx)
    except BuildError as e:
        ctx.log("BUILD ERROR", str(e)[:3000])
        ctx.violation("build:%s" % a.prop, {"broken": "corr:%s/build (harness or model no longer builds against the tree)" % a.prop,
                                             "log": str(e)[-4000:]}, found_input=False)
    rc = finish(ctx, level)
    ctx.log("done rc=%d wall=%.1fs" % (rc, time.time() - ctx.t0))
    return rc


def run_cases(ctx, cmd, cases, tag="impl", timeout=120, max_restarts=12, env=None):
    """Run `cmd + [casefile]` where the program prints exactly one (flushed) line per case.
    A crash or hang is attributed to the case at which the output stops: that case gets the
    observation 'CRASH(<rc>) <last stderr line>' or 'HANG(>timeout)' and the run resumes after it.
    Returns the list of observation lines (same length as cases)."""
    res, start, restarts = [], 0, 0
    while start < len(cases):
        cf = ctx.path("%s.cases.%d" % (tag, start))
        with open(cf, "w") as f:
            f.write("\n".join(cases[start:]) + "\n")
        of, ef = cf + ".out", cf + ".err"
        e = dict(os.environ); e.setdefault("OMPI_ALLOW_RUN_AS_ROOT", "1"); e.setdefault("OMPI_ALLOW_RUN_AS_ROOT_CONFIRM", "1")
        if env: e.update(env)
        with open(of, "w") as fo, open(ef, "w") as fe:
            try:
                rc = subprocess.run(list(cmd) + [cf], stdout=fo, stderr=fe, timeout=timeout, env=e).returncode
            except subprocess.TimeoutExpired:
                rc = 124
        lines = open(of, errors="replace").read().split("\n")
        if lines and lines[-1] == "":
            lines.pop()
        need = len(cases) - start
        if rc == 0 and len(lines) >= need:
            res.extend(lines[:need]); break
        # stopped early
        lines = lines[:need]
        res.extend(lines)
        start += len(lines)
        if start >= len(cases):
            break
        err = open(ef, errors="replace").read().strip().split("\n")
        errl = next((l for l in err if "ERROR" in l or "error" in l or "Assertion" in l or "terminate" in l), err[-1] if err else "")
        res.append(("HANG(>%ss)" % timeout) if rc == 124 else ("CRASH(%d) %s" % (rc, errl[:200])))
        if rc == 124:
            timeout = min(timeout, 10)      # later hangs are detected faster
        start += 1
        restarts += 1
        if restarts > max_restarts:
            res.extend(["NOT-RUN(too many crashes)"] * (len(cases) - start)); break
    return res
