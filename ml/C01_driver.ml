(* C01 model driver: reads the case file (argv[1]), prints one line per case:
     <model observation> | <spec observation (oracle)>
   Case line:  F op rep rep2 r c p tok...      (see checks/C01.py for the layout of tok per op)
   Observation: R=<result> A=<first operand after the call> B=<second operand after the call>
   vectors a,b,c   matrices rows joined by ';'   Gaussian integers re:im   *)
open C01_model

let rec pos_of_int i = if i = 1 then XH else if i land 1 = 0 then XO (pos_of_int (i lsr 1)) else XI (pos_of_int (i lsr 1))
let z_of_int i = if i = 0 then Z0 else if i > 0 then Zpos (pos_of_int i) else Zneg (pos_of_int (- i))
let rec int_of_pos = function XH -> 1 | XO p -> 2 * int_of_pos p | XI p -> 2 * int_of_pos p + 1
let int_of_z = function Z0 -> 0 | Zpos p -> int_of_pos p | Zneg p -> - (int_of_pos p)
let rec nat_of_int i = if i = 0 then O else S (nat_of_int (i - 1))

exception Undef
let get = function Some v -> v | None -> raise Undef

let run (type a) (k : a c01_ops) (parse : string -> a) (show : a -> string)
    (nabs : (a -> z) option) (nabsreal : a -> z) (nabs2 : a -> z) (cmp4 : a -> a -> bool list)
    (op : string) (rep : string) (rep2 : string) (r : int) (c : int) (p : int) (toks : string list) : string * string =
  let rest = ref toks in
  let take1 () = match !rest with t :: tl -> rest := tl; parse t | [] -> failwith "short case" in
  let take n = List.init n (fun _ -> take1 ()) in
  let takem rr cc = List.init rr (fun _ -> take cc) in
  let sv l = String.concat "," (List.map show l) in
  let sm m = String.concat ";" (List.map sv m) in
  let nr = nat_of_int r and nc = nat_of_int c and np = nat_of_int p in
  let obs res a b = Printf.sprintf "R=%s A=%s B=%s" res a b in
  let is_dg s = (s = "DG" || s = "TG") in
  let b01 b = if b then "1" else "0" in
  (* a matrix operand: storage as read (dense rows, or the diagonal), its printed form, its dense meaning *)
  let read_mat rp rr cc =
    if is_dg rp then let d = take rr in (`Diag d, sv d, c01s_diag k d)
    else let m = takem rr cc in (`Dense m, sm m, m) in
  (* kernels of a representation as closures *)
  let kern (st : [ `Diag of a list | `Dense of a list list ]) (o : string) (alpha : a) (x : a list) (y : a list) : a list =
    match st with
    | `Diag d when List.length d >= 2 ->
      let lit = (match o with
       | "mv" -> c01_dg_mv k d x y | "mtv" -> c01_dg_mtv k d x y | "umv" -> c01_dg_umv k d x y | "umtv" -> c01_dg_umtv k d x y
       | "umhv" -> c01_dg_umhv k d x y | "mmv" -> c01_dg_mmv k d x y | "mmtv" -> c01_dg_mmtv k d x y | "mmhv" -> c01_dg_mmhv k d x y
       | "usmv" -> c01_dg_usmv k alpha d x y | "usmtv" -> c01_dg_usmtv k alpha d x y | "usmhv" -> c01_dg_usmhv k alpha d x y
       | _ -> failwith "kernel") in
      let par = (match o with
       | "mv" -> c01_param_diag_mv | "mtv" -> c01_param_diag_mtv | "umv" -> c01_param_diag_umv | "umtv" -> c01_param_diag_umtv
       | "umhv" -> c01_param_diag_umhv | "mmv" -> c01_param_diag_mmv | "mmtv" -> c01_param_diag_mmtv | "mmhv" -> c01_param_diag_mmhv
       | "usmv" -> c01_param_diag_usmv | "usmtv" -> c01_param_diag_usmtv | _ -> c01_param_diag_usmhv) in
      let src = c01_dg_kernel_gen k par alpha d x y in
      if src <> lit then prerr_endline ("C01 driver: source-selected diagonal kernel differs from the literal model kernel: " ^ o);
      src
    | _ ->
      let m = (match st with `Diag d -> [d] | `Dense m -> m) in      (* DiagonalMatrix<K,1> is a FieldMatrix<K,1,1> *)
      (* the kernel built from the tokens read from densematrix.hh (Params_gen), run as a transformer of the three objects;
         it must return A and x unchanged (checked here) and, by theorem, equals the literal kernel below *)
      let viaobjs par = let s = c01_kernel_objs k (c01_kdesc_of par) alpha { c01_oA = m; c01_ox = x; c01_oy = y } in
        if s.c01_oA = m && s.c01_ox = x then s.c01_oy else failwith "model frame broken" in
      let lit = (match o with
       | "mv" -> c01_mv k m x y | "mtv" -> c01_mtv k m x y | "umv" -> c01_umv k m x y | "umtv" -> c01_umtv k m x y
       | "umhv" -> c01_umhv k m x y | "mmv" -> c01_mmv k m x y | "mmtv" -> c01_mmtv k m x y | "mmhv" -> c01_mmhv k m x y
       | "usmv" -> c01_usmv k alpha m x y | "usmtv" -> c01_usmtv k alpha m x y | "usmhv" -> c01_usmhv k alpha m x y
       | _ -> failwith "kernel") in
      let src = (match o with
       | "mv" -> viaobjs c01_param_dense_mv | "mtv" -> viaobjs c01_param_dense_mtv | "umv" -> viaobjs c01_param_dense_umv
       | "umtv" -> viaobjs c01_param_dense_umtv | "umhv" -> viaobjs c01_param_dense_umhv | "mmv" -> viaobjs c01_param_dense_mmv
       | "mmtv" -> viaobjs c01_param_dense_mmtv | "mmhv" -> viaobjs c01_param_dense_mmhv | "usmv" -> viaobjs c01_param_dense_usmv
       | "usmtv" -> viaobjs c01_param_dense_usmtv | _ -> viaobjs c01_param_dense_usmhv) in
      (* the model observation follows the source tokens; a difference to the literal kernel means the tokens changed
         (then C01_source_selects_model no longer checks and the oracle judges the implementation against the definition) *)
      if src <> lit then prerr_endline ("C01 driver: source-selected kernel differs from the literal model kernel: " ^ o);
      src in
  let spec_kern (o : string) (alpha : a) (cc : nat) (m : a list list) (x : a list) (y : a list) : a list =
    match o with
    | "mv" -> c01s_assign k C01_N cc m x | "mtv" -> c01s_assign k C01_T cc m x
    | "umv" -> c01s_plus k C01_N cc m x y | "umtv" -> c01s_plus k C01_T cc m x y | "umhv" -> c01s_plus k C01_H cc m x y
    | "mmv" -> c01s_minus k C01_N cc m x y | "mmtv" -> c01s_minus k C01_T cc m x y | "mmhv" -> c01s_minus k C01_H cc m x y
    | "usmv" -> c01s_plus_scaled k alpha C01_N cc m x y | "usmtv" -> c01s_plus_scaled k alpha C01_T cc m x y
    | "usmhv" -> c01s_plus_scaled k alpha C01_H cc m x y
    | _ -> failwith "kernel" in
  let wrapped s = (s = "TF" || s = "TD" || s = "TG") in
  let nkind o = (o = "mv" || o = "umv" || o = "mmv" || o = "usmv") in
  match op with
  (* ---------------------------------------------------------------- matrix-vector kernels *)
  | "mv" | "mtv" | "umv" | "umtv" | "umhv" | "mmv" | "mmtv" | "mmhv" | "usmv" | "usmtv" | "usmhv" ->
    let alpha = take1 () in
    let (st, sa, dense) = read_mat rep r c in
    if wrapped rep then begin
      (* transposedView(W): mv = W.mtv, mtv = W.mv; W is r x c *)
      let (xs, ys) = if op = "mv" then (r, c) else (c, r) in
      let x = take xs in let y = take ys in
      let y' = (if op = "mv" then c01_tw_mv (kern st "mtv" alpha) x y else c01_tw_mtv (kern st "mv" alpha) x y) in
      let wt = c01s_transpose k nc dense in      (* the matrix the wrapper stands for: c x r *)
      let ysp = spec_kern op alpha nr wt x y in
      (obs (sv y') sa (sv x), obs (sv ysp) sa (sv x))
    end else begin
      let (xs, ys) = if nkind op then (c, r) else (r, c) in
      let x = take xs in let y = take ys in
      let y' = kern st op alpha x y in
      let ysp = spec_kern op alpha nc dense x y in
      (obs (sv y') sa (sv x), obs (sv ysp) sa (sv x))
    end
  (* ---------------------------------------------------------------- vector space operations on vectors *)
  | "vadd" | "vsub" | "vplus" | "vminus" | "vneg" | "vadds" | "vsubs" | "vscale" | "vdiv" | "veq" | "vaxpy"
  | "vdotT" | "vdot" | "fvmuls" | "fvsmul" | "fvdivs" ->
    let s = take1 () in let x = take r in let y = take r in
    let inplace res sp = (obs (sv res) (sv res) (sv y), obs (sv sp) (sv sp) (sv y)) in
    let fresh res sp = (obs res (sv x) (sv y), obs sp (sv x) (sv y)) in
    (* x op= y as a transformer of both objects: y must come back unchanged, x as the functional loop computes it *)
    let viaobjs f lit = let o = c01_vec_inplace_objs k f { c01_vx = x; c01_vy = y } in
      if o.c01_vy = y && o.c01_vx = lit then o.c01_vx else failwith "model frame broken (vector)" in
    (match op with
     | "vadd" -> inplace (viaobjs k.c01_add (c01_vadd k x y)) (c01s_vadd k x y)
     | "vsub" -> inplace (viaobjs k.c01_sub (c01_vsub k x y)) (c01s_vsub k x y)
     | "vplus" when rep = "SW" ->
       (* literal model of the view: the result is another view of the same scalar (finding F-C01-4): operand altered *)
       let (z, st') = c01_cell_binop k k.c01_add [List.hd x; List.hd y] O (S O) in (obs (show z) (show (List.hd st')) (sv y), obs (sv (c01s_vadd k x y)) (sv x) (sv y))
     | "vminus" when rep = "SW" ->
       let (z, st') = c01_cell_binop k k.c01_sub [List.hd x; List.hd y] O (S O) in (obs (show z) (show (List.hd st')) (sv y), obs (sv (c01s_vsub k x y)) (sv x) (sv y))
     | "vplus" -> fresh (sv (c01_vplus k x y)) (sv (c01s_vadd k x y))
     | "vminus" -> fresh (sv (c01_vminus k x y)) (sv (c01s_vsub k x y))
     | "vneg" ->
       (* `V result;` : n zeros for FieldVector; for DynamicVector the model is the code after fix C01-1 (copy of x) *)
       let res0 = if rep = "DV" then x else c01_vzero k nr in
       fresh (sv (get (c01_vneg_from k res0 x))) (sv (c01s_vopp k x))
     | "vadds" -> inplace (c01_vadds k x s) (List.map (fun a -> k.c01_add a s) x)
     | "vsubs" -> inplace (c01_vsubs k x s) (List.map (fun a -> k.c01_sub a s) x)
     | "vscale" -> inplace (c01_vscale k x s) (List.map (fun a -> k.c01_mul a s) x)
     | "vdiv" -> inplace (get (c01_vdiv k x s)) (get (c01s_vdiv k x s))
     | "veq" -> fresh (b01 (c01_veq k x y)) (b01 (c01s_veqb k x y))
     | "vaxpy" -> inplace (c01_vaxpy k x s y) (c01s_vadd k x (c01s_vscale k s y))
     | "vdotT" -> fresh (show (c01_vdotT k x y)) (show (c01s_dot k x y))
     | "vdot" -> fresh (show (c01_vdot k x y)) (show (c01s_hdot k x y))
     | "fvmuls" -> fresh (sv (c01_fv_muls k x s)) (sv (List.map (fun a -> k.c01_mul a s) x))
     | "fvsmul" -> fresh (sv (c01_fv_smul k s x)) (sv (c01s_vscale k s x))
     | "fvdivs" -> fresh (sv (get (c01_fv_divs k x s))) (sv (get (c01s_vdiv k x s)))
     | _ -> failwith "vec op")
  (* ---------------------------------------------------------------- vector space operations on matrices, transposition, conversion *)
  | "madd" | "msub" | "mscale" | "mdiv" | "maxpy" | "meq" | "mneg" | "fmplus" | "fmminus" | "fmmuls" | "fmsmul" | "fmdivs"
  | "transposed" | "asdense" | "assign" | "dgadd" | "dgsub" | "dgscale" | "dgdiv" | "dgeq" ->
    let s = take1 () in
    if is_dg rep && op <> "assign" && op <> "asdense" then begin
      let a = take r in let b = take r in
      let inplace res sp = (obs (sv res) (sv res) (sv b), obs (sv sp) (sv sp) (sv b)) in
      let fresh res sp = (obs res (sv a) (sv b), obs sp (sv a) (sv b)) in
      let diag_of m = List.mapi (fun i row -> List.nth row i) m in
      (match op with
       | "dgadd" -> inplace (c01_vadd k a b) (diag_of (c01s_madd k (c01s_diag k a) (c01s_diag k b)))
       | "dgsub" -> inplace (c01_vsub k a b) (diag_of (c01s_msub k (c01s_diag k a) (c01s_diag k b)))
       | "dgscale" -> inplace (c01_vscale k a s) (List.map (fun v -> k.c01_mul v s) a)
       | "dgdiv" -> inplace (get (c01_vdiv k a s)) (get (c01s_vdiv k a s))
       | "dgeq" -> fresh (b01 (c01_veq k a b)) (b01 (c01s_meqb k (c01s_diag k a) (c01s_diag k b)))
       | "transposed" -> fresh (sv (c01_dg_transposed a)) (sv (diag_of (c01s_transpose k nr (c01s_diag k a))))
       | _ -> failwith "diag op")
    end else begin
      let (sta, sa, a) = read_mat (if op = "assign" then rep2 else rep) r c in
      let (_, sb, b) = read_mat (if op = "assign" then rep2 else if op = "asdense" then rep else rep2) r c in
      let one = (rep = "FM" && r = 1 && c = 1) in
      let inplace res sp = (obs (sm res) (sm res) sb, obs (sm sp) (sm sp) sb) in
      let fresh res sp = (obs res sa sb, obs sp sa sb) in
      (match op with
       | "madd" -> inplace (c01_madd k a b) (c01s_madd k a b)
       | "msub" -> inplace (c01_msub k a b) (c01s_msub k a b)
       | "mscale" -> inplace (c01_mscale k a s) (List.map (List.map (fun v -> k.c01_mul v s)) a)
       | "mdiv" -> inplace (get (c01_mdiv k a s)) (get (c01s_mdiv k a s))
       | "maxpy" -> inplace (c01_maxpy k a s b) (c01s_madd k a (c01s_mscale k s b))
       | "meq" -> fresh (b01 (c01_meq k a b)) (b01 (c01s_meqb k a b))
       | "mneg" ->
         let res0 = if rep = "DM" then a else c01_mzero k nr nc in       (* DM: the code after fix C01-1 *)
         fresh (sm (get (c01_mneg_from k res0 a))) (sm (c01s_mopp k a))
       | "fmplus" -> fresh (sm (if one then c01_fm11_binop k k.c01_add a b else c01_fm_plus k nr nc a b)) (sm (c01s_madd k a b))
       | "fmminus" -> fresh (sm (if one then c01_fm11_binop k k.c01_sub a b else c01_fm_minus k nr nc a b)) (sm (c01s_msub k a b))
       | "fmmuls" -> fresh (sm (if one then c01_fm11_scalar_r k k.c01_mul a s else c01_fm_muls k nr nc a s))
                       (sm (List.map (List.map (fun v -> k.c01_mul v s)) a))
       | "fmsmul" -> fresh (sm (if one then c01_fm11_scalar_l k k.c01_mul s a else c01_fm_smul k nr nc s a)) (sm (c01s_mscale k s a))
       | "fmdivs" ->
         let m = if one then [[get (k.c01_div (c01_get k a O O) s)]] else get (c01_fm_divs k nr nc a s) in
         fresh (sm m) (sm (get (c01s_mdiv k a s)))
       | "transposed" -> fresh (sm (if one then c01_fm11_transposed a else c01_transposed k a)) (sm (c01s_transpose k nc a))
       | "asdense" ->
         (* transposedView(W).asDense(): entries visited through sparseRange; diagonal matrices expose their diagonal only *)
         let m = (match sta with `Diag d when List.length d >= 2 -> c01_tw_asdense k (c01_dg_to_dense k d) | _ -> c01_tw_asdense k a) in
         fresh (sm m) (sm (c01s_transpose k nc a))
       | "assign" ->
         let m = (match sta with `Diag d when List.length d >= 2 -> c01_dg_to_dense k d | _ -> c01_assign_dense k a) in
         fresh (sm m) (sm a)
       | _ -> failwith "mat op")
    end
  (* ---------------------------------------------------------------- products *)
  | "mul" ->
    (match rep, rep2 with
     | "DG", "DG" ->
       let a = take r in let b = take r in
       let diag_of m = List.mapi (fun i row -> List.nth row i) m in
       let sp = c01s_mat_mul k nr (c01s_diag k a) (c01s_diag k b) in
       let offdiag_zero = List.for_all (fun x -> x) (List.concat (List.mapi (fun i row -> List.mapi (fun j v -> i = j || k.c01_eqb v k.c01_O) row) sp)) in
       (obs (sv (c01_dg_mul k a b)) (sv a) (sv b), obs (if offdiag_zero then sv (diag_of sp) else "NOT-DIAGONAL") (sv a) (sv b))
     | "DG", _ ->
       (* Diagonal(r) * FieldMatrix(r x p): for each column j  A.mv(B_j, result_j) *)
       let (sta, sa, a) = read_mat "DG" r r in let b = takem r p in
       let mvA = kern sta "mv" k.c01_O in
       (obs (sm (c01_mul_via_mv k mvA nr nr np b)) sa (sm b), obs (sm (c01s_mat_mul k np a b)) sa (sm b))
     | _, _ when wrapped rep2 ->
       (* A (r x c) * transposedView(W), W is p x c *)
       let a = takem r c in
       let (stw, sw, w) = read_mat rep2 p c in
       let mvW = kern stw "mv" k.c01_O in
       let res = if rep = "FM" && rep2 <> "TD"
         then c01_mul_via_mtv k (c01_tw_mtv mvW) nr np a          (* FieldMatrix * static wrapper: wrapper.mtv per row *)
         else c01_mul_by_transposed k mvW nr np a in                (* wrapper's own operator*: W.mv per row *)
       (obs (sm res) (sm a) sw, obs (sm (c01s_mat_mul k np a (c01s_transpose k nc w))) (sm a) sw)
     | "FM", "DG" ->
       let a = takem r c in let (stb, sb, b) = read_mat "DG" c c in
       let mtvB = kern stb "mtv" k.c01_O in
       (obs (sm (c01_mul_via_mtv k mtvB nr nc a)) (sm a) sb, obs (sm (c01s_mat_mul k nc a b)) (sm a) sb)
     | _, _ ->
       let a = takem r c in let b = takem c p in
       let res = if r = 1 && c = 1 then c01_fm11_mul_row k np a b else c01_fm_mul k nr nc np a b in
       (obs (sm res) (sm a) (sm b), obs (sm (c01s_mat_mul k np a b)) (sm a) (sm b)))
  | "leftmultiply" ->
    let a = takem r c in let m = takem r r in
    let res = c01_leftmultiply k a m and sp = c01s_mat_mul k nc m a in
    (obs (sm res) (sm res) (sm m), obs (sm sp) (sm sp) (sm m))
  | "rightmultiply" ->
    let a = takem r c in let m = takem c c in
    let res = if rep = "FM" && r = 1 && c = 1 then c01_fm11_rightmultiply k a m else c01_rightmultiply k a m in
    let sp = c01s_mat_mul k nc a m in
    (obs (sm res) (sm res) (sm m), obs (sm sp) (sm sp) (sm m))
  | "leftmultiplyany" ->
    let a = takem r c in let m = takem p r in
    let res = if r = 1 && c = 1 then c01_fm11_leftmultiplyany k np a m else c01_leftmultiplyany k np a m in
    (obs (sm res) (sm a) (sm m), obs (sm (c01s_mat_mul k nc m a)) (sm a) (sm m))
  | "rightmultiplyany" ->
    let a = takem r c in let m = takem c p in
    let res = if r = 1 && c = 1 then c01_fm11_rightmultiplyany k np a m else c01_rightmultiplyany k np a m in
    (obs (sm res) (sm a) (sm m), obs (sm (c01s_mat_mul k np a m)) (sm a) (sm m))
  (* ---------------------------------------------------------------- extra streams (harness/C01/impl_extra.hh) *)
  | "xfill" ->
    let s = take1 () in
    (match rep with
     | "FV" | "DV" | "DG" -> let x = take r in
       let m = sv (c01_fill x s) and sp = sv (List.map (fun _ -> s) x) in (obs m m (show s), obs sp sp (show s))
     | "FM" | "DM" -> let a = takem r c in
       let m = sm (c01_mfill a s) and sp = sm (List.map (List.map (fun _ -> s)) a) in (obs m m (show s), obs sp sp (show s))
     | _ -> let _ = take 2 in (obs (show s) (show s) (show s), obs (show s) (show s) (show s)))
  | "xcopy" ->
    let _ = take1 () in let x = take r in
    let b = if rep = "FV" && rep2 = "FV" then show (List.hd x) else "-" in
    (obs (sv (c01_vassign k (c01_vzero k nr) x)) (sv x) b, obs (sv x) (sv x) b)
  | "xmcopy" ->
    let _ = take1 () in
    if rep = "DG" then begin
      let d = take r in (obs (sv (c01_dg_transposed d)) (sv d) "1", obs (sv d) (sv d) "1")
    end else begin
      let a = takem r c in
      let b = if rep = "DM" then sv (List.hd a) else "-" in
      (obs (sm (c01_assign_dense k a)) (sm a) b, obs (sm a) (sm a) b)
    end
  | "xfield" ->
    let _ = take1 () in
    (match rep with
     | "FV" | "DV" -> let x = take r in (obs (sv (c01_vassign k (c01_vzero k nr) x)) (sv x) "-", obs (sv x) (sv x) "-")
     | _ -> let a = takem r c in (obs (sm (c01_assign_dense k a)) (sm a) "-", obs (sm a) (sm a) "-"))
  | "xmixmul" -> let _ = take1 () in let a = takem r c in let b = takem c p in
    (obs (sm (if r = 1 && c = 1 then c01_fm11_mul_row k np a b else c01_fm_mul k nr nc np a b)) (sm a) (sm b), obs (sm (c01s_mat_mul k np a b)) (sm a) (sm b))
  | "xmixadd" -> let _ = take1 () in let a = takem r c in let b = takem r c in
    (obs (sm (if r = 1 && c = 1 then c01_fm11_binop k k.c01_add a b else c01_fm_plus k nr nc a b)) (sm a) (sm b), obs (sm (c01s_madd k a b)) (sm a) (sm b))
  | "xmixsub" -> let _ = take1 () in let a = takem r c in let b = takem r c in
    (obs (sm (if r = 1 && c = 1 then c01_fm11_binop k k.c01_sub a b else c01_fm_minus k nr nc a b)) (sm a) (sm b), obs (sm (c01s_msub k a b)) (sm a) (sm b))
  | "xmixmscale" -> let s = take1 () in let a = takem r c in
    (obs (sm (if r = 1 && c = 1 then c01_fm11_scalar_l k k.c01_mul s a else c01_fm_smul k nr nc s a)) (sm a) "-", obs (sm (c01s_mscale k s a)) (sm a) "-")
  | "xmixumv" -> let _ = take1 () in let a = takem r c in let x = take c in let y = take r in
    (obs (sv (c01_umv k a x y)) (sm a) (sv x), obs (sv (c01s_plus k C01_N nc a x y)) (sm a) (sv x))
  | "xmixdot" -> let _ = take1 () in let x = take r in let y = take r in
    (obs (show (c01_vdot k x y)) (sv x) (sv y), obs (show (c01s_hdot k x y)) (sv x) (sv y))
  | "xmixdotT" -> let _ = take1 () in let x = take r in let y = take r in
    (obs (show (c01_vdotT k x y)) (sv x) (sv y), obs (show (c01s_dot k x y)) (sv x) (sv y))
  | "xmixscale" -> let s = take1 () in let x = take r in let y = take r in
    (obs (sv (c01_fv_smul k s x)) (sv x) (sv y), obs (sv (c01s_vscale k s x)) (sv x) (sv y))
  | "xmixvadd" -> let _ = take1 () in let x = take r in let y = take r in
    let m = sv (c01_vadd k y x) and sp = sv (c01s_vadd k y x) in (obs m (sv x) m, obs sp (sv x) sp)
  | "xmixaxpy" -> let s = take1 () in let x = take r in let y = take r in
    let m = sv (c01_vaxpy k y s x) and sp = sv (c01s_vadd k y (c01s_vscale k s x)) in (obs m (sv x) m, obs sp (sv x) sp)
  | "xmixdg" -> let _ = take1 () in let a = take r in let b = take r in
    (obs (sv (c01_dg_mul k a b)) "-" (sv b), obs (sv (c01s_map2 k.c01_mul a b)) "-" (sv b))
  | "xfm11adds" | "xfm11sadd" | "xfm11subs" | "xfm11ssub" | "xfm11pluseq" | "xfm11minuseq" | "xfm11timeseq" | "xfm11diveq"
  | "xfm11mpluseq" | "xfm11conv" ->
    let s = take1 () in let a = take1 () in let b = take1 () in
    let m11 v = [[v]] in
    let fresh res sp = (obs (sm res) (show a) (show s), obs (show sp) (show a) (show s)) in
    let inpl res sp bb = (obs (sm res) (sm res) bb, obs (show sp) (show sp) bb) in
    (match op with
     | "xfm11adds" -> fresh (c01_fm11_scalar_r k k.c01_add (m11 a) s) (k.c01_add a s)
     | "xfm11sadd" -> fresh (c01_fm11_scalar_l k k.c01_add s (m11 a)) (k.c01_add s a)
     | "xfm11subs" -> fresh (c01_fm11_scalar_r k k.c01_sub (m11 a) s) (k.c01_sub a s)
     | "xfm11ssub" -> fresh (c01_fm11_scalar_l k k.c01_sub s (m11 a)) (k.c01_sub s a)
     | "xfm11pluseq" -> inpl (c01_fm11_scalar_r k k.c01_add (m11 a) s) (k.c01_add a s) (show s)
     | "xfm11minuseq" -> inpl (c01_fm11_scalar_r k k.c01_sub (m11 a) s) (k.c01_sub a s) (show s)
     | "xfm11timeseq" -> inpl (c01_fm11_scalar_r k k.c01_mul (m11 a) s) (k.c01_mul a s) (show s)
     | "xfm11diveq" -> let q = get (k.c01_div a s) in inpl (m11 q) q (show s)
     | "xfm11mpluseq" -> inpl (c01_madd k (m11 a) (m11 b)) (k.c01_add a b) (show b)
     | _ -> let cv = c01_fm11_conv k (m11 a) in (obs (show cv) (show (k.c01_mul cv s)) (show a), obs (show a) (show (k.c01_mul a s)) (show a)))
  | "xfv1adds" | "xfv1sadd" | "xfv1subs" | "xfv1ssub" | "xfv1muls" | "xfv1smul" | "xfv1divs" | "xfv1sdiv" | "xfv1conv" | "xfv1eq" | "xfv1cmp" ->
    let s = take1 () in let a = take1 () in let b = take1 () in
    let fresh v = (obs (show v) (show a) (show s), obs (show v) (show a) (show s)) in
    let bits l = String.concat "" (List.map b01 l) in
    (match op with
     | "xfv1adds" -> fresh (List.hd (c01_fv1_op k k.c01_add [a] s)) | "xfv1sadd" -> fresh (List.hd (c01_fv1_op_l k k.c01_add s [a]))
     | "xfv1subs" -> fresh (List.hd (c01_fv1_op k k.c01_sub [a] s)) | "xfv1ssub" -> fresh (List.hd (c01_fv1_op_l k k.c01_sub s [a]))
     | "xfv1muls" -> fresh (List.hd (c01_fv1_op k k.c01_mul [a] s)) | "xfv1smul" -> fresh (List.hd (c01_fv1_op_l k k.c01_mul s [a]))
     | "xfv1divs" -> fresh (get (k.c01_div a s)) | "xfv1sdiv" -> fresh (get (k.c01_div s a))
     | "xfv1conv" -> (obs (show s) (show a) (show s), obs (show s) (show a) (show s))
     | "xfv1eq" ->
       let e x y = k.c01_eqb x y in
       let m = bits [c01_veq k [a] [s]; not (c01_veq k [a] [s]); c01_veq k [s] [a]; not (c01_veq k [s] [a]); c01_veq k [a] [b]; not (c01_veq k [a] [b])] in
       let sp = bits [e a s; not (e a s); e s a; not (e s a); e a b; not (e a b)] in
       (obs m (show a) (show b), obs sp (show a) (show b))
     | _ -> let m = bits (cmp4 a b @ cmp4 a s @ cmp4 s a) in (obs m (show a) (show b), obs m (show a) (show b)))
  | "xdotfree" ->
    let _ = take1 () in let x = take r in let y = take r in
    let e = show (k.c01_mul (k.c01_conj (List.hd x)) (List.hd y)) ^ "," ^ show (k.c01_mul (List.hd x) (List.hd y)) in
    (obs (show (c01_vdot k x y)) (show (c01_vdotT k x y)) e, obs (show (c01s_hdot k x y)) (show (c01s_dot k x y)) e)
  | "xhelpmv" | "xhelpmvd" -> let _ = take1 () in let a = takem r c in let x = take c in let y = take r in
    (obs (sv (c01_mv k a x y)) (sm a) (sv x), obs (sv (c01s_assign k C01_N nc a x)) (sm a) (sv x))
  | "xhelpmtv" -> let _ = take1 () in let a = takem r c in let x = take r in let y = take c in
    (obs (sv (c01_mtv k a x y)) (sm a) (sv x), obs (sv (c01s_assign k C01_T nc a x)) (sm a) (sv x))
  | "xhelpmtm" -> let _ = take1 () in let a = takem r c in let z = takem c c in
    (obs (sm (c01_mult_transposed k nr nc a z)) (sm a) "-", obs (sm (c01s_mat_mul k nc (c01s_transpose k nc a) a)) (sm a) "-")
  | "xhelpmult" -> let _ = take1 () in let a = takem r c in let b = takem c p in let _ = takem r p in
    (obs (sm (c01_fm_mul k nr nc np a b)) (sm a) (sm b), obs (sm (c01s_mat_mul k np a b)) (sm a) (sm b))
  | "xnorm" ->
    let _ = take1 () in
    let sz z = string_of_int (int_of_z z) in
    let sumz l = List.fold_right (fun a b -> Z.add a b) l Z0 and maxz l = List.fold_right (fun a b -> Z.max a b) l Z0 in
    let opt f = match nabs with Some g -> f g | None -> "-" in
    (match rep with
     | "FV" | "DV" -> let x = take r in
       let m = String.concat "," [opt (fun g -> sz (c01_norm_sum k g x)); sz (c01_norm_sum k nabsreal x); sz (c01_norm_sum k nabs2 x);
                                  opt (fun g -> sz (c01_norm_max k g x)); sz (c01_norm_max k nabsreal x)] in
       let sp = String.concat "," [opt (fun g -> sz (sumz (List.map g x))); sz (sumz (List.map nabsreal x)); sz (sumz (List.map nabs2 x));
                                   opt (fun g -> sz (maxz (List.map g x))); sz (maxz (List.map nabsreal x))] in
       (obs m (sv x) "-", obs sp (sv x) "-")
     | "DG" -> let d = take r in
       let m = String.concat "," [sz (c01_norm_sum k nabs2 d); opt (fun g -> sz (c01_norm_max k g d)); sz (c01_norm_max k nabsreal d)] in
       let dd = c01s_diag k d in
       let sp = String.concat "," [sz (sumz (List.map (fun row -> sumz (List.map nabs2 row)) dd)); opt (fun g -> sz (maxz (List.map (fun row -> sumz (List.map g row)) dd)));
                                   sz (maxz (List.map (fun row -> sumz (List.map nabsreal row)) dd))] in
       (obs m (sv d) "-", obs sp (sv d) "-")
     | _ -> let a = takem r c in
       let m = String.concat "," [sz (c01_mnorm_sum k nabs2 a); opt (fun g -> sz (c01_mnorm_inf k g a)); sz (c01_mnorm_inf k nabsreal a)] in
       let sp = String.concat "," [sz (sumz (List.map (fun row -> sumz (List.map nabs2 row)) a)); opt (fun g -> sz (maxz (List.map (fun row -> sumz (List.map g row)) a)));
                                   sz (maxz (List.map (fun row -> sumz (List.map nabsreal row)) a))] in
       (obs m (sm a) "-", obs sp (sm a) "-"))
  | "xvaccess" ->
    let _ = take1 () in let x = take r in let y = take r in
    let last l = List.nth l (List.length l - 1) in
    let n = string_of_int r in
    let info = (if r > 0 then [show (List.hd x); show (last x); show (last x); string_of_int (r - 1)] else []) @ [n; n; n; b01 (r = 0); "1"; n] in
    let o = obs (if r = 0 then "-" else sv (c01_vassign k (c01_vzero k nr) x)) (String.concat "," info) (sv (c01_vassign k x y)) in
    let osp = obs (if r = 0 then "-" else sv x) (String.concat "," info) (sv y) in
    (o, osp)
  | "xmaccess" ->
    let _ = take1 () in
    if rep = "DG" && r >= 2 then begin
      let d = take r in let e = take r in
      let n = string_of_int r in
      let ex = List.length (List.filter (fun b -> b) (List.concat (List.init r (fun i -> List.init r (fun j -> c01_dg_exists (nat_of_int i) (nat_of_int j)))))) in
      let info = String.concat "," [n; n; n; n; n; string_of_int ex; show (List.nth d (r - 1)); string_of_int (r - 1); sv d] in
      (obs (sm (c01_dg_to_dense k d)) info (sv (c01_vassign k d e)), obs (sm (c01s_diag k d)) info (sv e))
    end else begin
      let (rr, cc) = if rep = "DG" then (1, 1) else (r, c) in
      let a = takem rr cc in let b = takem rr cc in
      let info = String.concat "," (List.map string_of_int [rr; cc; rr; cc; rr; rr * cc]) in
      (obs (sm (c01_assign_dense k a)) info (sm (c01_assign_dense k b)), obs (sm a) info (sm b))
    end
  | "xdgadds" | "xdgsubs" ->
    let s = take1 () in let d = take r in
    let (m, sp) = if op = "xdgadds" then (c01_vadds k d s, List.map (fun a -> k.c01_add a s) d) else (c01_vsubs k d s, List.map (fun a -> k.c01_sub a s) d) in
    (obs (sv m) (sv m) (show s), obs (sv sp) (sv sp) (show s))
  | "xview" ->
    let alpha = take1 () in let s = take1 () in let xs = take1 () in let ys = take1 () in
    let a = show s ^ "," ^ show xs in
    (obs (sv (c01_usmhv k alpha [[s]] [xs] [ys])) a "1,111", obs (sv (c01s_plus_scaled k alpha C01_H (nat_of_int 1) [[s]] [xs] [ys])) a "1,111")
  | "xtw" ->
    let _ = take1 () in let a = takem r c in let x = take r in let y = take c in
    let two = k.c01_add k.c01_I k.c01_I in
    let a2 = c01_mscale k a two in
    (obs (sv (c01_tw_mv (c01_mtv k a) x y)) (sv (c01_tw_mv (c01_mtv k a2) x y)) (sm a),
     obs (sv (c01s_assign k C01_T nc a x)) (sv (c01s_assign k C01_T nc (c01s_mscale k two a) x)) (sm a))
  (* every 1x1 / size-1 representation as receiver and as argument; views are reference cells: store [a; b], the receiver is cell 0,
     the argument cell 1, or cell 0 again when it is a second view of the receiver's scalar (rep2 = SS).  Model = the code after
     fixes C01-6 / C01-7 *)
  | _ when String.length op > 3 && (String.sub op 0 3 = "xr_" || String.sub op 0 3 = "xw_") ->
    let s = take1 () in let a = take1 () in let b = take1 () in
    let st = [a; b] in
    let m = if rep2 = "SS" then nat_of_int 0 else nat_of_int 1 in
    let o = String.sub op 3 (String.length op - 3) in
    let cell l i = List.nth l i in
    let after st' = obs (show (cell st' 0)) (show (cell st' 0)) (show (cell st' (if rep2 = "SS" then 0 else 1))) in
    let bval = if rep2 = "SS" then a else b in
    let inpl st' v = (after st', obs (show v) (show v) (show (if rep2 = "SS" then v else b))) in
    let fresh r v = (obs r (show a) (show bval), obs v (show a) (show bval)) in
    let upd0 v = c01_upd st O v in
    (match o with
     | "leftmultiply" -> inpl (c01_cell_leftmultiply k st O m) (k.c01_mul bval a)
     | "rightmultiply" -> inpl (c01_cell_rightmultiply k st O m) (k.c01_mul a bval)
     | "madd" | "vadd" -> inpl (c01_cell_inplace k k.c01_add st O m) (k.c01_add a bval)
     | "msub" | "vsub" -> inpl (c01_cell_inplace k k.c01_sub st O m) (k.c01_sub a bval)
     | "maxpy" | "vaxpy" -> inpl (c01_cell_inplace k (fun x y -> k.c01_add x (k.c01_mul s y)) st O m) (k.c01_add a (k.c01_mul s bval))
     | "mscale" | "vscale" -> inpl (upd0 (List.hd (c01_vscale k [a] s))) (k.c01_mul a s)
     | "mdiv" | "vdiv" -> let q = get (k.c01_div a s) in inpl (upd0 (List.hd (get (c01_vdiv k [a] s)))) q
     | "vadds" -> inpl (upd0 (List.hd (c01_vadds k [a] s))) (k.c01_add a s)
     | "vsubs" -> inpl (upd0 (List.hd (c01_vsubs k [a] s))) (k.c01_sub a s)
     | "meq" | "veq" -> fresh (b01 (c01_veq k [a] [bval])) (b01 (k.c01_eqb a bval))
     | "vdotT" -> fresh (show (c01_vdotT k [a] [bval])) (show (k.c01_mul a bval))
     | "vdot" -> fresh (show (c01_vdot k [a] [bval])) (show (k.c01_mul (k.c01_conj a) bval))
     | "vplus" -> let (r, st') = c01_cell_binop k k.c01_add st O m in (obs (show r) (show (cell st' 0)) (show bval), obs (show (k.c01_add a bval)) (show a) (show bval))
     | "vminus" -> let (r, st') = c01_cell_binop k k.c01_sub st O m in (obs (show r) (show (cell st' 0)) (show bval), obs (show (k.c01_sub a bval)) (show a) (show bval))
     | "mneg" | "vneg" -> let (r, st') = c01_cell_neg k st O in (obs (show r) (show (cell st' 0)) (show bval), obs (show (k.c01_opp a)) (show a) (show bval))
     | _ -> failwith "xr/xw op")
  (* the scalar argument is an entry of the receiver (model: read once, the code after fix C01-8) *)
  | "xvelem" | "xdelem" ->
    let _ = take1 () in
    let y = if op = "xvelem" then take r else [] in let x = take r in
    let i0 = nat_of_int p in let k0 = c01_at k x i0 in
    let q = get (c01_vdiv k x k0) in
    let parts = [c01_vec_elem k (fun _ a s -> k.c01_add a s) x i0; c01_vec_elem k (fun _ a s -> k.c01_sub a s) x i0;
                 c01_vec_elem k (fun _ a s -> k.c01_mul a s) x i0; q]
                @ (if op = "xvelem" then [c01_vec_elem k (fun i a s -> k.c01_add a (k.c01_mul s (c01_at k y i))) x i0] else []) in
    let sparts = [List.map (fun a -> k.c01_add a k0) x; List.map (fun a -> k.c01_sub a k0) x; List.map (fun a -> k.c01_mul a k0) x; get (c01s_vdiv k x k0)]
                 @ (if op = "xvelem" then [c01s_vadd k x (c01s_vscale k k0 y)] else []) in
    let j l = String.concat "|" (List.map sv l) in
    let b = if op = "xvelem" then sv y else "-" in
    (obs (j parts) (sv x) b, obs (j sparts) (sv x) b)
  | "xmelem" ->
    let _ = take1 () in let b = takem r c in let a = takem r c in
    let k0 = c01_get k a (nat_of_int (p / c)) (nat_of_int (p mod c)) in
    let j l = String.concat "|" (List.map sm l) in
    (obs (j [c01_mscale k a k0; get (c01_mdiv k a k0); c01_maxpy k a k0 b]) (sm a) (sm b),
     obs (j [List.map (List.map (fun v -> k.c01_mul v k0)) a; get (c01s_mdiv k a k0); c01s_madd k a (c01s_mscale k k0 b)]) (sm a) (sm b))
  | "xkelemN" | "xkelemT" ->
    let _ = take1 () in
    let (st, sa, dense) = read_mat rep r c in
    let nk = (op = "xkelemN") in
    let (xs, ys) = if nk then (c, r) else (r, c) in
    let x = take xs in let y = take ys in
    let al = c01_at k y (nat_of_int p) in
    if nk then (obs (sv (kern st "usmv" al x y)) sa (sv x), obs (sv (spec_kern "usmv" al nc dense x y)) sa (sv x))
    else (obs (sv (kern st "usmtv" al x y) ^ "|" ^ sv (kern st "usmhv" al x y)) sa (sv x),
          obs (sv (spec_kern "usmtv" al nc dense x y) ^ "|" ^ sv (spec_kern "usmhv" al nc dense x y)) sa (sv x))
  | "xmself" ->
    let s = take1 () in
    if rep = "DG" then begin
      let d = take r in
      (obs (sv (c01_vec_inplace_self k k.c01_add d) ^ "|" ^ sv (c01_vec_inplace_self k k.c01_sub d) ^ "|" ^ b01 (c01_veq k d d)) (sv d) "-",
       obs (sv (c01s_vadd k d d) ^ "|" ^ sv (c01s_vsub k d d) ^ "|1") (sv d) "-")
    end else begin
      let a = takem r c in
      (obs (sm (c01_madd k a a) ^ "|" ^ sm (c01_msub k a a) ^ "|" ^ sm (c01_maxpy k a s a) ^ "|" ^ b01 (c01_meq k a a)) (sm a) "-",
       obs (sm (c01s_madd k a a) ^ "|" ^ sm (c01s_msub k a a) ^ "|" ^ sm (c01s_madd k a (c01s_mscale k s a)) ^ "|1") (sm a) "-")
    end
  | "xhist" ->
    let s = take1 () in
    if rep = "DV" then begin
      let x = take r in let y = take r in
      let b = c01_resize (c01_vadd k x y) (nat_of_int (r + 2)) s in
      let a1 = c01_vaxpy k y s x in
      let a2 = c01_resize (c01_resize (c01_resize a1 nr k.c01_O) (nat_of_int 1) k.c01_O) nr s in
      let a3 = c01_vsub k (c01_vsub k a2 x) x in
      let spa = List.mapi (fun i xi -> let v = if i = 0 then k.c01_add (List.nth y 0) (k.c01_mul s xi) else s in k.c01_sub (k.c01_sub v xi) xi) x in
      let spb = c01s_vadd k x y @ [s; s] in
      (obs (sv a3) (sv b) (sv x ^ "|" ^ sv y), obs (sv spa) (sv spb) (sv x ^ "|" ^ sv y))
    end else begin
      let a = takem r c in let x = take c in let y = take r in
      let y1 = c01_umv k a x (c01_umv k a x y) in
      let zeros = c01_mresize nc nr k.c01_O in
      let a2 = c01_set2 (c01_mfill zeros s) O O (List.hd y) in
      let y2 = c01_umv k a2 y x in
      let t = c01_mresize (nat_of_int 1) (nat_of_int 1) s in
      let two v = k.c01_add v v in
      let spy1 = c01s_vadd k y (c01s_vscale k (two k.c01_I) (c01s_mat_vec k a x)) in
      let spa2 = List.init c (fun i -> List.init r (fun j -> if i = 0 && j = 0 then List.hd y else s)) in
      let spy2 = c01s_vadd k x (c01s_mat_vec k spa2 y) in
      let b m = sm zeros ^ "|" ^ sm m ^ "|" ^ sm t in
      (obs (sv y1) (sv y2) (b a2), obs (sv spy1) (sv spy2) (b spa2))
    end
  | "xalloc" ->
    let s = take1 () in let x = take r in
    let a = c01_fill x s in
    let cc = c01_vadd k x a in
    let d = c01_vsub k (c01_vzero k nr) cc in
    let spc = List.map (fun v -> k.c01_add v s) x in
    let spd = List.map (fun v -> k.c01_opp v) spc in
    let tail = "|7,7,9,5,3,0" in
    (obs (sv cc) (sv d) (sv a ^ tail), obs (sv spc) (sv spd) (sv (List.map (fun _ -> s) x) ^ tail))
  | "xselfleft" | "xselfright" ->
    let a = takem r r in
    (* model: the code after fix C01-5 (aliased call goes through a copy of the factor) *)
    let res = if op = "xselfleft" then c01_leftmultiply_self k a else (if rep = "FM" && r = 1 then c01_fm11_rightmultiply k a a else c01_rightmultiply_self k a) in
    let sp = c01s_mat_mul k nr a a in
    (obs (sm res) (sm res) (sm a), obs (sm sp) (sm sp) (sm a))
  | "xresize" ->
    let s = take1 () in let x = take r in
    let rs fillv = List.init c (fun i -> if i < r then List.nth x i else fillv) in
    (obs (sv (c01_resize x nc s)) (sv (c01_resize x nc k.c01_O)) (sv (x @ [s])), obs (sv (rs s)) (sv (rs k.c01_O)) (sv (x @ [s])))
  | "xvself" ->
    let s = take1 () in let x = take r in
    let axpy a b = k.c01_add a (k.c01_mul s b) in
    let b3 m d e q = sv m ^ "|" ^ show d ^ "|" ^ show e ^ "|" ^ b01 q in
    (obs (sv (c01_vec_inplace_self k k.c01_add x)) (sv (c01_vec_inplace_self k k.c01_sub x))
       (b3 (c01_vec_inplace_self k axpy x) (c01_vdotT k x x) (c01_vdot k x x) (c01_veq k x x)),
     obs (sv (c01s_vadd k x x)) (sv (c01s_vsub k x x)) (b3 (c01s_vadd k x (c01s_vscale k s x)) (c01s_dot k x x) (c01s_hdot k x x) true))
  (* ---------------------------------------------------------------- round 6: assignment / conversion INTO AN EXISTING OBJECT.
     t0 = what the target held before (for DynamicMatrix / DynamicVector targets of the shape p = 100*rows + cols, resp. size p).
     model: the assignment path of the C++ overload that is selected; spec: the target holds the source's entries and shape *)
  | "xasgm" ->
    let s = take1 () in
    let dims m = Printf.sprintf "%dx%d" (List.length m) (match m with [] -> 0 | r0 :: _ -> List.length r0) in
    let zf = c01_param_diag_assign_zerofill in
    (match rep with
     | "FM" | "DM" ->
       let (r0, c0) = if rep = "DM" then (p / 100, p mod 100) else (r, c) in
       let t0 = takem r0 c0 in
       let dense src srcspec =
         let m = (match rep, rep2 with
           | "FM", ("FM" | "TF") | "DM", ("DM" | "TD") -> c01_copy_assign t0 src        (* same class: defaulted copy / move assignment *)
           | "FM", "XF" -> c01_fm_assign_rows k t0 src                                   (* FieldMatrix over another field *)
           | "FM", _ -> c01_assign_dense_into k t0 src                                   (* generic DenseMatrixAssigner *)
           | _, _ -> c01_dm_assign_dense k t0 src) in                                    (* DynamicMatrix: resize + zero rows + assigner *)
         (obs (sm m) (sm src) (dims m), obs (sm srcspec) (sm srcspec) (Printf.sprintf "%dx%d" r (if r = 0 then 0 else c))) in
       (match rep2 with
        | "K" -> let m = c01_mfill t0 s and sp = List.map (List.map (fun _ -> s)) t0 in
          (obs (sm m) (show s) (dims m), obs (sm sp) (show s) (Printf.sprintf "%dx%d" r0 (if r0 = 0 then 0 else c0)))
        | "DG" | "XG" -> let d = take r in
          let m = if rep = "DM" then c01_dm_assign_diag k zf t0 d else c01_assign_diag_into k zf t0 d in
          (obs (sm m) (sv d) (dims m), obs (sm (c01s_diag k d)) (sv d) (Printf.sprintf "%dx%d" r r))
        | "TF" | "TD" -> let w = takem c r in dense (c01_tw_asdense k w) (c01s_transpose k nr w)   (* W is c x r; the source is W^T made by asDense() *)
        | _ -> let b = takem r c in dense b b)
     | "DG" ->
       let t0 = take r in
       (match rep2 with
        | "K" -> let m = c01_fill t0 s in (obs (sv m) (show s) (Printf.sprintf "%dx%d" r r), obs (sv (List.map (fun _ -> s) t0)) (show s) (Printf.sprintf "%dx%d" r r))
        | _ -> let d = take r in (obs (sv (c01_copy_assign t0 d)) (sv d) (Printf.sprintf "%dx%d" r r), obs (sv d) (sv d) (Printf.sprintf "%dx%d" r r)))
     | _ ->
       let t = take1 () in
       (match rep2 with
        | "K" -> let st = c01_cell_fill [t] O s in (obs (show (List.nth st 0)) (show s) "1x1", obs (show s) (show s) "1x1")
        | _ -> let v = take1 () in let st = c01_cell_assign k [t; v] O (S O) in
          (obs (show (List.nth st 0)) (show (List.nth st 1)) "1x1", obs (show v) (show v) "1x1")))
  | "xasgv" ->
    let s = take1 () in
    (match rep with
     | "FV" | "DV" ->
       let n0 = if rep = "DV" then p else r in
       let t0 = take n0 in
       (match rep2 with
        | "K" -> let m = c01_fill t0 s in
          (obs (sv m) (show s) (string_of_int (List.length m)), obs (sv (List.map (fun _ -> s) t0)) (show s) (string_of_int n0))
        | _ -> let y = take r in
          let m = (match rep, rep2 with
            | "FV", "FV" | "DV", "DV" -> c01_copy_assign t0 y
            | "FV", _ when r = 1 -> c01_fv1_assign k t0 y
            | _, _ -> c01_vassign k t0 y) in
          (obs (sv m) (sv y) (string_of_int (List.length m)), obs (sv y) (sv y) (string_of_int r)))
     | _ ->
       let t = take1 () in
       (match rep2 with
        | "K" -> let st = c01_cell_fill [t] O s in (obs (show (List.nth st 0)) (show s) "1", obs (show s) (show s) "1")
        | _ -> let v = take1 () in let st = c01_cell_assign k [t; v] O (S O) in
          (obs (show (List.nth st 0)) (show (List.nth st 1)) "1", obs (show v) (show v) "1")))
  | _ -> ("UNKNOWN-OP", "UNKNOWN-OP")

let parse_z s = z_of_int (int_of_string s)
let show_z z = string_of_int (int_of_z z)
let parse_g s = match String.split_on_char ':' s with
  | [a; b] -> (z_of_int (int_of_string a), z_of_int (int_of_string b))
  | [a] -> (z_of_int (int_of_string a), Z0)
  | _ -> failwith "gaussian"
let show_g (a, b) = Printf.sprintf "%d:%d" (int_of_z a) (int_of_z b)

let () =
  let ic = open_in Sys.argv.(1) in
  (try while true do
    let line = input_line ic in
    (match String.split_on_char ' ' (String.trim line) with
     | f :: op :: rep :: rep2 :: r :: c :: p :: toks ->
       let r = int_of_string r and c = int_of_string c and p = int_of_string p in
       let (m, s) =
         (try
           if f = "Z" || f = "D" || f = "L" || f = "S" then run c01_Z_ops parse_z show_z (Some c01_Z_abs) c01_Z_abs c01_Z_abs2 c01_Z_cmp4 op rep rep2 r c p toks
           else if f = "C" then run c01_G_ops parse_g show_g None c01_G_absreal c01_G_abs2 (fun _ _ -> []) op rep rep2 r c p toks
           else if String.length f > 1 && f.[0] = 'F' then
             let pp = int_of_string (String.sub f 1 (String.length f - 1)) in
             let ops = c01_P_ops (z_of_int pp) in
             let parse s = Z.modulo (parse_z s) (z_of_int pp) in
             run ops parse show_z None c01_Z_abs c01_Z_abs2 (fun _ _ -> []) op rep rep2 r c p toks
           else ("UNKNOWN-FIELD", "UNKNOWN-FIELD")
         with Undef -> ("UNDEF", "UNDEF") | Failure msg -> ("MODEL-FAILURE " ^ msg, "-")) in
       print_string m; print_string " | "; print_endline s
     | _ -> print_endline "BAD-CASE | BAD-CASE")
  done with End_of_file -> ())
