(* C01 model driver: reads the case file (argv[1]), prints one line per case:
     <model observation> | <spec observation (oracle)>
   Case line:  F op rep rep2 r c p tok...      (see checks/C01.py for the layout of tok per op)
   Observation: R=<result> A=<first operand after the call> B=<second operand after the call>
   vectors a,b,c   matrices rows joined by ';'   Gaussian integers re:im   *)
open C01_model

let rec pos_of_int i = if i = 1 then XH else if i land 1 = 0 then XO (pos_of_int (i lsr 1)) else XI (pos_of_int (i lsr 1))
let z_of_int i = if i = 0 then Z0 else if i > 0 then Zpos (pos_of_int i) else Zneg (pos_of_int (- i))
let rec int_of_pos = function XH -> 1 | XO p -> 2 * int_of_pos p | XI p -> 2 * int_of_pos p + 1
let int_of_z = function Z0 -> 0 | Zpos p -> int_of_pos p | Zneg p -> - (int_of_pos p)
let rec nat_of_int i = if i = 0 then O else S (nat_of_int (i - 1))

exception Undef
let get = function Some v -> v | None -> raise Undef

let run (type a) (k : a c01_ops) (parse : string -> a) (show : a -> string)
    (op : string) (rep : string) (rep2 : string) (r : int) (c : int) (p : int) (toks : string list) : string * string =
  let rest = ref toks in
  let take1 () = match !rest with t :: tl -> rest := tl; parse t | [] -> failwith "short case" in
  let take n = List.init n (fun _ -> take1 ()) in
  let takem rr cc = List.init rr (fun _ -> take cc) in
  let sv l = String.concat "," (List.map show l) in
  let sm m = String.concat ";" (List.map sv m) in
  let nr = nat_of_int r and nc = nat_of_int c and np = nat_of_int p in
  let obs res a b = Printf.sprintf "R=%s A=%s B=%s" res a b in
  let is_dg s = (s = "DG" || s = "TG") in
  let b01 b = if b then "1" else "0" in
  (* a matrix operand: storage as read (dense rows, or the diagonal), its printed form, its dense meaning *)
  let read_mat rp rr cc =
    if is_dg rp then let d = take rr in (`Diag d, sv d, c01s_diag k d)
    else let m = takem rr cc in (`Dense m, sm m, m) in
  (* kernels of a representation as closures *)
  let kern (st : [ `Diag of a list | `Dense of a list list ]) (o : string) (alpha : a) (x : a list) (y : a list) : a list =
    match st with
    | `Diag d when List.length d >= 2 ->
      (match o with
       | "mv" -> c01_dg_mv k d x y | "mtv" -> c01_dg_mtv k d x y | "umv" -> c01_dg_umv k d x y | "umtv" -> c01_dg_umtv k d x y
       | "umhv" -> c01_dg_umhv k d x y | "mmv" -> c01_dg_mmv k d x y | "mmtv" -> c01_dg_mmtv k d x y | "mmhv" -> c01_dg_mmhv k d x y
       | "usmv" -> c01_dg_usmv k alpha d x y | "usmtv" -> c01_dg_usmtv k alpha d x y | "usmhv" -> c01_dg_usmhv k alpha d x y
       | _ -> failwith "kernel")
    | _ ->
      let m = (match st with `Diag d -> [d] | `Dense m -> m) in      (* DiagonalMatrix<K,1> is a FieldMatrix<K,1,1> *)
      (match o with
       | "mv" -> c01_mv k m x y | "mtv" -> c01_mtv k m x y | "umv" -> c01_umv k m x y | "umtv" -> c01_umtv k m x y
       | "umhv" -> c01_umhv k m x y | "mmv" -> c01_mmv k m x y | "mmtv" -> c01_mmtv k m x y | "mmhv" -> c01_mmhv k m x y
       | "usmv" -> c01_usmv k alpha m x y | "usmtv" -> c01_usmtv k alpha m x y | "usmhv" -> c01_usmhv k alpha m x y
       | _ -> failwith "kernel") in
  let spec_kern (o : string) (alpha : a) (cc : nat) (m : a list list) (x : a list) (y : a list) : a list =
    match o with
    | "mv" -> c01s_assign k C01_N cc m x | "mtv" -> c01s_assign k C01_T cc m x
    | "umv" -> c01s_plus k C01_N cc m x y | "umtv" -> c01s_plus k C01_T cc m x y | "umhv" -> c01s_plus k C01_H cc m x y
    | "mmv" -> c01s_minus k C01_N cc m x y | "mmtv" -> c01s_minus k C01_T cc m x y | "mmhv" -> c01s_minus k C01_H cc m x y
    | "usmv" -> c01s_plus_scaled k alpha C01_N cc m x y | "usmtv" -> c01s_plus_scaled k alpha C01_T cc m x y
    | "usmhv" -> c01s_plus_scaled k alpha C01_H cc m x y
    | _ -> failwith "kernel" in
  let wrapped s = (s = "TF" || s = "TD" || s = "TG") in
  let nkind o = (o = "mv" || o = "umv" || o = "mmv" || o = "usmv") in
  match op with
  (* ---------------------------------------------------------------- matrix-vector kernels *)
  | "mv" | "mtv" | "umv" | "umtv" | "umhv" | "mmv" | "mmtv" | "mmhv" | "usmv" | "usmtv" | "usmhv" ->
    let alpha = take1 () in
    let (st, sa, dense) = read_mat rep r c in
    if wrapped rep then begin
      (* transposedView(W): mv = W.mtv, mtv = W.mv; W is r x c *)
      let (xs, ys) = if op = "mv" then (r, c) else (c, r) in
      let x = take xs in let y = take ys in
      let y' = (if op = "mv" then c01_tw_mv (kern st "mtv" alpha) x y else c01_tw_mtv (kern st "mv" alpha) x y) in
      let wt = c01s_transpose k nc dense in      (* the matrix the wrapper stands for: c x r *)
      let ysp = spec_kern op alpha nr wt x y in
      (obs (sv y') sa (sv x), obs (sv ysp) sa (sv x))
    end else begin
      let (xs, ys) = if nkind op then (c, r) else (r, c) in
      let x = take xs in let y = take ys in
      let y' = kern st op alpha x y in
      let ysp = spec_kern op alpha nc dense x y in
      (obs (sv y') sa (sv x), obs (sv ysp) sa (sv x))
    end
  (* ---------------------------------------------------------------- vector space operations on vectors *)
  | "vadd" | "vsub" | "vplus" | "vminus" | "vneg" | "vadds" | "vsubs" | "vscale" | "vdiv" | "veq" | "vaxpy"
  | "vdotT" | "vdot" | "fvmuls" | "fvsmul" | "fvdivs" ->
    let s = take1 () in let x = take r in let y = take r in
    let inplace res sp = (obs (sv res) (sv res) (sv y), obs (sv sp) (sv sp) (sv y)) in
    let fresh res sp = (obs res (sv x) (sv y), obs sp (sv x) (sv y)) in
    (match op with
     | "vadd" -> inplace (c01_vadd k x y) (c01s_vadd k x y)
     | "vsub" -> inplace (c01_vsub k x y) (c01s_vsub k x y)
     | "vplus" -> fresh (sv (c01_vplus k x y)) (sv (c01s_vadd k x y))
     | "vminus" -> fresh (sv (c01_vminus k x y)) (sv (c01s_vsub k x y))
     | "vneg" ->
       (* `V result;` : n zeros for FieldVector; for DynamicVector the model is the code after fix C01-1 (copy of x) *)
       let res0 = if rep = "DV" then x else c01_vzero k nr in
       fresh (sv (get (c01_vneg_from k res0 x))) (sv (c01s_vopp k x))
     | "vadds" -> inplace (c01_vadds k x s) (List.map (fun a -> k.c01_add a s) x)
     | "vsubs" -> inplace (c01_vsubs k x s) (List.map (fun a -> k.c01_sub a s) x)
     | "vscale" -> inplace (c01_vscale k x s) (List.map (fun a -> k.c01_mul a s) x)
     | "vdiv" -> inplace (get (c01_vdiv k x s)) (get (c01s_vdiv k x s))
     | "veq" -> fresh (b01 (c01_veq k x y)) (b01 (c01s_veqb k x y))
     | "vaxpy" -> inplace (c01_vaxpy k x s y) (c01s_vadd k x (c01s_vscale k s y))
     | "vdotT" -> fresh (show (c01_vdotT k x y)) (show (c01s_dot k x y))
     | "vdot" -> fresh (show (c01_vdot k x y)) (show (c01s_hdot k x y))
     | "fvmuls" -> fresh (sv (c01_fv_muls k x s)) (sv (List.map (fun a -> k.c01_mul a s) x))
     | "fvsmul" -> fresh (sv (c01_fv_smul k s x)) (sv (c01s_vscale k s x))
     | "fvdivs" -> fresh (sv (get (c01_fv_divs k x s))) (sv (get (c01s_vdiv k x s)))
     | _ -> failwith "vec op")
  (* ---------------------------------------------------------------- vector space operations on matrices, transposition, conversion *)
  | "madd" | "msub" | "mscale" | "mdiv" | "maxpy" | "meq" | "mneg" | "fmplus" | "fmminus" | "fmmuls" | "fmsmul" | "fmdivs"
  | "transposed" | "asdense" | "assign" | "dgadd" | "dgsub" | "dgscale" | "dgdiv" | "dgeq" ->
    let s = take1 () in
    if is_dg rep && op <> "assign" && op <> "asdense" then begin
      let a = take r in let b = take r in
      let inplace res sp = (obs (sv res) (sv res) (sv b), obs (sv sp) (sv sp) (sv b)) in
      let fresh res sp = (obs res (sv a) (sv b), obs sp (sv a) (sv b)) in
      let diag_of m = List.mapi (fun i row -> List.nth row i) m in
      (match op with
       | "dgadd" -> inplace (c01_vadd k a b) (diag_of (c01s_madd k (c01s_diag k a) (c01s_diag k b)))
       | "dgsub" -> inplace (c01_vsub k a b) (diag_of (c01s_msub k (c01s_diag k a) (c01s_diag k b)))
       | "dgscale" -> inplace (c01_vscale k a s) (List.map (fun v -> k.c01_mul v s) a)
       | "dgdiv" -> inplace (get (c01_vdiv k a s)) (get (c01s_vdiv k a s))
       | "dgeq" -> fresh (b01 (c01_veq k a b)) (b01 (c01s_meqb k (c01s_diag k a) (c01s_diag k b)))
       | "transposed" -> fresh (sv (c01_dg_transposed a)) (sv (diag_of (c01s_transpose k nr (c01s_diag k a))))
       | _ -> failwith "diag op")
    end else begin
      let (sta, sa, a) = read_mat (if op = "assign" then rep2 else rep) r c in
      let (_, sb, b) = read_mat (if op = "assign" then rep2 else if op = "asdense" then rep else rep2) r c in
      let one = (rep = "FM" && r = 1 && c = 1) in
      let inplace res sp = (obs (sm res) (sm res) sb, obs (sm sp) (sm sp) sb) in
      let fresh res sp = (obs res sa sb, obs sp sa sb) in
      (match op with
       | "madd" -> inplace (c01_madd k a b) (c01s_madd k a b)
       | "msub" -> inplace (c01_msub k a b) (c01s_msub k a b)
       | "mscale" -> inplace (c01_mscale k a s) (List.map (List.map (fun v -> k.c01_mul v s)) a)
       | "mdiv" -> inplace (get (c01_mdiv k a s)) (get (c01s_mdiv k a s))
       | "maxpy" -> inplace (c01_maxpy k a s b) (c01s_madd k a (c01s_mscale k s b))
       | "meq" -> fresh (b01 (c01_meq k a b)) (b01 (c01s_meqb k a b))
       | "mneg" ->
         let res0 = if rep = "DM" then a else c01_mzero k nr nc in       (* DM: the code after fix C01-1 *)
         fresh (sm (get (c01_mneg_from k res0 a))) (sm (c01s_mopp k a))
       | "fmplus" -> fresh (sm (if one then c01_fm11_binop k k.c01_add a b else c01_fm_plus k nr nc a b)) (sm (c01s_madd k a b))
       | "fmminus" -> fresh (sm (if one then c01_fm11_binop k k.c01_sub a b else c01_fm_minus k nr nc a b)) (sm (c01s_msub k a b))
       | "fmmuls" -> fresh (sm (if one then c01_fm11_scalar_r k k.c01_mul a s else c01_fm_muls k nr nc a s))
                       (sm (List.map (List.map (fun v -> k.c01_mul v s)) a))
       | "fmsmul" -> fresh (sm (if one then c01_fm11_scalar_l k k.c01_mul s a else c01_fm_smul k nr nc s a)) (sm (c01s_mscale k s a))
       | "fmdivs" ->
         let m = if one then [[get (k.c01_div (c01_get k a O O) s)]] else get (c01_fm_divs k nr nc a s) in
         fresh (sm m) (sm (get (c01s_mdiv k a s)))
       | "transposed" -> fresh (sm (if one then c01_fm11_transposed a else c01_transposed k a)) (sm (c01s_transpose k nc a))
       | "asdense" ->
         (* transposedView(W).asDense(): entries visited through sparseRange; diagonal matrices expose their diagonal only *)
         let m = (match sta with `Diag d when List.length d >= 2 -> c01_tw_asdense k (c01_dg_to_dense k d) | _ -> c01_tw_asdense k a) in
         fresh (sm m) (sm (c01s_transpose k nc a))
       | "assign" ->
         let m = (match sta with `Diag d when List.length d >= 2 -> c01_dg_to_dense k d | _ -> c01_assign_dense k a) in
         fresh (sm m) (sm a)
       | _ -> failwith "mat op")
    end
  (* ---------------------------------------------------------------- products *)
  | "mul" ->
    (match rep, rep2 with
     | "DG", "DG" ->
       let a = take r in let b = take r in
       let diag_of m = List.mapi (fun i row -> List.nth row i) m in
       let sp = c01s_mat_mul k nr (c01s_diag k a) (c01s_diag k b) in
       let offdiag_zero = List.for_all (fun x -> x) (List.concat (List.mapi (fun i row -> List.mapi (fun j v -> i = j || k.c01_eqb v k.c01_O) row) sp)) in
       (obs (sv (c01_dg_mul k a b)) (sv a) (sv b), obs (if offdiag_zero then sv (diag_of sp) else "NOT-DIAGONAL") (sv a) (sv b))
     | "DG", _ ->
       (* Diagonal(r) * FieldMatrix(r x p): for each column j  A.mv(B_j, result_j) *)
       let (sta, sa, a) = read_mat "DG" r r in let b = takem r p in
       let mvA = kern sta "mv" k.c01_O in
       (obs (sm (c01_mul_via_mv k mvA nr nr np b)) sa (sm b), obs (sm (c01s_mat_mul k np a b)) sa (sm b))
     | _, _ when wrapped rep2 ->
       (* A (r x c) * transposedView(W), W is p x c *)
       let a = takem r c in
       let (stw, sw, w) = read_mat rep2 p c in
       let mvW = kern stw "mv" k.c01_O in
       let res = if rep = "FM" && rep2 <> "TD"
         then c01_mul_via_mtv k (c01_tw_mtv mvW) nr np a          (* FieldMatrix * static wrapper: wrapper.mtv per row *)
         else c01_mul_by_transposed k mvW nr np a in                (* wrapper's own operator*: W.mv per row *)
       (obs (sm res) (sm a) sw, obs (sm (c01s_mat_mul k np a (c01s_transpose k nc w))) (sm a) sw)
     | "FM", "DG" ->
       let a = takem r c in let (stb, sb, b) = read_mat "DG" c c in
       let mtvB = kern stb "mtv" k.c01_O in
       (obs (sm (c01_mul_via_mtv k mtvB nr nc a)) (sm a) sb, obs (sm (c01s_mat_mul k nc a b)) (sm a) sb)
     | _, _ ->
       let a = takem r c in let b = takem c p in
       let res = if r = 1 && c = 1 then c01_fm11_mul_row k np a b else c01_fm_mul k nr nc np a b in
       (obs (sm res) (sm a) (sm b), obs (sm (c01s_mat_mul k np a b)) (sm a) (sm b)))
  | "leftmultiply" ->
    let a = takem r c in let m = takem r r in
    let res = c01_leftmultiply k a m and sp = c01s_mat_mul k nc m a in
    (obs (sm res) (sm res) (sm m), obs (sm sp) (sm sp) (sm m))
  | "rightmultiply" ->
    let a = takem r c in let m = takem c c in
    let res = if rep = "FM" && r = 1 && c = 1 then c01_fm11_rightmultiply k a m else c01_rightmultiply k a m in
    let sp = c01s_mat_mul k nc a m in
    (obs (sm res) (sm res) (sm m), obs (sm sp) (sm sp) (sm m))
  | "leftmultiplyany" ->
    let a = takem r c in let m = takem p r in
    let res = if r = 1 && c = 1 then c01_fm11_leftmultiplyany k np a m else c01_leftmultiplyany k np a m in
    (obs (sm res) (sm a) (sm m), obs (sm (c01s_mat_mul k nc m a)) (sm a) (sm m))
  | "rightmultiplyany" ->
    let a = takem r c in let m = takem c p in
    let res = if r = 1 && c = 1 then c01_fm11_rightmultiplyany k np a m else c01_rightmultiplyany k np a m in
    (obs (sm res) (sm a) (sm m), obs (sm (c01s_mat_mul k np a m)) (sm a) (sm m))
  | _ -> ("UNKNOWN-OP", "UNKNOWN-OP")

let parse_z s = z_of_int (int_of_string s)
let show_z z = string_of_int (int_of_z z)
let parse_g s = match String.split_on_char ':' s with
  | [a; b] -> (z_of_int (int_of_string a), z_of_int (int_of_string b))
  | [a] -> (z_of_int (int_of_string a), Z0)
  | _ -> failwith "gaussian"
let show_g (a, b) = Printf.sprintf "%d:%d" (int_of_z a) (int_of_z b)

let () =
  let ic = open_in Sys.argv.(1) in
  (try while true do
    let line = input_line ic in
    (match String.split_on_char ' ' (String.trim line) with
     | f :: op :: rep :: rep2 :: r :: c :: p :: toks ->
       let r = int_of_string r and c = int_of_string c and p = int_of_string p in
       let (m, s) =
         (try
           if f = "Z" || f = "D" then run c01_Z_ops parse_z show_z op rep rep2 r c p toks
           else if f = "C" then run c01_G_ops parse_g show_g op rep rep2 r c p toks
           else if String.length f > 1 && f.[0] = 'F' then
             let pp = int_of_string (String.sub f 1 (String.length f - 1)) in
             let ops = c01_P_ops (z_of_int pp) in
             let parse s = Z.modulo (parse_z s) (z_of_int pp) in
             run ops parse show_z op rep rep2 r c p toks
           else ("UNKNOWN-FIELD", "UNKNOWN-FIELD")
         with Undef -> ("UNDEF", "UNDEF")) in
       print_string m; print_string " | "; print_endline s
     | _ -> print_endline "BAD-CASE | BAD-CASE")
  done with End_of_file -> ())
