(* C02 model driver: reads the case file (same format as harness/C02/impl.cc), prints one line per case:
     <model observation> | <U>            (the functional model cannot modify its inputs: always U)
   and, after " # ", the value of the executable Coq spec where one exists (cofactor determinant of A),
   which the check compares with its own independent Python oracle.
   op lu (deep stream): prints the pivot vector and the packed LU of luDecomposition with ElimPivot. *)
open C02_model

let rec pos_of_int i = if i = 1 then XH else if i land 1 = 0 then XO (pos_of_int (i lsr 1)) else XI (pos_of_int (i lsr 1))
let z_of_int i = if i = 0 then Z0 else if i > 0 then Zpos (pos_of_int i) else Zneg (pos_of_int (-i))
let rec int_of_pos = function XH -> 1 | XO p -> 2 * int_of_pos p | XI p -> 2 * int_of_pos p + 1
let int_of_z = function Z0 -> 0 | Zpos p -> int_of_pos p | Zneg p -> - (int_of_pos p)
let rec nat_of_int i = if i = 0 then O else S (nat_of_int (i - 1))
let rec int_of_nat = function O -> 0 | S n -> 1 + int_of_nat n

let strs l = String.concat " " (List.map (fun z -> string_of_int (int_of_z z)) l)
let res_str f = function C02_Ok v -> "OK " ^ f v | C02_FMatrixError -> "EXC FMatrixError" | C02_DivByZero -> "EXC DivByZero"

(* an argument "chk" before the case file: the model of the build with DUNE_FMatrix_WITH_CHECKING *)
let chk = Array.exists (fun a -> a = "chk") Sys.argv
let m_solve ops a b piv = if chk then c02_solve_chk ops a b piv else c02_solve ops a b piv
let m_invert ops a piv = if chk then c02_invert_chk ops a piv else c02_invert ops a piv
(* the matrix object after invert(): the inverse, or (after an exception) the unchanged matrix — c02_call_invert *)
let invert_obs ops a piv dflt flat =
  if chk then (match c02_invert_chk ops a piv with C02_Ok b -> "OK " ^ flat b | C02_FMatrixError -> "EXC FMatrixError | U" | C02_DivByZero -> "EXC DivByZero | U")
  else
    let o = { ob_A = a; ob_b = [] } in
    let r = if dflt then (match c02_invert_dflt ops a with C02_Ok b -> (C02_Ok (), { ob_A = b; ob_b = [] }) | C02_FMatrixError -> (C02_FMatrixError, o) | C02_DivByZero -> (C02_DivByZero, o))
            else c02_call_invert ops o piv in
    (match r with
     | (C02_Ok (), o') -> "OK " ^ flat o'.ob_A
     | (C02_FMatrixError, o') -> "EXC FMatrixError | " ^ (if o'.ob_A = a then "U" else "MOD")
     | (C02_DivByZero, o') -> "EXC DivByZero | " ^ (if o'.ob_A = a then "U" else "MOD"))

let () =
  let ic = open_in Sys.argv.(Array.length Sys.argv - 1) in
  (try while true do
    let line = input_line ic in
    let t = Array.of_list (List.filter (fun s -> s <> "") (String.split_on_char ' ' (String.trim line))) in
    let p = int_of_string t.(0) and kind = t.(1) and op = t.(2) and n = int_of_string t.(3) and piv = t.(4) <> "0" and dflt = t.(4) = "2" (* 2: the call uses the default argument: c02_*_dflt *) in
    let ops = c02_zp (z_of_int p) in
    let v = Array.map (fun s -> z_of_int (((int_of_string s) mod p + p) mod p)) (Array.sub t 5 (Array.length t - 5)) in
    let mat off = List.init n (fun i -> List.init n (fun j -> v.(off + i * n + j))) in
    let vec off = List.init n (fun i -> v.(off + i)) in
    let flat m = strs (List.concat m) in
    let specdet a = if n > 6 then " # -" else " # " ^ string_of_int (int_of_z (c02_spec_det ops (nat_of_int n) a)) in
    let out =
      match kind, op with
      | ("D" | "F"), "nsq" ->
          let a = List.init n (fun _ -> List.init (int_of_string t.(4)) (fun _ -> z_of_int 1)) in
          let b = List.init n (fun _ -> Z0) in
          String.concat " " [ (match m_solve ops a b true with C02_Ok _ -> "OK" | C02_FMatrixError -> "EXC FMatrixError" | C02_DivByZero -> "EXC DivByZero");
                              (match c02_determinant ops a true with C02_Ok _ -> "OK" | C02_FMatrixError -> "EXC FMatrixError" | C02_DivByZero -> "EXC DivByZero");
                              (match m_invert ops a true with C02_Ok _ -> "OK" | C02_FMatrixError -> "EXC FMatrixError" | C02_DivByZero -> "EXC DivByZero") ]
      | ("F" | "D" | "X" | "Y" | "Z" | "W" | "R" | "V"), "solvealias" ->
          (* model of the patched code (= c02_solve: b is read before x is written); third field: the code as it is *)
          let a = mat 0 in res_str strs (m_solve ops a (vec (n * n)) piv) ^ " | U" ^ specdet a ^ " # asis " ^ res_str strs (c02_solve_aliased ops a (vec (n * n)) piv)
      | ("F" | "D" | "X" | "Y" | "Z" | "W" | "R" | "V"), "solverow" ->
          let a = mat 0 in res_str strs (m_solve ops a (List.hd a) piv) ^ " | U" ^ specdet a
      | ("F" | "D" | "X" | "Y" | "Z" | "W" | "R" | "V"), "seqthrow" ->
          let a = mat 0 and b = vec (n * n) in
          let (s1, a') = (match m_invert ops a piv with
                          | C02_Ok bi -> ("OK " ^ flat bi, bi)
                          | C02_FMatrixError -> ("EXC FMatrixError U", a)
                          | C02_DivByZero -> ("EXC DivByZero U", a)) in
          let plain f = function C02_Ok v -> "OK " ^ f v | C02_FMatrixError -> "EXC FMatrixError" | C02_DivByZero -> "EXC DivByZero" in
          s1 ^ " ; " ^ plain (fun d -> strs [d]) (c02_determinant ops a' piv) ^ " ; " ^ plain strs (m_solve ops a' b piv) ^ specdet a
      | ("F" | "D" | "X" | "Y" | "Z" | "W" | "R" | "V"), "solve" -> let a = mat 0 in res_str strs (if dflt && not chk then c02_solve_dflt ops a (vec (n * n)) else m_solve ops a (vec (n * n)) piv) ^ " | U" ^ specdet a
      | ("F" | "D" | "X" | "Y" | "Z" | "W" | "R" | "V"), "det" -> let a = mat 0 in res_str (fun d -> strs [d]) (if dflt then c02_determinant_dflt ops a else c02_determinant ops a piv) ^ " | U" ^ specdet a
      | ("F" | "D" | "X" | "Y" | "Z" | "W" | "R" | "V"), "invert" -> let a = mat 0 in invert_obs ops a piv dflt flat ^ specdet a
      | ("F" | "D" | "X" | "Y" | "Z" | "W" | "R" | "V"), "seq" ->
          (* det, solve, invert, det of the inverse, invert back, solve again — composed from the model functions *)
          let a = mat 0 and b = vec (n * n) in
          let exc st = function C02_FMatrixError -> "EXC FMatrixError @" ^ st | C02_DivByZero -> "EXC DivByZero @" ^ st | C02_Ok _ -> "?" in
          (match c02_determinant ops a piv with
           | C02_Ok d ->
             (match m_solve ops a b piv with
              | C02_Ok x ->
                (match m_invert ops a piv with
                 | C02_Ok bi ->
                   (match c02_determinant ops bi piv with
                    | C02_Ok d2 ->
                      (match m_invert ops bi piv with
                       | C02_Ok a2 ->
                         (match m_solve ops a2 b piv with
                          | C02_Ok x2 -> "OK " ^ strs [d] ^ " ; " ^ strs x ^ " ; " ^ flat bi ^ " ; " ^ strs [d2] ^ " ; " ^ strs x2
                                         ^ " | " ^ (if a2 = a then "U" else "MOD")
                          | r -> exc "solve2" r)
                       | r -> exc "invert2" r)
                    | r -> exc "det2" r)
                 | r -> exc "invert" r)
              | r -> exc "solve" r)
           | r -> exc "det" r) ^ specdet a
      | ("F" | "D"), "lu" ->
          (match c02_lu ops c02_ElimPivot (nat_of_int n) piv (mat 0) (List.init n nat_of_int) with
           | C02_LU_Ok (lu, pv) -> "OK " ^ String.concat " " (List.map (fun k -> string_of_int (int_of_nat k)) pv) ^ " ; " ^ flat lu
           | C02_LU_Singular _ -> "EXC FMatrixError"
           | C02_LU_DivByZero -> "EXC DivByZero")
      | "H", ("hinv" | "hinvT") ->
          let a = mat 0 in
          res_str (fun (d, b) -> strs [d] ^ " ; " ^ flat b) (c02_help_invert ops a (op = "hinvT")) ^ " | U" ^ specdet a
      | "H", "hinvalias" -> "-"
      | "G", ("solvedyn" | "solvealias") -> (match c02_diag_solve ops (vec 0) (vec n) with Some x -> "OK " ^ strs x | None -> "EXC DivByZero") ^ " | U"
      | "G", "solve" -> (match c02_diag_solve ops (vec 0) (vec n) with Some x -> "OK " ^ strs x | None -> "EXC DivByZero") ^ " | U"
      | "G", "invert" -> (match c02_diag_invert ops (vec 0) with Some x -> "OK " ^ strs x | None -> "EXC DivByZero")
      | "G", "det" -> "OK " ^ strs [c02_diag_det ops (vec 0)] ^ " | U" ^ " # " ^ string_of_int (int_of_z (c02_spec_det ops (nat_of_int n) (c02_diag_dense ops (vec 0))))
      | _ -> "UNKNOWN-OP" in
    print_endline out
  done with End_of_file -> ())
